(** Proofs about Model/History.v (C18, code as repaired by b952f8c). *)
From Coq Require Import ZArith Lia.
From Cicada Require Import Base.Chars Model.History.
Local Open Scope N_scope.

(* ------------------------------------------------------------------ the INSERT: template + bound parameters *)
Lemma strip_prefix_app : forall p r, strip_prefix p (p ++ r) = Some r.
Proof. induction p as [|a p IH]; intro r; cbn; [reflexivity|]. rewrite N.eqb_refl. apply IH. Qed.

(** The statement text is a function of the table name alone. *)
Lemma insert_text_const : forall table line status tsb tse session dir,
  fst (insert_stmt table line status tsb tse session dir) = insert_template table.
Proof. reflexivity. Qed.

(** The rows stored are exactly the one intended row: for EVERY line, session id and directory name. *)
Theorem insert_exact : forall table line status tsb tse session dir,
  insert_rows table (insert_stmt table line status tsb tse session dir) =
  Some [intended_row line status tsb tse session dir].
Proof.
  intros. unfold insert_rows, insert_stmt, insert_template.
  rewrite strip_prefix_app. cbn [bind]. rewrite strip_prefix_app. cbn [bind].
  rewrite strip_prefix_app. cbn [bind]. reflexivity.
Qed.

(* ------------------------------------------------------------------ the SELECT: template + bound parameters *)
Lemma count_char_app : forall k a b, count_char k (a ++ b) = (count_char k a + count_char k b)%nat.
Proof. induction a as [|c a IH]; intro b; cbn; [reflexivity|]. destruct (c =? k); rewrite IH; reflexivity. Qed.

Lemma select_text_indep : forall table p1 s1 d1 p2 s2 d2 o lim,
  is_empty p1 = is_empty p2 ->
  fst (select_stmt table p1 s1 d1 o lim) = fst (select_stmt table p2 s2 d2 o lim).
Proof.
  intros table p1 s1 d1 p2 s2 d2 o lim E. unfold select_stmt, select_clauses. cbn [fst]. rewrite E.
  destruct (is_empty p2), (o_session o), (o_pwd o); reflexivity.
Qed.

Lemma select_params_spec : forall table p s d o lim,
  snd (select_stmt table p s d o lim) =
  (if is_empty p then [] else [wrap_pct p]) ++ (if o_session o then [s] else []) ++
  (if o_pwd o then [wrap_pct (pwd_inner d)] else []).
Proof.
  intros. unfold select_stmt, select_clauses. cbn [snd].
  destruct (is_empty p), (o_session o), (o_pwd o); reflexivity.
Qed.

(** as many placeholders as bound values, in the order of the clauses *)
Lemma select_arity : forall table p s d o lim,
  count_char c_qm table = O -> count_char c_qm lim = O ->
  count_char c_qm (fst (select_stmt table p s d o lim)) = length (snd (select_stmt table p s d o lim)).
Proof.
  intros table p s d o lim Ht Hl. unfold select_stmt, select_clauses. cbn [fst snd].
  rewrite !count_char_app, Ht, Hl.
  destruct (is_empty p), (o_session o), (o_pwd o), (o_asc o); reflexivity.
Qed.

Lemma row_matches_spec : forall p s d o r,
  row_matches p s d o r =
  (is_empty p || like (wrap_pct p) (r_inp r)) &&
  (negb (o_session o) || str_eqb (r_session r) s) &&
  (negb (o_pwd o) || like (wrap_pct (pwd_inner d)) (r_info r)).
Proof.
  intros. unfold row_matches, select_clauses.
  destruct (is_empty p), (o_session o), (o_pwd o); cbn [app forallb clause_holds negb orb andb];
    rewrite ?andb_true_r, ?andb_assoc; reflexivity.
Qed.

(* ------------------------------------------------------------------ the DELETE: a number is the only pasted value *)
Lemma has_char_app k a b : has_char k (a ++ b) = has_char k a || has_char k b.
Proof. unfold has_char. apply existsb_app. Qed.

Lemma digits_no_char : forall k n, is_digit k = false -> forallb is_digit n = true -> has_char k n = false.
Proof.
  induction n as [|c n IH]; intros Hk Hn; [reflexivity|]. cbn in Hn. apply andb_true_iff in Hn as [Hc Hn].
  unfold has_char. cbn [existsb]. fold (has_char k n). rewrite (IH Hk Hn), orb_false_r.
  destruct (c =? k) eqn:E; [|reflexivity]. apply N.eqb_eq in E. subst c. congruence.
Qed.

Lemma delete_sql_plain : forall table n k, is_digit k = false -> has_char k table = false ->
  has_char k (s_delete ++ s_where_rowid) = false -> forallb is_digit n = true ->
  has_char k (delete_sql table n) = false.
Proof.
  intros table n k Hk Ht Hf Hn. unfold delete_sql. rewrite !has_char_app in *.
  rewrite Ht, (digits_no_char k n Hk Hn). apply orb_false_iff in Hf as [-> ->]. reflexivity.
Qed.

(* ------------------------------------------------------------------ table *)
Lemma db_delete_exact : forall rows n r, In r (db_delete rows n) <-> In r rows /\ r_id r <> n.
Proof.
  intros rows n r. unfold db_delete. rewrite filter_In. split; intros [H1 H2]; split; auto.
  - apply negb_true_iff, N.eqb_neq in H2. exact H2.
  - apply negb_true_iff, N.eqb_neq. exact H2.
Qed.

Lemma next_id_fresh : forall rows r, In r rows -> r_id r < next_id rows.
Proof.
  unfold next_id. induction rows as [|x rows IH]; intros r H; [contradiction|].
  cbn [fold_right]. destruct H as [->|H]; [lia|]. specialize (IH r H). lia.
Qed.

Lemma db_insert_spec : forall rows inp tsb s i,
  db_insert rows inp tsb s i = rows ++ [mkrow (next_id rows) inp tsb s i] /\
  (forall r, In r rows -> r_id r <> next_id rows).
Proof. intros. split; [reflexivity|]. intros r H. apply next_id_fresh in H. lia. Qed.

Lemma ins_asc_In : forall x l r, In r (ins_asc x l) <-> r = x \/ In r l.
Proof.
  induction l as [|y l IH]; intro r; cbn.
  - intuition.
  - destruct (lt_key x y); cbn; [intuition|]. rewrite IH. intuition.
Qed.

Lemma sort_asc_In : forall l r, In r (sort_asc l) <-> In r l.
Proof.
  intros l r. unfold sort_asc. rewrite (in_rev l r). generalize (rev l) as m.
  induction m as [|y m IH]; cbn; [tauto|]. rewrite ins_asc_In, IH. intuition.
Qed.

Lemma take_limit_In : forall lim l r, In r (take_limit lim l) -> In r l.
Proof.
  intros lim l r. unfold take_limit. destruct (lim <? 0)%Z; [auto|].
  revert l. induction (Z.to_nat lim) as [|k IH]; intros l H; [contradiction|].
  destruct l as [|y l]; [contradiction|]. cbn in H. destruct H as [->|H]; [now left|right; now apply IH].
Qed.

Lemma ins_desc_In : forall x l r, In r (ins_desc x l) <-> r = x \/ In r l.
Proof.
  induction l as [|y l IH]; intro r; cbn.
  - intuition.
  - destruct (lt_key y x); cbn; [intuition|]. rewrite IH. intuition.
Qed.

Lemma sort_desc_In : forall l r, In r (sort_desc l) <-> In r l.
Proof.
  intros l r. unfold sort_desc. rewrite (in_rev l r). generalize (rev l) as m.
  induction m as [|y m IH]; cbn; [tauto|]. rewrite ins_desc_In, IH. intuition.
Qed.

Lemma db_list_sound : forall rows p s d o r,
  In r (db_list rows p s d o) -> In r rows /\ row_matches p s d o r = true.
Proof.
  intros rows p s d o r H. unfold db_list in H.
  assert (In r (filter (row_matches p s d o) rows)) as H'.
  { destruct (o_asc o).
    - apply take_limit_In in H. now apply (proj1 (sort_asc_In _ _)) in H.
    - apply in_rev in H. apply take_limit_In in H. now apply (proj1 (sort_desc_In _ _)) in H. }
  now apply (proj1 (filter_In _ _ _)) in H'.
Qed.

Lemma db_list_complete : forall rows p s d o r, (o_limit o < 0)%Z ->
  In r rows -> row_matches p s d o r = true -> In r (db_list rows p s d o).
Proof.
  intros rows p s d o r Hl Hin Hm. unfold db_list, take_limit.
  apply Z.ltb_lt in Hl. rewrite Hl.
  assert (In r (filter (row_matches p s d o) rows)) by (apply (proj2 (filter_In _ _ _)); auto).
  destruct (o_asc o).
  - now apply (proj2 (sort_asc_In _ _)).
  - apply in_rev. rewrite rev_involutive. now apply (proj2 (sort_desc_In _ _)).
Qed.

(* ------------------------------------------------------------------ listing order = submission order *)
Lemma lt_key_asym : forall x y, lt_key x y = true -> lt_key y x = false.
Proof.
  intros x y H. unfold lt_key in *. apply orb_true_iff in H. apply orb_false_iff. destruct H as [H|H].
  - apply Z.ltb_lt in H. split; [apply Z.ltb_ge; lia|]. apply andb_false_iff. left. apply Z.eqb_neq. lia.
  - apply andb_true_iff in H as [H1 H2]. apply Z.eqb_eq in H1. apply N.ltb_lt in H2.
    split; [apply Z.ltb_ge; lia|]. apply andb_false_iff. right. apply N.ltb_ge. lia.
Qed.

Lemma incrb_app_lt : forall a x l, incrb (a ++ x :: l) = true -> Forall (fun y => lt_key y x = true) a.
Proof.
  induction a as [|y a IH]; intros x l H; [constructor|].
  cbn [app incrb] in H. apply andb_true_iff in H as [H1 H2]. constructor.
  - rewrite forallb_app in H1. apply andb_true_iff in H1 as [_ H1]. cbn in H1.
    now apply andb_true_iff in H1 as [H1 _].
  - exact (IH x l H2).
Qed.

Lemma ins_asc_last : forall x acc, Forall (fun y => lt_key y x = true) acc -> ins_asc x acc = acc ++ [x].
Proof.
  induction acc as [|y acc IH]; intro H; [reflexivity|]. inversion H as [|? ? Hy Hr]; subst.
  cbn [ins_asc app]. rewrite (lt_key_asym y x Hy). now rewrite IH.
Qed.

Lemma ins_desc_first : forall x acc, Forall (fun y => lt_key y x = true) acc -> ins_desc x acc = x :: acc.
Proof.
  intros x [|y acc] H; [reflexivity|]. inversion H as [|? ? Hy Hr]; subst.
  cbn [ins_desc]. now rewrite Hy.
Qed.

Lemma fold_right_rev_left : forall (f : row -> list row -> list row) l,
  fold_right f [] (rev l) = fold_left (fun a x => f x a) l [].
Proof. intros. apply fold_left_rev_right. Qed.

Lemma sort_asc_incr_gen : forall l acc, incrb (acc ++ l) = true ->
  fold_left (fun a x => ins_asc x a) l acc = acc ++ l.
Proof.
  induction l as [|x l IH]; intros acc H; [now rewrite app_nil_r|].
  cbn [fold_left]. rewrite (ins_asc_last x acc (incrb_app_lt acc x l H)).
  rewrite IH; rewrite <- app_assoc; [reflexivity|exact H].
Qed.

Lemma sort_asc_incr : forall l, incrb l = true -> sort_asc l = l.
Proof. intros l H. unfold sort_asc. rewrite fold_right_rev_left. exact (sort_asc_incr_gen l [] H). Qed.

Lemma sort_desc_incr_gen : forall l acc, incrb (rev acc ++ l) = true ->
  fold_left (fun a x => ins_desc x a) l acc = rev l ++ acc.
Proof.
  induction l as [|x l IH]; intros acc H; [reflexivity|].
  cbn [fold_left]. rewrite ins_desc_first.
  - rewrite IH; cbn [rev]; [now rewrite <- app_assoc|]. rewrite <- app_assoc. exact H.
  - apply incrb_app_lt in H. apply Forall_forall. intros y Hy. rewrite Forall_forall in H. apply H. now apply in_rev in Hy.
Qed.

Lemma sort_desc_incr : forall l, incrb l = true -> sort_desc l = rev l.
Proof.
  intros l H. unfold sort_desc. rewrite fold_right_rev_left.
  rewrite (sort_desc_incr_gen l [] H). now rewrite app_nil_r.
Qed.

Lemma forallb_filter : forall (f g : row -> bool) l, forallb f l = true -> forallb f (filter g l) = true.
Proof.
  induction l as [|y l IH]; intro H; [reflexivity|]. cbn in H. apply andb_true_iff in H as [H1 H2].
  cbn. destruct (g y); cbn; [rewrite H1|]; now apply IH.
Qed.

Lemma incrb_filter : forall g l, incrb l = true -> incrb (filter g l) = true.
Proof.
  induction l as [|y l IH]; intro H; [reflexivity|]. cbn [incrb] in H. apply andb_true_iff in H as [H1 H2].
  cbn [filter]. destruct (g y); [|now apply IH]. cbn [incrb]. rewrite (forallb_filter _ g l H1). now apply IH.
Qed.

(** Under strictly increasing tsb the listing is the matching rows IN SUBMISSION ORDER:
    the first [limit] of them with -a, the last [limit] of them without. *)
Theorem list_in_submission_order : forall rows p s d o, incrb rows = true ->
  db_list rows p s d o =
  let m := filter (row_matches p s d o) rows in
  if o_asc o then take_limit (o_limit o) m else rev (take_limit (o_limit o) (rev m)).
Proof.
  intros rows p s d o H. unfold db_list. cbv zeta.
  pose proof (incrb_filter (row_matches p s d o) rows H) as Hm.
  now rewrite (sort_asc_incr _ Hm), (sort_desc_incr _ Hm).
Qed.

(** the hypothesis in plain terms: rowids increase and tsb never decreases along the table *)
Lemma forallb_lt_key : forall a t,
  forallb (fun b => r_id a <? r_id b) t = true -> forallb (fun b => (r_tsb a <=? r_tsb b)%Z) t = true ->
  forallb (fun b => lt_key a b) t = true.
Proof.
  induction t as [|b t IH]; intros H1 H2; [reflexivity|]. cbn [forallb] in *.
  apply andb_true_iff in H1 as [Ha Hb]. apply andb_true_iff in H2 as [Hc Hd].
  rewrite (IH Hb Hd), andb_true_r. unfold lt_key. apply Z.leb_le in Hc.
  destruct (r_tsb a <? r_tsb b)%Z eqn:E; [reflexivity|]. apply Z.ltb_ge in E.
  assert (r_tsb a = r_tsb b) as -> by lia. now rewrite Z.eqb_refl, Ha.
Qed.

Lemma incrb_of_table : forall l, ids_incr l = true -> tsb_nondecr l = true -> incrb l = true.
Proof.
  induction l as [|a t IH]; intros H1 H2; [reflexivity|]. cbn [ids_incr tsb_nondecr incrb] in *.
  apply andb_true_iff in H1 as [Ha Hb]. apply andb_true_iff in H2 as [Hc Hd].
  now rewrite (forallb_lt_key a t Ha Hc), (IH Hb Hd).
Qed.

Theorem list_order : forall rows p s d o, ids_incr rows = true -> tsb_nondecr rows = true ->
  db_list rows p s d o =
  let m := filter (row_matches p s d o) rows in
  if o_asc o then take_limit (o_limit o) m else rev (take_limit (o_limit o) (rev m)).
Proof. intros. apply list_in_submission_order. now apply incrb_of_table. Qed.

(** rows with equal tsb (what two history add without -t produce) now list in submission order *)
Definition tie_rows : list row := [mkrow 1 [97] 0%Z [] []; mkrow 2 [98] 0%Z [] []; mkrow 3 [99] 0%Z [] []].
Lemma tie_listing : db_list tie_rows [] [] [] (mko false false false 20%Z) = tie_rows.
Proof. reflexivity. Qed.
Lemma tie_limit : db_list tie_rows [] [] [] (mko false false false 2%Z) = [mkrow 2 [98] 0%Z [] []; mkrow 3 [99] 0%Z [] []].
Proof. reflexivity. Qed.

(* ------------------------------------------------------------------ LIKE: no false negatives *)
Lemma like_pct_unfold : forall p t,
  like (c_pct :: p) t = like p t || match t with [] => false | _ :: t' => like (c_pct :: p) t' end.
Proof. intros p t. destruct t; reflexivity. Qed.

Lemma like_pct_skip : forall p a t, like (c_pct :: p) t = true -> like (c_pct :: p) (a ++ t) = true.
Proof.
  induction a as [|c a IH]; intros t H; [exact H|].
  cbn [app]. rewrite like_pct_unfold. rewrite (IH t H). apply orb_true_r.
Qed.

Lemma like_pct_nil_any : forall t, like [c_pct] t = true.
Proof. induction t as [|c t IH]; [reflexivity|]. rewrite like_pct_unfold. cbn [like is_empty]. exact IH. Qed.

Lemma like_self_prefix : forall p q t, like q t = true -> like (p ++ q) (p ++ t) = true.
Proof.
  induction p as [|c p IH]; intros q t H; [exact H|].
  cbn [app]. destruct (c =? c_pct) eqn:E.
  - apply N.eqb_eq in E. subst c. rewrite like_pct_unfold. cbv beta iota.
    assert (X : like (c_pct :: p ++ q) (p ++ t) = true).
    { rewrite like_pct_unfold. rewrite (IH q t H). reflexivity. }
    rewrite X. apply orb_true_r.
  - cbn [like]. rewrite E. rewrite N.eqb_refl, orb_true_r. cbn [andb]. now apply IH.
Qed.

Lemma search_complete : forall p a b, like (wrap_pct p) (a ++ p ++ b) = true.
Proof.
  intros p a b. unfold wrap_pct. cbn [app]. apply like_pct_skip.
  rewrite like_pct_unfold. rewrite (like_self_prefix p [c_pct] b (like_pct_nil_any b)). reflexivity.
Qed.

(* ------------------------------------------------------------------ recording rule *)
Fixpoint adj_distinct (l : list str) : Prop :=
  match l with
  | a :: ((b :: _) as t) => a <> b /\ adj_distinct t
  | _ => True
  end.

Lemma session_no_repeat : forall bang typed prev, adj_distinct (prev :: session_run bang prev typed).
Proof.
  induction typed as [|t typed IH]; intro prev; [exact I|].
  cbn [session_run]. unfold session_step.
  destruct (is_empty (trim t)); [apply IH|].
  destruct (negb (starts_with_space t) && negb (str_eqb (bang prev t) prev)) eqn:E; [|apply IH].
  apply andb_true_iff in E as [_ E]. apply negb_true_iff, str_eqb_neq in E.
  cbn [adj_distinct]. split; [congruence|apply IH].
Qed.

Definition idbang (prev typed : str) : str := typed.

Lemma session_sound : forall typed prev l, In l (session_run idbang prev typed) ->
  In l typed /\ starts_with_space l = false /\ trim l <> [].
Proof.
  induction typed as [|t typed IH]; intros prev l H; [contradiction|].
  cbn [session_run] in H. unfold session_step, idbang in H.
  destruct (is_empty (trim t)) eqn:Et.
  - apply IH in H. intuition.
  - destruct (negb (starts_with_space t) && negb (str_eqb t prev)) eqn:E.
    + destruct H as [<-|H].
      * apply andb_true_iff in E as [E _]. apply negb_true_iff in E. repeat split; auto; [now left|].
        intro X. rewrite X in Et. discriminate.
      * apply IH in H. intuition.
    + apply IH in H. intuition.
Qed.

Lemma session_complete_gen : forall typed prev t, In t typed -> starts_with_space t = false -> trim t <> [] ->
  In t (session_run idbang prev typed) \/ t = prev.
Proof.
  induction typed as [|x typed IH]; intros prev t Hin Hs Hb; [contradiction|].
  cbn [session_run]. unfold session_step, idbang.
  destruct Hin as [->|Hin].
  - destruct (is_empty (trim t)) eqn:Et; [destruct (trim t); [contradiction|discriminate]|].
    rewrite Hs. cbn [negb andb]. destruct (str_eqb t prev) eqn:E.
    + right. now apply str_eqb_eq.
    + left. now left.
  - destruct (is_empty (trim x)); [now apply IH|].
    destruct (negb (starts_with_space x) && negb (str_eqb x prev)).
    + destruct (IH x t Hin Hs Hb) as [H| ->]; left; [now right|now left].
    + now apply IH.
Qed.

Lemma session_complete : forall typed t, In t typed -> starts_with_space t = false -> trim t <> [] ->
  In t (session_run idbang [] typed).
Proof.
  intros typed t Hin Hs Hb. destruct (session_complete_gen typed [] t Hin Hs Hb) as [H| ->]; [exact H|].
  exfalso. apply Hb. reflexivity.
Qed.


(* ------------------------------------------------------------------ several processes, one database *)
Lemma proc_independent : forall bang s1 s2 p, proc_records bang s1 p = proc_records bang s2 p.
Proof. intros. destruct p; reflexivity. Qed.

(** the first line typed in a fresh process is recorded whatever the database holds *)
Lemma first_line_recorded : forall stored t rest,
  starts_with_space t = false -> trim t <> [] ->
  exists r, proc_records idbang stored (Interactive (t :: rest)) = t :: r.
Proof.
  intros stored t rest Hs Hb. unfold proc_records, initial_previous_cmd. cbn [session_run].
  unfold session_step, idbang.
  destruct (is_empty (trim t)) eqn:Et; [destruct (trim t); [contradiction|discriminate]|].
  rewrite Hs. cbn [negb andb].
  destruct (str_eqb t []) eqn:E.
  - apply str_eqb_eq in E. subst t. exfalso. apply Hb. reflexivity.
  - cbn [negb]. eexists. reflexivity.
Qed.

Lemma db_procs_app : forall bang ps stored, exists added, db_procs bang stored ps = stored ++ added.
Proof.
  induction ps as [|p ps IH]; intro stored; cbn [db_procs].
  - exists []. now rewrite app_nil_r.
  - destruct (IH (stored ++ proc_records bang stored p)) as [a Ha]. rewrite Ha.
    exists (proc_records bang stored p ++ a). now rewrite app_assoc.
Qed.

(** the table after a sequence of processes = the stored rows followed by what each
    process records on its own (computed from an EMPTY table) *)
Lemma db_procs_concat : forall bang ps stored,
  db_procs bang stored ps = stored ++ concat (map (proc_records bang []) ps).
Proof.
  induction ps as [|p ps IH]; intro stored; cbn [db_procs map concat].
  - now rewrite app_nil_r.
  - rewrite IH, (proc_independent bang stored [] p). now rewrite app_assoc.
Qed.

(** Recording keeps the hypothesis: the new rowid exceeds all stored ones (sqlite's allocation),
    and the clock value of the new row must not be smaller than those stored. *)
Lemma snoc_forallb : forall (f : row -> row -> bool) l x, 
  (fix g (l : list row) := match l with [] => true | a :: t => forallb (f a) t && g t end) l = true ->
  forallb (fun r => f r x) l = true ->
  (fix g (l : list row) := match l with [] => true | a :: t => forallb (f a) t && g t end) (l ++ [x]) = true.
Proof.
  induction l as [|y l IH]; intros x H1 H2; [reflexivity|].
  apply andb_true_iff in H1 as [Ha Hb]. cbn [forallb] in H2. apply andb_true_iff in H2 as [Hc Hd].
  cbn [app]. rewrite forallb_app, Ha. cbn [forallb andb]. rewrite Hc. cbn [andb]. now apply IH.
Qed.

Lemma next_id_above : forall rows, forallb (fun r => r_id r <? next_id rows) rows = true.
Proof.
  intro rows. apply forallb_forall. intros r H. apply N.ltb_lt. now apply next_id_fresh.
Qed.

Lemma insert_keeps_order : forall rows inp tsb s i, ids_incr rows = true -> tsb_nondecr rows = true ->
  forallb (fun r => (r_tsb r <=? tsb)%Z) rows = true ->
  ids_incr (db_insert rows inp tsb s i) = true /\ tsb_nondecr (db_insert rows inp tsb s i) = true.
Proof.
  intros rows inp tsb s i H1 H2 H3. unfold db_insert. split.
  - apply (snoc_forallb (fun a b => r_id a <? r_id b) rows _ H1). cbn [r_id]. apply next_id_above.
  - apply (snoc_forallb (fun a b => (r_tsb a <=? r_tsb b)%Z) rows _ H2). exact H3.
Qed.

(* ------------------------------------------------------------------ leading blank and !! *)
Lemma space_led_step : forall bang prev typed, starts_with_space typed = true ->
  session_step bang prev typed = (None, prev).
Proof.
  intros bang prev typed H. unfold session_step. destruct (is_empty (trim typed)); [reflexivity|].
  rewrite H. reflexivity.
Qed.

(** lines starting with a blank have no effect at all on what a session records, whatever the !! expander does *)
Lemma space_led_run : forall bang typed prev,
  session_run bang prev typed = session_run bang prev (filter (fun t => negb (starts_with_space t)) typed).
Proof.
  induction typed as [|t typed IH]; intro prev; [reflexivity|].
  cbn [filter]. destruct (starts_with_space t) eqn:E; cbn [negb].
  - cbn [session_run]. rewrite (space_led_step bang prev t E). apply IH.
  - cbn [session_run]. destruct (session_step bang prev t) as [[l|] p]; [f_equal|]; apply IH.
Qed.

(** every recorded text is the expansion of a typed line that does not start with a blank *)
Lemma recorded_origin : forall bang typed prev l, In l (session_run bang prev typed) ->
  exists t p, In t typed /\ starts_with_space t = false /\ l = bang p t.
Proof.
  induction typed as [|t typed IH]; intros prev l H; [contradiction|].
  cbn [session_run] in H. unfold session_step in H.
  destruct (is_empty (trim t)).
  - destruct (IH _ _ H) as (t' & p & H1 & H2 & H3). exists t', p. intuition.
  - destruct (negb (starts_with_space t) && negb (str_eqb (bang prev t) prev)) eqn:E.
    + destruct H as [<-|H].
      * apply andb_true_iff in E as [E _]. apply negb_true_iff in E. exists t, prev. intuition.
      * destruct (IH _ _ H) as (t' & p & H1 & H2 & H3). exists t', p. intuition.
    + destruct (IH _ _ H) as (t' & p & H1 & H2 & H3). exists t', p. intuition.
Qed.

(** a line without leading blank is recorded as its EXPANSION (unless that equals previous_cmd) *)
Lemma expanded_recorded : forall bang prev t, starts_with_space t = false -> trim t <> [] ->
  bang prev t <> prev -> session_step bang prev t = (Some (bang prev t), bang prev t).
Proof.
  intros bang prev t Hs Hb Hn. unfold session_step.
  destruct (is_empty (trim t)) eqn:Et; [destruct (trim t); [contradiction|discriminate]|].
  rewrite Hs. apply str_eqb_neq in Hn. rewrite Hn. reflexivity.
Qed.

Lemma bang_unchanged : forall tokenize prev line,
  (has_bb line = false \/ prev = []) -> extend_bangbang tokenize prev line = line.
Proof.
  intros tokenize prev line [H| ->]; unfold extend_bangbang.
  - now rewrite H.
  - destruct (negb (has_bb line)); reflexivity.
Qed.
