(** Proofs about the index-buffer passes, brace expansion and brace ranges of
    Model/Expand.v against the reference semantics of Model/ExpandRef.v. *)
From Coq Require Import List NArith ZArith Bool Lia.
From Cicada Require Import Base.Chars Base.Tag Model.Expand Model.ExpandRef.
Import ListNotations.
Local Open Scope N_scope.

(* ------------------------------------------------------------------ 1. index buffers *)
Lemma splice_at {A} (pre : list A) t r l i :
  length pre = i -> splice i l (pre ++ t :: r) = pre ++ l ++ r.
Proof.
  intros <-. unfold splice. induction pre as [|x pre IH]; cbn [length firstn skipn app].
  - reflexivity.
  - cbn [length firstn skipn app] in IH. rewrite IH. reflexivity.
Qed.

Lemma apply_buff_cons {A} i (l : list A) b x :
  apply_buff ((i, l) :: b) x = splice i l (apply_buff b x).
Proof.
  unfold apply_buff. cbn [rev]. rewrite fold_left_app. reflexivity.
Qed.

Definition sel_flat (sel : token -> res selr) (t : token) : tokens :=
  match sel t with Ok (Repl l) => l | _ => [t] end.

Lemma collect_apply_buff (sel : token -> res selr) :
  forall (toks : tokens) (i : nat) (buff : list (nat * tokens)) (pre : tokens),
    collect sel toks i = Ok (Some buff) -> length pre = i ->
    apply_buff buff (pre ++ toks) = pre ++ flat_map (sel_flat sel) toks.
Proof.
  induction toks as [|t r IH]; intros i buff pre H Hl.
  - cbn in H. injection H as <-. reflexivity.
  - cbn [collect] in H. cbn [flat_map]. unfold sel_flat at 1.
    destruct (sel t) as [d| |]; cbn [bind] in H; try discriminate.
    destruct d as [| |l].
    + specialize (IH (S i) buff (pre ++ [t]) H).
      rewrite <- app_assoc in IH. cbn [app] in IH.
      rewrite IH by (rewrite app_length; cbn; lia).
      rewrite <- app_assoc. reflexivity.
    + discriminate.
    + destruct (collect sel r (S i)) as [ob| |] eqn:E; cbn [res_map] in H; try discriminate.
      destruct ob as [b|]; cbn [option_map] in H; try discriminate.
      injection H as <-.
      rewrite (@apply_buff_cons token).
      specialize (IH (S i) b (pre ++ [t]) E).
      rewrite <- app_assoc in IH. cbn [app] in IH.
      rewrite IH by (rewrite app_length; cbn; lia).
      rewrite <- app_assoc. cbn [app].
      apply splice_at. exact Hl.
Qed.

Theorem run_pass_flat_map :
  forall (sel : token -> res selr) (toks : tokens) (buff : list (nat * tokens)),
    collect sel toks 0 = Ok (Some buff) ->
    apply_buff buff toks
    = flat_map (fun t => match sel t with Ok (Repl l) => l | _ => [t] end) toks.
Proof.
  intros sel toks buff H.
  exact (collect_apply_buff sel toks 0%nat buff [] H eq_refl).
Qed.

Theorem run_pass_ok :
  forall sel toks buff,
    collect sel toks 0 = Ok (Some buff) ->
    run_pass sel toks
    = Ok (flat_map (fun t => match sel t with Ok (Repl l) => l | _ => [t] end) toks).
Proof.
  intros sel toks buff H. unfold run_pass. rewrite H. cbn [res_map].
  rewrite (run_pass_flat_map sel toks buff H). reflexivity.
Qed.

(* ------------------------------------------------------------------ 2. brace expansion *)
Scheme term_alts_ind := Induction for term Sort Prop
  with alts_term_ind := Induction for alts Sort Prop.
Combined Scheme term_alts_mutind from term_alts_ind, alts_term_ind.

(* product algebra *)
Lemma product_nil_l ys : product [] ys = [].
Proof. reflexivity. Qed.

Lemma product_cons_l x xs ys : product (x :: xs) ys = map (fun y => x ++ y) ys ++ product xs ys.
Proof. reflexivity. Qed.

Lemma product_app_l xs ys k : product (xs ++ ys) k = product xs k ++ product ys k.
Proof. unfold product. apply flat_map_app. Qed.

Lemma product_unit_r out : product out [[]] = out.
Proof.
  induction out as [|x out IH]; [reflexivity|].
  rewrite product_cons_l, IH. cbn [map app]. rewrite app_nil_r. reflexivity.
Qed.

Lemma product_unit_l ys : product [[]] ys = ys.
Proof.
  rewrite product_cons_l, product_nil_l, app_nil_r. cbn [app].
  apply map_id.
Qed.

Lemma product_map_cons out c ys :
  product out (map (cons c) ys) = product (map (fun x => x ++ [c]) out) ys.
Proof.
  induction out as [|x out IH]; [reflexivity|].
  cbn [map]. rewrite !product_cons_l, IH. f_equal.
  rewrite map_map. apply map_ext. intro y. rewrite <- app_assoc. reflexivity.
Qed.

Lemma map_app_product x g k :
  map (fun y => x ++ y) (product g k) = product (map (fun y => x ++ y) g) k.
Proof.
  induction g as [|y g IH]; [reflexivity|].
  cbn [map]. rewrite !product_cons_l, map_app, IH. f_equal.
  rewrite map_map. apply map_ext. intro z. apply app_assoc.
Qed.

Lemma product_assoc out g k : product out (product g k) = product (product out g) k.
Proof.
  induction out as [|x out IH]; [reflexivity|].
  rewrite !product_cons_l, product_app_l, IH. f_equal. apply map_app_product.
Qed.

(* plain characters *)
Lemma brace_plain_neq c :
  brace_plain c = true ->
  (c =? 123) = false /\ (c =? 125) = false /\ (c =? 44) = false /\ (c =? 92) = false.
Proof.
  unfold brace_plain. intro H. apply negb_true_iff in H.
  apply orb_false_iff in H as [H H4]. apply orb_false_iff in H as [H H3].
  apply orb_false_iff in H as [H1 H2]. auto.
Qed.

(* one-step unfoldings *)
Lemma getitem_nil f depth out : brace_getitem_f (S f) [] depth out = Ok (out, []).
Proof. reflexivity. Qed.

Lemma getitem_cons f c r depth out :
  brace_getitem_f (S f) (c :: r) depth out =
  if depth_stop depth c then Ok (out, c :: r)
  else
    let literal :=
      match (if c =? 92 then r else []) with
      | c2 :: r2 => brace_getitem_f f r2 depth (map (fun x => x ++ [92; c2]) out)
      | [] => brace_getitem_f f r depth (map (fun x => x ++ [c]) out)
      end in
    if c =? 123 then
      match brace_getgroup_f f r (S depth) [] false with
      | Ok (Some (og, sg)) => brace_getitem_f f sg depth (product out og)
      | Ok None => literal
      | Panic st => Panic st
      | OutOfFuel => OutOfFuel
      end
    else literal.
Proof. reflexivity. Qed.

Lemma getitem_stop f c r depth out :
  depth_stop depth c = true -> brace_getitem_f (S f) (c :: r) depth out = Ok (out, c :: r).
Proof. intro H. rewrite getitem_cons, H. reflexivity. Qed.

Lemma getitem_plain f c r depth out :
  brace_plain c = true ->
  brace_getitem_f (S f) (c :: r) depth out = brace_getitem_f f r depth (map (fun x => x ++ [c]) out).
Proof.
  intro H. apply brace_plain_neq in H as (H1 & H2 & H3 & H4).
  rewrite getitem_cons.
  assert (Hd : depth_stop depth c = false).
  { destruct depth; cbn [depth_stop]; [reflexivity|]. rewrite H2, H3. reflexivity. }
  rewrite Hd, H1, H4. reflexivity.
Qed.

Lemma getitem_group f r depth out :
  brace_getitem_f (S f) (123 :: r) depth out =
  match brace_getgroup_f f r (S depth) [] false with
  | Ok (Some (og, sg)) => brace_getitem_f f sg depth (product out og)
  | Ok None => brace_getitem_f f r depth (map (fun x => x ++ [123]) out)
  | Panic st => Panic st
  | OutOfFuel => OutOfFuel
  end.
Proof. rewrite getitem_cons. destruct depth; reflexivity. Qed.

Lemma getgroup_step f s depth out comma :
  s <> [] ->
  brace_getgroup_f (S f) s depth out comma =
  match brace_getitem_f f s depth [[]] with
  | Ok (g, ss) =>
      match ss with
      | [] => Ok None
      | c :: r =>
          let out' := out ++ g in
          if c =? 125 then
            if comma then Ok (Some (out', r))
            else Ok (Some (map (fun x => [123] ++ x ++ [125]) out', r))
          else if c =? 44 then brace_getgroup_f f r depth out' true
          else brace_getgroup_f f ss depth out' comma
      end
  | Panic st => Panic st
  | OutOfFuel => OutOfFuel
  end.
Proof. destruct s; [congruence|]. reflexivity. Qed.

Lemma render_grp_app a k rest :
  render_term (TGrp a k) ++ rest = 123 :: render_alts a ++ 125 :: (render_term k ++ rest).
Proof. cbn [render_term app]. rewrite <- app_assoc. reflexivity. Qed.

Lemma render_acons_app t a rest :
  render_alts (ACons t a) ++ 125 :: rest = render_term t ++ 44 :: (render_alts a ++ 125 :: rest).
Proof. cbn [render_alts]. rewrite <- app_assoc. reflexivity. Qed.

Definition stops (depth : nat) (rest : str) : Prop :=
  rest = [] \/ (exists c r, rest = c :: r /\ depth_stop depth c = true).

Lemma brace_mutual :
  (forall t, wf_term t = true ->
     forall f rest depth out,
       (2 * length (render_term t ++ rest) < f)%nat -> stops depth rest ->
       brace_getitem_f f (render_term t ++ rest) depth out
       = Ok (product out (den_term t), rest))
  /\
  (forall a, wf_alts a = true ->
     forall f rest depth out comma,
       (2 * length (render_alts a ++ 125%N :: rest) + 1 < f)%nat ->
       (comma = true \/ exists t a', a = ACons t a') ->
       brace_getgroup_f f (render_alts a ++ 125 :: rest) (S depth) out comma
       = Ok (Some (out ++ den_alts a, rest))).
Proof.
  apply term_alts_mutind.
  - (* TEnd *)
    intros _ f rest depth out Hf Hs. cbn [render_term den_term app].
    rewrite product_unit_r.
    destruct f as [|f]; [lia|].
    destruct Hs as [-> | (c & r & -> & Hc)].
    + apply getitem_nil.
    + apply getitem_stop. exact Hc.
  - (* TChr *)
    intros c k IHk Hwf f rest depth out Hf Hs.
    cbn [wf_term] in Hwf. apply andb_true_iff in Hwf as [Hc Hk].
    cbn [render_term den_term app] in *.
    destruct f as [|f]; [lia|].
    rewrite getitem_plain by exact Hc.
    rewrite (IHk Hk).
    + rewrite product_map_cons. reflexivity.
    + cbn [length] in Hf. lia.
    + exact Hs.
  - (* TGrp *)
    intros a IHa k IHk Hwf f rest depth out Hf Hs.
    cbn [wf_term] in Hwf. apply andb_true_iff in Hwf as [Hwf Hk].
    apply andb_true_iff in Hwf as [Hsh Ha].
    rewrite render_grp_app in *. cbn [den_term].
    destruct f as [|f]; [lia|].
    rewrite getitem_group.
    rewrite (IHa Ha f (render_term k ++ rest) depth [] false).
    + cbn [app]. rewrite (IHk Hk).
      * rewrite product_assoc. reflexivity.
      * cbn [length] in Hf. rewrite app_length in Hf. cbn [length] in Hf. lia.
      * exact Hs.
    + cbn [length] in Hf. lia.
    + right. destruct a; [discriminate|]. eauto.
  - (* AOne *)
    intros t IHt Hwf f rest depth out comma Hf Hc.
    cbn [wf_alts] in Hwf. cbn [render_alts den_alts] in *.
    destruct Hc as [-> | (t' & a' & ?)]; [|discriminate].
    destruct f as [|f]; [lia|].
    rewrite getgroup_step by (destruct (render_term t); discriminate).
    rewrite (IHt Hwf).
    + rewrite product_unit_l. reflexivity.
    + lia.
    + right. exists 125, rest. split; reflexivity.
  - (* ACons *)
    intros t IHt a IHa Hwf f rest depth out comma Hf _.
    cbn [wf_alts] in Hwf. apply andb_true_iff in Hwf as [Ht Ha].
    rewrite render_acons_app in *. cbn [den_alts].
    destruct f as [|f]; [lia|].
    rewrite getgroup_step by (destruct (render_term t); discriminate).
    rewrite (IHt Ht).
    + rewrite product_unit_l. cbn beta iota zeta.
      change (44 =? 125) with false. change (44 =? 44) with true. cbn beta iota.
      rewrite (IHa Ha).
      * rewrite app_assoc. reflexivity.
      * rewrite app_length in Hf. cbn [length] in Hf. lia.
      * left. reflexivity.
    + lia.
    + right. exists 44, (render_alts a ++ 125 :: rest). split; reflexivity.
Qed.

Theorem brace_getitem_den :
  forall t, wf_term t = true -> brace_getitem (render_term t) 0 = Ok (den_term t, []).
Proof.
  intros t Hwf. unfold brace_getitem.
  destruct brace_mutual as [H _].
  specialize (H t Hwf (brace_fuel (render_term t)) [] 0%nat [[]]).
  rewrite app_nil_r in H. rewrite H.
  - rewrite product_unit_l. reflexivity.
  - unfold brace_fuel. lia.
  - left. reflexivity.
Qed.

(* ------------------------------------------------------------------ 2b. groups with one alternative *)
(** like [wf_term] / [wf_alts] of Model/ExpandRef.v without the demand that a group
    has at least two alternatives *)
Fixpoint wf_term1 (t : term) : bool :=
  match t with
  | TEnd => true
  | TChr c k => brace_plain c && wf_term1 k
  | TGrp a k => wf_alts1 a && wf_term1 k
  end
with wf_alts1 (a : alts) : bool :=
  match a with
  | AOne t => wf_term1 t
  | ACons t a' => wf_term1 t && wf_alts1 a'
  end.

Definition wrap_braces (x : str) : str := [123] ++ x ++ [125].

(** a group with exactly one alternative keeps its braces literally (as in bash) *)
Definition grp_wrap (a : alts) (l : list str) : list str :=
  match a with
  | AOne _ => map wrap_braces l
  | ACons _ _ => l
  end.

Fixpoint den_term1 (t : term) : list str :=
  match t with
  | TEnd => [[]]
  | TChr c k => map (cons c) (den_term1 k)
  | TGrp a k => product (grp_wrap a (den_alts1 a)) (den_term1 k)
  end
with den_alts1 (a : alts) : list str :=
  match a with
  | AOne t => den_term1 t
  | ACons t a' => den_term1 t ++ den_alts1 a'
  end.

Lemma den_term1_one t k :
  den_term1 (TGrp (AOne t) k)
  = product (map (fun x => [123] ++ x ++ [125]) (den_term1 t)) (den_term1 k).
Proof. reflexivity. Qed.

Lemma den_term1_several t a k :
  den_term1 (TGrp (ACons t a) k) = product (den_term1 t ++ den_alts1 a) (den_term1 k).
Proof. reflexivity. Qed.

Lemma brace_mutual1 :
  (forall t, wf_term1 t = true ->
     forall f rest depth out,
       (2 * length (render_term t ++ rest) < f)%nat -> stops depth rest ->
       brace_getitem_f f (render_term t ++ rest) depth out
       = Ok (product out (den_term1 t), rest))
  /\
  (forall a, wf_alts1 a = true ->
     forall f rest depth out comma,
       (2 * length (render_alts a ++ 125%N :: rest) + 1 < f)%nat ->
       (comma = false -> out = []) ->
       brace_getgroup_f f (render_alts a ++ 125 :: rest) (S depth) out comma
       = Ok (Some (if comma then out ++ den_alts1 a else grp_wrap a (den_alts1 a), rest))).
Proof.
  apply term_alts_mutind.
  - (* TEnd *)
    intros _ f rest depth out Hf Hs. cbn [render_term den_term1 app].
    rewrite product_unit_r.
    destruct f as [|f]; [lia|].
    destruct Hs as [-> | (c & r & -> & Hc)].
    + apply getitem_nil.
    + apply getitem_stop. exact Hc.
  - (* TChr *)
    intros c k IHk Hwf f rest depth out Hf Hs.
    cbn [wf_term1] in Hwf. apply andb_true_iff in Hwf as [Hc Hk].
    cbn [render_term den_term1 app] in *.
    destruct f as [|f]; [lia|].
    rewrite getitem_plain by exact Hc.
    rewrite (IHk Hk).
    + rewrite product_map_cons. reflexivity.
    + cbn [length] in Hf. lia.
    + exact Hs.
  - (* TGrp *)
    intros a IHa k IHk Hwf f rest depth out Hf Hs.
    cbn [wf_term1] in Hwf. apply andb_true_iff in Hwf as [Ha Hk].
    rewrite render_grp_app in *. cbn [den_term1].
    destruct f as [|f]; [lia|].
    rewrite getitem_group.
    rewrite (IHa Ha f (render_term k ++ rest) depth [] false).
    + cbn iota. rewrite (IHk Hk).
      * rewrite product_assoc. reflexivity.
      * cbn [length] in Hf. rewrite app_length in Hf. cbn [length] in Hf. lia.
      * exact Hs.
    + cbn [length] in Hf. lia.
    + reflexivity.
  - (* AOne *)
    intros t IHt Hwf f rest depth out comma Hf Hc.
    cbn [wf_alts1] in Hwf. cbn [render_alts den_alts1 grp_wrap] in *.
    destruct f as [|f]; [lia|].
    rewrite getgroup_step by (destruct (render_term t); discriminate).
    rewrite (IHt Hwf).
    + rewrite product_unit_l. cbn beta iota zeta.
      change (125 =? 125) with true. cbn iota.
      destruct comma; [reflexivity|].
      rewrite (Hc eq_refl). reflexivity.
    + lia.
    + right. exists 125, rest. split; reflexivity.
  - (* ACons *)
    intros t IHt a IHa Hwf f rest depth out comma Hf Hc.
    cbn [wf_alts1] in Hwf. apply andb_true_iff in Hwf as [Ht Ha].
    rewrite render_acons_app in *. cbn [den_alts1 grp_wrap].
    destruct f as [|f]; [lia|].
    rewrite getgroup_step by (destruct (render_term t); discriminate).
    rewrite (IHt Ht).
    + rewrite product_unit_l. cbn beta iota zeta.
      change (44 =? 125) with false. change (44 =? 44) with true. cbn beta iota.
      rewrite (IHa Ha).
      * destruct comma.
        -- rewrite app_assoc. reflexivity.
        -- rewrite (Hc eq_refl). reflexivity.
      * rewrite app_length in Hf. cbn [length] in Hf. lia.
      * discriminate.
    + lia.
    + right. exists 44, (render_alts a ++ 125 :: rest). split; reflexivity.
Qed.

Theorem brace_getitem_den1 :
  forall t, wf_term1 t = true -> brace_getitem (render_term t) 0 = Ok (den_term1 t, []).
Proof.
  intros t Hwf. unfold brace_getitem.
  destruct brace_mutual1 as [H _].
  specialize (H t Hwf (brace_fuel (render_term t)) [] 0%nat [[]]).
  rewrite app_nil_r in H. rewrite H.
  - rewrite product_unit_l. reflexivity.
  - unfold brace_fuel. lia.
  - left. reflexivity.
Qed.

(** on the terms of [wf_term] the two well-formedness notions and denotations agree *)
Lemma wf_den_term1 :
  (forall t, wf_term t = true -> wf_term1 t = true /\ den_term1 t = den_term t)
  /\ (forall a, wf_alts a = true -> wf_alts1 a = true /\ den_alts1 a = den_alts a).
Proof.
  apply term_alts_mutind.
  - intros _. split; reflexivity.
  - intros c k IHk H. cbn [wf_term] in H. apply andb_true_iff in H as [Hc Hk].
    destruct (IHk Hk) as [W D]. cbn [wf_term1 den_term1 den_term]. rewrite Hc, W, D. split; reflexivity.
  - intros a IHa k IHk H. cbn [wf_term] in H. apply andb_true_iff in H as [H Hk].
    apply andb_true_iff in H as [Hs Ha].
    destruct (IHa Ha) as [Wa Da]. destruct (IHk Hk) as [Wk Dk].
    cbn [wf_term1 den_term1 den_term]. rewrite Wa, Wk, Da, Dk.
    destruct a; [discriminate|]. split; reflexivity.
  - intros t IHt H. cbn [wf_alts] in H. destruct (IHt H) as [W D].
    cbn [wf_alts1 den_alts1 den_alts]. split; assumption.
  - intros t IHt a IHa H. cbn [wf_alts] in H. apply andb_true_iff in H as [Ht Ha].
    destruct (IHt Ht) as [Wt Dt]. destruct (IHa Ha) as [Wa Da].
    cbn [wf_alts1 den_alts1 den_alts]. rewrite Wt, Wa, Dt, Da. split; reflexivity.
Qed.

(* ------------------------------------------------------------------ 3. brace ranges *)
Lemma range_up_S f n e st :
  range_up (S f) n e st =
  if (n <=? e)%Z
  then (if (n + st <=? i32_max)%Z
        then res_map (cons (z_to_dec n)) (range_up f (n + st)%Z e st)
        else Ok [z_to_dec n])
  else Ok [].
Proof. reflexivity. Qed.

Lemma range_down_S f n e st :
  range_down (S f) n e st =
  if (n >=? e)%Z
  then (if (i32_min <=? n - st)%Z
        then res_map (cons (z_to_dec n)) (range_down f (n - st)%Z e st)
        else Ok [z_to_dec n])
  else Ok [].
Proof. reflexivity. Qed.

Lemma seq_S_map {B} (g : nat -> B) k :
  map g (seq 0 (S k)) = g 0%nat :: map (fun j => g (S j)) (seq 0 k).
Proof.
  cbn [seq map]. f_equal. rewrite <- seq_shift, map_map. reflexivity.
Qed.

(** the checked addition fails only when the next element would lie beyond [e] anyway *)
Lemma range_up_spec e st :
  (1 <= st)%Z -> (e <= i32_max)%Z ->
  forall k f n,
    (n <= e)%Z -> Z.of_nat k = ((e - n) / st)%Z -> (k + 2 <= f)%nat ->
    range_up f n e st
    = Ok (map z_to_dec (map (fun j => (n + Z.of_nat j * st)%Z) (seq 0 (S k)))).
Proof.
  intros Hst Hmax. induction k as [|k IH]; intros f n Hle Hk Hf.
  - destruct f as [|[|f]]; try lia.
    assert (Hlt : (e - n < st)%Z).
    { pose proof (Z.mul_succ_div_gt (e - n) st ltac:(lia)) as H. rewrite <- Hk in H. lia. }
    rewrite range_up_S. apply Z.leb_le in Hle as Hle'. rewrite Hle'.
    assert (E0 : (n + Z.of_nat 0 * st = n)%Z) by (cbn [Z.of_nat]; lia).
    destruct (n + st <=? i32_max)%Z.
    + rewrite range_up_S.
      assert (Hgt : ((n + st <=? e) = false)%Z) by (apply Z.leb_gt; lia).
      rewrite Hgt. cbn [res_map seq map]. rewrite E0. reflexivity.
    + cbn [seq map]. rewrite E0. reflexivity.
  - destruct f as [|f]; try lia.
    assert (Hq : ((e - (n + st)) / st = (e - n) / st - 1)%Z).
    { replace (e - (n + st))%Z with (e - n + (-1) * st)%Z by lia.
      rewrite Z.div_add by lia. lia. }
    assert (Hge : (st <= e - n)%Z).
    { pose proof (Z.mul_div_le (e - n) st ltac:(lia)) as H. rewrite <- Hk in H.
      rewrite Nat2Z.inj_succ in H. nia. }
    rewrite range_up_S. apply Z.leb_le in Hle as Hle'. rewrite Hle'.
    assert (Hadd : ((n + st <=? i32_max) = true)%Z) by (apply Z.leb_le; lia).
    rewrite Hadd.
    rewrite (IH f (n + st)%Z) by lia. cbn [res_map].
    f_equal. rewrite (seq_S_map (fun j => (n + Z.of_nat j * st)%Z) (S k)).
    cbn [map]. f_equal.
    + f_equal. cbn [Z.of_nat]. lia.
    + f_equal. apply map_ext. intro j. rewrite Nat2Z.inj_succ. lia.
Qed.

Lemma range_down_spec e st :
  (1 <= st)%Z -> (i32_min <= e)%Z ->
  forall k f n,
    (e <= n)%Z -> Z.of_nat k = ((n - e) / st)%Z -> (k + 2 <= f)%nat ->
    range_down f n e st
    = Ok (map z_to_dec (map (fun j => (n - Z.of_nat j * st)%Z) (seq 0 (S k)))).
Proof.
  intros Hst Hmin. induction k as [|k IH]; intros f n Hle Hk Hf.
  - destruct f as [|[|f]]; try lia.
    assert (Hlt : (n - e < st)%Z).
    { pose proof (Z.mul_succ_div_gt (n - e) st ltac:(lia)) as H. rewrite <- Hk in H. lia. }
    rewrite range_down_S. assert (Hle' : ((n >=? e) = true)%Z) by (apply Z.geb_le; lia).
    rewrite Hle'.
    assert (E0 : (n - Z.of_nat 0 * st = n)%Z) by (cbn [Z.of_nat]; lia).
    destruct (i32_min <=? n - st)%Z.
    + rewrite range_down_S.
      assert (Hgt : ((n - st >=? e) = false)%Z).
      { rewrite Z.geb_leb. apply Z.leb_gt. lia. }
      rewrite Hgt. cbn [res_map seq map]. rewrite E0. reflexivity.
    + cbn [seq map]. rewrite E0. reflexivity.
  - destruct f as [|f]; try lia.
    assert (Hq : ((n - st - e) / st = (n - e) / st - 1)%Z).
    { replace (n - st - e)%Z with (n - e + (-1) * st)%Z by lia.
      rewrite Z.div_add by lia. lia. }
    assert (Hge : (st <= n - e)%Z).
    { pose proof (Z.mul_div_le (n - e) st ltac:(lia)) as H. rewrite <- Hk in H.
      rewrite Nat2Z.inj_succ in H. nia. }
    rewrite range_down_S. assert (Hle' : ((n >=? e) = true)%Z) by (apply Z.geb_le; lia).
    rewrite Hle'.
    assert (Hsub : ((i32_min <=? n - st) = true)%Z) by (apply Z.leb_le; lia).
    rewrite Hsub.
    rewrite (IH f (n - st)%Z) by lia. cbn [res_map].
    f_equal. rewrite (seq_S_map (fun j => (n - Z.of_nat j * st)%Z) (S k)).
    cbn [map]. f_equal.
    + f_equal. cbn [Z.of_nat]. lia.
    + f_equal. apply map_ext. intro j. rewrite Nat2Z.inj_succ. lia.
Qed.

Theorem range_list_ref :
  forall a b s,
    (i32_min <= a <= i32_max)%Z -> (i32_min <= b <= i32_max)%Z ->
    range_list a b (Z.max 1 s) = Ok (map z_to_dec (range_ref a b s)).
Proof.
  intros a b s Ha Hb.
  unfold range_list, range_ref, range_fuel.
  set (st := Z.max 1 s) in *.
  assert (Hst : (1 <= st)%Z) by (subst st; lia).
  destruct (Z.leb_spec a b) as [Hab|Hab].
  - assert (E : ((a >? b) = false)%Z) by (rewrite Z.gtb_ltb; apply Z.ltb_ge; lia).
    rewrite E. replace (Z.abs (b - a)) with (b - a)%Z by lia.
    apply range_up_spec; try lia.
    rewrite Z2Nat.id; [reflexivity|]. apply Z.div_pos; lia.
  - assert (E : ((a >? b) = true)%Z) by (rewrite Z.gtb_ltb; apply Z.ltb_lt; lia).
    rewrite E. replace (Z.abs (b - a)) with (a - b)%Z by lia.
    apply range_down_spec; try lia.
    rewrite Z2Nat.id; [reflexivity|]. apply Z.div_pos; lia.
Qed.

Theorem range_list_total :
  forall a b s,
    (i32_min <= a <= i32_max)%Z -> (i32_min <= b <= i32_max)%Z ->
    exists l, range_list a b (Z.max 1 s) = Ok l /\ l <> [].
Proof.
  intros a b s Ha Hb. eexists. split; [apply range_list_ref; assumption|].
  unfold range_ref. destruct (a <=? b)%Z; cbn [seq map]; discriminate.
Qed.

Print Assumptions run_pass_flat_map.
Print Assumptions run_pass_ok.
Print Assumptions brace_getitem_den.
Print Assumptions brace_getitem_den1.
Print Assumptions range_list_ref.
Print Assumptions range_list_total.
