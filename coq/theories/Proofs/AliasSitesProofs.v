(** [expand_alias] never removes or inserts out of range, for ANY alias table,
    ANY tokenizer (values of zero, one or many words) and ANY token list, and
    computes C17's total [Alias.expand_alias]. *)
From Coq Require Import Lia Arith.
From Cicada Require Import Base.Chars Base.Tag Model.Highlight Model.Alias Model.AliasSites.

Lemma insert_all_ok {A} : forall (r : list A) i l, (i <= length l)%nat ->
  insert_all i r l = Ok (firstn i l ++ rev r ++ skipn i l).
Proof.
  induction r as [|x r IH]; intros i l H; cbn [insert_all rev app].
  - now rewrite firstn_skipn.
  - unfold vec_insert. destruct (Nat.leb i (length l)) eqn:E; [|apply Nat.leb_gt in E; lia].
    assert (HL : length (firstn i l) = i) by (rewrite firstn_length; lia).
    rewrite IH by (rewrite app_length, HL; lia).
    rewrite firstn_app, HL, Nat.sub_diag, firstn_O, app_nil_r, firstn_all2 by lia.
    rewrite skipn_app, HL, Nat.sub_diag, skipn_O, skipn_all2 by lia.
    cbn [app]. now rewrite <- app_assoc.
Qed.

Lemma replace_at_sites_ok {A} i (news l : list A) : (i < length l)%nat ->
  replace_at_sites i news l = Ok (firstn i l ++ news ++ skipn (S i) l).
Proof.
  intro H. unfold replace_at_sites, vec_remove.
  destruct (Nat.ltb i (length l)) eqn:E; [|apply Nat.ltb_ge in E; lia].
  assert (HL : length (firstn i l) = i) by (rewrite firstn_length; lia).
  rewrite insert_all_ok by (rewrite app_length, HL; lia).
  rewrite rev_involutive.
  rewrite firstn_app, HL, Nat.sub_diag, firstn_O, app_nil_r, firstn_all2 by lia.
  rewrite skipn_app, HL, Nat.sub_diag, skipn_O, skipn_all2 by lia. reflexivity.
Qed.

(** [inc lo hi L]: the indices of [L] are strictly increasing, within [lo, hi) *)
Fixpoint inc (lo hi : nat) (L : list (nat * str)) : Prop :=
  match L with
  | [] => (lo <= hi)%nat
  | (i, _) :: r => (lo <= i)%nat /\ inc (S i) hi r
  end.

Lemma inc_weaken lo lo' hi L : (lo' <= lo)%nat -> inc lo hi L -> inc lo' hi L.
Proof. destruct L as [|[i v] r]; cbn; intros; [lia|]. destruct H0. split; [lia|assumption]. Qed.

Lemma scan_inc t : forall toks idx h, inc idx (idx + length toks) (scan t toks idx h).
Proof.
  induction toks as [|[sep text] rest IH]; intros idx h; cbn [scan length inc]; [lia|].
  assert (W : forall h', inc idx (idx + S (length rest)) (scan t rest (S idx) h')).
  { intro h'. apply (inc_weaken (S idx)); [lia|]. replace (idx + S (length rest))%nat with (S idx + length rest)%nat by lia. apply IH. }
  destruct (tag_eqb sep TNone && str_eqb text s_pipe); [apply W|].
  destruct (h && str_eqb text s_xargs); [apply W|].
  destruct (negb h || negb (is_alias t text)); [apply W|].
  destruct (get_alias_content t text); [|apply W].
  cbn [inc]. split; [lia|]. replace (idx + S (length rest))%nat with (S idx + length rest)%nat by lia. apply IH.
Qed.

Section Total.
  Variable tokenize : str -> list token.
  Let f := fun (acc : list token) (iv : nat * str) => replace_at (fst iv) (tokenize (snd iv)) acc.

  Lemma second_loop_app : forall L1 L2 toks,
    second_loop tokenize (L1 ++ L2) toks =
    match second_loop tokenize L1 toks with Ok t' => second_loop tokenize L2 t' | Panic s => Panic s end.
  Proof.
    induction L1 as [|[i v] r IH]; intros L2 toks; cbn [app second_loop]; [reflexivity|].
    destruct (replace_at_sites i (tokenize v) toks); [apply IH|reflexivity].
  Qed.

  Lemma second_loop_inc : forall L lo acc, inc lo (length acc) L ->
    second_loop tokenize (rev L) acc = Ok (fold_left f (rev L) acc) /\ (lo <= length (fold_left f (rev L) acc))%nat.
  Proof.
    induction L as [|[i v] r IH]; intros lo acc H; cbn [inc rev] in *.
    - cbn. split; [reflexivity|exact H].
    - destruct H as [Hlo Hr]. destruct (IH _ _ Hr) as [E Hlen].
      rewrite second_loop_app, E, fold_left_app. cbn [second_loop fold_left].
      set (acc' := fold_left f (rev r) acc) in *.
      rewrite replace_at_sites_ok by lia. split; [reflexivity|].
      unfold f, replace_at. cbn [fst snd]. rewrite app_length, firstn_length. lia.
  Qed.

  Theorem expand_alias_sites_total t toks :
    expand_alias_sites tokenize t toks = Ok (expand_alias tokenize t toks).
  Proof.
    unfold expand_alias_sites, expand_alias.
    exact (proj1 (second_loop_inc _ O toks (scan_inc t toks O true))).
  Qed.
End Total.
