(** The history-level invariant for the exit / kill fragment, and C06 for it. *)
From Coq Require Import ZArith List Bool Arith Lia.
From Cicada Require Import Model.Jobs Proofs.JobsSpec Proofs.JobsProofs.
Import ListNotations.
Local Open Scope Z_scope.

(** * generic list facts *)
Lemma nodup_app_iff : forall (A : Type) (a b : list A),
  NoDup (a ++ b) <-> NoDup a /\ NoDup b /\ (forall x, In x a -> ~ In x b).
Proof.
  induction a as [|x a IH]; simpl; intros b.
  - split; [intros H; repeat split; auto; constructor | tauto].
  - split.
    + intros H. inversion H as [|? ? Hx Hn]; subst. apply IH in Hn. destruct Hn as (N1 & N2 & N3).
      rewrite in_app_iff in Hx. repeat split; auto.
      * constructor; tauto.
      * intros y [->|Hy]; [tauto|auto].
    + intros (N1 & N2 & N3). inversion N1 as [|? ? Hx Hn]; subst. constructor.
      * rewrite in_app_iff. intros [H|H]; [tauto|]. apply (N3 x); auto.
      * apply IH. repeat split; auto.
Qed.

Lemma memZ_in : forall x l, memZ x l = true <-> In x l.
Proof.
  induction l as [|a l IH]; simpl; [split; [discriminate|tauto]|].
  destruct (a =? x) eqn:E.
  - apply Z.eqb_eq in E. split; auto.
  - apply Z.eqb_neq in E. rewrite IH. split; [auto|]. intros [H|H]; [congruence|auto].
Qed.

Lemma memZ_false : forall x l, memZ x l = false <-> ~ In x l.
Proof. intros. rewrite <- memZ_in. destruct (memZ x l); split; congruence. Qed.

(** * keys of the parked maps *)
Lemma map_put_keys : forall k v l q, In q (map fst (map_put k v l)) <-> q = k \/ In q (map fst l).
Proof.
  induction l as [|(k', v') l IH]; simpl; intros q.
  - intuition.
  - destruct (k <? k').
    + simpl. intuition.
    + destruct (k =? k') eqn:E.
      * apply Z.eqb_eq in E. subst. simpl. intuition.
      * simpl. rewrite IH. intuition.
Qed.

Lemma map_get_keys : forall k l, (exists v, map_get k l = Some v) <-> In k (map fst l).
Proof.
  induction l as [|(k', v') l IH]; simpl; [split; [intros (v & H); discriminate|tauto]|].
  destruct (k' =? k) eqn:E.
  - apply Z.eqb_eq in E. split; eauto.
  - apply Z.eqb_neq in E. rewrite IH. split; [auto|]. intros [H|H]; [congruence|auto].
Qed.

Lemma map_get_none : forall k l, map_get k l = None <-> ~ In k (map fst l).
Proof.
  intros. rewrite <- map_get_keys. destruct (map_get k l) as [v|].
  - split; [discriminate|]. intros H. exfalso. apply H. eauto.
  - split; [|reflexivity]. intros _ (v & H). discriminate.
Qed.

Lemma map_del_keys : forall k l q, In q (map fst (map_del k l)) -> In q (map fst l).
Proof.
  induction l as [|(k', v') l IH]; simpl; intros q; [tauto|].
  destruct (k' =? k); simpl; [auto|]. intros [H|H]; auto.
Qed.

Lemma map_del_keys_other : forall k l q, q <> k -> In q (map fst l) -> In q (map fst (map_del k l)).
Proof.
  induction l as [|(k', v') l IH]; simpl; intros q Hq; [tauto|].
  destruct (k' =? k) eqn:E.
  - apply Z.eqb_eq in E. intros [H|H]; [congruence|auto].
  - simpl. intros [H|H]; auto.
Qed.

(** * the table *)
Definition tpids (t : table) : list Z := concat (map jpids t).
Definition parked (m : maps) : list Z := map fst (m_reap m) ++ map fst (m_kill m).
Definition own (t : table) (g p : Z) : Prop := forall j, In j t -> In p (jpids j) -> jgid j = g.

Lemma in_tpids : forall t p, In p (tpids t) <-> exists j, In j t /\ In p (jpids j).
Proof.
  intros. unfold tpids. rewrite in_concat. split.
  - intros (l & Hl & Hp). apply in_map_iff in Hl. destruct Hl as (j & <- & Hj). eauto.
  - intros (j & Hj & Hp). exists (jpids j). split; [apply in_map; auto|auto].
Qed.

Lemma nodup_tpids_own : forall t j0 p, NoDup (tpids t) -> In j0 t -> In p (jpids j0) -> own t (jgid j0) p.
Proof.
  induction t as [|a t IH]; intros j0 p N H0 Hp j Hj Hpj; [destruct H0|].
  unfold tpids in N. simpl in N. apply nodup_app_iff in N. destruct N as (N1 & N2 & N3).
  destruct H0 as [<-|H0], Hj as [<-|Hj]; auto.
  - exfalso. apply (N3 p Hp). apply in_tpids. eauto.
  - exfalso. apply (N3 p Hpj). apply in_tpids. eauto.
  - eapply IH; eauto.
Qed.

(** the effect of remove_pid_from_job on a well-formed table *)
Lemma remove_facts : forall t g p,
  NoDup (map jgid t) -> NoDup (tpids t) -> own t g p ->
  let t' := remove_pid_from_job t g p in
  NoDup (tpids t') /\ (forall q, In q (tpids t') <-> (In q (tpids t) /\ q <> p)) /\
  incl (map jgid t') (map jgid t) /\ NoDup (map jgid t') /\
  (forall j', In j' t' -> exists j, In j t /\ jgid j' = jgid j /\ jstopped j' = jstopped j /\ jst j' = jst j /\
                           incl (jpids j') (jpids j) /\ (jpids j <> [] -> jpids j' <> [])).
Proof.
  intros t g p. rewrite remove_pid_exact.
  induction t as [|a t IH]; intros Ng Np Ho; simpl.
  - split; [constructor|]. split; [intros q; simpl; tauto|]. split; [apply incl_refl|]. split; [constructor|].
    intros j' [].
  - unfold tpids in Np. simpl in Np. apply nodup_app_iff in Np. destruct Np as (N1 & N2 & N3).
    simpl in Ng. inversion Ng as [|? ? Ga Gt]; subst.
    destruct (jgid a =? g) eqn:E.
    + apply Z.eqb_eq in E.
      assert (Pt : ~ In p (tpids t)).
      { intros Hin. apply in_tpids in Hin. destruct Hin as (j & Hj & Hp).
        apply Ga. rewrite E, <- (Ho j (or_intror Hj) Hp). apply in_map; auto. }
      destruct (set_remove_nodup p (jpids a) N1) as (S1 & S2 & S3).
      assert (K1 : NoDup (set_remove p (jpids a) ++ tpids t)).
      { apply nodup_app_iff. repeat split; auto. intros x Hx. apply N3. eapply set_remove_in; eauto. }
      assert (K2 : forall q, In q (set_remove p (jpids a) ++ tpids t) <-> In q (jpids a ++ tpids t) /\ q <> p).
      { intros q. rewrite !in_app_iff. split.
        - intros [H|H].
          + split; [left; eapply set_remove_in; eauto|intros ->; tauto].
          + split; [auto|intros ->; tauto].
        - intros ([H|H] & Hq); [left; apply S3; auto|auto]. }
      destruct (set_remove p (jpids a)) as [|z zs] eqn:R.
      * simpl in K1, K2.
        split; [exact K1|]. split; [exact K2|]. split; [intros x Hx; right; exact Hx|]. split; [exact Gt|].
        intros j' Hj'. exists j'. repeat split; auto using incl_refl; right; auto.
      * unfold tpids. simpl. fold (tpids t).
        split; [exact K1|]. split; [exact K2|]. split; [intros x Hx; exact Hx|].
        split; [constructor; auto|].
        intros j' [<-|Hj'].
        -- exists a. simpl. split; [auto|]. split; [auto|]. split; [auto|]. split; [auto|]. split.
           ++ intros x Hx. eapply set_remove_in. rewrite R. exact Hx.
           ++ intros _ ?; discriminate.
        -- exists j'. repeat split; auto using incl_refl; right; auto.
    + apply Z.eqb_neq in E.
      assert (Pa : ~ In p (jpids a)). { intros Hp. apply E. apply (Ho a); simpl; auto. }
      destruct IH as (I1 & I2 & I3 & I4 & I5); auto.
      { intros j Hj. apply Ho. right; auto. }
      unfold tpids. simpl. fold (tpids t). fold (tpids (remove_spec t g p)).
      split; [|split; [|split; [|split]]].
      * apply nodup_app_iff. repeat split; auto. intros x Hx Hin. apply I2 in Hin. apply (N3 x); tauto.
      * intros q. rewrite !in_app_iff, I2. split.
        -- intros [H|H]; [split; [auto|intros ->; tauto]|tauto].
        -- tauto.
      * intros x [<-|Hx]; [left; auto|right; apply I3; auto].
      * constructor; auto; intros Hin; apply Ga; apply I3; exact Hin.
      * intros j' [<-|Hj'].
        -- exists a. repeat split; auto using incl_refl; left; auto.
        -- destruct (I5 j' Hj') as (j & Hj & R). exists j. split; [right; auto|exact R].
Qed.

(** * the invariant (exit / kill fragment) *)
Definition deadb (C : list ev) (p : Z) : bool := existsb (fun e => ev_pid e =? p) C.
Definition xev (e : ev) : Prop := is_stop_or_cont e = false.

Lemma deadb_snoc : forall C e p, deadb (C ++ [e]) p = deadb C p || (ev_pid e =? p).
Proof. intros. unfold deadb. rewrite existsb_app. simpl. rewrite orb_false_r. reflexivity. Qed.

Record INV (s : shell) (C : list ev) (L : list Z) : Prop := mkINV {
  i_sorted : sorted_from 1 (tab s);
  i_gids : NoDup (map jgid (tab s));
  i_pids : NoDup (tpids (tab s));
  i_jobs : forall j, In j (tab s) ->
             jpids j <> [] /\ jstopped j = [] /\ jst j = Running /\ In (jgid j) L /\ jgid j <> 0;
  i_stop : m_stop (mp s) = [];
  i_cont : m_cont (mp s) = [];
  i_sub : incl (tpids (tab s)) L;
  i_parked : incl (parked (mp s)) L;
  i_evs : forall e, In e C -> In (ev_pid e) L;
  i_live : forall p, In p L ->
             (deadb C p = false <-> (In p (tpids (tab s)) /\ ~ In p (parked (mp s))))
}.

Lemma parked_park : forall m e q, xev e ->
  (In q (parked (park m e)) <-> q = ev_pid e \/ In q (parked m)) /\
  m_stop (park m e) = m_stop m /\ m_cont (park m e) = m_cont m.
Proof.
  intros m e q X. destruct e as [p v|p v|p v|p]; try discriminate; unfold parked; simpl;
    rewrite !in_app_iff, map_put_keys; intuition.
Qed.

(** a status of a process that is not waited for is parked *)
Lemma inv_park : forall s C L e, INV s C L -> xev e -> In (ev_pid e) L ->
  INV (mksh (tab s) (park (mp s) e)) (C ++ [e]) L.
Proof.
  intros s C L e I X Hp. destruct I.
  assert (PP := fun q => parked_park (mp s) e q X).
  constructor; simpl; auto.
  - rewrite (proj1 (proj2 (PP 0))). auto.
  - rewrite (proj2 (proj2 (PP 0))). auto.
  - intros q Hq. apply (PP q) in Hq. destruct Hq as [->|Hq]; auto.
  - intros e' He'. apply in_app_iff in He'. destruct He' as [H|[<-|[]]]; auto.
  - intros p HpL. rewrite deadb_snoc. rewrite (proj1 (PP p)).
    destruct (ev_pid e =? p) eqn:E.
    + apply Z.eqb_eq in E. rewrite orb_true_r. split; [discriminate|]. intros (_ & H). exfalso. apply H. auto.
    + apply Z.eqb_neq in E. rewrite orb_false_r. rewrite (i_live0 p HpL). intuition.
Qed.

(** the exit / kill of a member of the waited job is applied to the table at once *)
Lemma inv_fg : forall s C L e g, INV s C L -> In (ev_pid e) L -> own (tab s) g (ev_pid e) ->
  INV (mksh (mark_job_as_done (tab s) g (ev_pid e)) (mp s)) (C ++ [e]) L.
Proof.
  intros s C L e g I Hp Ho. destruct I. unfold mark_job_as_done.
  destruct (remove_facts (tab s) g (ev_pid e) i_gids0 i_pids0 Ho) as (R1 & R2 & R3 & R4 & R5).
  constructor; simpl; auto.
  - apply remove_pid_sorted; auto.
  - intros j' Hj'. destruct (R5 j' Hj') as (j & Hj & E1 & E2 & E3 & E4 & E5).
    destruct (i_jobs0 j Hj) as (J1 & J2 & J3 & J4 & J5). rewrite E1, E2, E3. auto.
  - intros q Hq. apply R2 in Hq. apply i_sub0. tauto.
  - intros e' He'. apply in_app_iff in He'. destruct He' as [H|[<-|[]]]; auto.
  - intros p HpL. rewrite deadb_snoc, R2.
    destruct (ev_pid e =? p) eqn:E.
    + apply Z.eqb_eq in E. rewrite orb_true_r. split; [discriminate|]. intros ((_ & H) & _). congruence.
    + apply Z.eqb_neq in E. rewrite orb_false_r. rewrite (i_live0 p HpL). intuition.
Qed.

(** the poll applies a parked exit / kill *)
Lemma inv_apply : forall s C L g p m', INV s C L -> In p (parked (mp s)) -> own (tab s) g p ->
  m_stop m' = m_stop (mp s) -> m_cont m' = m_cont (mp s) ->
  (forall q, In q (parked m') -> In q (parked (mp s))) ->
  (forall q, q <> p -> In q (parked (mp s)) -> In q (parked m')) ->
  INV (mksh (mark_job_as_done (tab s) g p) m') C L.
Proof.
  intros s C L g p m' I Hp Ho M1 M2 M3 M4. destruct I. unfold mark_job_as_done.
  destruct (remove_facts (tab s) g p i_gids0 i_pids0 Ho) as (R1 & R2 & R3 & R4 & R5).
  constructor; simpl; auto.
  - apply remove_pid_sorted; auto.
  - intros j' Hj'. destruct (R5 j' Hj') as (j & Hj & E1 & E2 & E3 & E4 & E5).
    destruct (i_jobs0 j Hj) as (J1 & J2 & J3 & J4 & J5). rewrite E1, E2, E3. auto.
  - congruence.
  - congruence.
  - intros q Hq. apply R2 in Hq. apply i_sub0. tauto.
  - intros q Hq. apply i_parked0. auto.
  - intros q HqL. rewrite R2. destruct (Z.eq_dec q p) as [->|N].
    + assert (D : deadb C p <> false).
      { intros D. apply (i_live0 p HqL) in D. tauto. }
      split; [intros; congruence|]. intros ((_ & H) & _). congruence.
    + rewrite (i_live0 q HqL). split.
      * intros (A & B). split; [tauto|]. intros H. apply B. auto.
      * intros ((A & _) & B). split; [auto|]. intros H. apply B. auto.
Qed.

Lemma nodup_insert_mid : forall (A : Type) (a m b : list A),
  NoDup (a ++ b) -> NoDup m -> (forall x, In x m -> ~ In x (a ++ b)) -> NoDup (a ++ m ++ b).
Proof.
  intros A a m b H Hm Hd. apply nodup_app_iff in H. destruct H as (H1 & H2 & H3).
  apply nodup_app_iff. split; [auto|]. split.
  - apply nodup_app_iff. repeat split; auto. intros x Hx Hb. apply (Hd x Hx). apply in_app_iff; auto.
  - intros x Hx Hin. apply in_app_iff in Hin. destruct Hin as [Hin|Hin].
    + apply (Hd x Hin). apply in_app_iff; auto.
    + apply (H3 x); auto.
Qed.

Lemma tpids_app : forall a b, tpids (a ++ b) = tpids a ++ tpids b.
Proof. intros. unfold tpids. rewrite map_app, concat_app. reflexivity. Qed.

Lemma deadb_true : forall C p, deadb C p = true -> exists e, In e C /\ ev_pid e = p.
Proof.
  intros C p H. unfold deadb in H. apply existsb_exists in H. destruct H as (e & He & E).
  apply Z.eqb_eq in E. eauto.
Qed.

(** launching a job of fresh processes *)
Lemma inv_launch : forall s C L L' p0 P bg,
  INV s C L -> NoDup (p0 :: P) -> (forall p, In p (p0 :: P) -> ~ In p L /\ 0 < p) ->
  (forall x, In x L' <-> In x (p0 :: P) \/ In x L) ->
  INV (mksh (launch (tab s) p0 (p0 :: P) bg) (mp s)) C L' /\
  exists k, In (mkjob k p0 (p0 :: P) [] Running bg) (launch (tab s) p0 (p0 :: P) bg).
Proof.
  intros s C L L' p0 P bg I Hn Hf HL. destruct I.
  assert (Hg : forall j, In j (tab s) -> jgid j <> p0).
  { intros j Hj E. destruct (i_jobs0 j Hj) as (_ & _ & _ & J4 & _). rewrite E in J4.
    apply (Hf p0); simpl; auto. }
  destruct (launch_decomp (tab s) p0 p0 P bg i_sorted0 Hg) as (k & t1 & t2 & A & B).
  set (PP := p0 :: P) in *. set (J := mkjob k p0 PP [] Running bg) in *.
  assert (Hfresh : forall x, In x PP -> ~ In x (tpids t1 ++ tpids t2)).
  { intros x Hx Hin. rewrite <- tpids_app, <- A in Hin. apply (Hf x Hx). auto. }
  assert (Tp : tpids (t1 ++ J :: t2) = tpids t1 ++ PP ++ tpids t2).
  { rewrite tpids_app. unfold tpids at 2. simpl. reflexivity. }
  assert (Tin : forall q, In q (tpids (t1 ++ J :: t2)) <-> In q PP \/ In q (tpids (tab s))).
  { intros q. rewrite Tp, A, tpids_app, !in_app_iff. tauto. }
  split; [|exists k; rewrite B; apply in_app_iff; right; left; reflexivity].
  rewrite B. constructor; simpl; auto.
  - rewrite <- B. unfold launch. apply (fold_inv _ _ (sorted_from 1)); [|exact i_sorted0].
    intros; apply insert_job_from_sorted; assumption.
  - rewrite map_app. simpl. apply (nodup_insert_mid _ (map jgid t1) [p0] (map jgid t2)).
    + rewrite <- map_app, <- A. exact i_gids0.
    + repeat constructor. intros [].
    + intros x [<-|[]] Hin. rewrite <- map_app, <- A in Hin. apply in_map_iff in Hin.
      destruct Hin as (j & E & Hj). apply (Hg j Hj E).
  - rewrite Tp. apply nodup_insert_mid; auto. rewrite <- tpids_app, <- A. exact i_pids0.
  - intros j Hj. apply in_app_iff in Hj. simpl in Hj.
    assert (Old : In j (tab s) -> jpids j <> [] /\ jstopped j = [] /\ jst j = Running /\ In (jgid j) L' /\ jgid j <> 0).
    { intros H. destruct (i_jobs0 j H) as (J1 & J2 & J3 & J4 & J5). repeat split; auto. apply HL. auto. }
    destruct Hj as [Hj|[<-|Hj]].
    + apply Old. rewrite A. apply in_app_iff; auto.
    + simpl. repeat split; auto; try discriminate.
      * apply HL. left. simpl; auto.
      * destruct (Hf p0) as (_ & H); [simpl; auto|lia].
    + apply Old. rewrite A. apply in_app_iff; auto.
  - intros q Hq. apply Tin in Hq. apply HL. destruct Hq; [auto|right; apply i_sub0; auto].
  - intros q Hq. apply HL. right. apply i_parked0; auto.
  - intros e He. apply HL. right. auto.
  - intros p Hp. rewrite Tin. apply HL in Hp. destruct Hp as [Hp|Hp].
    + destruct (Hf p Hp) as (F1 & _). split.
      * intros _. split; [auto|]. intros H. apply F1. apply i_parked0; auto.
      * intros _. destruct (deadb C p) eqn:D; [|reflexivity].
        apply deadb_true in D. destruct D as (e & He & <-). exfalso. apply F1. auto.
    + rewrite (i_live0 p Hp). split.
      * intros (H1 & H2). auto.
      * intros ([H1|H1] & H2); [exfalso; apply (Hf p H1); auto|auto].
Qed.

(** * the prompt-time poll *)
Lemma inv_park_all : forall L q s C, INV s C L -> (forall e, In e q -> xev e /\ In (ev_pid e) L) ->
  INV (mksh (tab s) (handle_sigchld (mp s) q)) (C ++ q) L.
Proof.
  intros L. induction q as [|e q IH]; intros s C I Hq; simpl.
  - rewrite app_nil_r. destruct s; exact I.
  - destruct (Hq e (or_introl eq_refl)) as (X & Hp).
    pose proof (inv_park s C L e I X Hp) as I1.
    specialize (IH (mksh (tab s) (park (mp s) e)) (C ++ [e]) I1 (fun e' H => Hq e' (or_intror H))).
    simpl in IH. rewrite <- app_assoc in IH. exact IH.
Qed.

Definition flat (t : table) : list (Z * Z) := concat (map (fun j => map (pair (jgid j)) (jpids j)) t).
Definition poll_pair (s : shell) (gp : Z * Z) : shell := poll_pid (fst gp) s (snd gp).

Lemma poll_flat : forall snap s, fold_left poll_job snap s = fold_left poll_pair (flat snap) s.
Proof.
  induction snap as [|j r IH]; intros s; [reflexivity|].
  unfold flat. simpl. fold (flat r). rewrite fold_left_app, <- IH. f_equal.
  unfold poll_job. generalize (jpids j) s. induction l as [|p l IHl]; intros s0; [reflexivity|].
  simpl. apply IHl.
Qed.

Definition Kinv (C : list ev) (L : list Z) (s : shell) (todo : list (Z * Z)) : Prop :=
  INV s C L /\ (forall gp, In gp todo -> own (tab s) (fst gp) (snd gp)) /\
  (forall p, In p (tpids (tab s)) -> In p (map snd todo) \/ ~ In p (parked (mp s))).

Lemma own_remove : forall t g0 p0 g p, NoDup (map jgid t) -> NoDup (tpids t) -> own t g0 p0 ->
  own t g p -> own (remove_pid_from_job t g0 p0) g p.
Proof.
  intros t g0 p0 g p N1 N2 O0 O j' Hj' Hp.
  destruct (remove_facts t g0 p0 N1 N2 O0) as (_ & _ & _ & _ & R5).
  destruct (R5 j' Hj') as (j & Hj & E1 & _ & _ & E4 & _). rewrite E1. apply O; auto.
Qed.

Lemma poll_step : forall C L g p todo s, Kinv C L s ((g, p) :: todo) -> Kinv C L (poll_pid g s p) todo.
Proof.
  intros C L g p todo s (I & O & D).
  assert (Og : own (tab s) g p) by (apply (O (g, p)); simpl; auto).
  assert (Apply : forall m', In p (parked (mp s)) ->
            m_stop m' = m_stop (mp s) -> m_cont m' = m_cont (mp s) ->
            (forall q, In q (parked m') -> In q (parked (mp s))) ->
            (forall q, q <> p -> In q (parked (mp s)) -> In q (parked m')) ->
            Kinv C L (mksh (mark_job_as_done (tab s) g p) m') todo).
  { intros m' Hp M1 M2 M3 M4. split; [apply inv_apply; auto|]. split.
    - intros gp Hgp. simpl. unfold mark_job_as_done. apply own_remove; try apply I; auto.
      apply O. simpl; auto.
    - intros q Hq. simpl in *. unfold mark_job_as_done in Hq.
      destruct (remove_facts (tab s) g p (i_gids _ _ _ I) (i_pids _ _ _ I) Og) as (_ & R2 & _).
      apply R2 in Hq. destruct Hq as (Hq & Nq). destruct (D q Hq) as [[E|H]|H].
      + simpl in E. congruence.
      + auto.
      + right. intros H'. apply H. auto. }
  unfold poll_pid.
  destruct (map_get p (m_reap (mp s))) as [v|] eqn:R.
  - apply Apply; simpl; auto.
    + unfold parked. apply in_app_iff. left. apply map_get_keys. eauto.
    + intros q. unfold parked; simpl. rewrite !in_app_iff. intros [H|H]; [left; eapply map_del_keys; eauto|auto].
    + intros q Nq. unfold parked; simpl. rewrite !in_app_iff. intros [H|H]; [left; apply map_del_keys_other; auto|auto].
  - destruct (map_get p (m_kill (mp s))) as [v|] eqn:Kk.
    + apply Apply; simpl; auto.
      * unfold parked. apply in_app_iff. right. apply map_get_keys. eauto.
      * intros q. unfold parked; simpl. rewrite !in_app_iff. intros [H|H]; [auto|right; eapply map_del_keys; eauto].
      * intros q Nq. unfold parked; simpl. rewrite !in_app_iff. intros [H|H]; [auto|right; apply map_del_keys_other; auto].
    + rewrite (i_stop _ _ _ I), (i_cont _ _ _ I). simpl.
      split; [exact I|]. split; [intros gp Hgp; apply O; simpl; auto|].
      intros q Hq. destruct (D q Hq) as [[E|H]|H]; auto.
      simpl in E. subst q. right. unfold parked. rewrite in_app_iff.
      apply map_get_none in R. apply map_get_none in Kk. tauto.
Qed.

Lemma poll_pairs : forall C L todo s, Kinv C L s todo -> Kinv C L (fold_left poll_pair todo s) [].
Proof.
  intros C L. induction todo as [|(g, p) todo IH]; intros s K; [exact K|].
  simpl. apply IH. unfold poll_pair. simpl. apply poll_step. exact K.
Qed.

Lemma flat_own : forall t gp, NoDup (tpids t) -> In gp (flat t) -> own t (fst gp) (snd gp) /\ In (snd gp) (tpids t).
Proof.
  intros t gp N H. unfold flat in H. apply in_concat in H. destruct H as (l & Hl & Hgp).
  apply in_map_iff in Hl. destruct Hl as (j & <- & Hj). apply in_map_iff in Hgp.
  destruct Hgp as (p & <- & Hp). simpl. split; [apply nodup_tpids_own; auto|apply in_tpids; eauto].
Qed.

Lemma flat_all : forall t p, In p (tpids t) -> In p (map snd (flat t)).
Proof.
  intros t p H. apply in_tpids in H. destruct H as (j & Hj & Hp).
  apply in_map_iff. exists (jgid j, p). split; [reflexivity|].
  unfold flat. apply in_concat. exists (map (pair (jgid j)) (jpids j)). split.
  - apply in_map_iff. exists j. auto.
  - apply in_map. exact Hp.
Qed.

Theorem inv_poll : forall s C L q, INV s C L -> (forall e, In e q -> xev e /\ In (ev_pid e) L) ->
  exists C', C ++ q = C' ++ snd (try_wait_bg_jobs s q) /\
    INV (fst (try_wait_bg_jobs s q)) C' L /\
    (snd (try_wait_bg_jobs s q) = [] ->
       forall p, In p (tpids (tab (fst (try_wait_bg_jobs s q)))) -> ~ In p (parked (mp (fst (try_wait_bg_jobs s q))))).
Proof.
  intros s C L q I Hq. unfold try_wait_bg_jobs.
  destruct (tab s) as [|j0 t0] eqn:E.
  - exists C. simpl. split; [reflexivity|]. split; [exact I|]. intros _ p Hp. rewrite E in Hp. destruct Hp.
  - rewrite <- E. simpl. exists (C ++ q). split; [rewrite app_nil_r; reflexivity|].
    pose proof (inv_park_all L q s C I Hq) as I1.
    set (s1 := mksh (tab s) (handle_sigchld (mp s) q)) in *.
    assert (K : Kinv (C ++ q) L s1 (flat (tab s))).
    { split; [exact I1|]. split.
      - intros gp Hgp. apply (flat_own (tab s) gp (i_pids _ _ _ I) Hgp).
      - intros p Hp. left. apply flat_all. exact Hp. }
    rewrite poll_flat. apply poll_pairs in K. destruct K as (K1 & _ & K3).
    split; [exact K1|]. intros _ p Hp. destruct (K3 p Hp) as [[]|H]; exact H.
Qed.

(** * the foreground wait *)
Definition fgdead (C : list ev) (P : list Z) : nat := length (filter (deadb C) P).

Fixpoint alive_seq (C : list ev) (q : list ev) : Prop :=
  match q with [] => True | e :: r => deadb C (ev_pid e) = false /\ alive_seq (C ++ [e]) r end.

Lemma last_status_snoc : forall C e x,
  last_status (C ++ [e]) x = if (ev_pid e =? x) && negb (is_cont e) then ev_status e else last_status C x.
Proof. intros. unfold last_status. rewrite fold_left_app. reflexivity. Qed.

Lemma filter_count : forall (f f' : Z -> bool) P p, NoDup P -> In p P -> f p = false -> f' p = true ->
  (forall x, x <> p -> f' x = f x) -> length (filter f' P) = S (length (filter f P)).
Proof.
  induction P as [|a r IH]; intros p N Hin F F' Hx; [destruct Hin|].
  inversion N as [|? ? Ha Hr]; subst. simpl. destruct (Z.eq_dec a p) as [->|Na].
  - rewrite F, F'. simpl. f_equal. f_equal. apply filter_ext_in. intros x Hxr. apply Hx. intros ->. tauto.
  - destruct Hin as [E|Hin]; [congruence|]. rewrite (Hx a Na).
    destruct (f a); simpl; rewrite (IH p Hr Hin F F' Hx); reflexivity.
Qed.

Lemma fgdead_snoc_notin : forall C e P, ~ In (ev_pid e) P -> fgdead (C ++ [e]) P = fgdead C P.
Proof.
  intros C e P H. unfold fgdead. f_equal. apply filter_ext_in. intros x Hx. rewrite deadb_snoc.
  destruct (ev_pid e =? x) eqn:E; [apply Z.eqb_eq in E; congruence|apply orb_false_r].
Qed.

Lemma fgdead_snoc_in : forall C e P, NoDup P -> In (ev_pid e) P -> deadb C (ev_pid e) = false ->
  fgdead (C ++ [e]) P = S (fgdead C P).
Proof.
  intros C e P N Hin D. unfold fgdead. apply (filter_count _ _ P (ev_pid e)); auto.
  - rewrite deadb_snoc, Z.eqb_refl. apply orb_true_r.
  - intros x Hx. rewrite deadb_snoc. destruct (ev_pid e =? x) eqn:E; [apply Z.eqb_eq in E; congruence|apply orb_false_r].
Qed.

Definition wait_post (L : list Z) (g : Z) (P : list Z) (plast : Z) (n : nat) (q : list ev) (C : list ev) (w : wres) : Prop :=
  exists c', q = c' ++ w_left w /\ INV (w_sh w) (C ++ c') L /\
    w_status w = last_status (C ++ c') plast /\
    (w_blocked w = true -> w_left w = [] /\ (fgdead (C ++ c') P < n)%nat) /\
    (w_blocked w = false -> (n <= fgdead (C ++ c') P)%nat /\
       exists c'' e, c' = c'' ++ [e] /\ In (ev_pid e) P /\ deadb (C ++ c'') (ev_pid e) = false).

Lemma wait_loop_inv : forall L g P plast n, NoDup P -> In plast P ->
  forall q s C cnt st,
  INV s C L -> (forall p, In p P -> own (tab s) g p) ->
  (forall e, In e q -> xev e /\ In (ev_pid e) L) -> alive_seq C q ->
  cnt = fgdead C P -> (cnt < n)%nat -> st = last_status C plast ->
  wait_post L g P plast n q C (wait_loop q s g P plast n cnt st).
Proof.
  intros L g P plast n NP Hlast.
  induction q as [|e q IH]; intros s C cnt st I O Hq Ha Hc Hn Hst.
  - simpl. exists []. simpl. rewrite app_nil_r. split; [reflexivity|]. split; [exact I|]. split; [exact Hst|].
    split; [intros _; split; [reflexivity|subst; exact Hn]|discriminate].
  - destruct (Hq e (or_introl eq_refl)) as (X & HpL). destruct Ha as (Ha1 & Ha2).
    assert (Hq' : forall e0, In e0 q -> xev e0 /\ In (ev_pid e0) L) by (intros; apply Hq; simpl; auto).
    cbn [wait_loop].
    destruct (memZ (ev_pid e) P) eqn:M.
    + (* a member of the waited job *)
      apply memZ_in in M.
      assert (I1 : INV (mksh (mark_job_as_done (tab s) g (ev_pid e)) (mp s)) (C ++ [e]) L)
        by (apply inv_fg; auto).
      assert (O1 : forall p, In p P -> own (tab (mksh (mark_job_as_done (tab s) g (ev_pid e)) (mp s))) g p).
      { intros p Hp. simpl. unfold mark_job_as_done. apply own_remove; try apply I; auto. }
      assert (Hc1 : S cnt = fgdead (C ++ [e]) P) by (rewrite fgdead_snoc_in; auto).
      assert (Hst1 : (if (ev_pid e =? plast) then ev_status e else st) = last_status (C ++ [e]) plast).
      { rewrite last_status_snoc. destruct e; try discriminate; simpl; rewrite Hst; rewrite andb_true_r; reflexivity. }
      destruct e as [p v|p v|p v|p]; try discriminate; cbn [ev_pid is_cont negb andb] in *;
        (destruct (n <=? S cnt)%nat eqn:Le;
         [ apply Nat.leb_le in Le;
           eexists [_]; cbn [w_left w_sh w_status w_blocked app]; split; [reflexivity|];
           split; [exact I1|]; split; [exact Hst1|]; split; [discriminate|];
           intros _; split; [lia|]; eexists [], _; split; [reflexivity|]; split; [exact M|];
           rewrite app_nil_r; exact Ha1
         | apply Nat.leb_gt in Le;
           destruct (IH _ _ _ _ I1 O1 Hq' Ha2 Hc1 Le Hst1) as (c' & E1 & E2 & E3 & E4 & E5);
           eexists (_ :: c'); split; [cbn [app]; rewrite <- E1; reflexivity|];
           rewrite <- app_assoc in E2, E3, E4, E5; cbn [app] in E2, E3, E4, E5;
           split; [exact E2|]; split; [exact E3|]; split; [exact E4|];
           intros B; destruct (E5 B) as (F1 & c'' & e' & F2 & F3 & F4); split; [exact F1|];
           eexists (_ :: c''), e'; split; [rewrite F2; reflexivity|]; split; [exact F3|];
           rewrite <- app_assoc in F4; exact F4 ]).
    + (* another process: parked *)
      apply memZ_false in M.
      assert (I1 : INV (mksh (tab s) (park (mp s) e)) (C ++ [e]) L) by (apply inv_park; auto).
      assert (Hc1 : cnt = fgdead (C ++ [e]) P) by (rewrite fgdead_snoc_notin; auto).
      assert (Hst1 : st = last_status (C ++ [e]) plast).
      { rewrite last_status_snoc. destruct (ev_pid e =? plast) eqn:E; [apply Z.eqb_eq in E; congruence|]. exact Hst. }
      assert (Le : (n <=? cnt)%nat = false) by (apply Nat.leb_gt; exact Hn).
      destruct e as [p v|p v|p v|p]; try discriminate; cbn [ev_pid is_cont negb andb] in *;
        rewrite Le;
        (destruct (IH _ _ _ _ I1 O Hq' Ha2 Hc1 Hn Hst1) as (c' & E1 & E2 & E3 & E4 & E5);
         eexists (_ :: c'); split; [cbn [app]; rewrite <- E1; reflexivity|];
         rewrite <- app_assoc in E2, E3, E4, E5; cbn [app] in E2, E3, E4, E5;
         split; [exact E2|]; split; [exact E3|]; split; [exact E4|];
         intros B; destruct (E5 B) as (F1 & c'' & e' & F2 & F3 & F4); split; [exact F1|];
         eexists (_ :: c''), e'; split; [rewrite F2; reflexivity|]; split; [exact F3|];
         rewrite <- app_assoc in F4; exact F4).
Qed.

(** * from the bookkeeping of [valid] to the invariant *)
Lemma nodupb_nodup : forall l, nodupb l = true -> NoDup l.
Proof.
  induction l as [|a l IH]; simpl; intros H; [constructor|].
  apply andb_prop in H. destruct H as (H1 & H2). constructor; [|auto].
  apply negb_true_iff in H1. apply memZ_false in H1. exact H1.
Qed.

Lemma list_eqb_eq : forall a b, list_eqb a b = true -> a = b.
Proof.
  induction a as [|x a IH]; destruct b as [|y b]; simpl; intros H; try discriminate; [reflexivity|].
  apply andb_prop in H. destruct H as (H1 & H2). apply Z.eqb_eq in H1. f_equal; auto.
Qed.

Definition xonly (l : list ev) : Prop := forall e, In e l -> xev e.

Lemma pst_in_snoc : forall D e p, pst_in (D ++ [e]) p = if ev_pid e =? p then ev_effect e else pst_in D p.
Proof. intros. unfold pst_in. rewrite fold_left_app. reflexivity. Qed.

Lemma pst_xonly : forall D p, xonly D -> pst_in D p = if deadb D p then PD else PR.
Proof.
  induction D as [|e D IH] using rev_ind; intros p X; [reflexivity|].
  rewrite pst_in_snoc, deadb_snoc. rewrite IH by (intros e' H; apply X; apply in_app_iff; auto).
  assert (Xe : xev e) by (apply X; apply in_app_iff; simpl; auto).
  destruct (ev_pid e =? p).
  - rewrite orb_true_r. destruct e; try discriminate; reflexivity.
  - rewrite orb_false_r. reflexivity.
Qed.

Lemma deadb_false_notin : forall D p, deadb D p = false <-> ~ In p (map ev_pid D).
Proof.
  intros D p. split.
  - intros H Hin. apply in_map_iff in Hin. destruct Hin as (e & E & He).
    assert (deadb D p = true); [|congruence].
    unfold deadb. apply existsb_exists. exists e. split; [auto|apply Z.eqb_eq; auto].
  - intros H. destruct (deadb D p) eqn:E; [|reflexivity]. apply deadb_true in E.
    destruct E as (e & He & <-). exfalso. apply H. apply in_map; auto.
Qed.

Lemma evs_ok_facts : forall seen evs D, evs_ok seen D evs = true -> xonly (D ++ evs) ->
  NoDup (map ev_pid D) -> NoDup (map ev_pid (D ++ evs)) /\ forall e, In e evs -> In (ev_pid e) seen.
Proof.
  intros seen. induction evs as [|e evs IH]; intros D H X N.
  - rewrite app_nil_r. split; [auto|intros e []].
  - cbn [evs_ok] in H. apply andb_prop in H. destruct H as (H1 & H2). unfold ev_ok in H1. apply andb_prop in H1.
    destruct H1 as (H1 & H3). apply memZ_in in H1.
    assert (Xe : xev e) by (apply X; apply in_app_iff; simpl; auto).
    assert (XD : xonly D) by (intros e' He'; apply X; apply in_app_iff; auto).
    assert (Dd : deadb D (ev_pid e) = false).
    { destruct e; try discriminate; rewrite (pst_xonly D _ XD) in H3;
        (destruct (deadb D _); [discriminate|reflexivity]). }
    assert (N1 : NoDup (map ev_pid (D ++ [e]))).
    { rewrite map_app. simpl. apply nodup_app_iff. repeat split; auto.
      - repeat constructor. intros [].
      - intros x Hx [<-|[]]. apply deadb_false_notin in Dd. tauto. }
    replace (D ++ e :: evs) with ((D ++ [e]) ++ evs) in * by (rewrite <- app_assoc; reflexivity).
    destruct (IH (D ++ [e]) H2 X N1) as (I1 & I2). split; [exact I1|].
    intros e' [<-|He']; auto.
Qed.

Lemma alive_of_nodup : forall q C, NoDup (map ev_pid (C ++ q)) -> alive_seq C q.
Proof.
  induction q as [|e q IH]; intros C N; simpl; [exact I|].
  replace (C ++ e :: q) with ((C ++ [e]) ++ q) in N by (rewrite <- app_assoc; reflexivity).
  split; [|apply IH; exact N].
  apply deadb_false_notin. rewrite !map_app in N. apply nodup_app_iff in N. destruct N as (N & _ & _).
  apply nodup_app_iff in N. destruct N as (_ & _ & N). intros Hin. apply (N _ Hin). simpl; auto.
Qed.

Lemma last_status_none : forall C x, ~ In x (map ev_pid C) -> last_status C x = 0.
Proof.
  induction C as [|e C IH] using rev_ind; intros x H; [reflexivity|].
  rewrite last_status_snoc. rewrite map_app, in_app_iff in H. simpl in H.
  destruct (ev_pid e =? x) eqn:E; [apply Z.eqb_eq in E; tauto|]. simpl. apply IH. tauto.
Qed.

Lemma fgdead_zero : forall C P, (forall p, In p P -> deadb C p = false) -> fgdead C P = 0%nat.
Proof.
  intros C P H. unfold fgdead. induction P as [|a P IH]; [reflexivity|]. simpl.
  rewrite (H a) by (simpl; auto). apply IH. intros p Hp. apply H. simpl; auto.
Qed.

Lemma filter_le : forall (f : Z -> bool) P, (length (filter f P) <= length P)%nat.
Proof. induction P as [|a P IH]; simpl; [lia|]. destruct (f a); simpl; lia. Qed.

Lemma filter_full : forall (f : Z -> bool) P, (length P <= length (filter f P))%nat -> forall p, In p P -> f p = true.
Proof.
  induction P as [|a P IH]; simpl; intros H p Hp; [destruct Hp|].
  pose proof (filter_le f P). destruct (f a) eqn:E; simpl in H; [|lia].
  destruct Hp as [<-|Hp]; [exact E|]. apply IH; [lia|exact Hp].
Qed.

Lemma filter_short : forall (f : Z -> bool) P, (length (filter f P) < length P)%nat -> exists p, In p P /\ f p = false.
Proof.
  induction P as [|a P IH]; simpl; intros H; [lia|].
  destruct (f a) eqn:E; simpl in H.
  - destruct IH as (p & Hp & Fp); [lia|]. exists p. auto.
  - exists a. auto.
Qed.

Lemma consumed_eq : forall h C, all_events h = C ++ r_pend (run h) -> consumed h = C.
Proof.
  intros h C H. unfold consumed. rewrite H, app_length.
  replace (length C + length (r_pend (run h)) - length (r_pend (run h)))%nat with (length C) by lia.
  rewrite firstn_app, Nat.sub_diag, firstn_all. simpl. apply app_nil_r.
Qed.

Lemma in_table_in : forall p t, in_table p t = true <-> In p (tpids t).
Proof.
  intros p t. unfold in_table. rewrite existsb_exists, in_tpids. split.
  - intros (j & Hj & M). apply memZ_in in M. eauto.
  - intros (j & Hj & M). exists j. split; [auto|apply memZ_in; auto].
Qed.

(** goodness of the table once nothing is parked for a member of a job *)
Lemma good_table_of : forall s C L,
  INV s C L -> xonly C -> (forall p, In p (tpids (tab s)) -> ~ In p (parked (mp s))) ->
  forallb (fun p => match pst_in C p with
                    | PD => negb (in_table p (tab s))
                    | PR => in_table p (tab s) && negb (view_stopped p (tab s))
                    | PS => in_table p (tab s) && view_stopped p (tab s)
                    end) L
  && forallb (fun j =>
        let live := filter (fun p => negb (pstate_eqb (pst_in C p) PD)) (jpids j) in
        negb (match live with [] => true | _ => false end) &&
        Bool.eqb (match jst j with Stopped => true | Running => false end)
                 (forallb (fun p => pstate_eqb (pst_in C p) PS) live)) (tab s) = true.
Proof.
  intros s C L I X Dn. apply andb_true_intro. split; apply forallb_forall.
  - intros p Hp. rewrite (pst_xonly C p X). pose proof (i_live _ _ _ I p Hp) as Lv.
    destruct (deadb C p) eqn:D.
    + apply negb_true_iff. destruct (in_table p (tab s)) eqn:T; [|reflexivity].
      apply in_table_in in T. exfalso. assert (true = false); [|discriminate].
      apply Lv. split; [exact T|apply Dn; exact T].
    + destruct (proj1 Lv eq_refl) as (T & _). rewrite (proj2 (in_table_in _ _) T). simpl.
      apply negb_true_iff. unfold view_stopped. destruct (existsb _ (tab s)) eqn:Ex; [|reflexivity].
      apply existsb_exists in Ex. destruct Ex as (j & Hj & M). apply andb_prop in M. destruct M as (_ & M).
      destruct (i_jobs _ _ _ I j Hj) as (_ & J2 & _). rewrite J2 in M. discriminate.
  - intros j Hj. destruct (i_jobs _ _ _ I j Hj) as (J1 & J2 & J3 & _).
    assert (Al : forall p, In p (jpids j) -> pst_in C p = PR).
    { intros p Hp. rewrite (pst_xonly C p X).
      assert (T : In p (tpids (tab s))) by (apply in_tpids; eauto).
      rewrite (proj2 (i_live _ _ _ I p (i_sub _ _ _ I p T))); [reflexivity|]. split; [exact T|apply Dn; exact T]. }
    assert (F : filter (fun p => negb (pstate_eqb (pst_in C p) PD)) (jpids j) = jpids j).
    { clear J1. induction (jpids j) as [|a l IHl]; [reflexivity|]. simpl. rewrite (Al a) by (simpl; auto). simpl.
      f_equal. apply IHl. intros p Hp. apply Al. simpl; auto. }
    cbv zeta. rewrite F, J3. destruct (jpids j) as [|a l] eqn:E; [congruence|]. simpl.
    rewrite (Al a) by (simpl; auto). reflexivity.
Qed.

(** * the induction over histories *)
Lemma run_snoc : forall h o, run (h ++ [o]) = step (run h) o.
Proof. intros. unfold run. rewrite fold_left_app. reflexivity. Qed.
Lemma vrun_snoc : forall h o, vrun (h ++ [o]) = vnext (vrun h) o.
Proof. intros. unfold vrun. rewrite fold_left_app. reflexivity. Qed.
Lemma valid_from_snoc : forall h v o, valid_from v (h ++ [o]) = valid_from v h && vcheck (fold_left vnext h v) o.
Proof.
  induction h as [|a h IH]; intros v o; simpl; [rewrite andb_true_r; reflexivity|].
  rewrite IH, andb_assoc. reflexivity.
Qed.
Lemma valid_snoc : forall h o, valid (h ++ [o]) = valid h && vcheck (vrun h) o.
Proof. intros. apply valid_from_snoc. Qed.
Lemma all_events_snoc : forall h o, all_events (h ++ [o]) = all_events h ++ op_events o.
Proof. intros. unfold all_events. rewrite map_app, concat_app. simpl. rewrite app_nil_r. reflexivity. Qed.
Lemma launched_snoc : forall h o, launched (h ++ [o]) =
  launched h ++ match o with Launch _ pids _ => pids | _ => [] end.
Proof. intros. unfold launched. rewrite map_app, concat_app. simpl. rewrite app_nil_r. reflexivity. Qed.

Definition GI (h : list op) : Prop :=
  exists C,
    all_events h = C ++ r_pend (run h) /\
    INV (r_sh (run h)) C (launched h) /\
    v_deliv (vrun h) = all_events h /\
    (forall x, In x (v_seen (vrun h)) <-> In x (launched h)) /\
    (forall e, In e (all_events h) -> In (ev_pid e) (launched h)) /\
    NoDup (map ev_pid (all_events h)) /\
    match v_expect (vrun h) with
    | None => True
    | Some (g, P) => NoDup P /\ P <> [] /\ (forall p, In p P -> ~ In p (map ev_pid (all_events h))) /\
                     exists k bg, In (mkjob k g P [] Running bg) (tab (r_sh (run h)))
    end.

Lemma inv_empty : INV empty_shell [] [].
Proof.
  constructor; simpl.
  - exact I.
  - constructor.
  - constructor.
  - intros j [].
  - reflexivity.
  - reflexivity.
  - intros x [].
  - intros x [].
  - intros e [].
  - intros p [].
Qed.

Lemma gi_nil : GI [].
Proof.
  exists []. split; [reflexivity|]. split; [exact inv_empty|]. split; [reflexivity|].
  split; [intros x; simpl; tauto|]. split; [intros e []|]. split; [constructor|exact I].
Qed.

Lemma xonly_app : forall a b, xonly (a ++ b) -> xonly a /\ xonly b.
Proof. intros a b H. split; intros e He; apply H; apply in_app_iff; auto. Qed.

Lemma exit_only_xonly : forall h, exit_only h = true -> xonly (all_events h).
Proof.
  intros h H e He. unfold exit_only in H. rewrite forallb_forall in H. specialize (H e He).
  apply negb_true_iff in H. exact H.
Qed.

(** the events an operation adds: still one status per process, all for launched processes *)
Lemma gi_events : forall h evs, GI h -> xonly (all_events h ++ evs) ->
  evs_ok (v_seen (vrun h)) (v_deliv (vrun h)) evs = true ->
  NoDup (map ev_pid (all_events h ++ evs)) /\
  forall e, In e (all_events h ++ evs) -> In (ev_pid e) (launched h).
Proof.
  intros h evs (C & G1 & G2 & G3 & G4 & G5 & G6 & G7) X Ok. rewrite G3 in Ok.
  destruct (evs_ok_facts _ _ _ Ok X G6) as (N & S). split; [exact N|].
  intros e He. apply in_app_iff in He. destruct He as [He|He]; [auto|apply G4; auto].
Qed.

Theorem gi_step : forall h o, GI h -> vcheck (vrun h) o = true -> xonly (all_events (h ++ [o])) ->
  GI (h ++ [o]) /\ good (h ++ [o]) = true.
Proof.
  intros h o G V X. pose proof G as (C & G1 & G2 & G3 & G4 & G5 & G6 & G7).
  rewrite all_events_snoc in X.
  unfold good. rewrite last_last.
  destruct o as [gid pids bg|gid pids evs|evs].
  - (* Launch *)
    split; [|reflexivity].
    cbn [vcheck] in V. apply andb_prop in V. destruct V as (V & V4). apply andb_prop in V. destruct V as (V & V3).
    apply andb_prop in V. destruct V as (V1 & V2).
    destruct (v_expect (vrun h)) eqn:Ex; [discriminate|].
    destruct pids as [|p0 P]; [discriminate|]. apply Z.eqb_eq in V2. subst gid.
    rewrite forallb_forall in V3. apply nodupb_nodup in V4.
    assert (Fr : forall p, In p (p0 :: P) -> ~ In p (launched h) /\ 0 < p).
    { intros p Hp. specialize (V3 p Hp). apply andb_prop in V3. destruct V3 as (A & B).
      apply Z.ltb_lt in A. apply negb_true_iff in B. apply memZ_false in B. rewrite G4 in B. auto. }
    destruct (inv_launch (r_sh (run h)) C (launched h) (launched (h ++ [Launch p0 (p0 :: P) bg])) p0 P bg G2 V4 Fr)
      as (I' & k & Hk).
    { intros x. rewrite launched_snoc, in_app_iff. tauto. }
    exists C. rewrite run_snoc, vrun_snoc, all_events_snoc. cbn [step vnext r_sh r_pend op_events v_deliv v_seen v_expect].
    rewrite app_nil_r. split; [exact G1|]. split; [exact I'|]. split; [exact G3|]. split.
    { intros x. rewrite launched_snoc, !in_app_iff, G4. tauto. }
    split. { intros e He. rewrite launched_snoc. apply in_app_iff. left. auto. }
    split; [exact G6|].
    destruct bg; [exact I|]. split; [exact V4|]. split; [discriminate|]. split.
    + intros p Hp Hin. apply in_map_iff in Hin. destruct Hin as (e & E & He). apply (Fr p Hp). rewrite <- E. auto.
    + exists k, false. exact Hk.
  - (* Wait *)
    cbn [vcheck] in V. apply andb_prop in V. destruct V as (V & V3). apply andb_prop in V. destruct V as (V1 & V2).
    destruct (v_expect (vrun h)) as [(g, P)|] eqn:Ex; [|discriminate].
    apply andb_prop in V1. destruct V1 as (Vg & VP). apply Z.eqb_eq in Vg. apply list_eqb_eq in VP. subst gid pids.
    destruct G7 as (NP & PN & Pf & k & bg0 & Hk).
    cbn [op_events] in X.
    destruct (gi_events h evs G X V2) as (N' & S').
    set (q := r_pend (run h) ++ evs).
    assert (Eall : all_events h ++ evs = C ++ q) by (unfold q; rewrite G1, <- app_assoc; reflexivity).
    assert (Hq : forall e, In e q -> xev e /\ In (ev_pid e) (launched h)).
    { intros e He. assert (In e (all_events h ++ evs)) by (rewrite Eall; apply in_app_iff; auto). auto. }
    assert (Own : forall p, In p P -> own (tab (r_sh (run h))) g p).
    { intros p Hp. apply (nodup_tpids_own _ (mkjob k g P [] Running bg0) p (i_pids _ _ _ G2) Hk Hp). }
    assert (Cd : forall p, In p P -> deadb C p = false).
    { intros p Hp. apply deadb_false_notin. intros Hin. apply (Pf p Hp). rewrite G1, map_app, in_app_iff. auto. }
    assert (Hlast : In (last P 0) P).
    { destruct P as [|a P']; [congruence|]. clear. revert a. induction P' as [|b P' IH]; intros a; [simpl; auto|].
      right. apply (IH b). }
    assert (Np : (0 < length P)%nat) by (destruct P; [congruence|simpl; lia]).
    pose proof (wait_loop_inv (launched h) g P (last P 0) (length P) NP Hlast q (r_sh (run h)) C 0%nat 0 G2 Own Hq
                  (alive_of_nodup q C ltac:(rewrite <- Eall; exact N')) (eq_sym (fgdead_zero C P Cd)) Np
                  (eq_sym (last_status_none C (last P 0) ltac:(apply deadb_false_notin; apply Cd; exact Hlast)))) as W.
    destruct W as (c' & W1 & W2 & W3 & W4 & W5).
    assert (Estep : step (run h) (Wait g P evs) =
                    let w := wait_loop q (r_sh (run h)) g P (last P 0) (length P) 0%nat 0 in
                    mkrst (w_sh w) (w_left w) (w_status w) (w_blocked w)).
    { cbn [step]. unfold wait_fg_job. destruct P; [congruence|reflexivity]. }
    set (w := wait_loop q (r_sh (run h)) g P (last P 0) (length P) 0%nat 0) in *.
    assert (Ec : all_events (h ++ [Wait g P evs]) = (C ++ c') ++ r_pend (run (h ++ [Wait g P evs]))).
    { rewrite all_events_snoc, run_snoc, Estep. cbn [op_events r_pend]. rewrite Eall, W1, app_assoc. reflexivity. }
    split.
    + exists (C ++ c'). split; [exact Ec|]. rewrite run_snoc, Estep, vrun_snoc, launched_snoc, all_events_snoc.
      cbn [vnext r_sh v_deliv v_seen v_expect op_events]. rewrite app_nil_r.
      split; [exact W2|]. split; [rewrite G3; reflexivity|]. split; [exact G4|]. split; [exact S'|]. split; [exact N'|exact I].
    + unfold good_wait. unfold pst. rewrite (consumed_eq _ _ Ec). rewrite run_snoc, Estep. cbn [r_blocked r_status].
      assert (XC : xonly (C ++ c')).
      { intros e He. apply X. rewrite Eall, W1, app_assoc. apply in_app_iff. auto. }
      destruct (w_blocked w) eqn:B.
      * destruct (W4 eq_refl) as (_ & Lt). destruct (filter_short _ _ Lt) as (p & Hp & Dp).
        apply existsb_exists. exists p. split; [exact Hp|]. rewrite (pst_xonly _ _ XC), Dp. reflexivity.
      * destruct (W5 eq_refl) as (Ge & c'' & e & E1 & E2 & E3).
        apply andb_true_intro. split; [apply andb_true_intro; split|].
        -- apply forallb_forall. intros p Hp. rewrite (pst_xonly _ _ XC).
           rewrite (filter_full _ _ Ge p Hp). reflexivity.
        -- apply existsb_exists. exists (ev_pid e). split; [exact E2|].
           rewrite E1, app_assoc, removelast_last.
           rewrite pst_xonly, E3; [reflexivity|].
           intros e' He'. apply XC. rewrite E1, app_assoc. apply in_app_iff. auto.
        -- rewrite W3. apply Z.eqb_refl.
  - (* Poll *)
    cbn [vcheck] in V. apply andb_prop in V. destruct V as (V1 & V2).
    destruct (v_expect (vrun h)) eqn:Ex; [discriminate|].
    cbn [op_events] in X.
    destruct (gi_events h evs G X V2) as (N' & S').
    set (q := r_pend (run h) ++ evs).
    assert (Eall : all_events h ++ evs = C ++ q) by (unfold q; rewrite G1, <- app_assoc; reflexivity).
    assert (Hq : forall e, In e q -> xev e /\ In (ev_pid e) (launched h)).
    { intros e He. assert (In e (all_events h ++ evs)) by (rewrite Eall; apply in_app_iff; auto). auto. }
    destruct (inv_poll (r_sh (run h)) C (launched h) q G2 Hq) as (C' & P1 & P2 & P3).
    assert (Estep : step (run h) (Poll evs) =
                    mkrst (fst (try_wait_bg_jobs (r_sh (run h)) q)) (snd (try_wait_bg_jobs (r_sh (run h)) q))
                          (r_status (run h)) false).
    { cbn [step]. fold q. destruct (try_wait_bg_jobs (r_sh (run h)) q); reflexivity. }
    assert (Ec : all_events (h ++ [Poll evs]) = C' ++ r_pend (run (h ++ [Poll evs]))).
    { rewrite all_events_snoc, run_snoc, Estep. cbn [op_events r_pend]. rewrite Eall. exact P1. }
    split.
    + exists C'. split; [exact Ec|]. rewrite run_snoc, Estep, vrun_snoc, launched_snoc, all_events_snoc.
      cbn [vnext r_sh v_deliv v_seen v_expect op_events]. rewrite app_nil_r.
      split; [exact P2|]. split; [rewrite G3; reflexivity|]. split; [exact G4|]. split; [exact S'|]. split; [exact N'|exact I].
    + pose proof (consumed_eq _ _ Ec) as Ce.
      destruct (r_pend (run (h ++ [Poll evs]))) eqn:Pe; [|reflexivity].
      unfold good_table, pst. rewrite Ce, launched_snoc, app_nil_r.
      rewrite run_snoc, Estep in Pe |- *. cbn [r_sh r_pend] in Pe |- *.
      apply (good_table_of _ C' (launched h) P2).
      * intros e He. apply X. rewrite Eall, P1. apply in_app_iff. auto.
      * apply P3. exact Pe.
Qed.

(** C06 for the exit / kill fragment: every valid history without stop /
    continue statuses is good after its last operation (and the invariant
    holds after every operation). *)
Theorem exit_only_good : forall h, valid h = true -> exit_only h = true -> GI h /\ good h = true.
Proof.
  induction h as [|o h IH] using rev_ind; intros V X.
  - split; [exact gi_nil|reflexivity].
  - rewrite valid_snoc in V. apply andb_prop in V. destruct V as (V1 & V2).
    assert (X1 : exit_only h = true).
    { unfold exit_only in *. rewrite all_events_snoc, forallb_app in X. apply andb_prop in X. tauto. }
    destruct (IH V1 X1) as (G & _). apply gi_step; auto. apply exit_only_xonly. exact X.
Qed.

(** the fragment lies outside the known failing classes *)
Lemma parked_none : forall fg l, xonly l -> parked_stops fg l = [] /\ parked_conts fg l = [].
Proof.
  intros fg. unfold parked_stops, parked_conts. induction l as [|e l IH]; intros X; [auto|].
  assert (Xe : xev e) by (apply X; simpl; auto).
  destruct IH as (I1 & I2); [intros e' H'; apply X; simpl; auto|].
  destruct e; try discriminate; simpl; auto.
Qed.

Lemma exit_only_not_known : forall h, exit_only h = true -> known h = false.
Proof.
  intros h X. apply exit_only_xonly in X. unfold known, known_member_stop, known_stop_cont_parked.
  assert (A : forall h v, xonly (all_events h) -> known_from k_member_stop v h = false).
  { clear. induction h as [|o h IH]; intros v X; [reflexivity|]. simpl.
    change (o :: h) with ([o] ++ h) in X. unfold all_events in X. rewrite map_app, concat_app in X.
    apply xonly_app in X. destruct X as (X1 & X2). simpl in X1. rewrite app_nil_r in X1.
    rewrite (IH _ X2), orb_false_r. unfold k_member_stop.
    destruct (existsb _ (op_events o)) eqn:E; [|reflexivity].
    apply existsb_exists in E. destruct E as (e & He & E). rewrite (X1 e He) in E. discriminate. }
  assert (B : forall h v, xonly (all_events h) -> v_ps v = [] -> v_pc v = [] -> known_from k_stop_cont_parked v h = false).
  { clear. induction h as [|o h IH]; intros v X Hs Hc; [reflexivity|]. simpl.
    change (o :: h) with ([o] ++ h) in X. unfold all_events in X. rewrite map_app, concat_app in X.
    apply xonly_app in X. destruct X as (X1 & X2). simpl in X1. rewrite app_nil_r in X1.
    pose proof (fun fg => parked_none fg _ X1) as PN.
    unfold k_stop_cont_parked. rewrite (proj1 (PN _)), Hs. simpl.
    apply IH; [exact X2| |]; destruct o; simpl; rewrite ?(proj1 (PN _)), ?(proj2 (PN _)); auto. }
  rewrite A, B; auto.
Qed.
