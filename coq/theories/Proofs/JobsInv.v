(** The history-level invariant of the job table and the proof of C06 (full statement). *)
From Coq Require Import ZArith List Bool Arith Lia.
From Cicada Require Import Model.Jobs Proofs.JobsSpec Proofs.JobsProofs.
Import ListNotations.
Local Open Scope Z_scope.

(** * generic list facts *)
Lemma nodup_app_iff : forall (A : Type) (a b : list A),
  NoDup (a ++ b) <-> NoDup a /\ NoDup b /\ (forall x, In x a -> ~ In x b).
Proof.
  induction a as [|x a IH]; simpl; intros b.
  - split; [intros H; repeat split; auto; constructor | tauto].
  - split.
    + intros H. inversion H as [|? ? Hx Hn]; subst. apply IH in Hn. destruct Hn as (N1 & N2 & N3).
      rewrite in_app_iff in Hx. repeat split; auto.
      * constructor; tauto.
      * intros y [->|Hy]; [tauto|auto].
    + intros (N1 & N2 & N3). inversion N1 as [|? ? Hx Hn]; subst. constructor.
      * rewrite in_app_iff. intros [H|H]; [tauto|]. apply (N3 x); auto.
      * apply IH. repeat split; auto.
Qed.

Lemma memZ_in : forall x l, memZ x l = true <-> In x l.
Proof.
  induction l as [|a l IH]; simpl; [split; [discriminate|tauto]|].
  destruct (a =? x) eqn:E.
  - apply Z.eqb_eq in E. split; auto.
  - apply Z.eqb_neq in E. rewrite IH. split; [auto|]. intros [H|H]; [congruence|auto].
Qed.

Lemma memZ_false : forall x l, memZ x l = false <-> ~ In x l.
Proof. intros. rewrite <- memZ_in. destruct (memZ x l); split; congruence. Qed.

(** * keys of the parked maps *)
Lemma map_put_keys : forall k v l q, In q (map fst (map_put k v l)) <-> q = k \/ In q (map fst l).
Proof.
  induction l as [|(k', v') l IH]; simpl; intros q.
  - intuition.
  - destruct (k <? k').
    + simpl. intuition.
    + destruct (k =? k') eqn:E.
      * apply Z.eqb_eq in E. subst. simpl. intuition.
      * simpl. rewrite IH. intuition.
Qed.

Lemma map_get_keys : forall k l, (exists v, map_get k l = Some v) <-> In k (map fst l).
Proof.
  induction l as [|(k', v') l IH]; simpl; [split; [intros (v & H); discriminate|tauto]|].
  destruct (k' =? k) eqn:E.
  - apply Z.eqb_eq in E. split; eauto.
  - apply Z.eqb_neq in E. rewrite IH. split; [auto|]. intros [H|H]; [congruence|auto].
Qed.

Lemma map_get_none : forall k l, map_get k l = None <-> ~ In k (map fst l).
Proof.
  intros. rewrite <- map_get_keys. destruct (map_get k l) as [v|].
  - split; [discriminate|]. intros H. exfalso. apply H. eauto.
  - split; [|reflexivity]. intros _ (v & H). discriminate.
Qed.

Lemma map_del_keys : forall k l q, In q (map fst (map_del k l)) -> In q (map fst l).
Proof.
  induction l as [|(k', v') l IH]; simpl; intros q; [tauto|].
  destruct (k' =? k); simpl; [auto|]. intros [H|H]; auto.
Qed.

Lemma map_del_keys_other : forall k l q, q <> k -> In q (map fst l) -> In q (map fst (map_del k l)).
Proof.
  induction l as [|(k', v') l IH]; simpl; intros q Hq; [tauto|].
  destruct (k' =? k) eqn:E.
  - apply Z.eqb_eq in E. intros [H|H]; [congruence|auto].
  - simpl. intros [H|H]; auto.
Qed.

(** * the table *)
Definition tpids (t : table) : list Z := concat (map jpids t).
Definition parked (m : maps) : list Z := map fst (m_reap m) ++ map fst (m_kill m).
Definition own (t : table) (g p : Z) : Prop := forall j, In j t -> In p (jpids j) -> jgid j = g.

Lemma in_tpids : forall t p, In p (tpids t) <-> exists j, In j t /\ In p (jpids j).
Proof.
  intros. unfold tpids. rewrite in_concat. split.
  - intros (l & Hl & Hp). apply in_map_iff in Hl. destruct Hl as (j & <- & Hj). eauto.
  - intros (j & Hj & Hp). exists (jpids j). split; [apply in_map; auto|auto].
Qed.

Lemma nodup_tpids_own : forall t j0 p, NoDup (tpids t) -> In j0 t -> In p (jpids j0) -> own t (jgid j0) p.
Proof.
  induction t as [|a t IH]; intros j0 p N H0 Hp j Hj Hpj; [destruct H0|].
  unfold tpids in N. simpl in N. apply nodup_app_iff in N. destruct N as (N1 & N2 & N3).
  destruct H0 as [<-|H0], Hj as [<-|Hj]; auto.
  - exfalso. apply (N3 p Hp). apply in_tpids. eauto.
  - exfalso. apply (N3 p Hpj). apply in_tpids. eauto.
  - eapply IH; eauto.
Qed.

(** the effect of remove_pid_from_job on a well-formed table *)
Lemma remove_facts : forall t g p,
  NoDup (map jgid t) -> NoDup (tpids t) -> own t g p ->
  let t' := remove_pid_from_job t g p in
  NoDup (tpids t') /\ (forall q, In q (tpids t') <-> (In q (tpids t) /\ q <> p)) /\
  incl (map jgid t') (map jgid t) /\ NoDup (map jgid t') /\
  (forall j', In j' t' -> exists j, In j t /\ jgid j' = jgid j /\ jstopped j' = jstopped j /\ jst j' = jst j /\
                           incl (jpids j') (jpids j) /\ (jpids j <> [] -> jpids j' <> [])).
Proof.
  intros t g p. rewrite remove_pid_exact.
  induction t as [|a t IH]; intros Ng Np Ho; simpl.
  - split; [constructor|]. split; [intros q; simpl; tauto|]. split; [apply incl_refl|]. split; [constructor|].
    intros j' [].
  - unfold tpids in Np. simpl in Np. apply nodup_app_iff in Np. destruct Np as (N1 & N2 & N3).
    simpl in Ng. inversion Ng as [|? ? Ga Gt]; subst.
    destruct (jgid a =? g) eqn:E.
    + apply Z.eqb_eq in E.
      assert (Pt : ~ In p (tpids t)).
      { intros Hin. apply in_tpids in Hin. destruct Hin as (j & Hj & Hp).
        apply Ga. rewrite E, <- (Ho j (or_intror Hj) Hp). apply in_map; auto. }
      destruct (set_remove_nodup p (jpids a) N1) as (S1 & S2 & S3).
      assert (K1 : NoDup (set_remove p (jpids a) ++ tpids t)).
      { apply nodup_app_iff. repeat split; auto. intros x Hx. apply N3. eapply set_remove_in; eauto. }
      assert (K2 : forall q, In q (set_remove p (jpids a) ++ tpids t) <-> In q (jpids a ++ tpids t) /\ q <> p).
      { intros q. rewrite !in_app_iff. split.
        - intros [H|H].
          + split; [left; eapply set_remove_in; eauto|intros ->; tauto].
          + split; [auto|intros ->; tauto].
        - intros ([H|H] & Hq); [left; apply S3; auto|auto]. }
      destruct (set_remove p (jpids a)) as [|z zs] eqn:R.
      * simpl in K1, K2.
        split; [exact K1|]. split; [exact K2|]. split; [intros x Hx; right; exact Hx|]. split; [exact Gt|].
        intros j' Hj'. exists j'. repeat split; auto using incl_refl; right; auto.
      * unfold tpids. simpl. fold (tpids t).
        split; [exact K1|]. split; [exact K2|]. split; [intros x Hx; exact Hx|].
        split; [constructor; auto|].
        intros j' [<-|Hj'].
        -- exists a. simpl. split; [auto|]. split; [auto|]. split; [auto|]. split; [auto|]. split.
           ++ intros x Hx. eapply set_remove_in. rewrite R. exact Hx.
           ++ intros _ ?; discriminate.
        -- exists j'. repeat split; auto using incl_refl; right; auto.
    + apply Z.eqb_neq in E.
      assert (Pa : ~ In p (jpids a)). { intros Hp. apply E. apply (Ho a); simpl; auto. }
      destruct IH as (I1 & I2 & I3 & I4 & I5); auto.
      { intros j Hj. apply Ho. right; auto. }
      unfold tpids. simpl. fold (tpids t). fold (tpids (remove_spec t g p)).
      split; [|split; [|split; [|split]]].
      * apply nodup_app_iff. repeat split; auto. intros x Hx Hin. apply I2 in Hin. apply (N3 x); tauto.
      * intros q. rewrite !in_app_iff, I2. split.
        -- intros [H|H]; [split; [auto|intros ->; tauto]|tauto].
        -- tauto.
      * intros x [<-|Hx]; [left; auto|right; apply I3; auto].
      * constructor; auto; intros Hin; apply Ga; apply I3; exact Hin.
      * intros j' [<-|Hj'].
        -- exists a. repeat split; auto using incl_refl; left; auto.
        -- destruct (I5 j' Hj') as (j & Hj & R). exists j. split; [right; auto|exact R].
Qed.

Lemma nodup_insert_mid : forall (A : Type) (a m b : list A),
  NoDup (a ++ b) -> NoDup m -> (forall x, In x m -> ~ In x (a ++ b)) -> NoDup (a ++ m ++ b).
Proof.
  intros A a m b H Hm Hd. apply nodup_app_iff in H. destruct H as (H1 & H2 & H3).
  apply nodup_app_iff. split; [auto|]. split.
  - apply nodup_app_iff. repeat split; auto. intros x Hx Hb. apply (Hd x Hx). apply in_app_iff; auto.
  - intros x Hx Hin. apply in_app_iff in Hin. destruct Hin as [Hin|Hin].
    + apply (Hd x Hin). apply in_app_iff; auto.
    + apply (H3 x); auto.
Qed.

Lemma tpids_app : forall a b, tpids (a ++ b) = tpids a ++ tpids b.
Proof. intros. unfold tpids. rewrite map_app, concat_app. reflexivity. Qed.

Definition flat (t : table) : list (Z * Z) := concat (map (fun j => map (pair (jgid j)) (jpids j)) t).
Definition poll_pair (s : shell) (gp : Z * Z) : shell := poll_pid (fst gp) s (snd gp).

Lemma poll_flat : forall snap s, fold_left poll_job snap s = fold_left poll_pair (flat snap) s.
Proof.
  induction snap as [|j r IH]; intros s; [reflexivity|].
  unfold flat. simpl. fold (flat r). rewrite fold_left_app, <- IH. f_equal.
  unfold poll_job. generalize (jpids j) s. induction l as [|p l IHl]; intros s0; [reflexivity|].
  simpl. apply IHl.
Qed.

Lemma flat_own : forall t gp, NoDup (tpids t) -> In gp (flat t) -> own t (fst gp) (snd gp) /\ In (snd gp) (tpids t).
Proof.
  intros t gp N H. unfold flat in H. apply in_concat in H. destruct H as (l & Hl & Hgp).
  apply in_map_iff in Hl. destruct Hl as (j & <- & Hj). apply in_map_iff in Hgp.
  destruct Hgp as (p & <- & Hp). simpl. split; [apply nodup_tpids_own; auto|apply in_tpids; eauto].
Qed.

Lemma flat_all : forall t p, In p (tpids t) -> In p (map snd (flat t)).
Proof.
  intros t p H. apply in_tpids in H. destruct H as (j & Hj & Hp).
  apply in_map_iff. exists (jgid j, p). split; [reflexivity|].
  unfold flat. apply in_concat. exists (map (pair (jgid j)) (jpids j)). split.
  - apply in_map_iff. exists j. auto.
  - apply in_map. exact Hp.
Qed.

Lemma nodupb_nodup : forall l, nodupb l = true -> NoDup l.
Proof.
  induction l as [|a l IH]; simpl; intros H; [constructor|].
  apply andb_prop in H. destruct H as (H1 & H2). constructor; [|auto].
  apply negb_true_iff in H1. apply memZ_false in H1. exact H1.
Qed.

Lemma list_eqb_eq : forall a b, list_eqb a b = true -> a = b.
Proof.
  induction a as [|x a IH]; destruct b as [|y b]; simpl; intros H; try discriminate; [reflexivity|].
  apply andb_prop in H. destruct H as (H1 & H2). apply Z.eqb_eq in H1. f_equal; auto.
Qed.

Lemma pst_in_snoc : forall D e p, pst_in (D ++ [e]) p = if ev_pid e =? p then ev_effect e else pst_in D p.
Proof. intros. unfold pst_in. rewrite fold_left_app. reflexivity. Qed.

Lemma consumed_eq : forall h C, all_events h = C ++ r_pend (run h) -> consumed h = C.
Proof.
  intros h C H. unfold consumed. rewrite H, app_length.
  replace (length C + length (r_pend (run h)) - length (r_pend (run h)))%nat with (length C) by lia.
  rewrite firstn_app, Nat.sub_diag, firstn_all. simpl. apply app_nil_r.
Qed.

Lemma in_table_in : forall p t, in_table p t = true <-> In p (tpids t).
Proof.
  intros p t. unfold in_table. rewrite existsb_exists, in_tpids. split.
  - intros (j & Hj & M). apply memZ_in in M. eauto.
  - intros (j & Hj & M). exists j. split; [auto|apply memZ_in; auto].
Qed.

Lemma run_snoc : forall h o, run (h ++ [o]) = step (run h) o.
Proof. intros. unfold run. rewrite fold_left_app. reflexivity. Qed.
Lemma vrun_snoc : forall h o, vrun (h ++ [o]) = vnext (vrun h) o.
Proof. intros. unfold vrun. rewrite fold_left_app. reflexivity. Qed.
Lemma valid_from_snoc : forall h v o, valid_from v (h ++ [o]) = valid_from v h && vcheck (fold_left vnext h v) o.
Proof.
  induction h as [|a h IH]; intros v o; simpl; [rewrite andb_true_r; reflexivity|].
  rewrite IH, andb_assoc. reflexivity.
Qed.
Lemma valid_snoc : forall h o, valid (h ++ [o]) = valid h && vcheck (vrun h) o.
Proof. intros. apply valid_from_snoc. Qed.
Lemma all_events_snoc : forall h o, all_events (h ++ [o]) = all_events h ++ op_events o.
Proof. intros. unfold all_events. rewrite map_app, concat_app. simpl. rewrite app_nil_r. reflexivity. Qed.
Lemma launched_snoc : forall h o, launched (h ++ [o]) =
  launched h ++ match o with Launch _ pids _ => pids | _ => [] end.
Proof. intros. unfold launched. rewrite map_app, concat_app. simpl. rewrite app_nil_r. reflexivity. Qed.


(** * HashSet operations, keys, views *)
Lemma bool_ext : forall a b : bool, (a = true <-> b = true) -> a = b.
Proof. intros [|] [|] H; auto; [symmetry; apply H; auto | apply H; auto]. Qed.

Lemma in_hs_add : forall p l q, In q (hs_add p l) <-> q = p \/ In q l.
Proof.
  intros p l q. unfold hs_add. destruct (memZ p l) eqn:E.
  - apply memZ_in in E. split; [auto|]. intros [->|H]; auto.
  - simpl. split; intros [H|H]; auto.
Qed.

Lemma in_hs_remove : forall p l q, In q (hs_remove p l) <-> In q l /\ q <> p.
Proof.
  intros p l q. unfold hs_remove. rewrite filter_In, negb_true_iff, Z.eqb_neq. tauto.
Qed.

Lemma memZ_hs_add : forall p l q, memZ q (hs_add p l) = (q =? p) || memZ q l.
Proof.
  intros. apply bool_ext. rewrite memZ_in, in_hs_add, orb_true_iff, Z.eqb_eq, memZ_in. tauto.
Qed.

Lemma memZ_hs_remove : forall p l q, memZ q (hs_remove p l) = negb (q =? p) && memZ q l.
Proof.
  intros. apply bool_ext. rewrite memZ_in, in_hs_remove, andb_true_iff, negb_true_iff, Z.eqb_neq, memZ_in. tauto.
Qed.

Definition keyb (p : Z) (l : list (Z * Z)) : bool := memZ p (map fst l).

Lemma keyb_put : forall k v l q, keyb q (map_put k v l) = (q =? k) || keyb q l.
Proof.
  intros. unfold keyb. apply bool_ext. rewrite memZ_in, map_put_keys, orb_true_iff, Z.eqb_eq, memZ_in. tauto.
Qed.

Lemma keyb_del_other : forall k l q, q <> k -> keyb q (map_del k l) = keyb q l.
Proof.
  intros k l q N. unfold keyb. apply bool_ext. rewrite !memZ_in. split.
  - apply map_del_keys.
  - apply map_del_keys_other; auto.
Qed.

Lemma keyb_get : forall k l, keyb k l = match map_get k l with Some _ => true | None => false end.
Proof.
  intros. unfold keyb. destruct (map_get k l) eqn:E.
  - apply memZ_in. apply map_get_keys. eauto.
  - apply memZ_false. apply map_get_none. exact E.
Qed.

Lemma memZ_set_remove_other : forall p l q, q <> p -> memZ q (set_remove p l) = memZ q l.
Proof.
  induction l as [|a l IH]; intros q N; [reflexivity|]. simpl.
  destruct (a =? p) eqn:E.
  - apply Z.eqb_eq in E. subst a. destruct (p =? q) eqn:E2; [apply Z.eqb_eq in E2; congruence|reflexivity].
  - simpl. rewrite IH by auto. reflexivity.
Qed.

(** ** upd_gid *)
Lemma upd_none : forall f g t, get_job_by_gid t g = None -> upd_gid f g t = t.
Proof.
  induction t as [|a t IH]; simpl; intros H; [reflexivity|].
  destruct (jgid a =? g); [discriminate|]. f_equal. auto.
Qed.

Lemma upd_const : forall f g t j0, get_job_by_gid t g = Some j0 -> upd_gid f g t = upd_gid (fun _ => f j0) g t.
Proof.
  induction t as [|a t IH]; simpl; intros j0 H; [discriminate|].
  destruct (jgid a =? g); [injection H as ->; reflexivity|]. f_equal. auto.
Qed.

Lemma upd_upd : forall f1 f2 g t, (forall j, jgid (f1 j) = jgid j) ->
  upd_gid f2 g (upd_gid f1 g t) = upd_gid (fun j => f2 (f1 j)) g t.
Proof.
  induction t as [|a t IH]; simpl; intros H; [reflexivity|].
  destruct (jgid a =? g) eqn:E; simpl.
  - rewrite H, E. reflexivity.
  - rewrite E. f_equal. auto.
Qed.

Lemma get_upd : forall f g t, (forall j, jgid (f j) = jgid j) ->
  get_job_by_gid (upd_gid f g t) g = option_map f (get_job_by_gid t g).
Proof.
  induction t as [|a t IH]; simpl; intros H; [reflexivity|].
  destruct (jgid a =? g) eqn:E; simpl.
  - rewrite H, E. reflexivity.
  - rewrite E. auto.
Qed.

Lemma get_in : forall t g j, get_job_by_gid t g = Some j -> In j t /\ jgid j = g.
Proof.
  induction t as [|a t IH]; simpl; intros g j H; [discriminate|].
  destruct (jgid a =? g) eqn:E.
  - injection H as <-. apply Z.eqb_eq in E. auto.
  - destruct (IH _ _ H). auto.
Qed.

Lemma upd_maps : forall J g t j0, get_job_by_gid t g = Some j0 ->
  jid J = jid j0 -> jgid J = jgid j0 -> jpids J = jpids j0 ->
  map jid (upd_gid (fun _ => J) g t) = map jid t /\ map jgid (upd_gid (fun _ => J) g t) = map jgid t /\
  map jpids (upd_gid (fun _ => J) g t) = map jpids t.
Proof.
  induction t as [|a t IH]; simpl; intros j0 H H1 H2 H3; [discriminate|].
  destruct (jgid a =? g) eqn:E; simpl.
  - injection H as <-. rewrite H1, H2, H3. auto.
  - destruct (IH j0 H H1 H2 H3) as (A & B & Cc). rewrite A, B, Cc. auto.
Qed.

Lemma upd_in : forall J g t j', In j' (upd_gid (fun _ => J) g t) -> In j' t \/ j' = J.
Proof.
  induction t as [|a t IH]; simpl; intros j' H; [tauto|].
  destruct (jgid a =? g); simpl in H.
  - destruct H; auto.
  - destruct H as [H|H]; auto. destruct (IH _ H); auto.
Qed.

(** ** views *)
Lemma vs_upd_other : forall J g t j0 q, get_job_by_gid t g = Some j0 -> jpids J = jpids j0 ->
  (memZ q (jpids j0) = true -> memZ q (jstopped J) = memZ q (jstopped j0)) ->
  view_stopped q (upd_gid (fun _ => J) g t) = view_stopped q t.
Proof.
  unfold view_stopped. induction t as [|a t IH]; simpl; intros j0 q H H1 H2; [discriminate|].
  destruct (jgid a =? g); simpl.
  - injection H as <-. rewrite H1. destruct (memZ q (jpids a)) eqn:M; simpl; [rewrite H2; auto|reflexivity].
  - f_equal. eauto.
Qed.

Lemma view_self : forall t g p, NoDup (map jgid t) -> own t g p -> In p (tpids t) ->
  exists j0, get_job_by_gid t g = Some j0 /\ In p (jpids j0) /\ view_stopped p t = memZ p (jstopped j0).
Proof.
  unfold view_stopped. induction t as [|a t IH]; intros g p N O Hp; [destruct Hp|].
  simpl in N. inversion N as [|? ? Na Nt]; subst. simpl.
  unfold tpids in Hp. simpl in Hp. fold (tpids t) in Hp. apply in_app_iff in Hp.
  destruct (jgid a =? g) eqn:E.
  - apply Z.eqb_eq in E.
    assert (Pt : ~ In p (tpids t)).
    { intros Hin. apply in_tpids in Hin. destruct Hin as (j & Hj & Hpj). apply Na.
      rewrite E, <- (O j (or_intror Hj) Hpj). apply in_map. exact Hj. }
    destruct Hp as [Hp|Hp]; [|tauto]. exists a. split; [reflexivity|]. split; [exact Hp|].
    rewrite (proj2 (memZ_in _ _) Hp). simpl.
    destruct (existsb _ t) eqn:Ex; [|apply orb_false_r].
    exfalso. apply Pt. apply existsb_exists in Ex. destruct Ex as (j & Hj & M). apply andb_prop in M.
    apply in_tpids. exists j. split; [auto|apply memZ_in; tauto].
  - apply Z.eqb_neq in E.
    assert (Pa : ~ In p (jpids a)) by (intros H; apply E; apply (O a); simpl; auto).
    destruct Hp as [Hp|Hp]; [tauto|].
    destruct (IH g p Nt (fun j Hj => O j (or_intror Hj)) Hp) as (j0 & G & I1 & I2).
    exists j0. split; [exact G|]. split; [exact I1|].
    rewrite (proj2 (memZ_false _ _) Pa). simpl. exact I2.
Qed.

Lemma in_table_ext : forall q t t', (forall x, In x (tpids t') <-> In x (tpids t)) -> in_table q t' = in_table q t.
Proof. intros. apply bool_ext. rewrite !in_table_in. auto. Qed.

Lemma vs_remove_other : forall t g p q, q <> p ->
  view_stopped q (remove_pid_from_job t g p) = view_stopped q t.
Proof.
  intros t g p q N. rewrite remove_pid_exact. unfold view_stopped.
  induction t as [|a t IH]; [reflexivity|]. simpl.
  destruct (jgid a =? g).
  - destruct (set_remove p (jpids a)) as [|z zs] eqn:R.
    + assert (M : memZ q (jpids a) = false).
      { rewrite <- (memZ_set_remove_other p (jpids a) q N), R. reflexivity. }
      rewrite M. reflexivity.
    + cbn [existsb jpids jstopped]. rewrite <- R, memZ_set_remove_other by auto. reflexivity.
  - cbn [existsb]. rewrite IH. reflexivity.
Qed.

(** * structural well-formedness of the table *)
Definition js_ok (j : job) : Prop := jpids j <> [] /\ is_stopped (jst j) = all_members_stopped j.

Definition TS (t : table) (L : list Z) : Prop :=
  sorted_from 1 t /\ NoDup (map jgid t) /\ NoDup (tpids t) /\
  (forall j, In j t -> js_ok j /\ In (jgid j) L /\ jgid j <> 0) /\ incl (tpids t) L.

Lemma upd_in_strict : forall J g t j', NoDup (map jgid t) -> In j' (upd_gid (fun _ => J) g t) ->
  (In j' t /\ jgid j' <> g) \/ j' = J.
Proof.
  induction t as [|a t IH]; simpl; intros j' N H; [tauto|].
  inversion N as [|? ? Na Nt]; subst.
  destruct (jgid a =? g) eqn:E; simpl in H.
  - apply Z.eqb_eq in E. destruct H as [H|H]; [auto|]. left. split; [auto|].
    intros E'. apply Na. rewrite E, <- E'. apply in_map. exact H.
  - apply Z.eqb_neq in E. destruct H as [<-|H]; [auto|]. destruct (IH _ Nt H) as [(A & B)|A]; auto.
Qed.

Lemma get_unique : forall t j, NoDup (map jgid t) -> In j t -> get_job_by_gid t (jgid j) = Some j.
Proof.
  induction t as [|a t IH]; simpl; intros j N H; [tauto|]. inversion N as [|? ? Na Nt]; subst.
  destruct H as [->|H]; [rewrite Z.eqb_refl; reflexivity|].
  destruct (jgid a =? jgid j) eqn:E; [|auto].
  apply Z.eqb_eq in E. exfalso. apply Na. rewrite E. apply in_map. exact H.
Qed.

Lemma sorted_from_ids : forall t t' i, map jid t' = map jid t -> sorted_from i t -> sorted_from i t'.
Proof.
  induction t as [|a t IH]; destruct t' as [|b t']; simpl; intros i E H; try discriminate; auto.
  injection E as E1 E2. destruct H as (H1 & H2). rewrite E1. split; [exact H1|]. apply IH; auto.
Qed.

(** replacing the first job of group [g] by one with the same id, gid and pids *)
Lemma struct_upd : forall t L g J j0, TS t L -> get_job_by_gid t g = Some j0 ->
  jid J = jid j0 -> jgid J = jgid j0 -> jpids J = jpids j0 -> js_ok J ->
  TS (upd_gid (fun _ => J) g t) L /\ tpids (upd_gid (fun _ => J) g t) = tpids t.
Proof.
  intros t L g J j0 (T1 & T2 & T3 & T4 & T5) G H1 H2 H3 Hj.
  destruct (upd_maps J g t j0 G H1 H2 H3) as (M1 & M2 & M3).
  assert (Tp : tpids (upd_gid (fun _ => J) g t) = tpids t) by (unfold tpids; rewrite M3; reflexivity).
  split; [|exact Tp]. unfold TS. rewrite Tp, M2.
  split; [apply (sorted_from_ids t); auto|]. split; [exact T2|]. split; [exact T3|]. split; [|exact T5].
  intros j H. destruct (upd_in_strict _ _ _ _ T2 H) as [(A & _)|A]; [apply T4; auto|subst j].
  destruct (get_in _ _ _ G) as (I0 & _). destruct (T4 j0 I0) as (_ & B & Cc). rewrite H2. auto.
Qed.

(** ** the wrappers as one replacement *)
Definition j_stopped (j0 : job) (p : Z) : job :=
  let s' := hs_add p (jstopped j0) in
  if forallb (fun x => memZ x s') (jpids j0)
  then mkjob (jid j0) (jgid j0) (jpids j0) s' Stopped true
  else mkjob (jid j0) (jgid j0) (jpids j0) s' (jst j0) (jbg j0).

Lemma mark_stopped_char : forall t p g j0, get_job_by_gid t g = Some j0 ->
  mark_job_member_stopped t p g = upd_gid (fun _ => j_stopped j0 p) g t.
Proof.
  intros t p g j0 G. unfold mark_job_member_stopped, sh_mark_job_member_stopped.
  rewrite get_upd by (intros; reflexivity). rewrite G. cbn [option_map].
  unfold all_members_stopped, j_stopped. cbn [jpids jstopped].
  destruct (forallb _ (jpids j0)).
  - unfold sh_mark_job_as_stopped. rewrite upd_upd by (intros; reflexivity).
    rewrite (upd_const _ g t j0 G). reflexivity.
  - rewrite (upd_const _ g t j0 G). reflexivity.
Qed.

Definition j_cont_sh (j0 : job) (p : Z) : job :=
  mkjob (jid j0) (jgid j0) (jpids j0) (hs_remove p (jstopped j0)) Running (jbg j0).

Definition j_continued (j0 : job) (p : Z) : job :=
  match hs_remove p (jstopped j0) with
  | [] => mkjob (jid j0) (jgid j0) (jpids j0) [] Running true
  | s' => mkjob (jid j0) (jgid j0) (jpids j0) s' Running (jbg j0)
  end.

Lemma sh_continued_char : forall t p g j0, get_job_by_gid t g = Some j0 ->
  fst (sh_mark_job_member_continued t p g) = upd_gid (fun _ => j_cont_sh j0 p) g t.
Proof. intros. unfold sh_mark_job_member_continued. cbn [fst]. rewrite (upd_const _ g t j0 H). reflexivity. Qed.

Lemma mark_continued_char : forall t p g j0, get_job_by_gid t g = Some j0 ->
  mark_job_member_continued t p g = upd_gid (fun _ => j_continued j0 p) g t.
Proof.
  intros t p g j0 G. unfold mark_job_member_continued, sh_mark_job_member_continued.
  rewrite get_upd by (intros; reflexivity). rewrite G. cbn [option_map].
  unfold all_members_running, j_continued. cbn [jstopped].
  destruct (hs_remove p (jstopped j0)) eqn:R.
  - unfold sh_mark_job_as_running. rewrite upd_upd by (intros; reflexivity).
    rewrite (upd_const _ g t j0 G). cbn [jid jgid jpids]. reflexivity.
  - rewrite (upd_const _ g t j0 G). rewrite R. reflexivity.
Qed.

Lemma mark_none : forall t p g, get_job_by_gid t g = None ->
  mark_job_member_stopped t p g = t.
Proof.
  intros t p g G. unfold mark_job_member_stopped, sh_mark_job_member_stopped.
  rewrite upd_none by exact G. rewrite G. reflexivity.
Qed.

Lemma js_stopped : forall j0 p, js_ok j0 -> js_ok (j_stopped j0 p).
Proof.
  intros j0 p (H1 & H2). unfold j_stopped, js_ok, all_members_stopped in *.
  destruct (forallb (fun x => memZ x (hs_add p (jstopped j0))) (jpids j0)) eqn:F; cbn [jpids jstopped jst is_stopped].
  - rewrite F. auto.
  - rewrite F. split; [auto|]. destruct (is_stopped (jst j0)) eqn:S; [|reflexivity].
    symmetry in H2. rewrite forallb_forall in H2.
    assert (forallb (fun x => memZ x (hs_add p (jstopped j0))) (jpids j0) = true); [|congruence].
    apply forallb_forall. intros x Hx. rewrite memZ_hs_add, (H2 x Hx). apply orb_true_r.
Qed.

Lemma js_running : forall j0 p s', js_ok j0 -> In p (jpids j0) -> (forall x, In x s' -> x <> p) ->
  js_ok (mkjob (jid j0) (jgid j0) (jpids j0) s' Running true) /\
  forall b, js_ok (mkjob (jid j0) (jgid j0) (jpids j0) s' Running b).
Proof.
  intros j0 p s' (H1 & _) Hp Hs.
  assert (A : forall b, js_ok (mkjob (jid j0) (jgid j0) (jpids j0) s' Running b)).
  { intros b. split; [exact H1|]. cbn. unfold all_members_stopped. cbn [jpids jstopped].
    symmetry. destruct (forallb (fun p0 => memZ p0 s') (jpids j0)) eqn:F; [|reflexivity].
    rewrite forallb_forall in F. specialize (F p Hp). apply memZ_in in F. exfalso. apply (Hs p F). reflexivity. }
  split; auto.
Qed.

Lemma js_continued : forall j0 p, js_ok j0 -> In p (jpids j0) -> js_ok (j_continued j0 p) /\ js_ok (j_cont_sh j0 p).
Proof.
  intros j0 p H Hp.
  assert (Hs : forall x, In x (hs_remove p (jstopped j0)) -> x <> p) by (intros x Hx; apply in_hs_remove in Hx; tauto).
  split.
  - unfold j_continued. destruct (hs_remove p (jstopped j0)) eqn:R.
    + apply (proj1 (js_running j0 p [] H Hp (fun x (F : In x []) => match F with end))).
    + apply (proj2 (js_running j0 p _ H Hp Hs)).
  - unfold j_cont_sh. apply (proj2 (js_running j0 p _ H Hp Hs)).
Qed.

Lemma get_upd_const : forall J g t j0, get_job_by_gid t g = Some j0 -> jgid J = g ->
  get_job_by_gid (upd_gid (fun _ => J) g t) g = Some J.
Proof.
  induction t as [|a t IH]; simpl; intros j0 H E; [discriminate|].
  destruct (jgid a =? g) eqn:Ea; simpl.
  - rewrite E, Z.eqb_refl. reflexivity.
  - rewrite Ea. eauto.
Qed.

Lemma upd_upd_const : forall f2 J g t j0, get_job_by_gid t g = Some j0 -> jgid J = g ->
  upd_gid f2 g (upd_gid (fun _ => J) g t) = upd_gid (fun _ => f2 J) g t.
Proof.
  induction t as [|a t IH]; simpl; intros j0 H E; [discriminate|].
  destruct (jgid a =? g) eqn:Ea; simpl.
  - rewrite E, Z.eqb_refl. reflexivity.
  - rewrite Ea. f_equal. eauto.
Qed.

(** ** mark_job_as_done *)
Definition shrink (p : Z) (j : job) : job :=
  mkjob (jid j) (jgid j) (set_remove p (jpids j)) (jstopped j) (jst j) (jbg j).
Definition mk_stopped (j : job) : job := mkjob (jid j) (jgid j) (jpids j) (jstopped j) Stopped true.
Definition done_cond (j : job) : bool := negb (is_stopped (jst j)) && all_members_stopped j.

Lemma drops_get : forall t g p j0, get_job_by_gid t g = Some j0 ->
  remove_drops t g p = match set_remove p (jpids j0) with [] => true | _ => false end.
Proof.
  induction t as [|a t IH]; simpl; intros g p j0 H; [discriminate|].
  destruct (jgid a =? g); [|auto]. injection H as <-. rewrite remove_position. reflexivity.
Qed.

Lemma drops_none : forall t g p, get_job_by_gid t g = None -> remove_drops t g p = false /\ remove_pid_from_job t g p = t.
Proof.
  induction t as [|a t IH]; simpl; intros g p H; [auto|].
  destruct (jgid a =? g); [discriminate|]. destruct (IH g p H) as (A & B). rewrite A, B. auto.
Qed.

Lemma remove_nodrop : forall t g p j0, get_job_by_gid t g = Some j0 -> set_remove p (jpids j0) <> [] ->
  remove_pid_from_job t g p = upd_gid (fun _ => shrink p j0) g t.
Proof.
  intros t g p j0. rewrite remove_pid_exact.
  induction t as [|a t IH]; simpl; intros H N; [discriminate|].
  destruct (jgid a =? g).
  - injection H as <-. unfold shrink. destruct (set_remove p (jpids a)); [congruence|reflexivity].
  - f_equal. auto.
Qed.

Lemma remove_drop_incl : forall t g p, incl (remove_pid_from_job t g p) t \/
  exists j0, get_job_by_gid t g = Some j0 /\ set_remove p (jpids j0) <> [].
Proof.
  intros t g p. rewrite remove_pid_exact.
  induction t as [|a t IH]; simpl; [left; apply incl_refl|].
  destruct (jgid a =? g).
  - destruct (set_remove p (jpids a)) eqn:R.
    + left. intros x Hx. right. exact Hx.
    + right. exists a. split; [reflexivity|]. rewrite R. discriminate.
  - destruct IH as [IH|IH]; [|right; exact IH].
    left. intros x [<-|Hx]; [left; reflexivity|right; apply IH; exact Hx].
Qed.

Lemma all_stopped_shrink : forall p j, all_members_stopped j = true -> all_members_stopped (shrink p j) = true.
Proof.
  intros p j H. unfold all_members_stopped in *. cbn [jpids jstopped shrink]. rewrite forallb_forall in *.
  intros x Hx. apply H. eapply set_remove_in; eauto.
Qed.

(** the three outcomes of mark_job_as_done *)
Lemma done_char : forall t g p,
  mark_job_as_done t g p = remove_pid_from_job t g p /\ incl (remove_pid_from_job t g p) t
  \/ exists j0, get_job_by_gid t g = Some j0 /\ set_remove p (jpids j0) <> [] /\
       mark_job_as_done t g p =
       upd_gid (fun _ => if done_cond (shrink p j0) then mk_stopped (shrink p j0) else shrink p j0) g t.
Proof.
  intros t g p. unfold mark_job_as_done.
  destruct (get_job_by_gid t g) as [j0|] eqn:G.
  - rewrite (drops_get t g p j0 G).
    destruct (set_remove p (jpids j0)) as [|z zs] eqn:R.
    + left. split; [reflexivity|]. destruct (remove_drop_incl t g p) as [H|(j & Gj & Nj)]; [exact H|].
      rewrite G in Gj. injection Gj as <-. congruence.
    + right. exists j0. split; [reflexivity|]. split; [rewrite R; discriminate|].
      assert (N : set_remove p (jpids j0) <> []) by (rewrite R; discriminate).
      assert (Eg : jgid (shrink p j0) = g) by (apply (get_in _ _ _ G)).
      rewrite (remove_nodrop t g p j0 G N). rewrite (get_upd_const _ g t j0 G Eg).
      fold (done_cond (shrink p j0)). destruct (done_cond (shrink p j0)).
      * unfold sh_mark_job_as_stopped. rewrite (upd_upd_const _ _ g t j0 G Eg). reflexivity.
      * reflexivity.
  - destruct (drops_none t g p G) as (A & B). rewrite A, B, G. left. split; [reflexivity|apply incl_refl].
Qed.

Lemma done_shape : forall t g p, let t' := remove_pid_from_job t g p in
  mark_job_as_done t g p = t' \/
  exists j1, get_job_by_gid t' g = Some j1 /\ mark_job_as_done t g p = upd_gid (fun _ => mk_stopped j1) g t'.
Proof.
  intros t g p t'. unfold mark_job_as_done. fold t'.
  destruct (remove_drops t g p); [auto|]. destruct (get_job_by_gid t' g) as [j1|] eqn:G; [|auto].
  destruct (negb (is_stopped (jst j1)) && all_members_stopped j1); [|auto].
  right. exists j1. split; [reflexivity|]. unfold sh_mark_job_as_stopped. rewrite (upd_const _ g t' j1 G). reflexivity.
Qed.

Lemma struct_done : forall t L g p, TS t L -> own t g p ->
  let d := mark_job_as_done t g p in
  TS d L /\ (forall q, In q (tpids d) <-> (In q (tpids t) /\ q <> p)) /\
  (forall q, q <> p -> view_stopped q d = view_stopped q t) /\
  (forall g' q, own t g' q -> own d g' q).
Proof.
  intros t L g p (T1 & T2 & T3 & T4 & T5) O d.
  destruct (remove_facts t g p T2 T3 O) as (R1 & R2 & R3 & R4 & R5).
  set (t' := remove_pid_from_job t g p) in *.
  (* maps of d = maps of t' *)
  assert (Maps : map jgid d = map jgid t' /\ tpids d = tpids t' /\
                 (forall q, view_stopped q d = view_stopped q t') /\
                 (forall j', In j' d -> exists j, In j t' /\ jgid j' = jgid j /\ jpids j' = jpids j)).
  { pose proof (done_shape t g p) as DS. cbv zeta in DS. fold t' in DS. fold d in DS.
    destruct DS as [E|(j1 & G1 & E)]; rewrite E.
    - repeat split; auto. intros j' Hj'. exists j'. auto.
    - destruct (upd_maps (mk_stopped j1) g t' j1 G1 eq_refl eq_refl eq_refl) as (M1 & M2 & M3).
      split; [exact M2|]. split; [unfold tpids; rewrite M3; reflexivity|]. split.
      + intros q. apply (vs_upd_other _ g t' j1 q G1); reflexivity.
      + intros j' Hj'. destruct (upd_in _ _ _ _ Hj') as [H|H]; [exists j'; auto|subst j'].
        exists j1. split; [apply (get_in _ _ _ G1)|auto]. }
  destruct Maps as (Mg & Mp & Mv & Mj).
  split; [|split; [|split]].
  - unfold TS. rewrite Mg, Mp. split; [apply mark_done_sorted; exact T1|]. split; [exact R4|]. split; [exact R1|].
    split; [|intros q Hq; apply R2 in Hq; apply T5; tauto].
    intros j' Hj'.
    assert (GL : In (jgid j') L /\ jgid j' <> 0).
    { destruct (Mj j' Hj') as (j & Hj & E1 & _). destruct (R5 j Hj) as (j0 & Hj0 & E2 & _).
      rewrite E1, E2. apply T4; auto. }
    split; [|exact GL].
    unfold d in Hj'. destruct (done_char t g p) as [(E & Inc)|(j0 & G0 & N0 & E)]; rewrite E in Hj'.
    + apply T4. apply Inc. exact Hj'.
    + destruct (upd_in_strict _ _ _ _ T2 Hj') as [(A & _)|A]; [apply T4; exact A|]. subst j'.
      destruct (get_in _ _ _ G0) as (I0 & _). destruct (T4 j0 I0) as ((P0 & S0) & _).
      destruct (done_cond (shrink p j0)) eqn:Dc.
      * split; [exact N0|]. unfold done_cond in Dc. apply andb_prop in Dc. destruct Dc as (_ & Dc).
        symmetry. exact Dc.
      * split; [exact N0|]. unfold done_cond in Dc. cbn [shrink jst] in *.
        destruct (is_stopped (jst j0)) eqn:St.
        -- symmetry. apply all_stopped_shrink. symmetry. exact S0.
        -- simpl in Dc. symmetry. exact Dc.
  - intros q. rewrite Mp. apply R2.
  - intros q Nq. rewrite Mv. apply vs_remove_other. exact Nq.
  - intros g' q Oq j' Hj' Hq. destruct (Mj j' Hj') as (j & Hj & E1 & E2).
    destruct (R5 j Hj) as (j0 & Hj0 & E3 & _ & _ & E4 & _). rewrite E1, E3. apply Oq; [exact Hj0|].
    apply E4. rewrite <- E2. exact Hq.
Qed.

(** * the invariant *)
Definition adj (s : shell) (p : Z) : pstate :=
  if negb (in_table p (tab s)) then PD
  else if keyb p (m_reap (mp s)) || keyb p (m_kill (mp s)) then PD
  else if memZ p (m_stop (mp s)) then PS
  else if memZ p (m_cont (mp s)) then PR
  else if view_stopped p (tab s) then PS else PR.

Definition parked_any (m : maps) (p : Z) : Prop :=
  keyb p (m_reap m) = true \/ keyb p (m_kill m) = true \/ In p (m_stop m) \/ In p (m_cont m).

Record INV (s : shell) (C : list ev) (L : list Z) : Prop := mkINV {
  i_ts : TS (tab s) L;
  i_disj : forall p, In p (m_stop (mp s)) -> ~ In p (m_cont (mp s));
  i_maps : forall p, parked_any (mp s) p -> In p L;
  i_truth : forall p, In p L -> pst_in C p = adj s p
}.

Lemma alive_facts : forall s C L p, INV s C L -> In p L -> pst_in C p <> PD ->
  in_table p (tab s) = true /\ keyb p (m_reap (mp s)) = false /\ keyb p (m_kill (mp s)) = false.
Proof.
  intros s C L p I Hp N. rewrite (i_truth _ _ _ I p Hp) in N. unfold adj in N.
  destruct (in_table p (tab s)); simpl in N; [|congruence].
  destruct (keyb p (m_reap (mp s))); simpl in N; [congruence|].
  destruct (keyb p (m_kill (mp s))); simpl in N; [congruence|]. auto.
Qed.

Lemma pst_snoc_other : forall C e q, ev_pid e <> q -> pst_in (C ++ [e]) q = pst_in C q.
Proof. intros. rewrite pst_in_snoc. destruct (ev_pid e =? q) eqn:E; [apply Z.eqb_eq in E; congruence|reflexivity]. Qed.

Lemma pst_snoc_self : forall C e, pst_in (C ++ [e]) (ev_pid e) = ev_effect e.
Proof. intros. rewrite pst_in_snoc, Z.eqb_refl. reflexivity. Qed.

Lemma eqb_neq_false : forall a b : Z, a <> b -> (a =? b) = false.
Proof. intros. apply Z.eqb_neq. auto. Qed.

(** a status of a process that is not waited for is parked *)
Lemma inv_park : forall s C L e, INV s C L -> In (ev_pid e) L -> pst_in C (ev_pid e) <> PD ->
  INV (mksh (tab s) (park (mp s) e)) (C ++ [e]) L.
Proof.
  intros s C L e I Hp Al. destruct (alive_facts _ _ _ _ I Hp Al) as (A1 & A2 & A3).
  constructor; cbn [tab mp].
  - apply I.
  - intros q. destruct e as [p v|p v|p v|p]; cbn [park m_stop m_cont]; try apply I.
    + rewrite in_hs_add, in_hs_remove. intros [->|H]; [tauto|]. intros (H' & _). apply (i_disj _ _ _ I q); auto.
    + rewrite in_hs_add, in_hs_remove. intros (H & N) [->|H']; [tauto|]. apply (i_disj _ _ _ I q); auto.
  - intros q Hq. destruct (Z.eq_dec q (ev_pid e)) as [->|N]; [exact Hp|]. apply (i_maps _ _ _ I). unfold parked_any in *.
    destruct e as [p v|p v|p v|p]; cbn [park m_reap m_kill m_stop m_cont ev_pid] in *;
      rewrite ?keyb_put, ?in_hs_add, ?in_hs_remove, ?(eqb_neq_false q p N) in Hq; simpl in Hq; tauto.
  - intros q Hq. destruct (Z.eq_dec (ev_pid e) q) as [<-|N].
    + rewrite pst_snoc_self. unfold adj. cbn [tab mp]. rewrite A1. cbn [negb].
      destruct e as [p v|p v|p v|p]; cbn [park m_reap m_kill m_stop m_cont ev_pid ev_effect] in *;
        rewrite ?keyb_put, ?memZ_hs_add, ?memZ_hs_remove, ?Z.eqb_refl, ?A2, ?A3; reflexivity.
    + rewrite (pst_snoc_other C e q N), (i_truth _ _ _ I q Hq). unfold adj. cbn [tab mp].
      assert (N' : (q =? ev_pid e) = false) by (apply Z.eqb_neq; auto).
      destruct e as [p v|p v|p v|p]; cbn [park m_reap m_kill m_stop m_cont ev_pid] in *;
        rewrite ?keyb_put, ?memZ_hs_add, ?memZ_hs_remove, ?N'; reflexivity.
Qed.

(** the exit / kill of a member of the waited job is applied to the table at once;
    the poll applies a parked exit / kill ([m'] = the maps without it) *)
Lemma inv_done : forall s C C' L g p m',
  INV s C L -> In p L -> own (tab s) g p ->
  m_stop m' = m_stop (mp s) -> m_cont m' = m_cont (mp s) ->
  (forall q, keyb q (m_reap m') = true -> keyb q (m_reap (mp s)) = true) ->
  (forall q, keyb q (m_kill m') = true -> keyb q (m_kill (mp s)) = true) ->
  (forall q, q <> p -> keyb q (m_reap m') = keyb q (m_reap (mp s)) /\ keyb q (m_kill m') = keyb q (m_kill (mp s))) ->
  (forall q, q <> p -> pst_in C' q = pst_in C q) -> pst_in C' p = PD ->
  INV (mksh (mark_job_as_done (tab s) g p) m') C' L.
Proof.
  intros s C C' L g p m' I Hp O M1 M2 M3 M4 M5 P1 P2.
  destruct (struct_done (tab s) L g p (i_ts _ _ _ I) O) as (S1 & S2 & S3 & _).
  constructor; cbn [tab mp].
  - exact S1.
  - rewrite M1, M2. apply I.
  - intros q Hq. apply (i_maps _ _ _ I). unfold parked_any in *. rewrite M1, M2 in Hq.
    destruct Hq as [H|[H|H]]; auto.
  - intros q Hq. unfold adj. cbn [tab mp]. destruct (Z.eq_dec q p) as [->|N].
    + rewrite P2.
      assert (T : in_table p (mark_job_as_done (tab s) g p) = false).
      { destruct (in_table p (mark_job_as_done (tab s) g p)) eqn:T; [|reflexivity].
        apply in_table_in in T. apply S2 in T. tauto. }
      rewrite T. reflexivity.
    + rewrite (P1 q N), (i_truth _ _ _ I q Hq). unfold adj.
      assert (T : in_table q (mark_job_as_done (tab s) g p) = in_table q (tab s)).
      { apply bool_ext. rewrite !in_table_in, S2. tauto. }
      rewrite T, (S3 q N), M1, M2. destruct (M5 q N) as (-> & ->). reflexivity.
Qed.

(** the first job of group [g], which holds [p], is replaced by [J] whose stopped set differs at [p] only *)
Lemma inv_restop : forall s C C' L g p j0 J m',
  INV s C L -> In p L -> own (tab s) g p -> In p (tpids (tab s)) ->
  get_job_by_gid (tab s) g = Some j0 ->
  jid J = jid j0 -> jgid J = jgid j0 -> jpids J = jpids j0 -> js_ok J ->
  (forall q, q <> p -> memZ q (jstopped J) = memZ q (jstopped j0)) ->
  m_reap m' = m_reap (mp s) -> m_kill m' = m_kill (mp s) ->
  (forall q, q <> p -> memZ q (m_stop m') = memZ q (m_stop (mp s)) /\ memZ q (m_cont m') = memZ q (m_cont (mp s))) ->
  (forall q, In q (m_stop m') -> In q (m_stop (mp s))) -> (forall q, In q (m_cont m') -> In q (m_cont (mp s))) ->
  (forall q, q <> p -> pst_in C' q = pst_in C q) ->
  keyb p (m_reap (mp s)) = false -> keyb p (m_kill (mp s)) = false ->
  pst_in C' p = (if memZ p (m_stop m') then PS else if memZ p (m_cont m') then PR
                 else if memZ p (jstopped J) then PS else PR) ->
  INV (mksh (upd_gid (fun _ => J) g (tab s)) m') C' L.
Proof.
  intros s C C' L g p j0 J m' I Hp O Tp G H1 H2 H3 Hj Hs R1 R2 M1 M2 M3 P1 K1 K2 P2.
  destruct (struct_upd (tab s) L g J j0 (i_ts _ _ _ I) G H1 H2 H3 Hj) as (S1 & S2).
  assert (Gg : jgid J = g) by (rewrite H2; apply (get_in _ _ _ G)).
  assert (Tin : forall q, in_table q (upd_gid (fun _ => J) g (tab s)) = in_table q (tab s)).
  { intros q. apply in_table_ext. intros x. rewrite S2. tauto. }
  constructor; cbn [tab mp].
  - exact S1.
  - intros q Hq Hc. apply (i_disj _ _ _ I q); auto.
  - intros q Hq. apply (i_maps _ _ _ I). unfold parked_any in *. rewrite R1, R2 in Hq.
    destruct Hq as [H|[H|[H|H]]]; auto.
  - intros q Hq. unfold adj. cbn [tab mp]. rewrite Tin, R1, R2. destruct (Z.eq_dec q p) as [->|N].
    + rewrite P2, (proj2 (in_table_in _ _) Tp), K1, K2. cbn [negb orb].
      destruct S1 as (_ & Sg & _).
      assert (O' : own (upd_gid (fun _ => J) g (tab s)) g p).
      { intros j' Hj' Hpj. destruct (upd_in _ _ _ _ Hj') as [H|H]; [apply O; auto|subst j'; exact Gg]. }
      destruct (view_self _ g p Sg O' ltac:(rewrite S2; exact Tp)) as (jx & Gx & _ & Vx).
      rewrite (get_upd_const J g (tab s) j0 G Gg) in Gx. injection Gx as <-. rewrite Vx. reflexivity.
    + rewrite (P1 q N), (i_truth _ _ _ I q Hq). unfold adj. destruct (M1 q N) as (-> & ->).
      rewrite (vs_upd_other J g (tab s) j0 q G H3 (fun _ => Hs q N)). reflexivity.
Qed.

(** * launch *)
Lemma pst_none : forall C q, (forall e, In e C -> ev_pid e <> q) -> pst_in C q = PR.
Proof.
  induction C as [|e C IH] using rev_ind; intros q H; [reflexivity|].
  rewrite pst_snoc_other.
  - apply IH. intros e' He'. apply H. apply in_app_iff. auto.
  - apply H. apply in_app_iff. simpl. auto.
Qed.

Lemma view_stopped_true : forall q t, view_stopped q t = true <-> exists j, In j t /\ In q (jpids j) /\ In q (jstopped j).
Proof.
  intros. unfold view_stopped. rewrite existsb_exists. split; intros (j & Hj & H); exists j; (split; [exact Hj|]).
  - apply andb_prop in H. rewrite !memZ_in in H. exact H.
  - rewrite <- !memZ_in in H. apply andb_true_intro. exact H.
Qed.

Lemma inv_launch : forall s C L L' p0 P bg,
  INV s C L -> NoDup (p0 :: P) -> (forall p, In p (p0 :: P) -> ~ In p L /\ 0 < p) ->
  (forall x, In x L' <-> In x (p0 :: P) \/ In x L) -> (forall e, In e C -> In (ev_pid e) L) ->
  INV (mksh (launch (tab s) p0 (p0 :: P) bg) (mp s)) C L' /\
  exists k, In (mkjob k p0 (p0 :: P) [] Running bg) (launch (tab s) p0 (p0 :: P) bg).
Proof.
  intros s C L L' p0 P bg I Hn Hf HL He. destruct (i_ts _ _ _ I) as (T1 & T2 & T3 & T4 & T5).
  assert (Hg : forall j, In j (tab s) -> jgid j <> p0).
  { intros j Hj E. destruct (T4 j Hj) as (_ & J4 & _). rewrite E in J4. apply (Hf p0); simpl; auto. }
  destruct (launch_decomp (tab s) p0 p0 P bg T1 Hg) as (k & t1 & t2 & A & B).
  set (PP := p0 :: P) in *. set (J := mkjob k p0 PP [] Running bg) in *.
  assert (Hfresh : forall x, In x PP -> ~ In x (tpids t1 ++ tpids t2)).
  { intros x Hx Hin. rewrite <- tpids_app, <- A in Hin. apply (Hf x Hx). auto. }
  assert (Tp : tpids (t1 ++ J :: t2) = tpids t1 ++ PP ++ tpids t2).
  { rewrite tpids_app. unfold tpids at 2. simpl. reflexivity. }
  assert (Tin : forall q, In q (tpids (t1 ++ J :: t2)) <-> In q PP \/ In q (tpids (tab s))).
  { intros q. rewrite Tp, A, tpids_app, !in_app_iff. tauto. }
  assert (Vs : forall q, view_stopped q (t1 ++ J :: t2) = view_stopped q (tab s)).
  { intros q. rewrite A. unfold view_stopped. rewrite !existsb_app. simpl. rewrite andb_false_r. reflexivity. }
  split; [|exists k; rewrite B; apply in_app_iff; right; left; reflexivity].
  rewrite B. constructor; cbn [tab mp].
  - unfold TS. split; [|split; [|split; [|split]]].
    + rewrite <- B. unfold launch. apply (fold_inv _ _ (sorted_from 1)); [|exact T1].
      intros; apply insert_job_from_sorted; assumption.
    + rewrite map_app. simpl. apply (nodup_insert_mid _ (map jgid t1) [p0] (map jgid t2)).
      * rewrite <- map_app, <- A. exact T2.
      * repeat constructor. intros [].
      * intros x [<-|[]] Hin. rewrite <- map_app, <- A in Hin. apply in_map_iff in Hin.
        destruct Hin as (j & E & Hj). apply (Hg j Hj E).
    + rewrite Tp. apply nodup_insert_mid; auto. rewrite <- tpids_app, <- A. exact T3.
    + intros j Hj. apply in_app_iff in Hj. simpl in Hj.
      assert (Old : In j (tab s) -> js_ok j /\ In (jgid j) L' /\ jgid j <> 0).
      { intros H. destruct (T4 j H) as (J1 & J4 & J5). repeat split; try apply J1; auto. apply HL. auto. }
      destruct Hj as [Hj|[<-|Hj]].
      * apply Old. rewrite A. apply in_app_iff; auto.
      * split; [split; [discriminate|reflexivity]|]. split; [apply HL; left; simpl; auto|].
        simpl. destruct (Hf p0) as (_ & H); [simpl; auto|lia].
      * apply Old. rewrite A. apply in_app_iff; auto.
    + intros q Hq. apply Tin in Hq. apply HL. destruct Hq; [auto|right; apply T5; auto].
  - apply I.
  - intros q Hq. apply HL. right. apply (i_maps _ _ _ I). exact Hq.
  - intros p Hp. unfold adj. cbn [tab mp]. rewrite Vs. apply HL in Hp. destruct Hp as [Hp|Hp].
    + destruct (Hf p Hp) as (F1 & _).
      rewrite pst_none by (intros e H E; apply F1; rewrite <- E; auto).
      rewrite (proj2 (in_table_in _ _) (proj2 (Tin p) (or_introl Hp))). cbn [negb].
      assert (Np : ~ parked_any (mp s) p) by (intros H; apply F1; apply (i_maps _ _ _ I); exact H).
      unfold parked_any in Np.
      destruct (keyb p (m_reap (mp s))); [tauto|]. destruct (keyb p (m_kill (mp s))); [tauto|].
      destruct (memZ p (m_stop (mp s))) eqn:M1; [apply memZ_in in M1; tauto|].
      destruct (memZ p (m_cont (mp s))) eqn:M2; [apply memZ_in in M2; tauto|]. simpl.
      destruct (view_stopped p (tab s)) eqn:V; [|reflexivity].
      apply view_stopped_true in V. destruct V as (j & Hj & Hq & _). exfalso. apply F1. apply T5. apply in_tpids. eauto.
    + rewrite (i_truth _ _ _ I p Hp). unfold adj.
      assert (T : in_table p (t1 ++ J :: t2) = in_table p (tab s)).
      { apply bool_ext. rewrite !in_table_in, Tin. split; [|auto]. intros [H|H]; [exfalso; apply (Hf p H); auto|auto]. }
      rewrite T. reflexivity.
Qed.

(** * the prompt-time poll *)
Definition ev_live (C : list ev) (e : ev) : Prop :=
  match e with Continued p => pst_in C p = PS | _ => pst_in C (ev_pid e) = PR end.

Fixpoint live_seq (C : list ev) (q : list ev) : Prop :=
  match q with [] => True | e :: r => ev_live C e /\ live_seq (C ++ [e]) r end.

Lemma ev_live_alive : forall C e, ev_live C e -> pst_in C (ev_pid e) <> PD.
Proof. intros C e H. destruct e; simpl in *; congruence. Qed.

Lemma inv_park_all : forall L q s C, INV s C L -> (forall e, In e q -> In (ev_pid e) L) -> live_seq C q ->
  INV (mksh (tab s) (handle_sigchld (mp s) q)) (C ++ q) L.
Proof.
  intros L. induction q as [|e q IH]; intros s C I Hq Lv; simpl.
  - rewrite app_nil_r. destruct s; exact I.
  - destruct Lv as (Lv1 & Lv2).
    pose proof (inv_park s C L e I (Hq e (or_introl eq_refl)) (ev_live_alive _ _ Lv1)) as I1.
    specialize (IH (mksh (tab s) (park (mp s) e)) (C ++ [e]) I1 (fun e' H => Hq e' (or_intror H)) Lv2).
    simpl in IH. rewrite <- app_assoc in IH. exact IH.
Qed.

Definition Kinv (C : list ev) (L : list Z) (s : shell) (todo : list (Z * Z)) : Prop :=
  INV s C L /\ (forall gp, In gp todo -> own (tab s) (fst gp) (snd gp) /\ In (snd gp) (tpids (tab s))) /\
  NoDup (map snd todo) /\
  (forall p, In p (tpids (tab s)) -> In p (map snd todo) \/ ~ parked_any (mp s) p).

Lemma own_upd : forall t g J j0 g' q, get_job_by_gid t g = Some j0 -> jgid J = jgid j0 -> jpids J = jpids j0 ->
  own t g' q -> own (upd_gid (fun _ => J) g t) g' q.
Proof.
  intros t g J j0 g' q G H2 H3 O j' Hj' Hq. destruct (upd_in _ _ _ _ Hj') as [H|H]; [apply O; auto|subst j'].
  rewrite H2. apply O; [apply (get_in _ _ _ G)|rewrite <- H3; exact Hq].
Qed.

Lemma j_stopped_fields : forall j0 p, jid (j_stopped j0 p) = jid j0 /\ jgid (j_stopped j0 p) = jgid j0 /\
  jpids (j_stopped j0 p) = jpids j0 /\ jstopped (j_stopped j0 p) = hs_add p (jstopped j0).
Proof. intros. unfold j_stopped. destruct (forallb _ _); auto. Qed.

Lemma j_continued_fields : forall j0 p, jid (j_continued j0 p) = jid j0 /\ jgid (j_continued j0 p) = jgid j0 /\
  jpids (j_continued j0 p) = jpids j0 /\ jstopped (j_continued j0 p) = hs_remove p (jstopped j0).
Proof. intros. unfold j_continued. destruct (hs_remove p (jstopped j0)) eqn:R; cbn; rewrite ?R; auto. Qed.

Lemma poll_step : forall C L g p todo s, Kinv C L s ((g, p) :: todo) -> Kinv C L (poll_pid g s p) todo.
Proof.
  intros C L g p todo s (I & O & Nd & D).
  destruct (O (g, p) (or_introl eq_refl)) as (Og & Tp). cbn [fst snd] in Og, Tp.
  cbn [map snd] in Nd. inversion Nd as [|? ? Np Nd']; subst.
  destruct (i_ts _ _ _ I) as (T1 & T2 & T3 & T4 & T5).
  assert (HpL : In p L) by (apply T5; exact Tp).
  pose proof (i_truth _ _ _ I p HpL) as Tr. unfold adj in Tr. rewrite (proj2 (in_table_in _ _) Tp) in Tr. cbn [negb] in Tr.
  unfold poll_pid.
  assert (Dead : forall m', keyb p (m_reap (mp s)) || keyb p (m_kill (mp s)) = true ->
            m_stop m' = m_stop (mp s) -> m_cont m' = m_cont (mp s) ->
            (forall q, keyb q (m_reap m') = true -> keyb q (m_reap (mp s)) = true) ->
            (forall q, keyb q (m_kill m') = true -> keyb q (m_kill (mp s)) = true) ->
            (forall q, q <> p -> keyb q (m_reap m') = keyb q (m_reap (mp s)) /\ keyb q (m_kill m') = keyb q (m_kill (mp s))) ->
            Kinv C L (mksh (mark_job_as_done (tab s) g p) m') todo).
  { intros m' Kd M1 M2 M3 M4 M5. rewrite Kd in Tr.
    destruct (struct_done (tab s) L g p (i_ts _ _ _ I) Og) as (_ & S2 & _ & S4).
    split; [apply (inv_done s C C L g p m' I HpL Og M1 M2 M3 M4 M5 (fun _ _ => eq_refl) Tr)|].
    cbn [tab mp]. split; [|split; [exact Nd'|]].
    - intros gp Hgp. destruct (O gp (or_intror Hgp)) as (O1 & O2). split; [apply S4; exact O1|].
      apply S2. split; [exact O2|]. intros E. apply Np. rewrite <- E. apply in_map. exact Hgp.
    - intros q Hq. apply S2 in Hq. destruct Hq as (Hq & Nq). destruct (D q Hq) as [[E|H]|H].
      + simpl in E. congruence.
      + auto.
      + right. intros Pq. apply H. unfold parked_any in *. rewrite M1, M2 in Pq. destruct Pq as [X|[X|X]]; auto. }
  destruct (keyb p (m_reap (mp s))) eqn:Kr.
  { destruct (map_get p (m_reap (mp s))) eqn:Gr; [|rewrite keyb_get, Gr in Kr; discriminate].
    apply Dead; cbn [m_reap m_kill m_stop m_cont]; auto.
    - intros q. unfold keyb. rewrite !memZ_in. apply map_del_keys.
    - intros q Nq. split; [apply keyb_del_other; exact Nq|reflexivity]. }
  destruct (map_get p (m_reap (mp s))) eqn:Gr; [rewrite keyb_get, Gr in Kr; discriminate|].
  destruct (keyb p (m_kill (mp s))) eqn:Kk.
  { destruct (map_get p (m_kill (mp s))) eqn:Gk; [|rewrite keyb_get, Gk in Kk; discriminate].
    apply Dead; cbn [m_reap m_kill m_stop m_cont]; auto.
    - intros q. unfold keyb. rewrite !memZ_in. apply map_del_keys.
    - intros q Nq. split; [reflexivity|apply keyb_del_other; exact Nq]. }
  destruct (map_get p (m_kill (mp s))) eqn:Gk; [rewrite keyb_get, Gk in Kk; discriminate|].
  cbn [orb] in Tr.
  destruct (view_self (tab s) g p T2 Og Tp) as (j0 & G0 & Pj0 & V0).
  destruct (T4 j0 (proj1 (get_in _ _ _ G0))) as (Js0 & _).
  (* common tail for the two re-stop cases *)
  assert (Tail : forall J m', jgid J = jgid j0 -> jpids J = jpids j0 ->
            INV (mksh (upd_gid (fun _ => J) g (tab s)) m') C L ->
            ~ parked_any m' p -> (forall q, parked_any m' q -> parked_any (mp s) q) ->
            Kinv C L (mksh (upd_gid (fun _ => J) g (tab s)) m') todo).
  { intros J m' H2 H3 I' Npk Sub.
    assert (Tp' : tpids (upd_gid (fun _ => J) g (tab s)) = tpids (tab s)).
    { destruct (i_ts _ _ _ I') as (_ & _ & _ & _ & _). unfold tpids.
      assert (M : map jpids (upd_gid (fun _ => J) g (tab s)) = map jpids (tab s)).
      { clear - G0 H3. revert G0. induction (tab s) as [|a t IH]; simpl; intros G0; [discriminate|].
        destruct (jgid a =? g); simpl; [injection G0 as <-; rewrite H3; reflexivity|f_equal; auto]. }
      rewrite M. reflexivity. }
    split; [exact I'|]. cbn [tab mp]. rewrite Tp'. split; [|split; [exact Nd'|]].
    - intros gp Hgp. destruct (O gp (or_intror Hgp)) as (O1 & O2). split; [|exact O2].
      apply (own_upd _ g J j0 _ _ G0 H2 H3 O1).
    - intros q Hq. destruct (D q Hq) as [[E|H]|H]; auto. simpl in E. subst q. auto. }
  destruct (memZ p (m_stop (mp s))) eqn:Ms.
  - (* a parked stop *)
    rewrite (mark_stopped_char _ p g j0 G0). destruct (j_stopped_fields j0 p) as (F1 & F2 & F3 & F4).
    apply memZ_in in Ms.
    assert (Mc : memZ p (m_cont (mp s)) = false) by (apply memZ_false; apply (i_disj _ _ _ I); exact Ms).
    apply Tail; auto.
    + apply (inv_restop s C C L g p j0 (j_stopped j0 p) _ I HpL Og Tp G0 F1 F2 F3 (js_stopped j0 p Js0)); cbn [m_reap m_kill m_stop m_cont]; auto.
      * intros q Nq. rewrite F4, memZ_hs_add, (eqb_neq_false q p Nq). reflexivity.
      * intros q Nq. rewrite memZ_hs_remove, (eqb_neq_false q p Nq). auto.
      * intros q Hq. apply in_hs_remove in Hq. tauto.
      * rewrite Tr, memZ_hs_remove, Z.eqb_refl, Mc, F4, memZ_hs_add, Z.eqb_refl. reflexivity.
    + unfold parked_any. cbn [m_reap m_kill m_stop m_cont]. rewrite Kr, Kk, in_hs_remove.
      apply memZ_false in Mc. intros [X|[X|[X|X]]]; try discriminate; tauto.
    + unfold parked_any. cbn [m_reap m_kill m_stop m_cont]. intros q. rewrite in_hs_remove. tauto.
  - destruct (memZ p (m_cont (mp s))) eqn:Mc.
    + (* a parked continue *)
      rewrite (mark_continued_char _ p g j0 G0). destruct (j_continued_fields j0 p) as (F1 & F2 & F3 & F4).
      apply Tail; auto.
      * apply (inv_restop s C C L g p j0 (j_continued j0 p) _ I HpL Og Tp G0 F1 F2 F3 (proj1 (js_continued j0 p Js0 Pj0))); cbn [m_reap m_kill m_stop m_cont]; auto.
        -- intros q Nq. rewrite F4, memZ_hs_remove, (eqb_neq_false q p Nq). reflexivity.
        -- intros q Nq. rewrite memZ_hs_remove, (eqb_neq_false q p Nq). auto.
        -- intros q Hq. apply in_hs_remove in Hq. tauto.
        -- rewrite Tr, Ms, memZ_hs_remove, Z.eqb_refl, F4, memZ_hs_remove, Z.eqb_refl. reflexivity.
      * unfold parked_any. cbn [m_reap m_kill m_stop m_cont]. rewrite Kr, Kk, in_hs_remove.
        apply memZ_false in Ms. intros [X|[X|[X|X]]]; try discriminate; tauto.
      * unfold parked_any. cbn [m_reap m_kill m_stop m_cont]. intros q. rewrite in_hs_remove. tauto.
    + (* nothing parked for p *)
      split; [exact I|]. split; [intros gp Hgp; apply O; right; exact Hgp|]. split; [exact Nd'|].
      intros q Hq. destruct (D q Hq) as [[E|H]|H]; auto. simpl in E. subst q. right.
      unfold parked_any. rewrite Kr, Kk. apply memZ_false in Ms. apply memZ_false in Mc.
      intros [X|[X|[X|X]]]; try discriminate; tauto.
Qed.

Lemma poll_pairs : forall C L todo s, Kinv C L s todo -> Kinv C L (fold_left poll_pair todo s) [].
Proof.
  intros C L. induction todo as [|(g, p) todo IH]; intros s K; [exact K|].
  simpl. apply IH. unfold poll_pair. simpl. apply poll_step. exact K.
Qed.

Lemma flat_snd : forall t, map snd (flat t) = tpids t.
Proof.
  induction t as [|a t IH]; [reflexivity|]. unfold flat, tpids in *. simpl. rewrite map_app, IH. f_equal.
  induction (jpids a) as [|x l IHl]; [reflexivity|]. simpl. f_equal. exact IHl.
Qed.

Theorem inv_poll : forall s C L q, INV s C L -> (forall e, In e q -> In (ev_pid e) L) -> live_seq C q ->
  exists C', C ++ q = C' ++ snd (try_wait_bg_jobs s q) /\
    INV (fst (try_wait_bg_jobs s q)) C' L /\
    (snd (try_wait_bg_jobs s q) = [] ->
       forall p, In p (tpids (tab (fst (try_wait_bg_jobs s q)))) -> ~ parked_any (mp (fst (try_wait_bg_jobs s q))) p).
Proof.
  intros s C L q I Hq Lv. unfold try_wait_bg_jobs.
  destruct (tab s) as [|j0 t0] eqn:E.
  - exists C. simpl. split; [reflexivity|]. split; [exact I|]. intros _ p Hp. rewrite E in Hp. destruct Hp.
  - rewrite <- E. simpl. exists (C ++ q). split; [rewrite app_nil_r; reflexivity|].
    pose proof (inv_park_all L q s C I Hq Lv) as I1.
    set (s1 := mksh (tab s) (handle_sigchld (mp s) q)) in *.
    destruct (i_ts _ _ _ I) as (_ & _ & T3 & _).
    assert (K : Kinv (C ++ q) L s1 (flat (tab s))).
    { split; [exact I1|]. split; [|split].
      - intros gp Hgp. apply (flat_own (tab s) gp T3 Hgp).
      - rewrite flat_snd. exact T3.
      - intros p Hp. left. apply flat_all. exact Hp. }
    rewrite poll_flat. apply poll_pairs in K. destruct K as (K1 & _ & _ & K3).
    split; [exact K1|]. intros _ p Hp. destruct (K3 p Hp) as [[]|H]; exact H.
Qed.

(** * the foreground wait *)
Lemma last_status_snoc : forall C e x,
  last_status (C ++ [e]) x = if (ev_pid e =? x) && negb (is_cont e) then ev_status e else last_status C x.
Proof. intros. unfold last_status. rewrite fold_left_app. reflexivity. Qed.

Lemma filter_le : forall (f : Z -> bool) P, (length (filter f P) <= length P)%nat.
Proof. induction P as [|a P IH]; simpl; [lia|]. destruct (f a); simpl; lia. Qed.

Lemma forallb_false : forall (f : Z -> bool) l, forallb f l = false -> exists x, In x l /\ f x = false.
Proof.
  induction l as [|a l IH]; simpl; intros H; [discriminate|].
  destruct (f a) eqn:E; [destruct (IH H) as (x & Hx & Fx); eauto|eauto].
Qed.

Lemma get_gid0 : forall t L, TS t L -> get_job_by_gid t 0 = None.
Proof.
  intros t L (_ & _ & _ & T4 & _). destruct (get_job_by_gid t 0) eqn:G; [|reflexivity].
  destruct (get_in _ _ _ G) as (Hj & E). destruct (T4 j Hj) as (_ & _ & N). congruence.
Qed.

Definition settled_ok (C : list ev) (P settled : list Z) : Prop :=
  NoDup settled /\ forall x, In x settled <-> (In x P /\ pst_in C x <> PR).

Definition wait_post (L : list Z) (P : list Z) (plast : Z) (q : list ev) (C : list ev) (w : wres) : Prop :=
  exists c', q = c' ++ w_left w /\ INV (w_sh w) (C ++ c') L /\
    w_status w = last_status (C ++ c') plast /\
    (w_blocked w = true -> w_left w = [] /\ exists p, In p P /\ pst_in (C ++ c') p = PR) /\
    (w_blocked w = false -> (forall p, In p P -> pst_in (C ++ c') p <> PR) /\
       exists c'' e, c' = c'' ++ [e] /\ In (ev_pid e) P /\ pst_in (C ++ c'') (ev_pid e) = PR).

Lemma pstate_dec : forall a b : pstate, {a = b} + {a <> b}.
Proof. decide equality. Qed.

Lemma wait_loop_inv : forall L g P plast, NoDup P -> In plast P ->
  forall q s C settled st,
  INV s C L -> (forall p, In p P -> own (tab s) g p) ->
  (forall p, In p P -> ~ In p (m_stop (mp s)) /\ ~ In p (m_cont (mp s))) ->
  (forall e, In e q -> In (ev_pid e) L) -> live_seq C q ->
  settled_ok C P settled -> (length settled < length P)%nat -> st = last_status C plast ->
  wait_post L P plast q C (wait_loop q s g P plast (length P) settled st).
Proof.
  intros L g P plast NP Hlast.
  induction q as [|e q IH]; intros s C settled st I O Nm Hq Lv (Sn & Sc) Hn Hst.
  - simpl. exists []. simpl. rewrite app_nil_r. split; [reflexivity|]. split; [exact I|]. split; [exact Hst|].
    split; [|discriminate]. intros _. split; [reflexivity|].
    destruct (forallb (fun x => memZ x settled) P) eqn:F.
    + exfalso. rewrite forallb_forall in F.
      assert (incl P settled) by (intros x Hx; apply memZ_in; apply F; exact Hx).
      pose proof (NoDup_incl_length NP H). lia.
    + destruct (forallb_false _ _ F) as (x & Hx & Fx). exists x. split; [exact Hx|].
      apply memZ_false in Fx. destruct (pstate_dec (pst_in C x) PR) as [E|E]; [exact E|].
      exfalso. apply Fx. apply Sc. auto.
  - destruct Lv as (Lv1 & Lv2). pose proof (Hq e (or_introl eq_refl)) as HpL.
    assert (Hq' : forall e0, In e0 q -> In (ev_pid e0) L) by (intros; apply Hq; simpl; auto).
    pose proof (ev_live_alive _ _ Lv1) as Al.
    destruct (i_ts _ _ _ I) as (T1 & T2 & T3 & T4 & T5).
    (* how the rest of the loop is glued on *)
    assert (Glue : forall w, wait_post L P plast q (C ++ [e]) w -> w_blocked w = w_blocked w ->
              wait_post L P plast (e :: q) C w).
    { intros w (c' & E1 & E2 & E3 & E4 & E5) _. exists (e :: c'). cbn [app]. rewrite <- E1.
      rewrite <- app_assoc in E2, E3, E4, E5. cbn [app] in E2, E3, E4, E5.
      split; [reflexivity|]. split; [exact E2|]. split; [exact E3|]. split; [exact E4|].
      intros B. destruct (E5 B) as (F1 & c'' & e' & F2 & F3 & F4). split; [exact F1|].
      exists (e :: c''), e'. split; [rewrite F2; reflexivity|]. split; [exact F3|].
      rewrite <- app_assoc in F4. exact F4. }
    (* after a status of a member other than a continue: return or go on *)
    assert (Ending : forall s1 settled1 st1,
              INV s1 (C ++ [e]) L -> (forall p, In p P -> own (tab s1) g p) ->
              (forall p, In p P -> ~ In p (m_stop (mp s1)) /\ ~ In p (m_cont (mp s1))) ->
              settled_ok (C ++ [e]) P settled1 -> st1 = last_status (C ++ [e]) plast ->
              In (ev_pid e) P -> pst_in C (ev_pid e) = PR ->
              wait_post L P plast (e :: q) C
                (if (length P <=? length settled1)%nat then mkwres s1 st1 false q
                 else wait_loop q s1 g P plast (length P) settled1 st1)).
    { intros s1 settled1 st1 I1 O1 Nm1 Sk Hst1 M Pr.
      destruct (length P <=? length settled1)%nat eqn:Le.
      - apply Nat.leb_le in Le. exists [e]. cbn [w_left w_sh w_status w_blocked app].
        split; [reflexivity|]. split; [exact I1|]. split; [exact Hst1|]. split; [discriminate|].
        intros _. split.
        + intros x Hx.
          assert (Hin : In x settled1).
          { apply (NoDup_length_incl (proj1 Sk) Le); [|exact Hx]. intros y Hy. apply (proj2 Sk) in Hy. tauto. }
          apply (proj2 Sk) in Hin. tauto.
        + exists [], e. rewrite app_nil_r. auto.
      - apply Nat.leb_gt in Le. apply Glue; [|reflexivity]. apply IH; auto. }
    assert (SkAdd : is_cont e = false -> In (ev_pid e) P -> settled_ok (C ++ [e]) P (hs_add (ev_pid e) settled)).
    { intros Nc M. split.
      - unfold hs_add. destruct (memZ (ev_pid e) settled) eqn:Ms; [exact Sn|].
        constructor; [apply memZ_false; exact Ms|exact Sn].
      - intros x. rewrite in_hs_add, Sc. destruct (Z.eq_dec x (ev_pid e)) as [->|Nx].
        + rewrite pst_snoc_self. split; [intros _; split; [exact M|destruct e; try discriminate; simpl; discriminate]|auto].
        + rewrite (pst_snoc_other C e x) by auto. tauto. }
    assert (SkSame : ~ In (ev_pid e) P -> settled_ok (C ++ [e]) P settled).
    { intros M. split; [exact Sn|]. intros x. rewrite Sc. split; intros (Hx & Hp); (split; [exact Hx|]);
        (rewrite (pst_snoc_other C e x) in * by (intros E; apply M; rewrite E; exact Hx)); exact Hp. }
    cbn [wait_loop].
    destruct (memZ (ev_pid e) P) eqn:M.
    + (* a member of the waited job *)
      apply memZ_in in M. destruct (Nm _ M) as (Ns & Nc).
      destruct (alive_facts _ _ _ _ I HpL Al) as (A1 & A2 & A3). apply in_table_in in A1.
      assert (Og := O _ M).
      destruct (view_self (tab s) g (ev_pid e) T2 Og A1) as (j0 & G0 & Pj0 & V0).
      destruct (T4 j0 (proj1 (get_in _ _ _ G0))) as (Js0 & _).
      assert (Other : forall q0, q0 <> ev_pid e -> pst_in (C ++ [e]) q0 = pst_in C q0)
        by (intros; apply pst_snoc_other; auto).
      assert (Restop : forall J, jid J = jid j0 -> jgid J = jgid j0 -> jpids J = jpids j0 -> js_ok J ->
                (forall q0, q0 <> ev_pid e -> memZ q0 (jstopped J) = memZ q0 (jstopped j0)) ->
                ev_effect e = (if memZ (ev_pid e) (jstopped J) then PS else PR) ->
                INV (mksh (upd_gid (fun _ => J) g (tab s)) (mp s)) (C ++ [e]) L /\
                (forall p, In p P -> own (upd_gid (fun _ => J) g (tab s)) g p)).
      { intros J F1 F2 F3 Fj Fs Fe. split.
        - apply (inv_restop s C _ L g (ev_pid e) j0 J (mp s) I HpL Og A1 G0 F1 F2 F3 Fj Fs); auto.
          rewrite pst_snoc_self, (proj2 (memZ_false _ _) Ns), (proj2 (memZ_false _ _) Nc). exact Fe.
        - intros x Hx. apply (own_upd _ g J j0 _ _ G0 F2 F3 (O x Hx)). }
      assert (DoneCase : is_cont e = false -> ev_effect e = PD -> pst_in C (ev_pid e) = PR ->
                forall st1, st1 = last_status (C ++ [e]) plast ->
                wait_post L P plast (e :: q) C
                  (if (length P <=? length (hs_add (ev_pid e) settled))%nat
                   then mkwres (mksh (mark_job_as_done (tab s) g (ev_pid e)) (mp s)) st1 false q
                   else wait_loop q (mksh (mark_job_as_done (tab s) g (ev_pid e)) (mp s)) g P plast (length P)
                          (hs_add (ev_pid e) settled) st1)).
      { intros Ncn Ed Pr st1 Hs1.
        destruct (struct_done (tab s) L g (ev_pid e) (i_ts _ _ _ I) Og) as (_ & _ & _ & S4).
        apply Ending; auto; try (intros x Hx; apply S4; apply O; exact Hx).
        apply (inv_done s C _ L g (ev_pid e) (mp s) I HpL Og); auto. rewrite pst_snoc_self. exact Ed. }
      destruct e as [p v|p v|p v|p]; cbn [ev_pid is_cont negb andb ev_effect] in *.
      * apply DoneCase; auto. rewrite last_status_snoc, Hst. cbn [ev_pid is_cont negb]. rewrite andb_true_r. reflexivity.
      * apply DoneCase; auto. rewrite last_status_snoc, Hst. cbn [ev_pid is_cont negb]. rewrite andb_true_r. reflexivity.
      * (* stop *)
        rewrite (mark_stopped_char _ p g j0 G0). destruct (j_stopped_fields j0 p) as (F1 & F2 & F3 & F4).
        destruct (Restop (j_stopped j0 p) F1 F2 F3 (js_stopped j0 p Js0)) as (I1 & O1).
        { intros q0 N0. rewrite F4, memZ_hs_add, (eqb_neq_false q0 p N0). reflexivity. }
        { rewrite F4, memZ_hs_add, Z.eqb_refl. reflexivity. }
        apply Ending; auto.
        rewrite last_status_snoc, Hst. cbn [ev_pid is_cont negb]. rewrite andb_true_r. reflexivity.
      * (* continue *)
        rewrite (sh_continued_char _ p g j0 G0).
        destruct (Restop (j_cont_sh j0 p) eq_refl eq_refl eq_refl (proj2 (js_continued j0 p Js0 Pj0))) as (I1 & O1).
        { intros q0 N0. cbn [j_cont_sh jstopped]. rewrite memZ_hs_remove, (eqb_neq_false q0 p N0). reflexivity. }
        { cbn [j_cont_sh jstopped]. rewrite memZ_hs_remove, Z.eqb_refl. reflexivity. }
        apply Glue; [|reflexivity]. apply IH; auto.
        -- split; [apply NoDup_filter; exact Sn|]. intros x. unfold hs_remove. rewrite filter_In, negb_true_iff, Z.eqb_neq, Sc.
           destruct (Z.eq_dec x p) as [->|Nx].
           ++ rewrite pst_in_snoc. cbn [ev_pid ev_effect]. rewrite Z.eqb_refl. tauto.
           ++ rewrite pst_in_snoc. cbn [ev_pid]. rewrite (eqb_neq_false p x) by auto. tauto.
        -- pose proof (filter_le (fun y => negb (y =? p)) settled). unfold hs_remove. lia.
        -- rewrite last_status_snoc, Hst. cbn [ev_pid is_cont negb]. rewrite andb_false_r. reflexivity.
    + (* another process: parked *)
      apply memZ_false in M.
      assert (I1 : INV (mksh (tab s) (park (mp s) e)) (C ++ [e]) L) by (apply inv_park; auto).
      assert (Nm1 : forall p, In p P -> ~ In p (m_stop (park (mp s) e)) /\ ~ In p (m_cont (park (mp s) e))).
      { intros x Hx. destruct (Nm x Hx) as (N1 & N2).
        assert (x <> ev_pid e) by (intros ->; tauto).
        destruct e as [p v|p v|p v|p]; cbn [park m_stop m_cont ev_pid] in *; rewrite ?in_hs_add, ?in_hs_remove; tauto. }
      assert (Hst1 : st = last_status (C ++ [e]) plast).
      { rewrite last_status_snoc. destruct (ev_pid e =? plast) eqn:E; [apply Z.eqb_eq in E; congruence|]. exact Hst. }
      assert (Le : (length P <=? length settled)%nat = false) by (apply Nat.leb_gt; exact Hn).
      assert (Rec : wait_post L P plast (e :: q) C
                      (wait_loop q (mksh (tab s) (park (mp s) e)) g P plast (length P) settled st)).
      { apply Glue; [|reflexivity]. apply IH; auto. }
      destruct e as [p v|p v|p v|p]; cbn [ev_pid is_cont negb andb] in *; rewrite ?Le; try exact Rec.
      rewrite (mark_none _ p 0 (get_gid0 _ _ (i_ts _ _ _ I))). exact Rec.
Qed.

Lemma forallb_ext_in' : forall (f g : Z -> bool) l, (forall x, In x l -> f x = g x) -> forallb f l = forallb g l.
Proof.
  induction l as [|a l IH]; intros H; [reflexivity|]. simpl. rewrite (H a) by (simpl; auto).
  f_equal. apply IH. intros x Hx. apply H. simpl; auto.
Qed.

(** goodness of the table once nothing is parked for a member of a job *)
Lemma good_table_of : forall s C L,
  INV s C L -> (forall p, In p (tpids (tab s)) -> ~ parked_any (mp s) p) ->
  forallb (fun p => match pst_in C p with
                    | PD => negb (in_table p (tab s))
                    | PR => in_table p (tab s) && negb (view_stopped p (tab s))
                    | PS => in_table p (tab s) && view_stopped p (tab s)
                    end) L
  && forallb (fun j =>
        let live := filter (fun p => negb (pstate_eqb (pst_in C p) PD)) (jpids j) in
        negb (match live with [] => true | _ => false end) &&
        Bool.eqb (match jst j with Stopped => true | Running => false end)
                 (forallb (fun p => pstate_eqb (pst_in C p) PS) live)) (tab s) = true.
Proof.
  intros s C L I Dn. destruct (i_ts _ _ _ I) as (T1 & T2 & T3 & T4 & T5).
  assert (Adj : forall p, In p (tpids (tab s)) ->
            pst_in C p = if view_stopped p (tab s) then PS else PR).
  { intros p Hp. rewrite (i_truth _ _ _ I p (T5 p Hp)). unfold adj.
    rewrite (proj2 (in_table_in _ _) Hp). cbn [negb].
    pose proof (Dn p Hp) as N. unfold parked_any in N.
    destruct (keyb p (m_reap (mp s))); [tauto|]. destruct (keyb p (m_kill (mp s))); [tauto|].
    destruct (memZ p (m_stop (mp s))) eqn:M1; [apply memZ_in in M1; tauto|].
    destruct (memZ p (m_cont (mp s))) eqn:M2; [apply memZ_in in M2; tauto|]. reflexivity. }
  apply andb_true_intro. split; apply forallb_forall.
  - intros p Hp. destruct (in_table p (tab s)) eqn:T.
    + apply in_table_in in T. rewrite (Adj p T). destruct (view_stopped p (tab s)); reflexivity.
    + rewrite (i_truth _ _ _ I p Hp). unfold adj. rewrite T. reflexivity.
  - intros j Hj. destruct (T4 j Hj) as ((J1 & J2) & _).
    assert (Tj : forall p, In p (jpids j) -> In p (tpids (tab s))) by (intros; apply in_tpids; eauto).
    assert (Vj : forall p, In p (jpids j) -> view_stopped p (tab s) = memZ p (jstopped j)).
    { intros p Hp. pose proof (nodup_tpids_own _ j p T3 Hj Hp) as O.
      destruct (view_self (tab s) (jgid j) p T2 O (Tj p Hp)) as (j0 & G0 & _ & V0).
      rewrite (get_unique _ j T2 Hj) in G0. injection G0 as <-. exact V0. }
    assert (F : filter (fun p => negb (pstate_eqb (pst_in C p) PD)) (jpids j) = jpids j).
    { assert (A : forall p, In p (jpids j) -> negb (pstate_eqb (pst_in C p) PD) = true).
      { intros p Hp. rewrite (Adj p (Tj p Hp)). destruct (view_stopped p (tab s)); reflexivity. }
      clear - A. induction (jpids j) as [|a l IHl]; [reflexivity|]. simpl. rewrite (A a) by (simpl; auto).
      f_equal. apply IHl. intros p Hp. apply A. simpl; auto. }
    cbv zeta. rewrite F. destruct (jpids j) as [|a l] eqn:E; [congruence|]. cbn [negb andb].
    assert (Eq : forallb (fun p => pstate_eqb (pst_in C p) PS) (a :: l) = all_members_stopped j).
    { unfold all_members_stopped. rewrite E. apply forallb_ext_in'. intros p Hp.
      rewrite (Adj p (Tj p Hp)), (Vj p Hp). destruct (memZ p (jstopped j)); reflexivity. }
    rewrite Eq, <- J2. destruct (jst j); reflexivity.
Qed.

(** * from the bookkeeping of [valid] to the invariant *)
Lemma live_seq_app : forall B A D, live_seq A (B ++ D) <-> live_seq A B /\ live_seq (A ++ B) D.
Proof.
  induction B as [|e B IH]; intros A D; simpl.
  - rewrite app_nil_r. tauto.
  - rewrite IH. replace ((A ++ [e]) ++ B) with (A ++ e :: B) by (rewrite <- app_assoc; reflexivity). tauto.
Qed.

Lemma evs_ok_live : forall seen evs D, evs_ok seen D evs = true ->
  live_seq D evs /\ forall e, In e evs -> In (ev_pid e) seen.
Proof.
  intros seen. induction evs as [|e evs IH]; intros D H; [split; [exact I|intros e []]|].
  cbn [evs_ok] in H. apply andb_prop in H. destruct H as (H1 & H2). unfold ev_ok in H1.
  apply andb_prop in H1. destruct H1 as (H1 & H3). apply memZ_in in H1.
  destruct (IH _ H2) as (I1 & I2). split.
  - split; [|exact I1]. destruct e as [p v|p v|p v|p]; cbn [ev_live ev_pid] in *;
      (destruct (pst_in D p); try discriminate; reflexivity).
  - intros e' [<-|He']; auto.
Qed.

Definition GI (h : list op) : Prop :=
  exists C,
    all_events h = C ++ r_pend (run h) /\
    INV (r_sh (run h)) C (launched h) /\
    v_deliv (vrun h) = all_events h /\
    (forall x, In x (v_seen (vrun h)) <-> In x (launched h)) /\
    (forall e, In e (all_events h) -> In (ev_pid e) (launched h)) /\
    live_seq [] (all_events h) /\
    match v_expect (vrun h) with
    | None => True
    | Some (g, P) => NoDup P /\ P <> [] /\ (forall p, In p P -> ~ In p (launched h) -> False) /\
                     (forall p e, In p P -> In e (all_events h) -> ev_pid e <> p) /\
                     (forall p, In p P -> ~ parked_any (mp (r_sh (run h))) p) /\
                     exists k bg, In (mkjob k g P [] Running bg) (tab (r_sh (run h)))
    end.

Lemma inv_empty : INV empty_shell [] [].
Proof.
  constructor; simpl.
  - unfold TS. simpl. split; [exact I|]. split; [constructor|]. split; [constructor|]. split; [intros j []|intros x []].
  - intros p [].
  - intros p [H|[H|[[]|[]]]]; discriminate.
  - intros p [].
Qed.

Lemma gi_nil : GI [].
Proof.
  exists []. split; [reflexivity|]. split; [exact inv_empty|]. split; [reflexivity|].
  split; [intros x; simpl; tauto|]. split; [intros e []|]. split; exact I.
Qed.

Lemma gi_events : forall h evs, GI h -> evs_ok (v_seen (vrun h)) (v_deliv (vrun h)) evs = true ->
  live_seq [] (all_events h ++ evs) /\ forall e, In e (all_events h ++ evs) -> In (ev_pid e) (launched h).
Proof.
  intros h evs (C & G1 & G2 & G3 & G4 & G5 & G6 & G7) Ok. rewrite G3 in Ok.
  destruct (evs_ok_live _ _ _ Ok) as (Lv & S). split.
  - apply live_seq_app. split; [exact G6|exact Lv].
  - intros e He. apply in_app_iff in He. destruct He as [He|He]; [auto|apply G4; auto].
Qed.

Theorem gi_step : forall h o, GI h -> vcheck (vrun h) o = true -> GI (h ++ [o]) /\ good (h ++ [o]) = true.
Proof.
  intros h o G V. pose proof G as (C & G1 & G2 & G3 & G4 & G5 & G6 & G7).
  unfold good. rewrite last_last.
  destruct o as [gid pids bg|gid pids evs|evs].
  - (* Launch *)
    split; [|reflexivity].
    cbn [vcheck] in V. apply andb_prop in V. destruct V as (V & V4). apply andb_prop in V. destruct V as (V & V3).
    apply andb_prop in V. destruct V as (V1 & V2).
    destruct (v_expect (vrun h)) eqn:Ex; [discriminate|].
    destruct pids as [|p0 P]; [discriminate|]. apply Z.eqb_eq in V2. subst gid.
    rewrite forallb_forall in V3. apply nodupb_nodup in V4.
    assert (Fr : forall p, In p (p0 :: P) -> ~ In p (launched h) /\ 0 < p).
    { intros p Hp. specialize (V3 p Hp). apply andb_prop in V3. destruct V3 as (A & B).
      apply Z.ltb_lt in A. apply negb_true_iff in B. apply memZ_false in B. rewrite G4 in B. auto. }
    assert (EvC : forall e, In e C -> In (ev_pid e) (launched h)).
    { intros e He. apply G5. rewrite G1. apply in_app_iff. auto. }
    destruct (inv_launch (r_sh (run h)) C (launched h) (launched (h ++ [Launch p0 (p0 :: P) bg])) p0 P bg G2 V4 Fr)
      as (I' & k & Hk); [intros x; rewrite launched_snoc, in_app_iff; tauto|exact EvC|].
    exists C. rewrite run_snoc, vrun_snoc, all_events_snoc. cbn [step vnext r_sh r_pend op_events v_deliv v_seen v_expect].
    rewrite app_nil_r. split; [exact G1|]. split; [exact I'|]. split; [exact G3|]. split.
    { intros x. rewrite launched_snoc, !in_app_iff, G4. tauto. }
    split. { intros e He. rewrite launched_snoc. apply in_app_iff. left. auto. }
    split; [exact G6|].
    destruct bg; [exact I|]. split; [exact V4|]. split; [discriminate|]. split; [|split; [|split]].
    + intros p Hp Hn. apply Hn. rewrite launched_snoc. apply in_app_iff. right. exact Hp.
    + intros p e Hp He E. apply (Fr p Hp). rewrite <- E. auto.
    + intros p Hp Pk. cbn [mp] in Pk. apply (Fr p Hp). apply (i_maps _ _ _ G2). exact Pk.
    + exists k, false. exact Hk.
  - (* Wait *)
    cbn [vcheck] in V. apply andb_prop in V. destruct V as (V & V3). apply andb_prop in V. destruct V as (V1 & V2).
    destruct (v_expect (vrun h)) as [(g, P)|] eqn:Ex; [|discriminate].
    apply andb_prop in V1. destruct V1 as (Vg & VP). apply Z.eqb_eq in Vg. apply list_eqb_eq in VP. subst gid pids.
    destruct G7 as (NP & PN & _ & Pf & Pk & k & bg0 & Hk).
    destruct (gi_events h evs G V2) as (Lv' & S').
    set (q := r_pend (run h) ++ evs).
    assert (Eall : all_events h ++ evs = C ++ q) by (unfold q; rewrite G1, <- app_assoc; reflexivity).
    assert (Hq : forall e, In e q -> In (ev_pid e) (launched h)).
    { intros e He. apply S'. rewrite Eall. apply in_app_iff. auto. }
    destruct (i_ts _ _ _ G2) as (_ & _ & T3 & _).
    assert (Own : forall p, In p P -> own (tab (r_sh (run h))) g p).
    { intros p Hp. apply (nodup_tpids_own _ (mkjob k g P [] Running bg0) p T3 Hk Hp). }
    assert (Nm : forall p, In p P -> ~ In p (m_stop (mp (r_sh (run h)))) /\ ~ In p (m_cont (mp (r_sh (run h))))).
    { intros p Hp. split; intros H; apply (Pk p Hp); unfold parked_any; auto. }
    assert (Cd : forall p, In p P -> pst_in C p = PR).
    { intros p Hp. apply pst_none. intros e He. apply (Pf p e Hp). rewrite G1. apply in_app_iff. auto. }
    assert (Hlast : In (last P 0) P).
    { destruct P as [|a P']; [congruence|]. clear. revert a. induction P' as [|b P' IH]; intros a; [simpl; auto|].
      right. apply (IH b). }
    assert (Np : (length (@nil Z) < length P)%nat) by (destruct P; [congruence|simpl; lia]).
    assert (Sk0 : settled_ok C P []).
    { split; [constructor|]. intros x. split; [intros []|]. intros (Hx & N). apply N. apply Cd. exact Hx. }
    assert (Ls0 : 0 = last_status C (last P 0)).
    { symmetry. clear - Pf Hlast G1. assert (H : forall e, In e C -> ev_pid e <> last P 0).
      { intros e He. apply (Pf _ e Hlast). rewrite G1. apply in_app_iff. auto. }
      clear - H. induction C as [|e C IH] using rev_ind; [reflexivity|].
      rewrite last_status_snoc. rewrite (eqb_neq_false _ _ (H e ltac:(apply in_app_iff; simpl; auto))). simpl.
      apply IH. intros e' He'. apply H. apply in_app_iff. auto. }
    assert (LvQ : live_seq C q).
    { rewrite Eall in Lv'. apply (live_seq_app C [] q) in Lv'. apply Lv'. }
    pose proof (wait_loop_inv (launched h) g P (last P 0) NP Hlast q (r_sh (run h)) C [] 0 G2 Own Nm Hq LvQ Sk0 Np Ls0) as W.
    destruct W as (c' & W1 & W2 & W3 & W4 & W5).
    assert (Estep : step (run h) (Wait g P evs) =
                    let w := wait_loop q (r_sh (run h)) g P (last P 0) (length P) [] 0 in
                    mkrst (w_sh w) (w_left w) (w_status w) (w_blocked w)).
    { cbn [step]. unfold wait_fg_job. destruct P; [congruence|reflexivity]. }
    set (w := wait_loop q (r_sh (run h)) g P (last P 0) (length P) [] 0) in *.
    assert (Ec : all_events (h ++ [Wait g P evs]) = (C ++ c') ++ r_pend (run (h ++ [Wait g P evs]))).
    { rewrite all_events_snoc, run_snoc, Estep. cbn [op_events r_pend]. rewrite Eall, W1, app_assoc. reflexivity. }
    split.
    + exists (C ++ c'). split; [exact Ec|]. rewrite run_snoc, Estep, vrun_snoc, launched_snoc, all_events_snoc.
      cbn [vnext r_sh v_deliv v_seen v_expect op_events]. rewrite app_nil_r.
      split; [exact W2|]. split; [rewrite G3; reflexivity|]. split; [exact G4|]. split; [exact S'|]. split; [exact Lv'|exact I].
    + unfold good_wait. unfold pst. rewrite (consumed_eq _ _ Ec). rewrite run_snoc, Estep. cbn [r_blocked r_status].
      destruct (w_blocked w) eqn:B.
      * destruct (W4 eq_refl) as (_ & p & Hp & Dp).
        apply existsb_exists. exists p. split; [exact Hp|]. rewrite Dp. reflexivity.
      * destruct (W5 eq_refl) as (Ge & c'' & e & E1 & E2 & E3).
        apply andb_true_intro. split; [apply andb_true_intro; split|].
        -- apply forallb_forall. intros p Hp. specialize (Ge p Hp). destruct (pst_in (C ++ c') p); try reflexivity. congruence.
        -- apply existsb_exists. exists (ev_pid e). split; [exact E2|].
           rewrite E1, app_assoc, removelast_last, E3. reflexivity.
        -- rewrite W3. apply Z.eqb_refl.
  - (* Poll *)
    cbn [vcheck] in V. apply andb_prop in V. destruct V as (V1 & V2).
    destruct (v_expect (vrun h)) eqn:Ex; [discriminate|].
    destruct (gi_events h evs G V2) as (Lv' & S').
    set (q := r_pend (run h) ++ evs).
    assert (Eall : all_events h ++ evs = C ++ q) by (unfold q; rewrite G1, <- app_assoc; reflexivity).
    assert (Hq : forall e, In e q -> In (ev_pid e) (launched h)).
    { intros e He. apply S'. rewrite Eall. apply in_app_iff. auto. }
    assert (LvQ : live_seq C q).
    { rewrite Eall in Lv'. apply (live_seq_app C [] q) in Lv'. apply Lv'. }
    destruct (inv_poll (r_sh (run h)) C (launched h) q G2 Hq LvQ) as (C' & P1 & P2 & P3).
    assert (Estep : step (run h) (Poll evs) =
                    mkrst (fst (try_wait_bg_jobs (r_sh (run h)) q)) (snd (try_wait_bg_jobs (r_sh (run h)) q))
                          (r_status (run h)) false).
    { cbn [step]. fold q. destruct (try_wait_bg_jobs (r_sh (run h)) q); reflexivity. }
    assert (Ec : all_events (h ++ [Poll evs]) = C' ++ r_pend (run (h ++ [Poll evs]))).
    { rewrite all_events_snoc, run_snoc, Estep. cbn [op_events r_pend]. rewrite Eall. exact P1. }
    split.
    + exists C'. split; [exact Ec|]. rewrite run_snoc, Estep, vrun_snoc, launched_snoc, all_events_snoc.
      cbn [vnext r_sh v_deliv v_seen v_expect op_events]. rewrite app_nil_r.
      split; [exact P2|]. split; [rewrite G3; reflexivity|]. split; [exact G4|]. split; [exact S'|]. split; [exact Lv'|exact I].
    + pose proof (consumed_eq _ _ Ec) as Ce.
      destruct (r_pend (run (h ++ [Poll evs]))) eqn:Pe; [|reflexivity].
      unfold good_table, pst. rewrite Ce, launched_snoc, app_nil_r.
      rewrite run_snoc, Estep in Pe |- *. cbn [r_sh r_pend] in Pe |- *.
      apply (good_table_of _ C' (launched h) P2). apply P3. exact Pe.
Qed.

(** C06, full statement: every valid history is good after its last operation
    (and, every prefix of a valid history being valid, after every operation). *)
Theorem valid_good : forall h, valid h = true -> GI h /\ good h = true.
Proof.
  induction h as [|o h IH] using rev_ind; intros V.
  - split; [exact gi_nil|reflexivity].
  - rewrite valid_snoc in V. apply andb_prop in V. destruct V as (V1 & V2).
    destruct (IH V1) as (G & _). apply gi_step; auto.
Qed.
