(** Panic freedom of the highlighter's range computation and of
    [escaped_word_start], for ALL lines (multi-byte text included) and ALL
    token lists: every byte offset the code slices at is a char boundary of
    the line, and the ranges it returns tile the line in order. *)
From Coq Require Import Lia Arith.
From Cicada Require Import Base.Chars Base.Tag Model.Tokenizer Model.Highlight Model.WordStart.

Lemma utf8_len_pos c : (1 <= utf8_len c)%nat.
Proof. unfold utf8_len. destruct (c <? 128)%N, (c <? 2048)%N, (c <? 65536)%N; lia. Qed.

Lemma blen_app a b : blen (a ++ b) = (blen a + blen b)%nat.
Proof. induction a as [|c a IH]; cbn [app blen]; lia. Qed.

Lemma length_le_blen s : (length s <= blen s)%nat.
Proof. induction s as [|c s IH]; cbn [length blen]; [lia|]. pose proof (utf8_len_pos c). lia. Qed.

(** [b] is a char boundary of [l] (possibly its end) *)
Definition boundary (l : str) (b : nat) : Prop := exists pre suf, l = pre ++ suf /\ blen pre = b.

Lemma slice_from_app pre suf : slice_from (pre ++ suf) (blen pre) = Some suf.
Proof.
  induction pre as [|c p IH]; cbn [app blen].
  - destruct suf; reflexivity.
  - cbn [slice_from]. pose proof (utf8_len_pos c).
    destruct (Nat.eqb (utf8_len c + blen p) 0) eqn:E. { apply Nat.eqb_eq in E. lia. }
    destruct (Nat.leb (utf8_len c) (utf8_len c + blen p)) eqn:L. 2:{ apply Nat.leb_gt in L. lia. }
    replace (utf8_len c + blen p - utf8_len c)%nat with (blen p) by lia. exact IH.
Qed.

Lemma slice_from_some l : forall b s, slice_from l b = Some s -> exists pre, l = pre ++ s /\ blen pre = b.
Proof.
  induction l as [|c r IH]; intros b s H; cbn [slice_from] in H.
  - destruct (Nat.eqb b 0) eqn:E; [|discriminate]. apply Nat.eqb_eq in E. injection H as <-. now exists [].
  - destruct (Nat.eqb b 0) eqn:E.
    + apply Nat.eqb_eq in E. injection H as <-. now exists [].
    + destruct (Nat.leb (utf8_len c) b) eqn:L; [|discriminate]. apply Nat.leb_le in L.
      destruct (IH _ _ H) as (pre & -> & Hb). exists (c :: pre). split; [reflexivity|]. cbn [blen]. lia.
Qed.

(** the model's slice panics exactly at a non-boundary *)
Lemma slice_from_boundary l b : (exists s, slice_from l b = Some s) <-> boundary l b.
Proof.
  split.
  - intros [s H]. destruct (slice_from_some _ _ _ H) as (pre & -> & Hb). now exists pre, s.
  - intros (pre & suf & -> & <-). exists suf. apply slice_from_app.
Qed.

Lemma starts_with_split s p : starts_with s p = true -> exists r, s = p ++ r.
Proof.
  revert s; induction p as [|x p IH]; intros s H; cbn [starts_with] in H.
  - now exists s.
  - destruct s as [|y s]; [discriminate|]. apply andb_true_iff in H as [H1 H2].
    apply N.eqb_eq in H1. subst. destruct (IH _ H2) as [r ->]. now exists r.
Qed.

Lemma cin_general s : forall k off,
  char_index_nth s k off = 0%nat \/ exists p q, s = p ++ q /\ char_index_nth s k off = (off + blen p)%nat.
Proof.
  induction s as [|c r IH]; intros k off; cbn [char_index_nth].
  - now left.
  - destruct k as [|k].
    + right. exists [], (c :: r). cbn [blen app]. split; [reflexivity|lia].
    + destruct (IH k (off + utf8_len c)%nat) as [H|(p & q & -> & H)]; [now left|].
      right. exists (c :: p), q. split; [reflexivity|]. rewrite H. cbn [blen]. lia.
Qed.

Lemma cin_boundary s k : exists p q, s = p ++ q /\ char_index_nth s k 0 = blen p.
Proof.
  destruct (cin_general s k 0) as [H|(p & q & -> & H)].
  - exists [], s. now rewrite H.
  - exists p, q. now rewrite H.
Qed.

Definition good_range (line : str) (cur a b : nat) : Prop :=
  (cur <= a)%nat /\ (a <= b)%nat /\ boundary line a /\ boundary line b.

Lemma boundary_ext L X rest n : n = (blen L + blen X)%nat -> boundary (L ++ X ++ rest) n.
Proof. intros ->. exists (L ++ X), rest. rewrite blen_app, app_assoc. now split. Qed.

Lemma boundary_le l b : boundary l b -> (b <= blen l)%nat.
Proof. intros (p & q & -> & <-). rewrite blen_app. lia. Qed.

(** Every slice inside [find_token_range_heuristic] is at a boundary whenever
    the start offset is one; the range returned is made of boundaries. *)
Lemma find_token_range_ok line cur tok : boundary line cur ->
  find_token_range line cur tok = Ok None \/
  exists a b, find_token_range line cur tok = Ok (Some (a, b)) /\ good_range line cur a b.
Proof.
  intros (pre & suf & -> & <-). destruct tok as [tg word]. unfold find_token_range.
  rewrite slice_from_app.
  destruct (find_non_ws suf 0) as [off|]; [|now left].
  destruct (cin_boundary suf off) as (p & q & -> & ->). cbv zeta.
  replace (blen pre + blen p)%nat with (blen (pre ++ p)) by apply blen_app.
  rewrite (app_assoc pre p q). rewrite slice_from_app.
  assert (HA : forall q', boundary ((pre ++ p) ++ q') (blen (pre ++ p))) by (intro q'; now exists (pre ++ p), q').
  assert (Hcur : (blen pre <= blen (pre ++ p))%nat) by (rewrite blen_app; lia).
  set (L := pre ++ p) in *. clearbody L.
  set (sep := sep_str tg). set (has_sep := negb (is_empty sep)).
  (* prefix separator *)
  assert (H1 : exists p1 a1, q = p1 ++ a1 /\
            (if has_sep && starts_with q sep then blen sep else 0%nat) = blen p1).
  { destruct (has_sep && starts_with q sep) eqn:E.
    - apply andb_true_iff in E as [_ E]. destruct (starts_with_split _ _ E) as [r ->]. now exists sep, r.
    - now exists [], q. }
  destruct H1 as (p1 & a1 & -> & ->). rewrite slice_from_app.
  destruct (starts_with a1 word) eqn:EW.
  - destruct (starts_with_split _ _ EW) as [a2 ->].
    replace (blen p1 + blen word)%nat with (blen (p1 ++ word)) by apply blen_app.
    destruct has_sep.
    + rewrite (app_assoc p1 word a2). rewrite slice_from_app.
      destruct (starts_with a2 sep) eqn:ES.
      * destruct (starts_with_split _ _ ES) as [a3 ->]. right. eexists _, _. split; [reflexivity|].
        repeat split; try lia; [apply HA|].
        exists (L ++ p1 ++ word ++ sep), a3. split; [now rewrite <- !app_assoc|]. rewrite !blen_app. lia.
      * right. eexists _, _. split; [reflexivity|]. repeat split; try lia; [apply HA|].
        exists (L ++ p1 ++ word), a2. split; [now rewrite <- !app_assoc|]. rewrite !blen_app. lia.
    + right. eexists _, _. split; [reflexivity|]. repeat split; try lia; [apply HA|].
      exists (L ++ p1 ++ word), a2. split; [now rewrite <- !app_assoc|]. rewrite !blen_app. lia.
  - (* the word does not follow: the empty-quoted-string branch is dead code, then the fallback *)
    assert (FB : (if starts_with (p1 ++ a1) word
                  then Ok (Some (blen L, (blen L + blen word)%nat)) else Ok None) = Ok None \/
                 exists a b, (if starts_with (p1 ++ a1) word
                  then Ok (Some (blen L, (blen L + blen word)%nat)) else Ok None) = Ok (Some (a, b)) /\
                 good_range (L ++ p1 ++ a1) (blen pre) a b).
    { destruct (starts_with (p1 ++ a1) word) eqn:EF; [|now left].
      destruct (starts_with_split _ _ EF) as [r Hr]. right. eexists _, _. split; [reflexivity|].
      repeat split; try lia; [apply HA|]. rewrite Hr.
      exists (L ++ word), r. split; [now rewrite <- !app_assoc|]. rewrite !blen_app. lia. }
    destruct (is_empty word && has_sep && starts_with (p1 ++ a1) sep) eqn:ED; [|exact FB].
    destruct word; [|now rewrite !andb_false_l in ED]. now destruct a1.
Qed.

Lemma find_token_range_no_panic line cur tok s : boundary line cur -> find_token_range line cur tok <> Panic s.
Proof.
  intros B H. destruct (find_token_range_ok line cur tok B) as [E|(a & b & E & _)]; congruence.
Qed.

(** [tiles lo hi l]: the ranges of [l] are adjacent, start at [lo], end at [hi] *)
Fixpoint tiles (lo hi : nat) (l : list (nat * nat)) : Prop :=
  match l with
  | [] => lo = hi
  | (a, b) :: r => a = lo /\ (a <= b)%nat /\ tiles b hi r
  end.

Lemma tiles_app lo mid hi l1 l2 : tiles lo mid l1 -> tiles mid hi l2 -> tiles lo hi (l1 ++ l2).
Proof.
  revert lo; induction l1 as [|[a b] r IH]; intros lo H1 H2; cbn [tiles app] in *.
  - now subst.
  - destruct H1 as (-> & Hab & Hr). repeat split; auto.
Qed.

Lemma tiles_snoc lo mid hi l : tiles lo mid l -> (mid <= hi)%nat -> tiles lo hi (l ++ [(mid, hi)]).
Proof. intros H1 H2. eapply tiles_app; [exact H1|]. cbn. auto. Qed.

Lemma hl_loop_ok line : forall toks cur acc,
  boundary line cur -> tiles 0 cur acc ->
  exists acc' cur', hl_loop line toks cur acc = Ok (acc', cur') /\ boundary line cur' /\ tiles 0 cur' acc'.
Proof.
  induction toks as [|t r IH]; intros cur acc B T; cbn [hl_loop].
  - now exists acc, cur.
  - destruct (find_token_range_ok line cur t B) as [E|(a & b & E & (H1 & H2 & Ba & Bb))]; rewrite E.
    + pose proof (boundary_le _ _ B). eexists _, _. split; [reflexivity|]. split.
      * exists line, []. now rewrite app_nil_r.
      * destruct (Nat.ltb cur (blen line)) eqn:L.
        -- apply tiles_snoc; [exact T|lia].
        -- apply Nat.ltb_ge in L. assert (cur = blen line) by lia. now subst.
    + apply IH; [exact Bb|]. apply tiles_snoc; [|exact H2].
      destruct (Nat.ltb cur a) eqn:L.
      * apply tiles_snoc; [exact T|lia].
      * apply Nat.ltb_ge in L. assert (cur = a) by lia. now subst.
Qed.

(** The highlighter never panics, for any line and ANY token list, and its
    ranges tile the whole line [0, len) in order. *)
Theorem highlight_tokens_total line toks :
  exists rs, highlight_tokens line toks = Ok rs /\ tiles 0 (blen line) rs.
Proof.
  unfold highlight_tokens. destruct line as [|c l] eqn:EL; cbn [is_empty].
  - exists []. now split.
  - rewrite <- EL. destruct toks as [|t r] eqn:ET; cbn [is_empty].
    + exists [(0%nat, blen line)]. split; [reflexivity|]. cbn. repeat split; lia.
    + rewrite <- ET.
      destruct (hl_loop_ok line toks 0 []) as (acc & cur & E & B & T).
      * exists [], line. now split.
      * reflexivity.
      * rewrite E. pose proof (boundary_le _ _ B). eexists. split; [reflexivity|].
        destruct (Nat.ltb cur (blen line)) eqn:L.
        -- apply tiles_snoc; [exact T|lia].
        -- apply Nat.ltb_ge in L. assert (cur = blen line) by lia. now subst.
Qed.

Theorem highlight_total line : exists rs, highlight line = Ok rs /\ tiles 0 (blen line) rs.
Proof. apply highlight_tokens_total. Qed.

(** * escaped_word_start *)

(** invariant after the chars of [p] (prefix of the text) have been consumed *)
Definition ws_inv (p : str) (s : wst) : Prop :=
  (w_extra s + length p = blen p)%nat /\ (exists p1 p2, p = p1 ++ p2 /\ blen p1 = w_start s).

Lemma ws_step_inv p s c : ws_inv p s -> ws_inv (p ++ [c]) (ws_step s (length p) c).
Proof.
  intros [He (p1 & p2 & Hp & Hs)].
  assert (HS : exists q1 q2, p ++ [c] = q1 ++ q2 /\
                 blen q1 = (if w_space s then (length p + w_extra s)%nat else w_start s)).
  { destruct (w_space s).
    - exists p, [c]. split; [reflexivity|lia].
    - exists p1, (p2 ++ [c]). rewrite Hp, app_assoc. now split. }
  assert (HL : length (p ++ [c]) = S (length p)) by (rewrite app_length; cbn; lia).
  assert (HB : blen (p ++ [c]) = (blen p + utf8_len c)%nat) by (rewrite blen_app; cbn; lia).
  pose proof (utf8_len_pos c) as Hpos.
  unfold ws_step, ws_inv.
  destruct (N.eqb c c_bs) eqn:E1.
  - apply N.eqb_eq in E1. subst c. cbn [w_extra w_start]. split; [|exact HS].
    rewrite HL, HB. change (utf8_len c_bs) with 1%nat. lia.
  - destruct ((c =? c_space)%N && negb (w_bs s) && negb (w_quote s)) eqn:E2.
    + apply andb_true_iff in E2 as [E2 _]. apply andb_true_iff in E2 as [E2 _].
      apply N.eqb_eq in E2. subst c. cbn [w_extra w_start]. split; [|exact HS].
      rewrite HL, HB. change (utf8_len c_space) with 1%nat. lia.
    + destruct (if negb (w_quote s) && negb (w_bs s) && ((c =? c_dq)%N || (c =? c_sq)%N) then (true, c)
                else if w_quote s && negb (w_bs s) && (w_ch s =? c)%N then (false, w_ch s)
                else (w_quote s, w_ch s)) as [q ch].
      cbn [w_extra w_start]. split; [|exact HS].
      rewrite HL, HB. destruct (Nat.ltb 1 (utf8_len c)) eqn:L.
      * apply Nat.ltb_lt in L. lia.
      * apply Nat.ltb_ge in L. lia.
Qed.

Lemma ws_loop_inv : forall l p s, ws_inv p s -> ws_inv (p ++ l) (ws_loop s (length p) l).
Proof.
  induction l as [|c r IH]; intros p s H; cbn [ws_loop].
  - now rewrite app_nil_r.
  - replace (p ++ c :: r) with ((p ++ [c]) ++ r) by (now rewrite <- app_assoc).
    replace (S (length p)) with (length (p ++ [c])) by (rewrite app_length; cbn; lia).
    apply IH. now apply ws_step_inv.
Qed.

(** The offset returned is a char boundary of the text (hence [<=] its byte
    length): lineread's [start > end] check and its [&buffer[start..end]]
    cannot fail. *)
Theorem escaped_word_start_boundary l : boundary l (escaped_word_start l).
Proof.
  unfold escaped_word_start.
  assert (H : ws_inv ([] ++ l) (ws_loop wst0 (length (@nil char)) l)).
  { apply ws_loop_inv. split; [reflexivity|]. now exists [], []. }
  cbn [app length] in H. destruct H as [_ (p1 & p2 & Hp & Hs)].
  destruct (w_space (ws_loop wst0 0 l)).
  - exists l, []. now rewrite app_nil_r.
  - now exists p1, p2.
Qed.
