(** C12: the range finder with its context (f69a693: affixes kept; 9bedc7c: a bad operand skips the token) and the
    glob filter on hidden directory components (7572cd1), as transcribed in Model/Expand.v. *)
From Coq Require Import List NArith ZArith Bool Lia.
From Cicada Require Import Base.Chars Base.Tag Base.Regex Gen.ShellRegexes Model.Expand Model.ExpandRef
  Proofs.ExpandBasics Proofs.BraceProofs Proofs.BraceWitness.
Import ListNotations.
From Coq Require String. Import String.StringSyntax.
Local Open Scope N_scope.

(* ------------------------------------------------------------------ reconstruction lemmas *)
Lemma strip_prefix_app (p : str) : forall (s r : str), strip_prefix p s = Some r -> s = p ++ r.
Proof.
  induction p as [|a p IH]; intros s r H; cbn [strip_prefix] in H.
  - inversion H. reflexivity.
  - destruct s as [|b s]; [discriminate|].
    destruct (a =? b) eqn:E; [|discriminate]. apply N.eqb_eq in E. subst b.
    cbn [app]. f_equal. apply IH. exact H.
Qed.

Lemma strip_one (c : N) (r rest : list N) :
  strip_prefix [c] r = Some rest -> starts_with [c] r = true /\ r = c :: rest.
Proof.
  intros H. destruct r as [|b r]; cbn [strip_prefix] in H; [discriminate|].
  cbn [starts_with]. destruct (c =? b) eqn:E; [|discriminate].
  apply N.eqb_eq in E. subst b. inversion H. subst. split; reflexivity.
Qed.

Lemma strip_one_none (c : N) (r : list N) : strip_prefix [c] r = None -> starts_with [c] r = false.
Proof.
  intros H. destruct r as [|b r]; [reflexivity|]. cbn [strip_prefix] in H. cbn [starts_with].
  destruct (c =? b); [discriminate | reflexivity].
Qed.

Lemma span_app (p : char -> bool) : forall (s a b : str), span p s = (a, b) -> s = a ++ b.
Proof.
  induction s as [|c s IH]; intros a b H; cbn [span] in H.
  - inversion H. reflexivity.
  - destruct (p c).
    + destruct (span p s) as [a' b'] eqn:E. inversion H. subst. cbn [app]. f_equal. apply IH. reflexivity.
    + inversion H. reflexivity.
Qed.

Lemma int_at_app (s g r : str) : int_at s = Some (g, r) -> s = g ++ r.
Proof.
  unfold int_at. intros H.
  destruct (strip_prefix [45] s) as [r0|] eqn:E.
  - destruct (span is_digit r0) as [d r'] eqn:Es. destruct (is_empty d); [discriminate|].
    inversion H. subst. apply strip_prefix_app in E. apply span_app in Es. subst.
    reflexivity.
  - destruct (span is_digit s) as [d r'] eqn:Es. destruct (is_empty d); [discriminate|].
    inversion H. subst. apply span_app in Es. exact Es.
Qed.

(* ------------------------------------------------------------------ 1: the context is the text around the match *)
Lemma range_at_ctx_text s caps post : range_at s = Some (caps, post) -> exists mid : str, s = mid ++ 125 :: post.
Proof.
  unfold range_at. intros H.
  destruct (int_at s) as [[g1 r1]|] eqn:E1; [|discriminate]. apply int_at_app in E1.
  destruct (strip_prefix [46; 46] r1) as [r2|] eqn:E2; [|discriminate]. apply strip_prefix_app in E2.
  destruct (int_at r2) as [[g2 r3]|] eqn:E3; [|discriminate]. apply int_at_app in E3.
  destruct (strip_prefix [125] r3) as [x|] eqn:E4.
  - apply strip_prefix_app in E4. inversion H. subst.
    exists (g1 ++ [46; 46] ++ g2). rewrite <- !app_assoc. reflexivity.
  - destruct (strip_prefix [46; 46] r3) as [r4|] eqn:E5; [|discriminate]. apply strip_prefix_app in E5.
    destruct (span is_digit r4) as [d r5] eqn:E6. apply span_app in E6.
    destruct (strip_prefix [125] r5) as [y|] eqn:E7; [|discriminate]. apply strip_prefix_app in E7.
    inversion H. subst.
    exists (g1 ++ [46; 46] ++ g2 ++ [46; 46] ++ d). rewrite <- !app_assoc. reflexivity.
Qed.

Lemma find_range_ctx_text s pre caps post :
  find_range s = Some (pre, caps, post) -> exists mid, s = pre ++ 123 :: mid ++ 125 :: post.
Proof.
  revert pre caps post. induction s as [|c r IH]; intros pre caps post H; cbn [find_range] in H; [discriminate|].
  destruct (c =? 123) eqn:Ec.
  - destruct (range_at r) as [[caps0 post0]|] eqn:E.
    + inversion H. subst. apply N.eqb_eq in Ec. subst c.
      destruct (range_at_ctx_text _ _ _ E) as [mid Hm]. exists mid. cbn [app]. f_equal. exact Hm.
    + destruct (find_range r) as [[[pre1 caps1] post1]|] eqn:Ef; [|discriminate].
      inversion H. subst. destruct (IH _ _ _ eq_refl) as [mid Hm]. exists mid. cbn [app]. f_equal. exact Hm.
  - destruct (find_range r) as [[[pre1 caps1] post1]|] eqn:Ef; [|discriminate].
    inversion H. subst. destruct (IH _ _ _ eq_refl) as [mid Hm]. exists mid. cbn [app]. f_equal. exact Hm.
Qed.

(* ------------------------------------------------------------------ 2: a range token never aborts the pass (9bedc7c) *)
Theorem range_sel_never_aborts : forall t d, range_sel t = Ok d -> d <> Abort.
Proof.
  intros t d H. unfold range_sel in H.
  destruct (negb (tag_is_empty (fst t)) || negb (rx_search rx_brace_range (snd t))).
  { inversion H. discriminate. }
  destruct (find_range (snd t)) as [[[pre [[g1 g2] g4]] post]|]; [|discriminate].
  destruct (parse_i32 g1) as [a|]; [|inversion H; discriminate].
  destruct (parse_i32 g2) as [b|]; [|inversion H; discriminate].
  destruct (match g4 with None => Some 1%Z | Some d0 => parse_i32 d0 end) as [i0|]; [|inversion H; discriminate].
  cbv zeta in H. destruct (range_list a b (if (i0 <=? 1)%Z then 1%Z else i0)); cbn [res_map] in H; try discriminate.
  inversion H. discriminate.
Qed.

Theorem expand_brace_range_in_place : forall toks,
  (forall t, In t toks -> exists d, range_sel t = Ok d) ->
  expand_brace_range toks = Ok (flat_map (sel_tokens range_sel) toks).
Proof.
  intros toks H. unfold expand_brace_range. apply pass_is_flat_map. intros t Ht.
  destruct (H t Ht) as [d Hd]. exists d. split; [exact Hd | exact (range_sel_never_aborts t d Hd)].
Qed.

(* ------------------------------------------------------------------ 3: the affixes are kept (f69a693) *)
Lemma parse_i32_bounds (g : str) z : parse_i32 g = Some z -> (i32_min <= z <= i32_max)%Z.
Proof.
  unfold parse_i32. intros H.
  destruct (strip_prefix [45] g) as [r|].
  - destruct (is_empty r || negb (forallb is_digit r)); [discriminate|].
    destruct ((i32_min <=? - Z.of_N (dec_value r)) && (- Z.of_N (dec_value r) <=? i32_max))%Z eqn:E; [|discriminate].
    inversion H. subst. apply andb_prop in E. destruct E as [E1 E2].
    apply Z.leb_le in E1. apply Z.leb_le in E2. split; assumption.
  - destruct (is_empty g || negb (forallb is_digit g)); [discriminate|].
    destruct ((i32_min <=? Z.of_N (dec_value g)) && (Z.of_N (dec_value g) <=? i32_max))%Z eqn:E; [|discriminate].
    inversion H. subst. apply andb_prop in E. destruct E as [E1 E2].
    apply Z.leb_le in E1. apply Z.leb_le in E2. split; assumption.
Qed.

Lemma incr_max (s : Z) : (if (s <=? 1)%Z then 1%Z else s) = Z.max 1 s.
Proof. destruct (s <=? 1)%Z eqn:E; [apply Z.leb_le in E | apply Z.leb_gt in E]; lia. Qed.

Theorem range_sel_affixes : forall t pre g1 g2 g4 post a b s,
  tag_is_empty (fst t) = true -> rx_search rx_brace_range (snd t) = true ->
  find_range (snd t) = Some (pre, (g1, g2, g4), post) ->
  parse_i32 g1 = Some a -> parse_i32 g2 = Some b ->
  (match g4 with None => Some 1%Z | Some d => parse_i32 d end) = Some s ->
  range_sel t = Ok (Repl (map (fun z => retag (pre ++ z_to_dec z ++ post)) (range_ref a b s))).
Proof.
  intros t pre g1 g2 g4 post a b s Ht Hrx Hf Ha Hb Hs. unfold range_sel.
  rewrite Ht, Hrx. cbn [negb orb]. rewrite Hf, Ha, Hb, Hs. cbv zeta.
  rewrite incr_max.
  rewrite (range_list_ref a b s (parse_i32_bounds _ _ Ha) (parse_i32_bounds _ _ Hb)).
  cbn [res_map]. rewrite map_map. reflexivity.
Qed.

Example range_example :
  expand_brace_range [(TNone, s2l "echo"); (TNone, s2l "a{1..3}b"); (TNone, s2l "{1..2}"); (TNone, s2l "{1..99999999999}")]
  = Ok [(TNone, s2l "echo"); (TNone, s2l "a1b"); (TNone, s2l "a2b"); (TNone, s2l "a3b"); (TNone, s2l "1"); (TNone, s2l "2");
        (TNone, s2l "{1..99999999999}")].
Proof. vm_compute. reflexivity. Qed.

(* ------------------------------------------------------------------ 4: hidden directory components (7572cd1) *)
Lemma hidden_zip_false (pc : list str) : forall (pp : list str),
  hidden_zip pc pp = false ->
  forall k (comp : str), nth_error pc k = Some comp -> starts_with [46] comp = true ->
  comp <> [46] -> comp <> [46; 46] -> starts_with [46] (nth k pp []) = true.
Proof.
  induction pc as [|c0 pc IH]; intros pp H k comp Hn Hs H1 H2.
  - destruct k; discriminate.
  - cbn [hidden_zip] in H. apply orb_false_elim in H. destruct H as [Ha Hb].
    destruct k as [|k]; cbn [nth_error] in Hn.
    + inversion Hn. subst c0.
      apply str_eqb_neq in H1. apply str_eqb_neq in H2. rewrite Hs, H1, H2 in Ha. cbn [negb andb] in Ha.
      apply negb_false_iff in Ha. destruct pp; exact Ha.
    + specialize (IH (tl pp) Hb k comp Hn Hs H1 H2).
      destruct pp as [|x pp]; [|exact IH]. cbn [tl] in IH. destruct k; exact IH.
Qed.

Theorem glob_keep_no_hidden_dir : forall pattern show p,
  glob_keep pattern show p = true ->
  forall k comp, nth_error (dirs_rev p) k = Some comp -> starts_with [46] comp = true ->
  comp <> [46] -> comp <> [46; 46] ->
  starts_with [46] (nth k (dirs_rev pattern) []) = true.
Proof.
  intros pattern show p H k comp Hn Hs H1 H2. unfold glob_keep in H.
  apply andb_prop in H. destruct H as [_ H]. apply negb_true_iff in H. unfold hidden_dir_matched in H.
  exact (hidden_zip_false _ _ H k comp Hn Hs H1 H2).
Qed.

Lemma glob_keep_weaker pattern show p : glob_keep pattern show p = true -> glob_keep_last show p = true.
Proof. unfold glob_keep. intros H. apply andb_prop in H. exact (proj1 H). Qed.

Example glob_keep_ex1 : glob_keep (s2l "*/*") false (s2l ".hdir/in.txt") = false.
Proof. vm_compute. reflexivity. Qed.
Example glob_keep_ex2 : glob_keep (s2l ".hdir/*") false (s2l ".hdir/in.txt") = true.
Proof. vm_compute. reflexivity. Qed.
Example glob_keep_ex3 : glob_keep (s2l "./*/*") false (s2l "sub/x") = true.
Proof. vm_compute. reflexivity. Qed.
Example glob_keep_ex4 : glob_keep (s2l "sub/../*.txt") false (s2l "sub/../a.txt") = true.
Proof. vm_compute. reflexivity. Qed.

Print Assumptions find_range_ctx_text.
Print Assumptions range_sel_never_aborts.
Print Assumptions expand_brace_range_in_place.
Print Assumptions range_sel_affixes.
Print Assumptions range_example.
Print Assumptions glob_keep_no_hidden_dir.
Print Assumptions glob_keep_weaker.
Print Assumptions glob_keep_ex1.
Print Assumptions glob_keep_ex2.
Print Assumptions glob_keep_ex3.
Print Assumptions glob_keep_ex4.
