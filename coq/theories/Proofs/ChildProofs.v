(* The child side of run_single_program, for every stage index: the table a stage holds when it
   execs, derived from the parent's table at the moment of the fork (Rep invariant). *)
From Coq Require Import List Arith Bool Lia Permutation.
From Cicada Require Import Model.OsLite Model.Pipeline Proofs.OsLiteProofs Proofs.PipelineProofs.
Import ListNotations.

Arguments child_prologue : simpl never.
Arguments child_from : simpl never.
Arguments child_capture : simpl never.
Arguments child_finish : simpl never.
Arguments opt_close_pair : simpl never.

(* base function with explicit objects on 0 1 2 *)
Definition base3 (F : nat -> option entry) (a b c : obj) : nat -> option entry :=
  fun x => match x with
           | 0 => Some (a, false) | 1 => Some (b, false) | 2 => Some (c, false)
           | _ => F x
           end.

Lemma rep_ext : forall B B' l T, (forall x, B x = B' x) -> Rep B l T -> Rep B' l T.
Proof.
  intros B B' l T E (N & H1 & H2). split; [exact N|]. split.
  - intros fd e Hin. rewrite <- E. apply H1; exact Hin.
  - intros x Hx. rewrite <- E. apply H2; exact Hx.
Qed.

Lemma rep_close_eq : forall B l T l1 fd e l2,
  Rep B l T -> l = l1 ++ (fd, e) :: l2 -> Rep B (l1 ++ l2) (close T fd).
Proof. intros. subst l. eapply rep_close_in; eauto. Qed.

Lemma rep_close_eq2 : forall B l l' T l1 fd e l2,
  Rep B l T -> l = l1 ++ (fd, e) :: l2 -> l' = l1 ++ l2 -> Rep B l' (close T fd).
Proof. intros. subst l l'. eapply rep_close_in; eauto. Qed.
Lemma rep_leq : forall B l l' T, Rep B l T -> l = l' -> Rep B l' T.
Proof. intros. subst. auto. Qed.
Ltac leq := repeat rewrite <- app_assoc; cbn [app]; repeat rewrite app_nil_r; reflexivity.
(* rc R l1 fd e l2 : close descriptor fd, which is the entry after l1 in the live list of R *)
Ltac rc R l1_ fd_ e_ l2_ :=
  rewrite ?tab_p_close; eapply (rep_close_eq2 _ _ _ _ l1_ fd_ e_ l2_); [exact R | leq | leq].

Lemma base3_not_key : forall F a b c l T d,
  Rep (base3 F a b c) l T -> d < 3 -> ~ In d (keys l).
Proof.
  intros F a b c l T d (_ & H1 & _) Hd Hin. unfold keys in Hin. apply in_map_iff in Hin.
  destruct Hin as ([k e] & Hk & Hin). cbn in Hk. subst k. destruct (H1 _ _ Hin) as (_ & HB).
  destruct d as [|[|[|d]]]; cbn in HB; try discriminate. lia.
Qed.

Lemma rep_dup2_to0 : forall F a b c l T s o cx,
  Rep (base3 F a b c) l T -> In (s, (o, cx)) l -> Rep (base3 F o b c) l (dup2 T s 0).
Proof.
  intros. eapply rep_ext; [|eapply rep_dup2_live; [exact H | exact H0 | eapply base3_not_key; [exact H | lia]]].
  intros [|[|[|x]]]; reflexivity.
Qed.
Lemma rep_dup2_to1 : forall F a b c l T s o cx,
  Rep (base3 F a b c) l T -> In (s, (o, cx)) l -> Rep (base3 F a o c) l (dup2 T s 1).
Proof.
  intros. eapply rep_ext; [|eapply rep_dup2_live; [exact H | exact H0 | eapply base3_not_key; [exact H | lia]]].
  intros [|[|[|x]]]; reflexivity.
Qed.
Lemma rep_dup2_to2 : forall F a b c l T s o cx,
  Rep (base3 F a b c) l T -> In (s, (o, cx)) l -> Rep (base3 F a b o) l (dup2 T s 2).
Proof.
  intros. eapply rep_ext; [|eapply rep_dup2_live; [exact H | exact H0 | eapply base3_not_key; [exact H | lia]]].
  intros [|[|[|x]]]; reflexivity.
Qed.
Lemma rep_dup2_1to2 : forall F a b c l T,
  Rep (base3 F a b c) l T -> Rep (base3 F a b b) l (dup2 T 1 2).
Proof.
  intros. eapply rep_ext; [|eapply (rep_dup2_base _ _ _ 1 b false 2); [exact H | reflexivity | lia | eapply base3_not_key; [exact H | lia]]].
  intros [|[|[|x]]]; reflexivity.
Qed.

Lemma tab_p_dup2 : forall s d p, tab (p_dup2 s d p) = dup2 (tab p) s d.
Proof. reflexivity. Qed.
Lemma tab_p_exec : forall p, tab (p_exec p) = exec_drop (tab p).
Proof. reflexivity. Qed.

Lemma close_pairs_rep_mid : forall B ps k l1 l2 p,
  Rep B (l1 ++ plive k ps ++ l2) (tab p) -> Rep B (l1 ++ l2) (tab (close_pairs ps p)).
Proof.
  induction ps as [|fds rest IH]; intros k l1 l2 p R; [exact R|].
  unfold close_pairs. cbn [fold_left]. apply (IH (S k)). unfold close_pair. rewrite !tab_p_close.
  cbn [plive app] in R.
  eapply rep_close_eq; [eapply rep_close_eq; [exact R | reflexivity] | reflexivity].
Qed.

Lemma capclose_rep : forall B capture capo cape l1 p,
  cap_ok capture capo cape ->
  Rep B (l1 ++ caplive capo cape) (tab p) ->
  Rep B l1 (tab (opt_close_pair cape (opt_close_pair capo p))).
Proof.
  intros B capture capo cape l1 p CO R. unfold cap_ok in CO. destruct capture.
  - destruct CO as (C1 & C2). destruct capo as [o|]; [|congruence]. destruct cape as [e|]; [|congruence].
    unfold opt_close_pair, close_pair. rewrite !tab_p_close. cbn [caplive] in R.
    rewrite <- (app_nil_r l1).
    eapply rep_close_eq; [eapply rep_close_eq; [eapply rep_close_eq; [eapply rep_close_eq; [exact R | reflexivity] | reflexivity] | reflexivity] | reflexivity].
  - destruct CO as (-> & ->). cbn in R. rewrite app_nil_r in R. exact R.
Qed.

(* ------------------------------------------------------------------ phase A: prologue *)
Definition pro_in (i0 : obj) (idx : nat) : obj := match idx with 0 => i0 | S j => OPipeR (PStage j) end.
Definition pro_out (o0 : obj) (pc idx : nat) : obj := if idx <? pc then OPipeW (PStage idx) else o0.

Lemma prologue_rep : forall F i0 o0 e0 pipes capo cape capture idx Hl p,
  cap_ok capture capo cape -> idx <= length pipes ->
  Rep (base3 F i0 o0 e0) (Hl ++ Lpar pipes capo cape idx) (tab p) ->
  Rep (base3 F (pro_in i0 idx) (pro_out o0 (length pipes) idx) e0)
      (Hl ++ (if idx <? length pipes then [] else caplive capo cape))
      (tab (child_prologue pipes capo cape idx p)).
Proof.
  intros F i0 o0 e0 pipes capo cape capture idx Hl p CO LE R.
  unfold child_prologue, Lpar, pro_out in *.
  assert (LE' : (idx <=? length pipes) = true) by (apply Nat.leb_le; lia). rewrite LE' in R.
  rewrite Nat.add_1_r.
  destruct (Nat.ltb_spec idx (length pipes)) as [LT|GE].
  - (* not last *)
    rewrite (skipn_nth_cons _ pipes idx (0, 0) LT) in R. cbn [plive] in R.
    set (fds := nth idx pipes (0, 0)) in *.
    (* 1: the pipes on the right *)
    assert (R1 : Rep (base3 F i0 o0 e0)
                     ((Hl ++ prevlive pipes idx ++ [(fst fds, eR (PStage idx)); (snd fds, eW (PStage idx))]) ++ caplive capo cape)
                     (tab (close_pairs (skipn (S idx) pipes) p))).
    { apply (close_pairs_rep_mid _ _ (S idx)). repeat rewrite <- app_assoc. cbn [app]. repeat rewrite <- app_assoc in R. exact R. }
    (* 2: the capture pipes *)
    pose proof (capclose_rep _ _ _ _ _ _ CO R1) as R2. clear R1 R.
    set (p2 := opt_close_pair cape (opt_close_pair capo (close_pairs (skipn (S idx) pipes) p))) in *.
    destruct idx as [|j].
    + cbn [Nat.ltb Nat.leb prevlive app pro_in] in *.
      assert (R3 : Rep (base3 F i0 (OPipeW (PStage 0)) e0) (Hl ++ [(fst fds, eR (PStage 0)); (snd fds, eW (PStage 0))])
                       (tab (p_dup2 (snd fds) 1 p2))).
      { rewrite tab_p_dup2. eapply rep_dup2_to1; [exact R2 | apply in_or_app; right; right; left; reflexivity]. }
      assert (R4 : Rep (base3 F i0 (OPipeW (PStage 0)) e0) (Hl ++ [(fst fds, eR (PStage 0))])
                       (tab (p_close (snd fds) (p_dup2 (snd fds) 1 p2)))).
      { rc R3 (Hl ++ [(fst fds, eR (PStage 0))]) (snd fds) (eW (PStage 0)) (@nil (nat * entry)). }
      rc R4 Hl (fst fds) (eR (PStage 0)) (@nil (nat * entry)).
    + replace (0 <? S j) with true by reflexivity. replace (S j - 1) with j by lia.
      cbn [prevlive pro_in] in *.
      set (rp := fst (nth j pipes (0, 0))) in *.
      assert (R3 : Rep (base3 F (OPipeR (PStage j)) o0 e0)
                       (Hl ++ (rp, eR (PStage j)) :: [(fst fds, eR (PStage (S j))); (snd fds, eW (PStage (S j)))])
                       (tab (p_dup2 rp 0 p2))).
      { rewrite tab_p_dup2. eapply rep_leq; [eapply rep_dup2_to0; [exact R2 | apply in_or_app; right; left; reflexivity] | leq]. }
      assert (R4 : Rep (base3 F (OPipeR (PStage j)) o0 e0)
                       (Hl ++ [(fst fds, eR (PStage (S j))); (snd fds, eW (PStage (S j)))])
                       (tab (p_close rp (p_dup2 rp 0 p2)))).
      { rc R3 Hl rp (eR (PStage j)) [(fst fds, eR (PStage (S j))); (snd fds, eW (PStage (S j)))]. }
      set (p4 := p_close rp (p_dup2 rp 0 p2)) in *.
      assert (R5 : Rep (base3 F (OPipeR (PStage j)) (OPipeW (PStage (S j))) e0)
                       (Hl ++ [(fst fds, eR (PStage (S j))); (snd fds, eW (PStage (S j)))])
                       (tab (p_dup2 (snd fds) 1 p4))).
      { rewrite tab_p_dup2. eapply rep_dup2_to1; [exact R4 | apply in_or_app; right; right; left; reflexivity]. }
      assert (R6 : Rep (base3 F (OPipeR (PStage j)) (OPipeW (PStage (S j))) e0) (Hl ++ [(fst fds, eR (PStage (S j)))])
                       (tab (p_close (snd fds) (p_dup2 (snd fds) 1 p4)))).
      { rc R5 (Hl ++ [(fst fds, eR (PStage (S j)))]) (snd fds) (eW (PStage (S j))) (@nil (nat * entry)). }
      rc R6 Hl (fst fds) (eR (PStage (S j))) (@nil (nat * entry)).
  - (* last *)
    assert (idx = length pipes) by lia. subst idx.
    rewrite skipn_all in R. cbn [plive app] in R.
    rewrite skipn_all2 by lia. 
    replace (close_pairs [] p) with p by reflexivity.
    destruct (length pipes) as [|j] eqn:EL.
    + cbn [Nat.ltb Nat.leb prevlive app pro_in] in *. exact R.
    + replace (0 <? S j) with true by reflexivity. replace (S j - 1) with j by lia.
      cbn [prevlive pro_in] in *.
      set (rp := fst (nth j pipes (0, 0))) in *.
      assert (R3 : Rep (base3 F (OPipeR (PStage j)) o0 e0) (Hl ++ (rp, eR (PStage j)) :: caplive capo cape)
                       (tab (p_dup2 rp 0 p))).
      { rewrite tab_p_dup2. eapply rep_leq; [eapply rep_dup2_to0; [exact R | apply in_or_app; right; left; reflexivity] | leq]. }
      rc R3 Hl rp (eR (PStage j)) (caplive capo cape).
Qed.

Section WithOracles.
Variable v : variant.
Variable openable : nat -> bool.

(* ------------------------------------------------------------------ phase B: < file, here-string *)
Definition here_ok (idx : nat) (st : stage) (hs : option (nat * nat)) (Hl : list (nat * entry)) : Prop :=
  match s_from st with
  | FHere => exists hr hw, hs = Some (hr, hw) /\ Hl = [(hr, eR (PHere idx)); (hw, eW (PHere idx))]
  | _ => hs = None /\ Hl = []
  end.
Definition from_obj (a : obj) (idx : nat) (st : stage) : obj :=
  match s_from st with FFile p => OFile p MRead | FHere => OPipeR (PHere idx) | FNone => a end.
Definition from_openable (st : stage) : bool :=
  match s_from st with FFile p => openable p | _ => true end.

Lemma p_open_rep : forall B l p path m q n,
  Rep B l (tab p) -> p_open path m p = (q, n) -> Rep B ((n, (OFile path m, true)) :: l) (tab q).
Proof.
  intros B l p path m q n R H. unfold p_open, alloc in H. injection H as <- <-. cbn [tab].
  apply (rep_alloc B l (tab p) (OFile path m, true)). exact R.
Qed.

Lemma from_rep : forall F a b c idx st hs Hl L p,
  here_ok idx st hs Hl ->
  Rep (base3 F a b c) (Hl ++ L) (tab p) ->
  match child_from openable st hs p with
  | inl q => from_openable st = true /\ Rep (base3 F (from_obj a idx st) b c) L (tab q)
  | inr q => from_openable st = false
  end.
Proof.
  intros F a b c idx st hs Hl L p HO R. unfold child_from, here_ok, from_obj, from_openable in *.
  destruct (s_from st) as [|path|].
  - destruct HO as (-> & ->). split; [reflexivity | exact R].
  - destruct HO as (-> & ->). cbn [app] in R. destruct (openable path) eqn:EO; [|reflexivity].
    destruct (p_open path MRead p) as [p1 n] eqn:EP. split; [reflexivity|].
    pose proof (p_open_rep _ _ _ _ _ _ _ R EP) as R1.
    assert (R2 : Rep (base3 F (OFile path MRead) b c) ((n, (OFile path MRead, true)) :: L) (tab (p_dup2 n 0 p1))).
    { rewrite tab_p_dup2. eapply rep_dup2_to0; [exact R1 | left; reflexivity]. }
    rc R2 (@nil (nat * entry)) n (OFile path MRead, true) L.
  - destruct HO as (hr & hw & -> & ->). split; [reflexivity|].
    assert (R1 : Rep (base3 F a b c) ((hr, eR (PHere idx)) :: L) (tab (p_close hw p))).
    { rc R [(hr, eR (PHere idx))] hw (eW (PHere idx)) L. }
    assert (R2 : Rep (base3 F (OPipeR (PHere idx)) b c) ((hr, eR (PHere idx)) :: L) (tab (p_dup2 hr 0 (p_close hw p)))).
    { rewrite tab_p_dup2. eapply rep_dup2_to0; [exact R1 | left; reflexivity]. }
    cbn [fst snd]. rc R2 (@nil (nat * entry)) hr (eR (PHere idx)) L.
Qed.

(* ------------------------------------------------------------------ phase C: the redirects_to loop *)
Definition eff (act : bool) (rs : list redir) : list redir := if act then rs else filter is_file_redir rs.
Definition is_f1 (r : redir) : bool := match r_fd r with F1 => true | F2 => false end.
(* a dup()ed descriptor is left open *)
Definition dirty (notlast capture : bool) (rs : list redir) : bool :=
  negb (v_dupclose v) &&
  existsb (fun r => (is_dup21 r && negb notlast && negb capture) || (is_dup12 r && (notlast || negb capture))) rs.
Definition all_cx (X : list (nat * entry)) : Prop := Forall (fun e => snd (snd e) = true) X.

Definition leaks (notlast capture : bool) (r : redir) : bool :=
  (is_dup21 r && negb notlast && negb capture) || (is_dup12 r && (notlast || negb capture)).
Lemma dirty_cons_clean : forall nl cap r rest, leaks nl cap r = false ->
  dirty nl cap (r :: rest) = dirty nl cap rest.
Proof. intros. unfold dirty. cbn [existsb]. fold (leaks nl cap r). rewrite H. reflexivity. Qed.
Lemma dirty_cons_dirty : forall nl cap r rest, v_dupclose v = false -> leaks nl cap r = true ->
  dirty nl cap (r :: rest) = true.
Proof. intros. unfold dirty. cbn [existsb]. fold (leaks nl cap r). rewrite H, H0. reflexivity. Qed.
Lemma dirty_off : forall nl cap rs, v_dupclose v = true -> dirty nl cap rs = false.
Proof. intros. unfold dirty. rewrite H. reflexivity. Qed.

Lemma p_dup_rep : forall F a b c l p s o,
  Rep (base3 F a b c) l (tab p) -> s < 3 -> base3 F a b c s = Some (o, false) ->
  exists q fd, p_dup s p = (q, Some fd) /\ Rep (base3 F a b c) ((fd, (o, false)) :: l) (tab q).
Proof.
  intros F a b c l p s o R Hs HB.
  assert (L : lookup (tab p) s = Some (o, false)).
  { rewrite (rep_lookup _ _ _ _ R); [exact HB | eapply base3_not_key; eauto]. }
  unfold p_dup. rewrite L. unfold alloc. eexists. eexists. split; [reflexivity|]. cbn [tab].
  apply (rep_alloc _ l (tab p) (o, false)). exact R.
Qed.

Lemma posix_opens_skip : forall r rest, is_file_redir r = false ->
  posix_opens openable (r :: rest) = posix_opens openable rest.
Proof. intros r rest H. cbn. rewrite H. reflexivity. Qed.

Lemma posix_redirect_file1 : forall r to b c, r_fd r = F1 -> r_to r = to -> is_file_redir r = true ->
  posix_redirect (b, c) r = (OFile (target_path to) (wmode (r_app r)), c).
Proof.
  intros r to b c H1 H2 H3. unfold posix_redirect, is_file_redir in *. rewrite H1, H2 in *.
  destruct to; try discriminate; reflexivity.
Qed.
Lemma posix_redirect_file2 : forall r to b c, r_fd r = F2 -> r_to r = to -> is_file_redir r = true ->
  posix_redirect (b, c) r = (b, OFile (target_path to) (wmode (r_app r))).
Proof.
  intros r to b c H1 H2 H3. unfold posix_redirect, is_file_redir in *. rewrite H1, H2 in *.
  destruct to; try discriminate; reflexivity.
Qed.

Lemma redirs_rep : forall notlast capture rs F a b c L p so se,
  Rep (base3 F a b c) L (tab p) ->
  let act := notlast || negb capture in
  let sk := posix_sinks (eff act rs) (b, c) in
  match child_redirs v openable notlast capture rs so se p with
  | inl (q, so', se') =>
      snd (posix_opens openable rs) = true /\
      so' = so || existsb (fun r => is_file_redir r && is_f1 r) rs /\
      se' = se || existsb (fun r => is_file_redir r && negb (is_f1 r)) rs /\
      exists X, Rep (base3 F a (fst sk) (snd sk)) (X ++ L) (tab q) /\
                (dirty notlast capture rs = false -> all_cx X)
  | inr q => snd (posix_opens openable rs) = false
  end.
Proof.
  intros notlast capture. induction rs as [|r rest IH]; intros F a b c L p so se R act sk.
  - cbn. split; [reflexivity|]. rewrite !orb_false_r. split; [reflexivity|]. split; [reflexivity|].
    exists []. split; [|intros _; constructor]. subst sk. unfold eff. destruct act; cbn; exact R.
  - (* the six shapes of r *)
    assert (FILE : forall fd to, r_fd r = fd -> r_to r = to -> is_file_redir r = true ->
              match (let path := target_path to in
                     if openable path then
                       let '(p1, n) := p_open path (wmode (r_app r)) p in
                       match fd with
                       | F1 => child_redirs v openable notlast capture rest true se (p_dup2 n 1 p1)
                       | F2 => child_redirs v openable notlast capture rest so true (p_dup2 n 2 p1)
                       end
                     else inr (p_ev (EExit 1) (p_openfail path (wmode (r_app r)) p))) with
              | inl (q, so', se') =>
                  snd (posix_opens openable (r :: rest)) = true /\
                  so' = so || existsb (fun r => is_file_redir r && is_f1 r) (r :: rest) /\
                  se' = se || existsb (fun r => is_file_redir r && negb (is_f1 r)) (r :: rest) /\
                  exists X, Rep (base3 F a (fst sk) (snd sk)) (X ++ L) (tab q) /\
                            (dirty notlast capture (r :: rest) = false -> all_cx X)
              | inr q => snd (posix_opens openable (r :: rest)) = false
              end).
    { intros fd to Hfd Hto HF. cbn zeta. cbn [posix_opens]. rewrite HF, Hto.
      destruct (openable (target_path to)) eqn:EO; [|reflexivity].
      destruct (p_open (target_path to) (wmode (r_app r)) p) as [p1 n] eqn:EP.
      pose proof (p_open_rep _ _ _ _ _ _ _ R EP) as R1.
      assert (DR : dirty notlast capture (r :: rest) = dirty notlast capture rest).
      { apply dirty_cons_clean. unfold leaks, is_file_redir, is_dup21, is_dup12 in *.
        destruct (r_fd r), (r_to r); try discriminate; reflexivity. }
      assert (SK : forall s, posix_sinks (eff act (r :: rest)) s = posix_sinks (eff act rest) (posix_redirect s r)).
      { intro s. unfold eff. destruct act; [reflexivity|]. cbn [filter]. rewrite HF. reflexivity. }
      destruct fd.
      + assert (R2 : Rep (base3 F a (OFile (target_path to) (wmode (r_app r))) c)
                         ((n, (OFile (target_path to) (wmode (r_app r)), true)) :: L) (tab (p_dup2 n 1 p1))).
        { rewrite tab_p_dup2. eapply rep_dup2_to1; [exact R1 | left; reflexivity]. }
        specialize (IH _ _ _ _ _ _ true se R2). cbv zeta in IH.
        destruct (child_redirs v openable notlast capture rest true se (p_dup2 n 1 p1)) as [[[q so'] se']|q].
        * destruct IH as (O & S1 & S2 & X & RX & DX).
          destruct (posix_opens openable rest) as [ol ok]. cbn [snd] in *. split; [exact O|].
          split; [rewrite S1; cbn [existsb]; unfold is_f1; rewrite HF, Hfd; cbn; rewrite orb_true_r; reflexivity|].
          split; [rewrite S2; cbn [existsb]; unfold is_f1; rewrite Hfd; cbn; rewrite andb_false_r; reflexivity|].
          exists (X ++ [(n, (OFile (target_path to) (wmode (r_app r)), true))]). split.
          -- subst sk. rewrite SK. rewrite (posix_redirect_file1 r to b c Hfd Hto HF). eapply rep_leq; [exact RX | leq].
          -- intro D. rewrite DR in D. apply Forall_app. split; [apply DX; exact D | constructor; [reflexivity | constructor]].
        * destruct (posix_opens openable rest) as [ol ok]. cbn [snd] in *. exact IH.
      + assert (R2 : Rep (base3 F a b (OFile (target_path to) (wmode (r_app r))))
                         ((n, (OFile (target_path to) (wmode (r_app r)), true)) :: L) (tab (p_dup2 n 2 p1))).
        { rewrite tab_p_dup2. eapply rep_dup2_to2; [exact R1 | left; reflexivity]. }
        specialize (IH _ _ _ _ _ _ so true R2). cbv zeta in IH.
        destruct (child_redirs v openable notlast capture rest so true (p_dup2 n 2 p1)) as [[[q so'] se']|q].
        * destruct IH as (O & S1 & S2 & X & RX & DX).
          destruct (posix_opens openable rest) as [ol ok]. cbn [snd] in *. split; [exact O|].
          split; [rewrite S1; cbn [existsb]; unfold is_f1; rewrite Hfd; cbn; rewrite andb_false_r; reflexivity|].
          split; [rewrite S2; cbn [existsb]; unfold is_f1; rewrite HF, Hfd; cbn; rewrite orb_true_r; reflexivity|].
          exists (X ++ [(n, (OFile (target_path to) (wmode (r_app r)), true))]). split.
          -- subst sk. rewrite SK. rewrite (posix_redirect_file2 r to b c Hfd Hto HF). eapply rep_leq; [exact RX | leq].
          -- intro D. rewrite DR in D. apply Forall_app. split; [apply DX; exact D | constructor; [reflexivity | constructor]].
        * destruct (posix_opens openable rest) as [ol ok]. cbn [snd] in *. exact IH. }
    cbn [child_redirs].
    destruct (r_fd r) eqn:Efd; destruct (r_to r) eqn:Eto.
    + apply (FILE F1 (TFile path)); auto. unfold is_file_redir. rewrite Efd, Eto. reflexivity.
    + apply (FILE F1 TAmp1); auto. unfold is_file_redir. rewrite Efd, Eto. reflexivity.
    + (* 1>&2 *)
      clear FILE.
      assert (NF : is_file_redir r = false) by (unfold is_file_redir; rewrite Efd, Eto; reflexivity).
      rewrite (posix_opens_skip _ _ NF).
      assert (EX1 : forall g, existsb (fun r => is_file_redir r && g r) (r :: rest) = existsb (fun r => is_file_redir r && g r) rest).
      { intro g. cbn [existsb]. rewrite NF. reflexivity. }
      rewrite !EX1.
      subst act. destruct (notlast || negb capture) eqn:ACT.
      * destruct (p_dup_rep F a b c L p 2 c R ltac:(lia) eq_refl) as (p1 & fd & EP & R1). rewrite EP.
        assert (R2 : Rep (base3 F a c c) ((fd, (c, false)) :: L) (tab (p_dup2 fd 1 p1))).
        { rewrite tab_p_dup2. eapply rep_dup2_to1; [exact R1 | left; reflexivity]. }
        assert (SK : sk = posix_sinks (eff true rest) (c, c)).
        { subst sk. unfold eff. cbn [posix_sinks fold_left]. unfold posix_redirect at 2. rewrite Efd, Eto. reflexivity. }
        unfold dup_done. destruct (v_dupclose v) eqn:VD.
        -- assert (R3 : Rep (base3 F a c c) L (tab (p_close fd (p_dup2 fd 1 p1)))).
           { rc R2 (@nil (nat * entry)) fd (c, false) L. }
           specialize (IH _ _ _ _ _ _ so se R3). cbv zeta in IH. try rewrite ACT in IH.
           destruct (child_redirs v openable notlast capture rest so se (p_close fd (p_dup2 fd 1 p1))) as [[[q so'] se']|q]; [|exact IH].
           destruct IH as (O & S1 & S2 & X & RX & DX). split; [exact O|]. split; [exact S1|]. split; [exact S2|].
           exists X. split; [rewrite SK; exact RX|]. intros _. apply DX. apply dirty_off. exact VD.
        -- specialize (IH _ _ _ _ _ _ so se R2). cbv zeta in IH. try rewrite ACT in IH.
           destruct (child_redirs v openable notlast capture rest so se (p_dup2 fd 1 p1)) as [[[q so'] se']|q]; [|exact IH].
           destruct IH as (O & S1 & S2 & X & RX & DX). split; [exact O|]. split; [exact S1|]. split; [exact S2|].
           exists (X ++ [(fd, (c, false))]). split; [rewrite SK; eapply rep_leq; [exact RX | leq]|].
           intro D. exfalso. rewrite dirty_cons_dirty in D; [discriminate | exact VD |].
           unfold leaks, is_dup21, is_dup12. rewrite Efd, Eto. cbn. exact ACT.
      * specialize (IH _ _ _ _ _ _ so se R). cbv zeta in IH. try rewrite ACT in IH.
        destruct (child_redirs v openable notlast capture rest so se p) as [[[q so'] se']|q]; [|exact IH].
        destruct IH as (O & S1 & S2 & X & RX & DX). split; [exact O|]. split; [exact S1|]. split; [exact S2|].
        exists X. split.
        -- subst sk. unfold eff in *. cbn [filter]. rewrite NF. exact RX.
        -- intro D. apply DX. rewrite dirty_cons_clean in D; [exact D|].
           unfold leaks, is_dup21, is_dup12. rewrite Efd, Eto. cbn. exact ACT.
    + apply (FILE F2 (TFile path)); auto. unfold is_file_redir. rewrite Efd, Eto. reflexivity.
    + (* 2>&1 *)
      clear FILE.
      assert (NF : is_file_redir r = false) by (unfold is_file_redir; rewrite Efd, Eto; reflexivity).
      rewrite (posix_opens_skip _ _ NF).
      assert (EX1 : forall g, existsb (fun r => is_file_redir r && g r) (r :: rest) = existsb (fun r => is_file_redir r && g r) rest).
      { intro g. cbn [existsb]. rewrite NF. reflexivity. }
      rewrite !EX1.
      assert (SKT : act = true -> sk = posix_sinks (eff true rest) (b, b)).
      { intro A. subst sk. rewrite A. unfold eff. cbn [posix_sinks fold_left]. unfold posix_redirect at 2. rewrite Efd, Eto. reflexivity. }
      destruct notlast eqn:NL.
      * (* dup2(1,2) *)
        assert (R2 : Rep (base3 F a b b) L (tab (p_dup2 1 2 p))).
        { rewrite tab_p_dup2. apply (rep_dup2_1to2 F a b c). exact R. }
        specialize (IH _ _ _ _ _ _ so se R2). cbv zeta in IH. cbn [orb] in IH.
        destruct (child_redirs v openable true capture rest so se (p_dup2 1 2 p)) as [[[q so'] se']|q]; [|exact IH].
        destruct IH as (O & S1 & S2 & X & RX & DX). split; [exact O|]. split; [exact S1|]. split; [exact S2|].
        exists X. split; [rewrite (SKT eq_refl); exact RX|].
        intro D. apply DX. rewrite dirty_cons_clean in D; [exact D|].
        unfold leaks, is_dup21, is_dup12. rewrite Efd, Eto. cbn. reflexivity.
      * cbn [orb] in *. destruct capture eqn:CAP; cbn [negb] in *.
        -- (* captured last stage: nothing *)
           specialize (IH _ _ _ _ _ _ so se R). cbv zeta in IH. cbn [orb negb] in IH.
           destruct (child_redirs v openable false true rest so se p) as [[[q so'] se']|q]; [|exact IH].
           destruct IH as (O & S1 & S2 & X & RX & DX). split; [exact O|]. split; [exact S1|]. split; [exact S2|].
           exists X. split.
           ++ subst sk act. unfold eff in *. cbn [filter]. rewrite NF. exact RX.
           ++ intro D. apply DX. rewrite dirty_cons_clean in D; [exact D|].
              unfold leaks, is_dup21, is_dup12. rewrite Efd, Eto. cbn. reflexivity.
        -- destruct (p_dup_rep F a b c L p 1 b R ltac:(lia) eq_refl) as (p1 & fd & EP & R1). rewrite EP.
           assert (R2 : Rep (base3 F a b b) ((fd, (b, false)) :: L) (tab (p_dup2 fd 2 p1))).
           { rewrite tab_p_dup2. eapply rep_dup2_to2; [exact R1 | left; reflexivity]. }
           unfold dup_done. destruct (v_dupclose v) eqn:VD.
           ++ assert (R3 : Rep (base3 F a b b) L (tab (p_close fd (p_dup2 fd 2 p1)))).
              { rc R2 (@nil (nat * entry)) fd (b, false) L. }
              specialize (IH _ _ _ _ _ _ so se R3). cbv zeta in IH. cbn [orb negb] in IH.
              destruct (child_redirs v openable false false rest so se (p_close fd (p_dup2 fd 2 p1))) as [[[q so'] se']|q]; [|exact IH].
              destruct IH as (O & S1 & S2 & X & RX & DX). split; [exact O|]. split; [exact S1|]. split; [exact S2|].
              exists X. split; [rewrite (SKT eq_refl); exact RX|]. intros _. apply DX. apply dirty_off. exact VD.
           ++ specialize (IH _ _ _ _ _ _ so se R2). cbv zeta in IH. cbn [orb negb] in IH.
              destruct (child_redirs v openable false false rest so se (p_dup2 fd 2 p1)) as [[[q so'] se']|q]; [|exact IH].
              destruct IH as (O & S1 & S2 & X & RX & DX). split; [exact O|]. split; [exact S1|]. split; [exact S2|].
              exists (X ++ [(fd, (b, false))]). split; [rewrite (SKT eq_refl); eapply rep_leq; [exact RX | leq]|].
              intro D. exfalso. rewrite dirty_cons_dirty in D; [discriminate | exact VD |].
              unfold leaks, is_dup21, is_dup12. rewrite Efd, Eto. cbn. reflexivity.
    + apply (FILE F2 TAmp2); auto. unfold is_file_redir. rewrite Efd, Eto. reflexivity.
Qed.

(* ------------------------------------------------------------------ phase D: capture of the last stage *)
Definition capY (so : bool) (fds : nat * nat) (id : pipeid) : list (nat * entry) :=
  if so && negb (v_capclose v) then [(fst fds, eR id); (snd fds, eW id)] else [].

Lemma capture_rep : forall F a b c X o e (so se : bool) p,
  Rep (base3 F a b c) (X ++ caplive (Some o) (Some e)) (tab p) ->
  Rep (base3 F a (if so then b else OPipeW PCapOut) (if se then c else OPipeW PCapErr))
      (X ++ capY so o PCapOut ++ capY se e PCapErr)
      (tab (child_capture v (Some o) (Some e) so se p)).
Proof.
  intros F a b c X o e so se p R. unfold child_capture. cbn [caplive] in R.
  set (p1 := if so then if v_capclose v then close_pair o p else p
             else p_close (snd o) (p_dup2 (snd o) 1 (p_close (fst o) p))).
  assert (R1 : Rep (base3 F a (if so then b else OPipeW PCapOut) c)
                   (X ++ capY so o PCapOut ++ [(fst e, eR PCapErr); (snd e, eW PCapErr)]) (tab p1)).
  { subst p1. unfold capY. destruct so; cbn [andb].
    - destruct (v_capclose v); cbn [negb].
      + unfold close_pair.
        assert (Ra : Rep (base3 F a b c) (X ++ [(snd o, eW PCapOut); (fst e, eR PCapErr); (snd e, eW PCapErr)]) (tab (p_close (fst o) p))).
        { rc R X (fst o) (eR PCapOut) [(snd o, eW PCapOut); (fst e, eR PCapErr); (snd e, eW PCapErr)]. }
        rc Ra X (snd o) (eW PCapOut) [(fst e, eR PCapErr); (snd e, eW PCapErr)].
      + eapply rep_leq; [exact R | leq].
    - assert (Ra : Rep (base3 F a b c) (X ++ [(snd o, eW PCapOut); (fst e, eR PCapErr); (snd e, eW PCapErr)]) (tab (p_close (fst o) p))).
      { rc R X (fst o) (eR PCapOut) [(snd o, eW PCapOut); (fst e, eR PCapErr); (snd e, eW PCapErr)]. }
      assert (Rb : Rep (base3 F a (OPipeW PCapOut) c) (X ++ [(snd o, eW PCapOut); (fst e, eR PCapErr); (snd e, eW PCapErr)])
                       (tab (p_dup2 (snd o) 1 (p_close (fst o) p)))).
      { rewrite tab_p_dup2. eapply rep_dup2_to1; [exact Ra | apply in_or_app; right; left; reflexivity]. }
      rc Rb X (snd o) (eW PCapOut) [(fst e, eR PCapErr); (snd e, eW PCapErr)]. }
  clearbody p1. clear R.
  set (b' := if so then b else OPipeW PCapOut) in *. set (Yo := capY so o PCapOut) in *.
  unfold capY. destruct se; cbn [andb].
  - destruct (v_capclose v); cbn [negb].
    + unfold close_pair.
      assert (Ra : Rep (base3 F a b' c) (X ++ Yo ++ [(snd e, eW PCapErr)]) (tab (p_close (fst e) p1))).
      { rc R1 (X ++ Yo) (fst e) (eR PCapErr) [(snd e, eW PCapErr)]. }
      rc Ra (X ++ Yo) (snd e) (eW PCapErr) (@nil (nat * entry)).
    + exact R1.
  - assert (Ra : Rep (base3 F a b' c) (X ++ Yo ++ [(snd e, eW PCapErr)]) (tab (p_close (fst e) p1))).
    { rc R1 (X ++ Yo) (fst e) (eR PCapErr) [(snd e, eW PCapErr)]. }
    assert (Rb : Rep (base3 F a b' (OPipeW PCapErr)) (X ++ Yo ++ [(snd e, eW PCapErr)]) (tab (p_dup2 (snd e) 2 (p_close (fst e) p1)))).
    { rewrite tab_p_dup2. eapply rep_dup2_to2; [exact Ra | apply in_or_app; right; apply in_or_app; right; left; reflexivity]. }
    rc Rb (X ++ Yo) (snd e) (eW PCapErr) (@nil (nat * entry)).
Qed.

(* ------------------------------------------------------------------ the whole child *)
Definition has1 (rs : list redir) : bool := existsb (fun r => is_file_redir r && is_f1 r) rs.
Definition has2 (rs : list redir) : bool := existsb (fun r => is_file_redir r && negb (is_f1 r)) rs.

(* what descriptors 1 and 2 of the stage denote in the model, given what they denote after the prologue *)
Definition final_sinks (capture last : bool) (rs : list redir) (o e : obj) : obj * obj :=
  if last && capture then
    if v_capfirst v then posix_sinks rs (OPipeW PCapOut, OPipeW PCapErr)
    else
      let sk := posix_sinks (filter is_file_redir rs) (o, e) in
      (if has1 rs then fst sk else OPipeW PCapOut, if has2 rs then snd sk else OPipeW PCapErr)
  else posix_sinks rs (o, e).

(* nothing is left behind at exec *)
Definition clean (capture last : bool) (rs : list redir) : bool :=
  negb (dirty (negb last) (capture && negb (v_capfirst v)) rs) &&
  negb (last && capture && (has1 rs || has2 rs) && negb (v_capclose v) && negb (v_capfirst v)).

Definition opens_ok (st : stage) : bool :=
  from_openable st && snd (posix_opens openable (s_redirs st)).

Lemma filter_noncx_allcx : forall Y, all_cx Y -> filter noncx Y = [].
Proof.
  induction Y as [|[k [o c]] r IH]; intros H; [reflexivity|]. inversion H; subst. cbn in H2. subst c.
  cbn. apply IH. exact H3.
Qed.

Lemma rep_std12 : forall F a b c Y T, Rep (base3 F a b c) Y T ->
  lookup T 1 = Some (b, false) /\ lookup T 2 = Some (c, false).
Proof.
  intros F a b c Y T R. split.
  - rewrite (rep_lookup _ _ _ _ R); [reflexivity | eapply base3_not_key; [exact R | lia]].
  - rewrite (rep_lookup _ _ _ _ R); [reflexivity | eapply base3_not_key; [exact R | lia]].
Qed.

Theorem child_spec : forall F i0 o0 e0 pipes capo cape capture idx st hs Hl p,
  cap_ok capture capo cape -> idx <= length pipes -> here_ok idx st hs Hl ->
  Rep (base3 F i0 o0 e0) (Hl ++ Lpar pipes capo cape idx) (tab p) ->
  let k := child_run v openable pipes capo cape capture idx st hs p in
  let last := idx =? length pipes in
  k_idx k = idx /\
  (opens_ok st = false -> k_out k = OExit 1) /\
  (opens_ok st = true ->
     k_out k = match s_kind st with KExt => OExec | KBuiltin => OExit 0 | KNotFound => OExit 127 end) /\
  (k_out k = OExec ->
     let fs := final_sinks capture last (s_redirs st) (pro_out o0 (length pipes) idx) e0 in
     exists Y, Rep (fun x => drop_cx (base3 F (from_obj (pro_in i0 idx) idx st) (fst fs) (snd fs) x))
                   (filter noncx Y) (tab (k_proc k)) /\
               (clean capture last (s_redirs st) = true -> all_cx Y)) /\
  (* a builtin that runs in this child prints on these descriptors 1 and 2 *)
  (s_kind st = KBuiltin -> opens_ok st = true ->
     let fs := final_sinks capture last (s_redirs st) (pro_out o0 (length pipes) idx) e0 in
     lookup (tab (k_proc k)) 1 = Some (fst fs, false) /\ lookup (tab (k_proc k)) 2 = Some (snd fs, false)).
Proof.
  intros F i0 o0 e0 pipes capo cape capture idx st hs Hl p CO LE HO R k last.
  pose proof (prologue_rep _ _ _ _ _ _ _ _ _ _ _ CO LE R) as RA.
  subst k. unfold child_run, opens_ok.
  set (pa := child_prologue pipes capo cape idx p) in *.
  pose proof (from_rep _ _ _ _ _ _ _ _ _ _ HO RA) as RB.
  destruct (child_from openable st hs pa) as [pb|q].
  2:{ rewrite RB. cbn. repeat split; try reflexivity; intros; discriminate. }
  destruct RB as (FO & RB). rewrite FO. cbn [andb].
  assert (NL : (idx <? length pipes) = negb last).
  { subst last. destruct (Nat.ltb_spec idx (length pipes)), (Nat.eqb_spec idx (length pipes)); try reflexivity; lia. }
  destruct (v_capfirst v) eqn:VC.
  - (* ---- proposed order: capture pipes first, then the plain redirection loop ---- *)
    cbn [negb]. rewrite !andb_false_r, !andb_true_r.
    assert (exists a' b' pb', 
              (if (idx =? length pipes) && capture then child_capture v capo cape false false pb else pb) = pb' /\
              Rep (base3 F (from_obj (pro_in i0 idx) idx st) a' b') [] (tab pb') /\
              final_sinks capture last (s_redirs st) (pro_out o0 (length pipes) idx) e0 = posix_sinks (s_redirs st) (a', b'))
      as (a' & b' & pb' & EPB & RB' & FS).
    { unfold final_sinks. rewrite VC. fold last.
      destruct (Nat.ltb_spec idx (length pipes)) as [LT|GE].
      - assert (HL : last = false) by (subst last; apply Nat.eqb_neq; lia). rewrite HL. cbn [andb].
        exists (pro_out o0 (length pipes) idx), e0, pb. split; [reflexivity|]. split; [exact RB | reflexivity].
      - assert (HL : last = true) by (subst last; apply Nat.eqb_eq; lia). rewrite HL. cbn [andb].
        destruct capture eqn:CAP.
        + unfold cap_ok in CO. destruct CO as (C1 & C2). destruct capo as [o|]; [|congruence]. destruct cape as [e|]; [|congruence].
          exists (OPipeW PCapOut), (OPipeW PCapErr), (child_capture v (Some o) (Some e) false false pb).
          split; [reflexivity|]. split; [|reflexivity].
          pose proof (capture_rep F (from_obj (pro_in i0 idx) idx st) (pro_out o0 (length pipes) idx) e0 [] o e false false pb RB) as RD.
          unfold capY in RD. cbn [andb app] in RD. exact RD.
        + unfold cap_ok in CO. destruct CO as (-> & ->). cbn [caplive] in RB.
          exists (pro_out o0 (length pipes) idx), e0, pb. split; [reflexivity|]. split; [exact RB | reflexivity]. }
    rewrite EPB.
    pose proof (redirs_rep (idx <? length pipes) false (s_redirs st) _ _ _ _ _ _ false false RB') as RC.
    cbv zeta in RC. cbn [negb] in RC. rewrite orb_true_r in RC.
    destruct (child_redirs v openable (idx <? length pipes) false (s_redirs st) false false pb') as [[[pc so] se]|q].
    2:{ rewrite RC. cbn. repeat split; try reflexivity; intros; discriminate. }
    destruct RC as (PO & SO & SE & X & RX & DX). rewrite PO.
    unfold child_finish.
    assert (RPRE : Rep (base3 F (from_obj (pro_in i0 idx) idx st)
                          (fst (final_sinks capture last (s_redirs st) (pro_out o0 (length pipes) idx) e0))
                          (snd (final_sinks capture last (s_redirs st) (pro_out o0 (length pipes) idx) e0))) X (tab pc)).
    { rewrite FS. unfold eff in RX. rewrite app_nil_r in RX. exact RX. }
    split; [destruct (s_kind st); reflexivity|]. split; [discriminate|]. split; [intros _; destruct (s_kind st); reflexivity|].
    split.
    + destruct (s_kind st); cbn [k_out k_proc]; try discriminate. intros _.
      exists X. split.
      * rewrite tab_p_exec. apply rep_exec. exact RPRE.
      * unfold clean. rewrite VC. cbn [negb]. rewrite !andb_false_r. cbn [negb]. rewrite andb_true_r. rewrite <- NL.
        intro C. apply DX. apply negb_true_iff in C. exact C.
    + intros KB _. rewrite KB. cbn [k_proc]. rewrite tab_p_ev. cbv zeta. exact (rep_std12 _ _ _ _ _ _ RPRE).
  - (* ---- the code as it is ---- *)
  cbn [negb]. rewrite !andb_false_r, !andb_true_r.
  pose proof (redirs_rep (idx <? length pipes) capture (s_redirs st) _ _ _ _ _ _ false false RB) as RC.
  cbv zeta in RC.
  destruct (child_redirs v openable (idx <? length pipes) capture (s_redirs st) false false pb) as [[[pc so] se]|q].
  2:{ rewrite RC. cbn. repeat split; try reflexivity; intros; discriminate. }
  destruct RC as (PO & SO & SE & X & RX & DX). rewrite PO. cbn [orb] in SO, SE.
  unfold child_finish.
  (* the table before exec / before the builtin runs *)
  assert (exists Y, Rep (base3 F (from_obj (pro_in i0 idx) idx st)
                               (fst (final_sinks capture last (s_redirs st) (pro_out o0 (length pipes) idx) e0))
                               (snd (final_sinks capture last (s_redirs st) (pro_out o0 (length pipes) idx) e0)))
                        Y (tab (if last && capture then child_capture v capo cape so se pc else pc)) /\
                    (clean capture last (s_redirs st) = true -> all_cx Y)) as (Y & RY & CY).
  { unfold final_sinks, clean. rewrite VC. cbn [negb]. rewrite !andb_true_r. rewrite NL in *. fold last.
    destruct (Nat.ltb_spec idx (length pipes)) as [LT|GE].
    - (* not last *)
      assert (last = false) by (subst last; apply Nat.eqb_neq; lia). rewrite H in *. cbn [negb andb orb] in *.
      exists X. split.
      + rewrite app_nil_r in RX. unfold eff in RX. exact RX.
      + intro C. apply DX. rewrite andb_true_r in C. apply negb_true_iff in C. exact C.
    - assert (last = true) by (subst last; apply Nat.eqb_eq; lia). rewrite H in *. cbn [negb andb orb] in *.
      destruct capture eqn:CAP; cbn [negb andb] in *.
      + unfold cap_ok in CO. destruct CO as (C1 & C2). destruct capo as [o|]; [|congruence]. destruct cape as [e|]; [|congruence].
        unfold eff in RX.
        pose proof (capture_rep _ _ _ _ _ _ _ so se _ RX) as RD.
        exists (X ++ capY so o PCapOut ++ capY se e PCapErr). split.
        * subst so se. unfold has1, has2. exact RD.
        * intro C. apply andb_true_iff in C. destruct C as (C1' & C2').
          apply negb_true_iff in C1'. apply negb_true_iff in C2'.
          apply Forall_app. split; [apply DX; exact C1'|].
          unfold capY. subst so se. fold (has1 (s_redirs st)) (has2 (s_redirs st)).
          destruct (v_capclose v); cbn [negb] in *; rewrite ?andb_false_r; [constructor|].
          rewrite andb_true_r in *. apply orb_false_iff in C2'. destruct C2' as (-> & ->). constructor.
      + unfold cap_ok in CO. destruct CO as (-> & ->). cbn [caplive] in RX.
        exists X. split.
        * rewrite app_nil_r in RX. unfold eff in RX. exact RX.
        * intro C. apply DX. rewrite andb_true_r in C. apply negb_true_iff in C. exact C. }
  split; [destruct (s_kind st); reflexivity|]. split; [discriminate|]. split; [intros _; destruct (s_kind st); reflexivity|].
  split.
  + destruct (s_kind st); cbn [k_out k_proc]; try discriminate. intros _.
    exists Y. split; [|exact CY].
    rewrite tab_p_exec. apply rep_exec. exact RY.
  + intros KB _. rewrite KB. cbn [k_proc]. rewrite tab_p_ev. cbv zeta. exact (rep_std12 _ _ _ _ _ _ RY).
Qed.

(* ------------------------------------------------------------------ every stage of every pipeline *)
Definition kid_spec (F : nat -> option entry) (i0 o0 e0 : obj) (pc : nat) (capture : bool)
           (idx : nat) (st : stage) (k : kid) : Prop :=
  let last := idx =? pc in
  k_idx k = idx /\
  (opens_ok st = false -> k_out k = OExit 1) /\
  (opens_ok st = true ->
     k_out k = match s_kind st with KExt => OExec | KBuiltin => OExit 0 | KNotFound => OExit 127 end) /\
  (k_out k = OExec ->
     let fs := final_sinks capture last (s_redirs st) (pro_out o0 pc idx) e0 in
     exists Y, Rep (fun x => drop_cx (base3 F (from_obj (pro_in i0 idx) idx st) (fst fs) (snd fs) x))
                   (filter noncx Y) (tab (k_proc k)) /\
               (clean capture last (s_redirs st) = true -> all_cx Y)) /\
  (s_kind st = KBuiltin -> opens_ok st = true ->
     let fs := final_sinks capture last (s_redirs st) (pro_out o0 pc idx) e0 in
     lookup (tab (k_proc k)) 1 = Some (fst fs, false) /\ lookup (tab (k_proc k)) 2 = Some (snd fs, false)).

Fixpoint kids_ok (P : nat -> stage -> kid -> Prop) (idx : nat) (sts : list stage) (ks : list kid) : Prop :=
  match sts, ks with
  | [], [] => True
  | st :: r, k :: kr => P idx st k /\ kids_ok P (S idx) r kr
  | _, _ => False
  end.

Lemma run_stage_kid : forall F i0 o0 e0 pipes capo cape capture idx st sh sh1 k,
  cap_ok capture capo cape -> idx <= length pipes ->
  Rep (base3 F i0 o0 e0) (Lpar pipes capo cape idx) (tab sh) ->
  run_stage v openable pipes capo cape capture idx st sh = (sh1, k) ->
  kid_spec F i0 o0 e0 (length pipes) capture idx st k.
Proof.
  intros F i0 o0 e0 pipes capo cape capture idx st sh sh1 k CO LE R H.
  unfold run_stage in H.
  destruct (s_from st) eqn:EF.
  - injection H as _ <-. apply (child_spec F i0 o0 e0 pipes capo cape capture idx st None []); auto.
    unfold here_ok. rewrite EF. auto.
  - injection H as _ <-. apply (child_spec F i0 o0 e0 pipes capo cape capture idx st None []); auto.
    unfold here_ok. rewrite EF. auto.
  - destruct (p_pipe (PHere idx) sh) as [q [hr hw]] eqn:EP. injection H as _ <-.
    apply (child_spec F i0 o0 e0 pipes capo cape capture idx st (Some (hr, hw)) [(hr, eR (PHere idx)); (hw, eW (PHere idx))]); auto.
    + unfold here_ok. rewrite EF. eauto.
    + cbn [tab app]. eapply p_pipe_rep; eauto.
Qed.

Lemma run_stages_kids : forall F i0 o0 e0 pipes capo cape capture sts idx sh sh1 ks,
  cap_ok capture capo cape -> idx + length sts = S (length pipes) ->
  Rep (base3 F i0 o0 e0) (Lpar pipes capo cape idx) (tab sh) ->
  run_stages v openable pipes capo cape capture idx sts sh = (sh1, ks) ->
  kids_ok (kid_spec F i0 o0 e0 (length pipes) capture) idx sts ks.
Proof.
  intros F i0 o0 e0 pipes capo cape capture. induction sts as [|st rest IH]; intros idx sh sh1 ks CO HL R H; cbn in H.
  - injection H as <- <-. exact I.
  - destruct (run_stage v openable pipes capo cape capture idx st sh) as [sh2 k] eqn:ES.
    destruct (run_stages v openable pipes capo cape capture (S idx) rest sh2) as [sh3 ks3] eqn:ER.
    injection H as <- <-. cbn in HL.
    assert (LE : idx <= length pipes) by lia.
    split.
    + eapply run_stage_kid; eauto.
    + pose proof (run_stage_shell v openable _ _ _ _ _ _ _ _ _ _ CO LE R ES) as R2.
      eapply (IH (S idx)); eauto. lia.
Qed.

(* a run without error of a plan that is not a lone builtin is: the pipes, then run_stages *)
Variable fail_at : nat -> bool.
Lemma run_pipeline_stages : forall pl sh,
  runs_in_shell pl = false ->
  res_error (run_pipeline v fail_at openable pl sh) = false ->
  exists pipes capo cape sh',
    cap_ok (p_capture pl) capo cape /\ S (length pipes) = length (p_stages pl) /\
    Rep (lookup (tab sh)) (Lpar pipes capo cape 0) (tab sh') /\
    run_stages v openable pipes capo cape (p_capture pl) 0 (p_stages pl) sh'
    = (res_shell (run_pipeline v fail_at openable pl sh), res_kids (run_pipeline v fail_at openable pl sh)).
Proof.
  intros pl sh NB. unfold run_pipeline. rewrite NB.
  destruct (p_stages pl) as [|st0 more] eqn:ES; [cbn; discriminate|]. cbn zeta.
  destruct (mk_pipes fail_at (length more) 0 sh) as [[sh1 pipes] errored] eqn:EM.
  destruct (mk_pipes_rep _ _ _ _ _ [] _ _ _ (rep_init (tab sh)) EM) as (R1 & HL).
  destruct errored; [cbn; discriminate|]. specialize (HL eq_refl). rewrite app_nil_r in R1.
  unfold mk_capture. destruct (p_capture pl) eqn:EC.
  - destruct (fail_at (length more)); [cbn; discriminate|].
    destruct (p_pipe PCapOut sh1) as [sh2 [cor cow]] eqn:EO.
    destruct (fail_at (S (length more))); [cbn; discriminate|].
    destruct (p_pipe PCapErr sh2) as [sh3 [cer cew]] eqn:EE.
    destruct (run_stages v openable pipes (Some (cor, cow)) (Some (cer, cew)) true 0 (st0 :: more) sh3) as [sh4 ks] eqn:ER.
    intros _. exists pipes, (Some (cor, cow)), (Some (cer, cew)), sh3.
    split; [cbn; split; congruence|]. split; [cbn; lia|]. split; [|cbn [res_shell res_kids]; exact ER].
    pose proof (p_pipe_rep _ _ _ _ _ _ _ R1 EO) as R2.
    pose proof (p_pipe_rep _ _ _ _ _ _ _ R2 EE) as R3.
    unfold Lpar. cbn [Nat.leb prevlive skipn app caplive fst snd].
    assert (P : Permutation ([(cer, eR PCapErr); (cew, eW PCapErr); (cor, eR PCapOut); (cow, eW PCapOut)] ++ plive 0 pipes)
                            (plive 0 pipes ++ [(cor, eR PCapOut); (cow, eW PCapOut); (cer, eR PCapErr); (cew, eW PCapErr)])).
    { eapply perm_trans; [apply Permutation_app_comm|]. apply Permutation_app_head.
      apply (Permutation_app_comm [(cer, eR PCapErr); (cew, eW PCapErr)] [(cor, eR PCapOut); (cow, eW PCapOut)]). }
    apply (rep_perm _ _ _ _ P). exact R3.
  - destruct (run_stages v openable pipes None None false 0 (st0 :: more) sh1) as [sh4 ks] eqn:ER.
    intros _. exists pipes, None, None, sh1.
    split; [cbn; auto|]. split; [cbn; lia|]. split; [|cbn [res_shell res_kids]; exact ER].
    unfold Lpar. cbn [Nat.leb prevlive skipn app caplive]. rewrite app_nil_r. exact R1.
Qed.

Definition std_ok (T0 : table) (i0 o0 e0 : obj) : Prop :=
  lookup T0 0 = Some (i0, false) /\ lookup T0 1 = Some (o0, false) /\ lookup T0 2 = Some (e0, false).

Theorem pipeline_kids : forall pl sh i0 o0 e0,
  std_ok (tab sh) i0 o0 e0 ->
  runs_in_shell pl = false ->
  let r := run_pipeline v fail_at openable pl sh in
  res_error r = false ->
  kids_ok (kid_spec (lookup (tab sh)) i0 o0 e0 (length (p_stages pl) - 1) (p_capture pl)) 0 (p_stages pl) (res_kids r).
Proof.
  intros pl sh i0 o0 e0 (S0 & S1 & S2) NB r NE.
  destruct (run_pipeline_stages pl sh NB NE) as (pipes & capo & cape & sh' & CO & HL & R & HR).
  fold r in HR. replace (length (p_stages pl) - 1) with (length pipes) by lia.
  eapply run_stages_kids; [exact CO | | | exact HR]; [lia|].
  eapply rep_ext; [|exact R]. intros [|[|[|x]]]; cbn; auto.
Qed.

(* ------------------------------------------------------------------ corollaries used by the properties *)
Definition obj_at (t : table) (fd : nat) : option obj := option_map fst (lookup t fd).

(* descriptors 0 1 2 of an exec'd stage, in every class *)
Lemma kid_std_fds : forall F i0 o0 e0 pc capture idx st k,
  kid_spec F i0 o0 e0 pc capture idx st k -> k_out k = OExec ->
  let fs := final_sinks capture (idx =? pc) (s_redirs st) (pro_out o0 pc idx) e0 in
  lookup (tab (k_proc k)) 0 = Some (std_in i0 idx st, false) /\
  lookup (tab (k_proc k)) 1 = Some (fst fs, false) /\
  lookup (tab (k_proc k)) 2 = Some (snd fs, false).
Proof.
  intros F i0 o0 e0 pc capture idx st k (_ & _ & _ & H & _) HE fs. destruct (H HE) as (Y & R & _).
  assert (G : forall x, x < 3 -> lookup (tab (k_proc k)) x
              = drop_cx (base3 F (from_obj (pro_in i0 idx) idx st) (fst fs) (snd fs) x)).
  { intros x Hx. apply (rep_lookup _ _ _ _ R). intro Hin. unfold keys in Hin. apply in_map_iff in Hin.
    destruct Hin as ([kk e] & Hk & Hin). cbn in Hk. subst kk. destruct R as (_ & H1 & _).
    destruct (H1 _ _ Hin) as (_ & HB). destruct x as [|[|[|x]]]; cbn in HB; try discriminate. lia. }
  assert (SI : from_obj (pro_in i0 idx) idx st = std_in i0 idx st).
  { unfold from_obj, std_in, pro_in. destruct (s_from st); reflexivity. }
  rewrite <- SI. repeat split; [apply (G 0) | apply (G 1) | apply (G 2)]; lia.
Qed.

(* nothing else at exec, outside the leak classes *)
Lemma kid_clean_above : forall F i0 o0 e0 pc capture idx st k,
  kid_spec F i0 o0 e0 pc capture idx st k -> k_out k = OExec ->
  clean capture (idx =? pc) (s_redirs st) = true ->
  forall x, 3 <= x -> lookup (tab (k_proc k)) x = drop_cx (F x).
Proof.
  intros F i0 o0 e0 pc capture idx st k (_ & _ & _ & H & _) HE C x Hx. destruct (H HE) as (Y & R & CY).
  rewrite (filter_noncx_allcx _ (CY C)) in R. rewrite (proj1 (rep_nil _ _) R).
  destruct x as [|[|[|x]]]; try lia. reflexivity.
Qed.

Lemma has12_file : forall rs, has1 rs || has2 rs = existsb is_file_redir rs.
Proof.
  induction rs as [|r rest IH]; [reflexivity|]. unfold has1, has2 in *. cbn [existsb]. rewrite <- IH.
  destruct (is_file_redir r), (is_f1 r); cbn; rewrite ?orb_true_r; try reflexivity;
  try (destruct (existsb (fun r0 : redir => is_file_redir r0 && is_f1 r0) rest); reflexivity).
Qed.

Lemma file_sinks_gen : forall rs b c b2 c2, forallb is_file_redir rs = true ->
  posix_sinks rs (b, c) = (if has1 rs then fst (posix_sinks rs (b2, c2)) else b,
                           if has2 rs then snd (posix_sinks rs (b2, c2)) else c).
Proof.
  induction rs as [|r rest IH]; intros b c b2 c2 HF; [reflexivity|].
  cbn [forallb] in HF. apply andb_true_iff in HF. destruct HF as (Hr & HF).
  unfold has1, has2. cbn [existsb]. rewrite Hr. cbn [andb].
  change (posix_sinks (r :: rest) (b, c)) with (posix_sinks rest (posix_redirect (b, c) r)).
  change (posix_sinks (r :: rest) (b2, c2)) with (posix_sinks rest (posix_redirect (b2, c2) r)).
  fold (has1 rest) (has2 rest).
  destruct (r_fd r) eqn:Efd; unfold is_f1; rewrite Efd; cbn [negb orb].
  - rewrite (posix_redirect_file1 r (r_to r) b c Efd eq_refl Hr), (posix_redirect_file1 r (r_to r) b2 c2 Efd eq_refl Hr).
    set (O := OFile (target_path (r_to r)) (wmode (r_app r))).
    rewrite (IH O c O c2 HF). f_equal.
    destruct (has1 rest) eqn:H1; [reflexivity|]. rewrite (IH O c2 O c2 HF). reflexivity.
  - rewrite (posix_redirect_file2 r (r_to r) b c Efd eq_refl Hr), (posix_redirect_file2 r (r_to r) b2 c2 Efd eq_refl Hr).
    set (O := OFile (target_path (r_to r)) (wmode (r_app r))).
    rewrite (IH b O b2 O HF). f_equal.
    destruct (has2 rest) eqn:H2; [reflexivity|]. rewrite (IH b2 O b2 O HF). reflexivity.
Qed.

Lemma filter_all : forall (A : Type) (f : A -> bool) l, forallb f l = true -> filter f l = l.
Proof.
  induction l as [|x r IH]; intros H; [reflexivity|]. cbn in *. apply andb_true_iff in H. destruct H as (-> & H).
  f_equal. auto.
Qed.

(* the model's sinks are the POSIX fold, except that a captured last stage ignores 2>&1 / 1>&2 *)
Lemma final_sinks_posix : forall capture pc idx rs o0 e0,
  idx <= pc ->
  ((idx =? pc) && capture = false \/ forallb is_file_redir rs = true \/ v_capfirst v = true) ->
  final_sinks capture (idx =? pc) rs (pro_out o0 pc idx) e0
  = posix_sinks rs (std_out o0 (S pc) capture idx, std_err e0 (S pc) capture idx).
Proof.
  intros capture pc idx rs o0 e0 LE H. unfold final_sinks, std_out, std_err, pro_out.
  replace (S idx <? S pc) with (idx <? pc) by reflexivity.
  replace (S idx =? S pc) with (idx =? pc) by reflexivity.
  destruct ((idx =? pc) && capture) eqn:LC.
  - apply andb_true_iff in LC. destruct LC as (L & C).
    apply Nat.eqb_eq in L. subst idx. rewrite C.
    assert (E : (pc <? pc) = false) by (apply Nat.ltb_ge; lia). rewrite E.
    destruct (v_capfirst v) eqn:VC; [reflexivity|].
    destruct H as [H|[H|H]]; [discriminate| |discriminate].
    rewrite (filter_all _ _ _ H).
    rewrite (file_sinks_gen rs (OPipeW PCapOut) (OPipeW PCapErr) o0 e0 H). reflexivity.
  - destruct (idx <? pc) eqn:LT; [reflexivity|].
    assert (idx = pc) by (apply Nat.ltb_ge in LT; lia). subst idx. rewrite Nat.eqb_refl in *. cbn [andb] in LC.
    rewrite LC. reflexivity.
Qed.

End WithOracles.

Lemma kids_ok_impl : forall (P Q : nat -> stage -> kid -> Prop) sts idx ks,
  (forall i st k, P i st k -> Q i st k) -> kids_ok P idx sts ks -> kids_ok Q idx sts ks.
Proof.
  induction sts as [|st r IH]; intros idx ks H K; destruct ks as [|k kr]; cbn in *; auto.
  destruct K as (K1 & K2). split; [auto | eapply IH; eauto].
Qed.

Lemma kids_ok_bound : forall (P : nat -> stage -> kid -> Prop) sts idx ks,
  kids_ok P idx sts ks -> kids_ok (fun i st k => P i st k /\ i < idx + length sts) idx sts ks.
Proof.
  induction sts as [|st r IH]; intros idx ks K; destruct ks as [|k kr]; cbn in *; auto.
  destruct K as (K1 & K2). split; [split; [exact K1 | lia]|].
  eapply kids_ok_impl; [|apply (IH (S idx) kr K2)]. cbn. intros i s0 k0 (A & B). split; [exact A | lia].
Qed.

Lemma kids_ok_length : forall (P : nat -> stage -> kid -> Prop) sts idx ks, kids_ok P idx sts ks -> length ks = length sts.
Proof.
  induction sts as [|st r IH]; intros idx ks K; destruct ks as [|k kr]; cbn in *; try tauto.
  destruct K as (_ & K). f_equal. eapply IH; eauto.
Qed.

Lemma no_dups_all_file : forall rs,
  existsb is_dup21 rs || existsb is_dup12 rs = false -> forallb is_file_redir rs = true.
Proof.
  induction rs as [|r rest IH]; intros H; [reflexivity|]. cbn [existsb forallb] in *.
  apply orb_false_iff in H. destruct H as (H1 & H2). apply orb_false_iff in H1, H2.
  destruct H1 as (A & A'), H2 as (B & B'). rewrite IH by (rewrite A', B'; reflexivity). rewrite andb_true_r.
  unfold is_file_redir, is_dup21, is_dup12 in *. destruct (r_fd r), (r_to r); try reflexivity; discriminate.
Qed.
