(** C10: what is left of the full statement after e586def -- the gate env_in_token. *)
From Coq Require Import List NArith ZArith Bool Lia.
From Cicada Require Import Base.Chars Base.Tag Base.Regex Gen.ShellRegexes Model.Expand Model.ExpandRef
  Proofs.ExpandBasics Proofs.EnvProofs Proofs.ExpandOnceProofs.
Import ListNotations.
From Coq Require String.
Import String.StringSyntax.
Local Open Scope N_scope.

Definition C10_full : Prop :=
  forall W ps tg, wf_pieces ps = true -> tg <> TSq -> tg <> TBq ->
  expand_env W [(tg, render_pieces ps)] = [(tg, den_pieces W ps)].

(** echo x='$A' with A=v : the UNTAGGED alias-definition token is left unexpanded by the gate (since 8dc686a the
    double-quoted one is expanded: gate_dq_expands) *)
Definition ps_exempt := map PLit [120; 61; 39] ++ [PRef false [65]; PLit 39].
Definition W_v := world_of [([65], [118])] [].
Lemma exempt_witness :
  wf_pieces ps_exempt = true /\ gate_ok ps_exempt = false /\
  render_pieces ps_exempt = [120; 61; 39; 36; 65; 39] /\ den_pieces W_v ps_exempt = [120; 61; 39; 118; 39] /\
  expand_env W_v [(TNone, render_pieces ps_exempt)] = [(TNone, render_pieces ps_exempt)].
Proof.
  split; [reflexivity|]. split; [reflexivity|]. split; [reflexivity|]. split; [reflexivity|].
  rewrite expand_env_map. cbn [map]. change (render_pieces ps_exempt) with [120; 61; 39; 36; 65; 39].
  rewrite gate_exempts_untagged. reflexivity.
Qed.

Theorem full_refuted : ~ C10_full.
Proof.
  intros H. destruct exempt_witness as (Hw & _ & Hr & Hd & He).
  specialize (H W_v ps_exempt TNone Hw). rewrite He, Hr, Hd in H.
  assert (X : TNone <> TSq /\ TNone <> TBq) by (split; discriminate).
  specialize (H (proj1 X) (proj2 X)). discriminate.
Qed.

(** outside the gate's exemption shapes: every world, every value *)
Theorem partial W ps tg :
  gate_ok ps = true -> wf_pieces ps = true -> tg <> TSq -> tg <> TBq ->
  expand_env W [(tg, render_pieces ps)] = [(tg, den_pieces W ps)].
Proof.
  intros Hg Hw H1 H2. rewrite expand_env_map. cbn [map]. rewrite expand_env_tok_den by assumption. reflexivity.
Qed.

(** a double-quoted word: the larger domain [gate_ok_dq] (a single quote among the literals is harmless) *)
Theorem partial_dq W ps :
  gate_ok_dq ps = true -> wf_pieces ps = true ->
  expand_env W [(TDq, render_pieces ps)] = [(TDq, den_pieces W ps)].
Proof.
  intros Hg Hw. rewrite expand_env_map. cbn [map]. rewrite expand_env_tok_den_dq by assumption. reflexivity.
Qed.

(** the former witness is inside that domain: "x='$A'" is expanded *)
Example exempt_witness_dq :
  gate_ok_dq ps_exempt = true /\
  expand_env W_v [(TDq, render_pieces ps_exempt)] = [(TDq, den_pieces W_v ps_exempt)].
Proof. split; [reflexivity|]. apply partial_dq; reflexivity. Qed.

Print Assumptions full_refuted.
Print Assumptions partial.
Print Assumptions partial_dq.
Print Assumptions exempt_witness_dq.
