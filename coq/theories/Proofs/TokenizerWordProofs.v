(** The tokenizer on a command word followed by a MIX of quoted arguments and UNQUOTED
    words made of ordinary characters and dollars (so: the reference spellings
    [$NAME], [${NAME}] with plain text around them): one untagged token per unquoted
    word, holding exactly its text.  Extends [TokenizerProofs.parse_line_quoted]. *)
From Cicada Require Import Base.Chars Base.Tag Model.Tokenizer Proofs.TokenizerProofs.
Local Open Scope N_scope.

(** a character of an unquoted word: class Other (letters, digits, braces, [= ; & * ~ ...]) or a dollar *)
Definition wchar (c : char) : bool := cls_eqb (classify c) KOther || cls_eqb (classify c) KDollar.

Lemma step_round_wchar r hd c nxt :
  wchar c = true -> step (st_round r hd) c nxt = Cont (st_word r [c] (hd_upd hd c)).
Proof.
  unfold wchar, hd_upd. intros Hc. cbv beta delta [step].
  destruct (classify c) eqn:K; try discriminate Hc; destruct hd; reflexivity.
Qed.

Lemma step_word_wchar r tk hd c nxt :
  wchar c = true -> step (st_word r tk hd) c nxt = Cont (st_word r (c :: tk) (hd_upd hd c)).
Proof.
  unfold wchar, hd_upd. intros Hc. cbv beta delta [step].
  destruct (classify c) eqn:K; try discriminate Hc; destruct hd; reflexivity.
Qed.

Lemma loop_wword t : forall r tk hd rest, forallb wchar t = true ->
  loop (st_word r tk hd) (t ++ rest) = loop (st_word r (rev t ++ tk) (hd_after hd t)) rest.
Proof.
  induction t as [|c t IH]; intros r tk hd rest Hall; [reflexivity|].
  cbn [forallb] in Hall. apply andb_true_iff in Hall as [Hc Hall].
  cbn [app]. rewrite loop_cons, (step_word_wchar r tk hd c _ Hc), IH by exact Hall.
  cbn [rev hd_after]. now rewrite <- app_assoc.
Qed.

(** * Arguments: quoted, or an unquoted word *)
Inductive warg := WQ (a : qarg) | WU (w : str).
Definition wf_warg (a : warg) : bool :=
  match a with WQ q => wf_qarg q | WU w => negb (is_empty w) && forallb wchar w end.
Definition render_warg (a : warg) : str := match a with WQ q => render_qarg q | WU w => w end.
Definition tok_of_warg (a : warg) : tag * str := match a with WQ q => tok_of_qarg q | WU w => (TNone, w) end.

Fixpoint render_wargs (l : list (nat * warg)) : str :=
  match l with
  | [] => []
  | (n, a) :: r => c_space :: spaces n ++ render_warg a ++ render_wargs r
  end.

(** a state holding a finished-but-not-yet-emitted token [t] *)
Definition pending (s : st) (r : list (tag * str)) (t : tag * str) : Prop :=
  (exists q tk hd, is_sd q /\ s = st_closed r q tk hd /\ t = (q, rev tk)) \/
  (exists tk hd, tk <> [] /\ s = st_word r tk hd /\ t = (TNone, rev tk)).

Lemma pending_space s r t nxt : pending s r t -> exists hd, step s c_space nxt = Cont (st_round (t :: r) hd).
Proof.
  intros [(q & tk & hd & Hq & -> & ->)|(tk & hd & _ & -> & ->)]; exists hd.
  - apply step_closed_space. exact Hq.
  - apply step_word_space.
Qed.

Lemma pending_finish s r t : pending s r t -> finish s = rev r ++ [t].
Proof.
  intros [(q & tk & hd & Hq & -> & ->)|(tk & hd & Htk & -> & ->)].
  - unfold finish, st_closed. cbn [tok semi_ok]. rewrite orb_true_r.
    destruct Hq as [-> | ->]; destruct hd; reflexivity.
  - destruct tk; [congruence|]. destruct hd; reflexivity.
Qed.

Lemma loop_warg a : wf_warg a = true -> forall r hd rest,
  exists s', loop (st_round r hd) (render_warg a ++ rest) = loop s' rest /\ pending s' r (tok_of_warg a).
Proof.
  intros Hwf r hd rest. destruct a as [q|w]; cbn [wf_warg render_warg tok_of_warg] in *.
  - exists (st_closed r (qarg_tag q) (rev (qarg_text q)) (hd_after hd (qarg_text q))).
    split; [apply loop_qarg; exact Hwf|]. left.
    destruct (wf_qarg_body q Hwf) as (Hq & _).
    exists (qarg_tag q), (rev (qarg_text q)), (hd_after hd (qarg_text q)).
    split; [exact Hq|]. split; [reflexivity|]. unfold tok_of_qarg. now rewrite rev_involutive.
  - apply andb_true_iff in Hwf as [Hne Hall]. destruct w as [|c w]; [discriminate|].
    cbn [forallb] in Hall. apply andb_true_iff in Hall as [Hc Hall].
    exists (st_word r (rev w ++ [c]) (hd_after (hd_upd hd c) w)). split.
    + cbn [app]. rewrite loop_cons, (step_round_wchar r hd c _ Hc). apply loop_wword. exact Hall.
    + right. exists (rev w ++ [c]), (hd_after (hd_upd hd c) w).
      split; [destruct (rev w); discriminate|]. split; [reflexivity|].
      rewrite rev_app_distr, rev_involutive. reflexivity.
Qed.

Lemma loop_wargs l : forallb (fun '(_, a) => wf_warg a) l = true ->
  forall s r t, pending s r t ->
  finish (loop s (render_wargs l)) = rev r ++ t :: map (fun '(_, a) => tok_of_warg a) l.
Proof.
  induction l as [|[n a] l IH]; intros Hwf s r t Hp.
  - cbn [render_wargs loop map]. now apply pending_finish.
  - cbn [forallb] in Hwf. apply andb_true_iff in Hwf as [Ha Hl].
    cbn [render_wargs]. rewrite loop_cons.
    destruct (pending_space s r t (peek (spaces n ++ render_warg a ++ render_wargs l)) Hp) as (hd & E). rewrite E.
    rewrite loop_round_spaces.
    destruct (loop_warg a Ha (t :: r) hd (render_wargs l)) as (s' & E' & Hp'). rewrite E'.
    rewrite (IH Hl s' (t :: r) (tok_of_warg a) Hp'). cbn [rev map]. now rewrite <- app_assoc.
Qed.

Theorem parse_line_wargs cmd (args : list (nat * warg)) :
  plain_word cmd = true -> forallb arith_body cmd = false ->
  forallb (fun '(_, a) => wf_warg a) args = true ->
  parse_line (cmd ++ render_wargs args) = (TNone, cmd) :: map (fun '(_, a) => tok_of_warg a) args.
Proof.
  intros Hw Hna Hargs. unfold parse_line. rewrite (not_arith _ _ Hna).
  apply andb_true_iff in Hw as [Hne Hall]. destruct cmd as [|c cmd]; [discriminate|].
  cbn [forallb] in Hall. apply andb_true_iff in Hall as [Hc Hall]. apply cls_eqb_eq in Hc.
  change st0 with (st_round [] false). cbn [app]. rewrite loop_cons, (step_round_plain [] false c _ Hc).
  assert (E : loop (st_word [] [c] false) (cmd ++ render_wargs args) =
              loop (st_word [] (rev cmd ++ [c]) false) (render_wargs args)).
  { destruct cmd as [|c' cmd']; [reflexivity|].
    apply loop_word; [|exact Hall]. cbn. cbn in Hall. apply andb_true_iff in Hall as [H1 _]. now rewrite H1. }
  rewrite E. rewrite (loop_wargs args Hargs _ [] (TNone, rev (rev cmd ++ [c]))).
  - cbn [rev app]. rewrite rev_app_distr, rev_involutive. reflexivity.
  - right. exists (rev cmd ++ [c]), false. split; [destruct (rev cmd); discriminate|]. split; reflexivity.
Qed.

(** quoted argument lists embed *)
Definition wq (args : list (nat * qarg)) : list (nat * warg) := map (fun '(n, a) => (n, WQ a)) args.

Lemma render_wargs_wq args : render_wargs (wq args) = render_args args.
Proof. induction args as [|[n a] args IH]; [reflexivity|]. cbn [wq map render_wargs render_args render_warg]. fold (wq args). now rewrite IH. Qed.

Lemma render_wargs_app a b : render_wargs (a ++ b) = render_wargs a ++ render_wargs b.
Proof.
  induction a as [|[n x] a IH]; [reflexivity|]. cbn [app render_wargs]. rewrite IH.
  now rewrite <- !app_assoc.
Qed.

Lemma wf_wq args : forallb (fun '(_, a) => wf_warg a) (wq args) = forallb (fun '(_, a) => wf_qarg a) args.
Proof. induction args as [|[n a] args IH]; [reflexivity|]. cbn [wq map forallb wf_warg]. fold (wq args). now rewrite IH. Qed.

Lemma toks_wq args : map (fun '(_, a) => tok_of_warg a) (wq args) = map (fun '(_, a) => tok_of_qarg a) args.
Proof. induction args as [|[n a] args IH]; [reflexivity|]. cbn [wq map tok_of_warg]. fold (wq args). now rewrite IH. Qed.

(** command word, quoted arguments, ONE unquoted word, quoted arguments *)
Theorem parse_line_one_unquoted cmd (args1 args2 : list (nat * qarg)) n (w : str) :
  plain_word cmd = true -> forallb arith_body cmd = false ->
  forallb (fun '(_, a) => wf_qarg a) args1 = true -> forallb (fun '(_, a) => wf_qarg a) args2 = true ->
  w <> [] -> forallb wchar w = true ->
  parse_line (render_cmd cmd args1 ++ c_space :: spaces n ++ w ++ render_args args2)
  = (TNone, cmd) :: map (fun '(_, a) => tok_of_qarg a) args1 ++ (TNone, w) :: map (fun '(_, a) => tok_of_qarg a) args2.
Proof.
  intros Hw Hna H1 H2 Hne Hwc.
  assert (E : render_cmd cmd args1 ++ c_space :: spaces n ++ w ++ render_args args2
              = cmd ++ render_wargs (wq args1 ++ (n, WU w) :: wq args2)).
  { unfold render_cmd. rewrite render_wargs_app. cbn [render_wargs render_warg].
    rewrite !render_wargs_wq, <- app_assoc. reflexivity. }
  rewrite E, parse_line_wargs; [|exact Hw|exact Hna|].
  - rewrite map_app. cbn [map tok_of_warg]. now rewrite !toks_wq.
  - rewrite forallb_app. cbn [forallb wf_warg]. rewrite !wf_wq, H1, H2, Hwc.
    destruct w; [congruence|reflexivity].
Qed.
