(** Filename expansion as a delivery path of C13: the words [expand_glob] produces, and how
    they travel through the rest of [do_expansion] and the planner.

    The decision that protects a produced name is [retag]: a name that contains a blank
    ANYWHERE IN THE MATCHED PATH (directory components included) gets the double-quote
    tag; every pass after that leaves a tagged token alone, so it reaches the command as
    ONE argument and no [>] / [<] / [|] inside it is looked at ([glob_blank_one_cmd]).
    A name without a blank keeps the empty tag (classes untagged_* of Properties/C13.v). *)
From Coq Require Import List NArith ZArith Bool Lia.
From Cicada Require Import Base.Chars Base.Tag Base.Regex Gen.ShellRegexes Model.Expand Model.ExpandRef Model.Redirect Model.FullPlan
  Proofs.ExpandBasics Proofs.EnvProofs Proofs.ExpandOnceProofs Proofs.SubstProofs Proofs.BraceProofs Proofs.ExpandInert Proofs.ExpandUntagged.
From Cicada Require Model.Tokenizer Proofs.RedirectProofs Proofs.PlanInert.
Import ListNotations.
Local Open Scope N_scope.

Module RP := Cicada.Proofs.RedirectProofs.
Module PI := Cicada.Proofs.PlanInert.

(* ------------------------------------------------------------------ run_pass without an early return *)
Lemma collect_total (sel : token -> res selr) (toks : tokens) :
  (forall t, In t toks -> sel t = Ok Skip \/ exists l, sel t = Ok (Repl l)) ->
  forall i, exists buff, collect sel toks i = Ok (Some buff).
Proof.
  induction toks as [|t r IH]; intros H i; [exists []; reflexivity|].
  destruct (IH (fun x Hx => H x (or_intror Hx)) (S i)) as (b & Eb).
  cbn [collect]. destruct (H t (or_introl eq_refl)) as [E|(l & E)]; rewrite E; cbn [bind].
  - exists b. exact Eb.
  - rewrite Eb. exists ((i, l) :: b). reflexivity.
Qed.

Lemma run_pass_total sel toks :
  (forall t, In t toks -> sel t = Ok Skip \/ exists l, sel t = Ok (Repl l)) ->
  run_pass sel toks = Ok (flat_map (fun t => match sel t with Ok (Repl l) => l | _ => [t] end) toks).
Proof. intros H. destruct (collect_total sel toks H 0%nat) as (b & E). exact (run_pass_ok sel toks b E). Qed.

Lemma flat_map_skip sel (l : tokens) : (forall t, In t l -> sel t = Ok Skip) ->
  flat_map (fun t => match sel t with Ok (Repl x) => x | _ => [t] end) l = l.
Proof.
  induction l as [|t l IH]; intros H; [reflexivity|]. cbn [flat_map].
  rewrite (H t (or_introl eq_refl)), IH by (intros x Hx; apply H; now right). reflexivity.
Qed.

(* ------------------------------------------------------------------ expand_glob on ONE pattern word among tokens it skips *)
Theorem expand_glob_one W (pre post : tokens) (pat : str) (names : list str) :
  Forall still pre -> Forall still post ->
  needs_globbing pat = true -> glob_one W pat = Some names ->
  expand_glob W (pre ++ (TNone, pat) :: post) = Ok (pre ++ map retag names ++ post).
Proof.
  intros Hpre Hpost Hng Hg. unfold expand_glob.
  assert (Hp : glob_sel W (TNone, pat) = Ok (Repl (map retag names))).
  { unfold glob_sel. cbn [fst snd tag_is_empty tag_eqb negb orb]. rewrite Hng, Hg. reflexivity. }
  rewrite run_pass_total.
  - rewrite flat_map_app. cbn [flat_map]. rewrite Hp.
    rewrite !flat_map_skip; [reflexivity| |];
      intros t Ht; apply glob_sel_still; [rewrite Forall_forall in Hpost; now apply Hpost|rewrite Forall_forall in Hpre; now apply Hpre].
  - intros t Ht. apply in_app_or in Ht as [Ht|[<-|Ht]].
    + left. apply glob_sel_still. rewrite Forall_forall in Hpre. now apply Hpre.
    + right. eexists. exact Hp.
    + left. apply glob_sel_still. rewrite Forall_forall in Hpost. now apply Hpost.
Qed.

(** the protective tag looks at the WHOLE produced path *)
Lemma retag_blank s : contains_char 32 s = true -> retag s = (TDq, s).
Proof. intros H. unfold retag. now rewrite H. Qed.

Lemma retag_blank_all names : forallb (contains_char 32) names = true -> map retag names = map (fun s => (TDq, s)) names.
Proof.
  induction names as [|s r IH]; [reflexivity|]. cbn [forallb map]. intros H.
  apply andb_true_iff in H as [H1 H2]. now rewrite (retag_blank s H1), IH.
Qed.

(* ------------------------------------------------------------------ through do_expansion *)
(** a produced name: no backquote and no dollar-paren (the substitution passes run after glob and
    scan double-quoted tokens too); if it has no blank (untagged), also no star and no open brace *)
Definition name_ok (s : str) : Prop :=
  ~ In 96 s /\ has_dollar_paren s = false /\ (contains_char 32 s = true \/ (~ In 42 s /\ ~ In 123 s)).

Lemma name_calm s : name_ok s -> calm (retag s).
Proof.
  intros (H96 & Hdp & _). right. unfold retag. cbn [fst snd].
  split; [destruct (contains_char 32 s); [left|right]; reflexivity|]. split; assumption.
Qed.

Lemma name_still s : name_ok s -> still (retag s).
Proof.
  intros (_ & _ & [Hb|H]); unfold retag, still; cbn [fst snd].
  - rewrite Hb. left. discriminate.
  - right. exact H.
Qed.

Lemma inert_tagged t : inert t -> tagged t.
Proof. intros [X|(X & _)]; unfold tagged; rewrite X; reflexivity. Qed.

Lemma inert_quiet t : inert t -> quiet_alias t.
Proof. intros [H|(H & _)]; unfold quiet_alias; rewrite H; reflexivity. Qed.

Lemma brace_sel_no_brace (t : token) : ~ In 123 (snd t) -> brace_sel t = Ok Skip.
Proof.
  intros H123. unfold brace_sel, need_expand_brace. destruct (rx_search rx_need_brace (snd t)) eqn:E.
  - exfalso. apply H123. apply (rx_search_requires 123 rx_need_brace); [reflexivity | exact E].
  - destruct (negb (tag_is_empty (fst t))); reflexivity.
Qed.

Theorem do_expansion_glob : forall W fuel cmd l1 l2 (pat : str) names,
  cmd_ok W cmd -> Forall inert l1 -> Forall inert l2 ->
  needs_globbing pat = true -> ~ In 36 pat -> ~ In 96 pat -> ~ In 123 pat -> strip_prefix [126] pat = None ->
  glob_one W pat = Some names -> Forall name_ok names ->
  do_expansion Tokenizer.parse_line W fuel ((TNone, cmd) :: l1 ++ (TNone, pat) :: l2)
  = Ok ((TNone, cmd) :: l1 ++ map retag names ++ l2).
Proof.
  intros W fuel cmd l1 l2 pat names Hc H1 H2 Hng H36p H96p H123p Htl Hg Hn.
  assert (Hpne : pat <> [124]).
  { intros ->. unfold needs_globbing in Hng. apply (rx_search_requires 42 rx_needs_glob) in Hng; [|reflexivity].
    destruct Hng as [X|[]]. discriminate X. }
  assert (Hq : Forall quiet_alias (l1 ++ (TNone, pat) :: l2)).
  { apply Forall_app. split; [eapply Forall_impl; [|exact H1]; apply inert_quiet|].
    constructor; [|eapply Forall_impl; [|exact H2]; apply inert_quiet].
    unfold quiet_alias. cbn [fst snd tag_is_empty tag_eqb andb]. now apply str_eqb_neq. }
  assert (S1 : Forall still l1) by (eapply Forall_impl; [|exact H1]; apply inert_still).
  assert (S2 : Forall still l2) by (eapply Forall_impl; [|exact H2]; apply inert_still).
  assert (C1 : Forall calm l1) by (eapply Forall_impl; [|exact H1]; apply inert_calm).
  assert (C2 : Forall calm l2) by (eapply Forall_impl; [|exact H2]; apply inert_calm).
  assert (Hcalm : Forall calm ((TNone, cmd) :: l1 ++ map retag names ++ l2)).
  { constructor; [eapply cmd_calm; eassumption|]. apply Forall_app. split; [exact C1|]. apply Forall_app. split; [|exact C2].
    clear - Hn. induction Hn; constructor; [now apply name_calm|assumption]. }
  assert (Hstill : Forall still ((TNone, cmd) :: l1 ++ map retag names ++ l2)).
  { constructor; [eapply cmd_still; eassumption|]. apply Forall_app. split; [exact S1|]. apply Forall_app. split; [|exact S2].
    clear - Hn. induction Hn; constructor; [now apply name_still|assumption]. }
  pose proof (cmd_still W cmd Hc) as Scmd.
  destruct Hc as [Ha Hnm (H36 & H96 & H126 & H42 & H123) Hw] eqn:EHc. clear EHc.
  unfold do_expansion, do_expansion_log.
  rewrite (not_arithmetic W cmd _ Hc), (not_export_prompt W cmd _ Hc).
  cbn zeta.
  rewrite (expand_alias_quiet _ W cmd _ Hc Hq).
  (* home *)
  assert (Eh : expand_home W ((TNone, cmd) :: l1 ++ (TNone, pat) :: l2) = (TNone, cmd) :: l1 ++ (TNone, pat) :: l2).
  { rewrite expand_home_map. cbn [map]. rewrite map_app. cbn [map].
    rewrite (expand_home_map_tagged W l1) by (eapply Forall_impl; [|exact H1]; apply inert_tagged).
    rewrite (expand_home_map_tagged W l2) by (eapply Forall_impl; [|exact H2]; apply inert_tagged).
    unfold expand_home_tok. cbn [fst snd tag_is_empty tag_eqb]. rewrite (strip_prefix_absent 126 cmd H126), Htl. reflexivity. }
  rewrite Eh.
  (* env *)
  assert (Ee : expand_env W ((TNone, cmd) :: l1 ++ (TNone, pat) :: l2) = (TNone, cmd) :: l1 ++ (TNone, pat) :: l2).
  { rewrite expand_env_map. cbn [map]. rewrite map_app. cbn [map].
    assert (Ei : forall l, Forall inert l -> map (expand_env_tok W) l = l).
    { induction 1 as [|t l Ht _ IH]; [reflexivity|]. cbn [map]. rewrite IH. f_equal.
      destruct t as [tg s]. destruct Ht as [X|(X & X36 & _)]; cbn [fst snd] in *; subst tg; unfold expand_env_tok; cbn [fst snd].
      - reflexivity.
      - now rewrite (tagged_gate_no_dollar s _ X36). }
    rewrite !Ei by assumption. unfold expand_env_tok. cbn [fst snd].
    now rewrite (tagged_gate_no_dollar cmd _ H36), (tagged_gate_no_dollar pat _ H36p). }
  rewrite Ee.
  (* brace *)
  assert (Eb : expand_brace ((TNone, cmd) :: l1 ++ (TNone, pat) :: l2) = Ok ((TNone, cmd) :: l1 ++ (TNone, pat) :: l2)).
  { apply run_pass_skip. intros t [<-|Ht].
    - apply brace_sel_still. exact Scmd.
    - apply in_app_or in Ht as [Ht|[<-|Ht]].
      + apply brace_sel_still. rewrite Forall_forall in S1. now apply S1.
      + apply brace_sel_no_brace. exact H123p.
      + apply brace_sel_still. rewrite Forall_forall in S2. now apply S2. }
  rewrite Eb. cbn [bind].
  (* glob *)
  assert (Eg : expand_glob W ((TNone, cmd) :: l1 ++ (TNone, pat) :: l2) = Ok ((TNone, cmd) :: l1 ++ map retag names ++ l2)).
  { apply (expand_glob_one W ((TNone, cmd) :: l1) l2 pat names); try assumption. constructor; assumption. }
  match goal with |- context [expand_glob W ?x] => replace (expand_glob W x) with (Ok ((TNone, cmd) :: l1 ++ map retag names ++ l2))
    by (symmetry; exact Eg) end.
  cbn [bind].
  rewrite (do_command_substitution_calm fuel W _ Hcalm). cbn [bind fst snd].
  rewrite (expand_brace_range_still _ Hstill). reflexivity.
Qed.

(* ------------------------------------------------------------------ and the planner *)
Lemma retag_inert_tok s : contains_char 32 s = true -> PI.inert_tok (retag s) = true.
Proof. intros H. rewrite (retag_blank s H). reflexivity. Qed.

(** every matched path holds a blank: ONE foreground command, each path one double-quoted word,
    no redirection, whatever else the paths hold *)
Theorem glob_blank_one_cmd : forall W fuel cmd l1 l2 (pat : str) names,
  RP.cmd_ok cmd = true -> cmd_ok W cmd -> Forall inert l1 -> Forall inert l2 ->
  needs_globbing pat = true -> ~ In 36 pat -> ~ In 96 pat -> ~ In 123 pat -> strip_prefix [126] pat = None ->
  glob_one W pat = Some names ->
  forallb (contains_char 32) names = true ->
  Forall (fun s => ~ In 96 s /\ has_dollar_paren s = false) names ->
  plan_toks W fuel ((TNone, cmd) :: l1 ++ (TNone, pat) :: l2)
  = Ok (inl (mkcl [mkc ((TNone, cmd) :: l1 ++ map (fun s => (TDq, s)) names ++ l2) [] None] [] false)).
Proof.
  intros W fuel cmd l1 l2 pat names Hrc Hc H1 H2 Hng H36 H96 H123 Htl Hg Hb Hn.
  unfold plan_toks.
  match goal with |- bind ?x ?g = _ =>
    assert (E : x = Ok ((TNone, cmd) :: l1 ++ map retag names ++ l2)) end.
  { apply do_expansion_glob; try assumption.
    rewrite forallb_forall in Hb. rewrite Forall_forall in *. intros s Hs. destruct (Hn s Hs) as (A & B).
    split; [exact A|]. split; [exact B|]. left. now apply Hb. }
  rewrite E. cbn [bind]. f_equal. rewrite (retag_blank_all names Hb).
  apply RP.plan_quoted; [exact Hrc|].
  assert (Q : forall t : token, inert t -> RP.quoted_tok t = true).
  { intros [tg s] [X|(X & _)]; cbn [fst] in X; subst tg; reflexivity. }
  apply forallb_forall. intros t Ht. apply in_app_or in Ht as [Ht|Ht]; [|apply in_app_or in Ht as [Ht|Ht]].
  - apply Q. rewrite Forall_forall in H1. now apply H1.
  - apply in_map_iff in Ht as (s & <- & _). reflexivity.
  - apply Q. rewrite Forall_forall in H2. now apply H2.
Qed.

(* ------------------------------------------------------------------ from the TEXT of the line *)
From Cicada Require Import Model.Tokenizer Proofs.TokenizerProofs Proofs.TokenizerWordProofs Proofs.C13Proofs.

Theorem glob_blank_one_cmd_text : forall W fuel cmd (args1 args2 : list (nat * qarg)) n (pat : str) names,
  plain_word cmd = true -> forallb arith_body cmd = false -> split_env cmd = None -> cmd_ok W cmd ->
  forallb (fun '(_, a) => wf_qarg a) args1 = true -> forallb (fun '(_, a) => wf_qarg a) args2 = true ->
  Forall (fun '(_, a) => calm_qarg a) args1 -> Forall (fun '(_, a) => calm_qarg a) args2 ->
  forallb wchar pat = true ->
  needs_globbing pat = true -> ~ In 36 pat -> ~ In 96 pat -> ~ In 123 pat -> strip_prefix [126] pat = None ->
  glob_one W pat = Some names ->
  forallb (contains_char 32) names = true ->
  Forall (fun s => ~ In 96 s /\ has_dollar_paren s = false) names ->
  plan W fuel (render_cmd cmd args1 ++ c_space :: spaces n ++ pat ++ render_args args2)
  = Ok (one_cmd ((TNone, cmd) :: toks_of args1 ++ map (fun s => (TDq, s)) names ++ toks_of args2)).
Proof.
  intros W fuel cmd args1 args2 n pat names Hp Ha He Hc Hw1 Hw2 Hc1 Hc2 Hwc Hng H36 H96 H123 Htl Hg Hb Hn.
  unfold plan. rewrite parse_line_one_unquoted; try assumption.
  2:{ intros ->. discriminate Hng. }
  exact (glob_blank_one_cmd W fuel cmd (toks_of args1) (toks_of args2) pat names
           (RP.plain_word_cmd_ok cmd Hp He) Hc (calm_inert _ Hc1) (calm_inert _ Hc2) Hng H36 H96 H123 Htl Hg Hb Hn).
Qed.
