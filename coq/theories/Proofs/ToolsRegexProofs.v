(** [Vars.is_env] (the model of tools::is_env used by C09) IS the regex of the source: it equals
    [rx_search] of the AST regenerated from tools.rs on every run (Gen/ToolsRegexes.v). Round 9 (regexgen). *)
From Coq Require Import List NArith Bool Lia.
From Cicada Require Import Base.Chars Base.Regex Gen.ToolsRegexes Model.Vars Proofs.RegexCalc Proofs.RegexClasses.
Import ListNotations.
Local Open Scope N_scope.

(** after the name: equals sign at the end of the maximal name prefix *)
Definition eq_after_name (s : str) : bool :=
  match snd (span_name s) with c :: _ => c =? 61 | [] => false end.

Lemma name_eq_rest_any s :
  matchb (Cat (Star (Chr false [(97, 122); (65, 90); (48, 57); (95, 95)])) (Cat (Chr false [(61, 61)]) (Star (Chr true [])))) s
  = eq_after_name s.
Proof.
  unfold eq_after_name. induction s as [|c t IH]; [reflexivity|].
  rewrite rc_Cat_Star_Chr, rc_Cat_Chr, rc_Star_Chr, IH, cls_alnum_us_lower_first, in_cs_one, forallb_any.
  cbn [span_name]. destruct (is_alnum_us c) eqn:A.
  - rewrite (alnum_us_not_equals c A). destruct (span_name t) as [a b]. reflexivity.
  - cbn [snd andb]. rewrite andb_true_r, orb_false_r. reflexivity.
Qed.

Theorem is_env_is_source_regex s : is_env s = rx_search rx_is_env s.
Proof.
  unfold rx_is_env. rewrite rc_anchored, rc_Cat_Chr.
  unfold is_env, split_env_strict. destruct s as [|c t]; [reflexivity|].
  rewrite name_eq_rest_any, cls_ident_head_lower_first. unfold eq_after_name, split_env_loose.
  cbn [span_name]. destruct (is_digit c) eqn:D; [reflexivity|]. cbn [negb andb].
  destruct (is_alnum_us c) eqn:A.
  - destruct (span_name t) as [a b]. cbn [snd]. destruct b as [|d v]; [reflexivity|].
    change c_eq with 61. destruct (d =? 61); reflexivity.
  - reflexivity.
Qed.
