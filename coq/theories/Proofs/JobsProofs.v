(** Proofs about the job-table model (Model/Jobs.v). *)
From Coq Require Import ZArith List Bool Arith Lia.
From Cicada Require Import Model.Jobs Proofs.JobsSpec.
Import ListNotations.
Local Open Scope Z_scope.

(** * A. binary_search_by on an ascending vector *)
Definition asc (l : list Z) : Prop :=
  forall i j, (i < j)%nat -> (j < length l)%nat -> nth i l 0 < nth j l 0.

Lemma half_facts : forall size, (2 <= size)%nat ->
  (1 <= size / 2)%nat /\ (size / 2 <= size - size / 2)%nat /\ (size / 2 < size)%nat.
Proof.
  intros size H.
  pose proof (Nat.div_mod size 2 ltac:(lia)).
  pose proof (Nat.mod_upper_bound size 2 ltac:(lia)).
  lia.
Qed.

Lemma bs_loop_spec : forall fuel l x base size,
  asc l -> (size <= fuel)%nat -> (1 <= size)%nat -> (base + size <= length l)%nat ->
  (forall k, (k < length l)%nat -> nth k l 0 = x -> (base <= k < base + size)%nat) ->
  let b := bs_loop fuel l x base size in
  (b < length l)%nat /\ (forall k, (k < length l)%nat -> nth k l 0 = x -> k = b).
Proof.
  induction fuel as [|f IH]; intros l x base size Ha Hf H1 Hb Hk.
  - lia.
  - cbn [bs_loop].
    destruct (size <=? 1)%nat eqn:E.
    + apply Nat.leb_le in E. split; [lia|]. intros k K1 K2. specialize (Hk k K1 K2). lia.
    + apply Nat.leb_gt in E.
      destruct (half_facts size ltac:(lia)) as (h1 & h2 & h3).
      set (half := (size / 2)%nat) in *.
      destruct (nth (base + half) l 0 >? x) eqn:G.
      * apply IH; try assumption; try lia.
        intros k K1 K2. specialize (Hk k K1 K2).
        assert (k < base + half)%nat.
        { destruct (Nat.lt_ge_cases k (base + half)) as [L|L]; [exact L|].
          exfalso. apply Z.gtb_lt in G.
          destruct (Nat.eq_dec k (base + half)) as [->|N]; [lia|].
          pose proof (Ha (base + half)%nat k ltac:(lia) K1). lia. }
        lia.
      * apply IH; try assumption; try lia.
        intros k K1 K2. specialize (Hk k K1 K2).
        assert (base + half <= k)%nat.
        { destruct (Nat.lt_ge_cases k (base + half)) as [L|L]; [|exact L].
          exfalso. rewrite Z.gtb_ltb in G. apply Z.ltb_ge in G.
          pose proof (Ha k (base + half)%nat L ltac:(lia)). lia. }
        lia.
Qed.

(** On an ascending vector the search finds every member, at its index. *)
Theorem binary_search_asc : forall l x, asc l ->
  (In x l -> exists i, binary_search l x = inl i /\ (i < length l)%nat /\ nth i l 0 = x) /\
  (forall i, binary_search l x = inl i -> (i < length l)%nat /\ nth i l 0 = x).
Proof.
  intros l x Ha. unfold binary_search.
  destruct (length l =? 0)%nat eqn:E.
  - apply Nat.eqb_eq in E. destruct l; [|discriminate]. split; [intros []|discriminate].
  - apply Nat.eqb_neq in E.
    destruct (bs_loop_spec (length l) l x 0 (length l) Ha ltac:(lia) ltac:(lia) ltac:(lia)) as (B1 & B2).
    { intros; lia. }
    set (b := bs_loop (length l) l x 0 (length l)) in *.
    split.
    + intros Hin. apply (In_nth _ _ 0) in Hin. destruct Hin as (k & K1 & K2).
      pose proof (B2 k K1 K2) as ->. exists b. rewrite K2, Z.eqb_refl. auto.
    + intros i. destruct (nth b l 0 =? x) eqn:Q; [|discriminate].
      intros [= <-]. apply Z.eqb_eq in Q. auto.
Qed.

(** Not so on a vector in launch order: the witness of the design note. *)
Lemma binary_search_unsorted : binary_search [9; 3] 9 = inr 2%nat /\ In 9 [9; 3].
Proof. split; [reflexivity | simpl; auto]. Qed.

(** * B. job ids: strictly increasing keys from 1, smallest unused id for a new job *)
Fixpoint sorted_from (i : Z) (t : table) : Prop :=
  match t with
  | [] => True
  | j :: r => i <= jid j /\ sorted_from (jid j + 1) r
  end.

Lemma sorted_from_weaken : forall t i i', i' <= i -> sorted_from i t -> sorted_from i' t.
Proof. destruct t; simpl; intros; [auto|]. destruct H0; split; [lia|auto]. Qed.

Lemma sorted_from_lb : forall t i j, sorted_from i t -> In j t -> i <= jid j.
Proof.
  induction t as [|a t IH]; simpl; intros i j H Hin; [tauto|].
  destruct H as (H1 & H2). destruct Hin as [<-|Hin]; [lia|].
  specialize (IH _ _ H2 Hin). lia.
Qed.

Lemma sorted_from_nodup : forall t i, sorted_from i t -> NoDup (map jid t).
Proof.
  induction t as [|a t IH]; simpl; intros i H; [constructor|].
  destruct H as (H1 & H2). constructor; [|eauto].
  intros Hin. apply in_map_iff in Hin. destruct Hin as (j & E & Hj).
  pose proof (sorted_from_lb _ _ _ H2 Hj). lia.
Qed.

Lemma insert_job_from_sorted : forall t i gid pid bg,
  sorted_from i t -> sorted_from i (insert_job_from i t gid pid bg).
Proof.
  induction t as [|a t IH]; intros i gid pid bg H; simpl.
  - split; [lia|exact I].
  - simpl in H. destruct H as (H1 & H2).
    destruct (jid a =? i) eqn:E1.
    + apply Z.eqb_eq in E1. destruct (jgid a =? gid).
      * simpl. split; [lia|exact H2].
      * simpl. split; [lia|]. rewrite E1. apply IH. rewrite <- E1. exact H2.
    + destruct (i <? jid a) eqn:E2.
      * apply Z.ltb_lt in E2. simpl. split; [lia|]. split; [lia|exact H2].
      * apply Z.ltb_ge in E2. apply Z.eqb_neq in E1. lia.
Qed.

(** a job with a fresh group id is put at the smallest id not in use *)
Lemma insert_job_from_fresh : forall t i gid pid bg,
  sorted_from i t -> (forall j, In j t -> jgid j <> gid) ->
  exists k t1 t2, t = t1 ++ t2 /\
    insert_job_from i t gid pid bg = t1 ++ new_job k gid pid bg :: t2 /\
    i <= k /\ (forall m, i <= m < k -> In m (map jid t1)) /\
    (forall j, In j t1 -> jid j < k) /\ (forall j, In j t2 -> k < jid j).
Proof.
  induction t as [|a t IH]; intros i gid pid bg H Hg; simpl.
  - exists i, [], []. simpl. repeat split; try lia; try tauto.
  - simpl in H. destruct H as (H1 & H2).
    destruct (jid a =? i) eqn:E1.
    + apply Z.eqb_eq in E1.
      destruct (jgid a =? gid) eqn:E3.
      { apply Z.eqb_eq in E3. exfalso. apply (Hg a); simpl; auto. }
      destruct (IH (i + 1) gid pid bg) as (k & t1 & t2 & A & B & Cc & D & E & F).
      { rewrite <- E1. exact H2. } { intros j Hj. apply Hg. simpl; auto. }
      exists k, (a :: t1), t2. simpl. rewrite B, A. repeat split; try lia; auto.
      * intros m Hm. destruct (Z.eq_dec m i) as [->|N]; [left; exact E1|]. right. apply D. lia.
      * intros j [<-|Hj]; [lia|auto].
    + destruct (i <? jid a) eqn:E2.
      * apply Z.ltb_lt in E2. exists i, [], (a :: t). simpl. repeat split; try lia; try tauto.
        intros j [<-|Hj]; [lia|]. pose proof (sorted_from_lb _ _ _ H2 Hj). lia.
      * apply Z.ltb_ge in E2. apply Z.eqb_neq in E1. lia.
Qed.

Lemma upd_gid_sorted : forall f gid t i, (forall j, jid (f j) = jid j) ->
  sorted_from i t -> sorted_from i (upd_gid f gid t).
Proof.
  induction t as [|a t IH]; simpl; intros i Hf H; [exact I|].
  destruct H as (H1 & H2). destruct (jgid a =? gid); simpl.
  - rewrite Hf. auto.
  - split; [exact H1|]. apply IH; auto.
Qed.

Lemma remove_pid_sorted : forall t gid pid i,
  sorted_from i t -> sorted_from i (remove_pid_from_job t gid pid).
Proof.
  induction t as [|a t IH]; simpl; intros gid pid i H; [exact I|].
  destruct H as (H1 & H2). destruct (jgid a =? gid).
  - destruct (match binary_search (jpids a) pid with inl i0 => remove_at i0 (jpids a) | inr _ => jpids a end).
    + eapply sorted_from_weaken; [|exact H2]. lia.
    + simpl. auto.
  - simpl. split; [exact H1|]. apply IH; exact H2.
Qed.

Lemma mark_stopped_sorted : forall t pid gid i,
  sorted_from i t -> sorted_from i (mark_job_member_stopped t pid gid).
Proof.
  intros. unfold mark_job_member_stopped, sh_mark_job_member_stopped.
  match goal with |- context [get_job_by_gid ?T ?G] => destruct (get_job_by_gid T G) as [j|] end.
  - destruct (all_members_stopped j); [unfold sh_mark_job_as_stopped|];
      repeat (apply upd_gid_sorted; [intros; reflexivity|]); assumption.
  - apply upd_gid_sorted; [intros; reflexivity|assumption].
Qed.

Lemma mark_continued_sorted : forall t pid gid i,
  sorted_from i t -> sorted_from i (mark_job_member_continued t pid gid).
Proof.
  intros. unfold mark_job_member_continued, sh_mark_job_member_continued.
  match goal with |- context [get_job_by_gid ?T ?G] => destruct (get_job_by_gid T G) as [j|] end.
  - destruct (all_members_running j); [unfold sh_mark_job_as_running|];
      repeat (apply upd_gid_sorted; [intros; reflexivity|]); assumption.
  - apply upd_gid_sorted; [intros; reflexivity|assumption].
Qed.

Lemma wait_loop_sorted : forall q s gid pids lastp n c st,
  sorted_from 1 (tab s) -> sorted_from 1 (tab (w_sh (wait_loop q s gid pids lastp n c st))).
Proof.
  induction q as [|e q IH]; intros s gid pids lastp n c st H; [exact H|].
  cbn [wait_loop].
  destruct e as [p v|p v|p v|p]; cbn [ev_pid is_cont];
    destruct (memZ p pids); cbn [andb negb];
    try (match goal with |- context [(n <=? ?C)%nat] => destruct (n <=? C)%nat end);
    try apply IH; cbn [tab w_sh]; unfold mark_job_as_done;
    try apply remove_pid_sorted; try apply mark_stopped_sorted; exact H.
Qed.

Lemma poll_pid_sorted : forall gid s pid,
  sorted_from 1 (tab s) -> sorted_from 1 (tab (poll_pid gid s pid)).
Proof.
  intros gid s pid H. unfold poll_pid.
  destruct (map_get pid (m_reap (mp s))); [cbn [tab]; apply remove_pid_sorted; exact H|].
  destruct (map_get pid (m_kill (mp s))); [cbn [tab]; apply remove_pid_sorted; exact H|].
  destruct (memZ pid (m_stop (mp s))); [cbn [tab]; apply mark_stopped_sorted; exact H|].
  destruct (memZ pid (m_cont (mp s))); [cbn [tab]; apply mark_continued_sorted; exact H|exact H].
Qed.

Lemma fold_inv : forall (A B : Type) (P : A -> Prop) (f : A -> B -> A) l a,
  (forall a b, P a -> P (f a b)) -> P a -> P (fold_left f l a).
Proof. induction l; simpl; intros; auto. Qed.

Lemma step_sorted : forall r o, sorted_from 1 (tab (r_sh r)) -> sorted_from 1 (tab (r_sh (step r o))).
Proof.
  intros r o H. destruct o as [gid pids bg|gid pids evs|evs]; cbn [step].
  - cbn [r_sh tab]. unfold launch.
    apply (fold_inv _ _ (sorted_from 1)); [|exact H].
    intros; apply insert_job_from_sorted; assumption.
  - cbn [r_sh]. unfold wait_fg_job. destruct pids; [exact H|]. apply wait_loop_sorted; exact H.
  - unfold try_wait_bg_jobs. destruct (tab (r_sh r)) eqn:E; cbn [r_sh]; [rewrite E; exact I|].
    apply (fold_inv _ _ (fun s => sorted_from 1 (tab s))).
    + intros a b Ha. unfold poll_job.
      apply (fold_inv _ _ (fun s => sorted_from 1 (tab s))); [|exact Ha].
      intros; apply poll_pid_sorted; assumption.
    + cbn [tab]. exact H.
Qed.

(** every history, valid or not: ids stay unique and ordered *)
Theorem run_sorted : forall h, sorted_from 1 (tab (r_sh (run h))).
Proof.
  intros h. unfold run.
  apply (fold_inv _ _ (fun r => sorted_from 1 (tab (r_sh r)))); [apply step_sorted|exact I].
Qed.

Definition least_unused (k : Z) (t : table) : Prop :=
  1 <= k /\ ~ In k (map jid t) /\ forall m, 1 <= m < k -> In m (map jid t).

Theorem ids_unique_and_least : forall h,
  NoDup (map jid (tab (r_sh (run h)))) /\
  forall gid pid bg, (forall j, In j (tab (r_sh (run h))) -> jgid j <> gid) ->
    exists k, least_unused k (tab (r_sh (run h))) /\
      In (new_job k gid pid bg) (insert_job (tab (r_sh (run h))) gid pid bg) /\
      forall j, In j (tab (r_sh (run h))) -> In j (insert_job (tab (r_sh (run h))) gid pid bg).
Proof.
  intros h. pose proof (run_sorted h) as S. set (t := tab (r_sh (run h))) in *.
  split; [eapply sorted_from_nodup; exact S|].
  intros gid pid bg Hg.
  destruct (insert_job_from_fresh t 1 gid pid bg S Hg) as (k & t1 & t2 & A & B & Cc & D & E & F).
  exists k. unfold insert_job, least_unused. rewrite B. split; [|split].
  - split; [exact Cc|]. split.
    + rewrite A, map_app, in_app_iff. intros [Hin|Hin]; apply in_map_iff in Hin;
        destruct Hin as (j & Ej & Hj); [specialize (E j Hj)|specialize (F j Hj)]; lia.
    + intros m Hm. rewrite A, map_app, in_app_iff. left. apply D. exact Hm.
  - apply in_app_iff. right. left. reflexivity.
  - intros j Hj. rewrite A in Hj. apply in_app_iff in Hj. apply in_app_iff.
    destruct Hj; [left|right; right]; assumption.
Qed.

(** * C. remove_pid_from_job on an ascending pid vector takes out exactly the member *)
From Coq Require Import Sorting.Sorted.

Lemma ssorted_asc : forall l, StronglySorted Z.lt l -> asc l.
Proof.
  induction l as [|a l IH]; intros H; unfold asc; intros i j Hij Hj; simpl in Hj; [lia|].
  apply StronglySorted_inv in H. destruct H as (H1 & H2).
  destruct j as [|j]; [lia|]. destruct i as [|i]; simpl.
  - rewrite Forall_forall in H2. apply H2. apply nth_In. lia.
  - apply IH; auto; lia.
Qed.

Lemma remove_at_split : forall l i, (i < length l)%nat ->
  exists l1 l2, l = l1 ++ nth i l 0 :: l2 /\ remove_at i l = l1 ++ l2.
Proof.
  induction l as [|a l IH]; intros i H; simpl in H; [lia|].
  destruct i as [|i]; simpl.
  - exists [], l. auto.
  - destruct (IH i ltac:(lia)) as (l1 & l2 & A & B). exists (a :: l1), l2. simpl. rewrite <- A, B. auto.
Qed.

Lemma ssorted_remove : forall l1 x l2, StronglySorted Z.lt (l1 ++ x :: l2) ->
  StronglySorted Z.lt (l1 ++ l2) /\ ~ In x (l1 ++ l2).
Proof.
  induction l1 as [|a l1 IH]; simpl; intros x l2 H; apply StronglySorted_inv in H; destruct H as (H1 & H2).
  - split; [exact H1|]. rewrite Forall_forall in H2. intros Hin. specialize (H2 _ Hin). lia.
  - destruct (IH _ _ H1) as (A & B). split.
    + constructor; [exact A|]. rewrite Forall_forall in *. intros y Hy. apply H2.
      apply in_app_iff in Hy. apply in_app_iff. simpl. tauto.
    + intros [->|Hin]; [|tauto]. rewrite Forall_forall in H2.
      specialize (H2 x ltac:(apply in_app_iff; simpl; auto)). lia.
Qed.

(** what removing a pid is meant to do (and what the proposed repair with
    [iter().position] does): drop that pid from the first job of the group,
    drop the job when no pid is left *)
Definition drop_pid (pid : Z) (l : list Z) : list Z := filter (fun p => negb (p =? pid)) l.

Fixpoint remove_spec (t : table) (gid pid : Z) : table :=
  match t with
  | [] => []
  | j :: r =>
      if jgid j =? gid then
        match drop_pid pid (jpids j) with
        | [] => r
        | ps => mkjob (jid j) (jgid j) ps (jstopped j) (jst j) (jbg j) :: r
        end
      else j :: remove_spec r gid pid
  end.

Lemma drop_pid_notin : forall x l, ~ In x l -> drop_pid x l = l.
Proof.
  induction l as [|a l IH]; simpl; intros H; [reflexivity|].
  destruct (a =? x) eqn:E; simpl.
  - apply Z.eqb_eq in E. tauto.
  - rewrite IH; tauto.
Qed.

Lemma drop_pid_mid : forall x l1 l2, ~ In x (l1 ++ l2) -> drop_pid x (l1 ++ x :: l2) = l1 ++ l2.
Proof.
  intros x l1 l2 H. unfold drop_pid. rewrite filter_app. simpl. rewrite Z.eqb_refl. simpl.
  rewrite in_app_iff in H.
  fold (drop_pid x l1). fold (drop_pid x l2). rewrite !drop_pid_notin; tauto.
Qed.

Definition pids_asc (t : table) : Prop := forall j, In j t -> StronglySorted Z.lt (jpids j).

Theorem remove_pid_exact : forall t gid pid, pids_asc t ->
  remove_pid_from_job t gid pid = remove_spec t gid pid.
Proof.
  induction t as [|a t IH]; simpl; intros gid pid Hs; [reflexivity|].
  destruct (jgid a =? gid) eqn:E.
  - assert (Sa : StronglySorted Z.lt (jpids a)) by (apply Hs; simpl; auto).
    pose proof (binary_search_asc (jpids a) pid (ssorted_asc _ Sa)) as (F1 & F2).
    destruct (binary_search (jpids a) pid) as [i|i] eqn:B.
    + destruct (F2 i eq_refl) as (B2 & B3).
      destruct (remove_at_split (jpids a) i B2) as (l1 & l2 & A & R).
      rewrite B3 in A. rewrite R. rewrite A in Sa. destruct (ssorted_remove _ _ _ Sa) as (S1 & S2).
      rewrite A. rewrite drop_pid_mid by exact S2. destruct (l1 ++ l2); reflexivity.
    + assert (N : ~ In pid (jpids a)).
      { intros Hin. destruct (F1 Hin) as (k & K & _). discriminate. }
      rewrite drop_pid_notin by exact N. destruct (jpids a); reflexivity.
  - f_equal. apply IH. intros j Hj. apply Hs. simpl; auto.
Qed.

(** ascending pid vectors stay ascending *)
Lemma drop_pid_sorted : forall x l, StronglySorted Z.lt l -> StronglySorted Z.lt (drop_pid x l).
Proof.
  induction l as [|a l IH]; simpl; intros H; [constructor|].
  apply StronglySorted_inv in H. destruct H as (H1 & H2).
  destruct (negb (a =? x)); [|auto]. constructor; [auto|].
  rewrite Forall_forall in *. intros y Hy. apply H2. unfold drop_pid in Hy. apply filter_In in Hy. tauto.
Qed.

(** * D. no status of another process is lost by a foreground wait *)
Lemma mark_stopped_gid0 : forall t pid, (forall j, In j t -> jgid j <> 0) -> mark_job_member_stopped t pid 0 = t.
Proof.
  intros t pid H. unfold mark_job_member_stopped, sh_mark_job_member_stopped.
  assert (U : forall f, upd_gid f 0 t = t).
  { intros f. induction t as [|a t IH]; simpl; [reflexivity|].
    destruct (jgid a =? 0) eqn:E; [apply Z.eqb_eq in E; exfalso; apply (H a); simpl; auto|].
    f_equal. apply IH. intros j Hj. apply H. simpl; auto. }
  rewrite U.
  assert (G : get_job_by_gid t 0 = None).
  { induction t as [|a t IH]; simpl; [reflexivity|].
    destruct (jgid a =? 0) eqn:E; [apply Z.eqb_eq in E; exfalso; apply (H a); simpl; auto|].
    apply IH. intros j Hj. apply H. simpl; auto. intros f. specialize (U f). simpl in U. rewrite E in U.
    injection U; auto. }
  rewrite G. reflexivity.
Qed.

(** statuses of processes that are not members of the waited job are all
    parked, in order, and the wait keeps blocking *)
Theorem wait_parks_others : forall q s gid pids lastp n c st,
  (forall j, In j (tab s) -> jgid j <> 0) -> (c < n)%nat ->
  (forall e, In e q -> memZ (ev_pid e) pids = false) ->
  wait_loop q s gid pids lastp n c st = mkwres (mksh (tab s) (handle_sigchld (mp s) q)) st true [].
Proof.
  induction q as [|e q IH]; intros s gid pids lastp n c st Hg Hc Hq.
  - destruct s; reflexivity.
  - cbn [wait_loop]. rewrite (Hq e (or_introl eq_refl)). cbn [andb].
    assert (Hq' : forall e0, In e0 q -> memZ (ev_pid e0) pids = false) by (intros; apply Hq; simpl; auto).
    assert (Hn : (n <=? c)%nat = false) by (apply Nat.leb_gt; exact Hc).
    unfold handle_sigchld in *. cbn [fold_left].
    destruct e as [p v|p v|p v|p]; cbn [ev_pid]; rewrite ?Hn; try rewrite mark_stopped_gid0 by exact Hg;
      rewrite IH by assumption; reflexivity.
Qed.

(** the decidable form of the hypothesis *)
Lemma ascb_ssorted : forall l, ascb l = true -> StronglySorted Z.lt l.
Proof.
  induction l as [|a l IH]; intros E; [constructor|].
  simpl in E. destruct l as [|b l]; [repeat constructor|].
  apply andb_prop in E. destruct E as (E1 & E2). apply Z.ltb_lt in E1.
  specialize (IH E2). constructor; [exact IH|].
  apply StronglySorted_inv in IH. destruct IH as (_ & F).
  constructor; [exact E1|]. rewrite Forall_forall in *. intros y Hy. specialize (F y Hy). lia.
Qed.

Definition known_table (t : table) : bool := negb (forallb (fun j => ascb (jpids j)) t).

Theorem remove_pid_exact_b : forall t gid pid, known_table t = false ->
  remove_pid_from_job t gid pid = remove_spec t gid pid.
Proof.
  intros t gid pid H. apply remove_pid_exact. intros j Hj.
  unfold known_table in H. apply negb_false_iff in H. rewrite forallb_forall in H.
  apply ascb_ssorted, H, Hj.
Qed.

(** the tables a history reaches have ascending pid vectors unless the history is in class (a) *)
Lemma drop_sub_asc : forall l i, StronglySorted Z.lt l -> StronglySorted Z.lt (remove_at i l).
Proof.
  intros l i H. destruct (Nat.lt_ge_cases i (length l)) as [L|L].
  - destruct (remove_at_split l i L) as (l1 & l2 & A & B). rewrite B. rewrite A in H.
    apply (ssorted_remove _ _ _ H).
  - assert (E : remove_at i l = l).
    { clear H. revert i L. induction l as [|a l IH]; intros i L; destruct i; simpl in *; try reflexivity; try lia.
      f_equal. apply IH. lia. }
    rewrite E. exact H.
Qed.
