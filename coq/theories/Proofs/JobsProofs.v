(** Proofs about the job-table model (Model/Jobs.v). *)
From Coq Require Import ZArith List Bool Arith Lia.
From Cicada Require Import Model.Jobs Proofs.JobsSpec.
Import ListNotations.
Local Open Scope Z_scope.

(** * B. job ids: strictly increasing keys from 1, smallest unused id for a new job *)
Fixpoint sorted_from (i : Z) (t : table) : Prop :=
  match t with
  | [] => True
  | j :: r => i <= jid j /\ sorted_from (jid j + 1) r
  end.

Lemma sorted_from_weaken : forall t i i', i' <= i -> sorted_from i t -> sorted_from i' t.
Proof. destruct t; simpl; intros; [auto|]. destruct H0; split; [lia|auto]. Qed.

Lemma sorted_from_lb : forall t i j, sorted_from i t -> In j t -> i <= jid j.
Proof.
  induction t as [|a t IH]; simpl; intros i j H Hin; [tauto|].
  destruct H as (H1 & H2). destruct Hin as [<-|Hin]; [lia|].
  specialize (IH _ _ H2 Hin). lia.
Qed.

Lemma sorted_from_nodup : forall t i, sorted_from i t -> NoDup (map jid t).
Proof.
  induction t as [|a t IH]; simpl; intros i H; [constructor|].
  destruct H as (H1 & H2). constructor; [|eauto].
  intros Hin. apply in_map_iff in Hin. destruct Hin as (j & E & Hj).
  pose proof (sorted_from_lb _ _ _ H2 Hj). lia.
Qed.

Lemma insert_job_from_sorted : forall t i gid pid bg,
  sorted_from i t -> sorted_from i (insert_job_from i t gid pid bg).
Proof.
  induction t as [|a t IH]; intros i gid pid bg H; simpl.
  - split; [lia|exact I].
  - simpl in H. destruct H as (H1 & H2).
    destruct (jid a =? i) eqn:E1.
    + apply Z.eqb_eq in E1. destruct (jgid a =? gid).
      * simpl. split; [lia|exact H2].
      * simpl. split; [lia|]. rewrite E1. apply IH. rewrite <- E1. exact H2.
    + destruct (i <? jid a) eqn:E2.
      * apply Z.ltb_lt in E2. simpl. split; [lia|]. split; [lia|exact H2].
      * apply Z.ltb_ge in E2. apply Z.eqb_neq in E1. lia.
Qed.

(** [t1] holds exactly the ids i, i+1, .., k-1 in order *)
Fixpoint consec (i : Z) (t1 : table) (k : Z) : Prop :=
  match t1 with [] => i = k | a :: r => jid a = i /\ consec (i + 1) r k end.

(** a job with a fresh group id is put at the smallest id not in use *)
Lemma insert_job_from_fresh : forall t i gid pid bg,
  sorted_from i t -> (forall j, In j t -> jgid j <> gid) ->
  exists k t1 t2, t = t1 ++ t2 /\
    insert_job_from i t gid pid bg = t1 ++ new_job k gid pid bg :: t2 /\
    i <= k /\ (forall m, i <= m < k -> In m (map jid t1)) /\
    (forall j, In j t1 -> jid j < k) /\ (forall j, In j t2 -> k < jid j) /\ consec i t1 k.
Proof.
  induction t as [|a t IH]; intros i gid pid bg H Hg; simpl.
  - exists i, [], []. simpl. repeat split; try lia; try tauto.
  - simpl in H. destruct H as (H1 & H2).
    destruct (jid a =? i) eqn:E1.
    + apply Z.eqb_eq in E1.
      destruct (jgid a =? gid) eqn:E3.
      { apply Z.eqb_eq in E3. exfalso. apply (Hg a); simpl; auto. }
      destruct (IH (i + 1) gid pid bg) as (k & t1 & t2 & A & B & Cc & D & E & F & G).
      { rewrite <- E1. exact H2. } { intros j Hj. apply Hg. simpl; auto. }
      exists k, (a :: t1), t2. simpl. rewrite B, A. repeat split; try lia; auto.
      * intros m Hm. destruct (Z.eq_dec m i) as [->|N]; [left; exact E1|]. right. apply D. lia.
      * intros j [<-|Hj]; [lia|auto].
    + destruct (i <? jid a) eqn:E2.
      * apply Z.ltb_lt in E2. exists i, [], (a :: t). simpl. repeat split; try lia; try tauto.
        intros j [<-|Hj]; [lia|]. pose proof (sorted_from_lb _ _ _ H2 Hj). lia.
      * apply Z.ltb_ge in E2. apply Z.eqb_neq in E1. lia.
Qed.

Lemma insert_job_from_existing : forall t1 i k J t2 g p bg,
  consec i t1 k -> (forall x, In x t1 -> jgid x <> g) -> jid J = k -> jgid J = g ->
  insert_job_from i (t1 ++ J :: t2) g p bg =
  t1 ++ mkjob (jid J) (jgid J) (jpids J ++ [p]) (jstopped J) (jst J) (jbg J) :: t2.
Proof.
  induction t1 as [|a t1 IH]; simpl; intros i k J t2 g p bg Hc Hg Hk HJ.
  - subst i. rewrite Hk, Z.eqb_refl. rewrite HJ, Z.eqb_refl. reflexivity.
  - destruct Hc as (Ha & Hc). rewrite Ha, Z.eqb_refl.
    destruct (jgid a =? g) eqn:E; [apply Z.eqb_eq in E; exfalso; apply (Hg a); auto|].
    f_equal. eapply IH; eauto.
Qed.

(** launching a job with a fresh group id adds exactly one job, at the smallest unused id, with the pids in order *)
Lemma launch_decomp : forall t g p0 P bg,
  sorted_from 1 t -> (forall j, In j t -> jgid j <> g) ->
  exists k t1 t2, t = t1 ++ t2 /\ launch t g (p0 :: P) bg = t1 ++ mkjob k g (p0 :: P) [] Running bg :: t2.
Proof.
  intros t g p0 P bg Hs Hg. unfold launch. simpl. unfold insert_job at 2.
  destruct (insert_job_from_fresh t 1 g p0 bg Hs Hg) as (k & t1 & t2 & A & B & _ & _ & E & _ & G).
  exists k, t1, t2. split; [exact A|]. rewrite B. unfold new_job.
  assert (Hg1 : forall x, In x t1 -> jgid x <> g).
  { intros x Hx. apply Hg. rewrite A. apply in_app_iff; auto. }
  clear A B Hs Hg E. change (p0 :: P) with ([p0] ++ P). generalize [p0] as cur. induction P as [|p P IH]; intros cur; simpl.
  - rewrite app_nil_r. reflexivity.
  - unfold insert_job at 2.
    rewrite (insert_job_from_existing t1 1 k (mkjob k g cur [] Running bg) t2 g p bg G Hg1 eq_refl eq_refl).
    simpl. rewrite IH. rewrite <- app_assoc. reflexivity.
Qed.

Lemma upd_gid_sorted : forall f gid t i, (forall j, jid (f j) = jid j) ->
  sorted_from i t -> sorted_from i (upd_gid f gid t).
Proof.
  induction t as [|a t IH]; simpl; intros i Hf H; [exact I|].
  destruct H as (H1 & H2). destruct (jgid a =? gid); simpl.
  - rewrite Hf. auto.
  - split; [exact H1|]. apply IH; auto.
Qed.

Lemma remove_pid_sorted : forall t gid pid i,
  sorted_from i t -> sorted_from i (remove_pid_from_job t gid pid).
Proof.
  induction t as [|a t IH]; simpl; intros gid pid i H; [exact I|].
  destruct H as (H1 & H2). destruct (jgid a =? gid).
  - destruct (match position (jpids a) pid with Some i0 => remove_at i0 (jpids a) | None => jpids a end).
    + eapply sorted_from_weaken; [|exact H2]. lia.
    + simpl. auto.
  - simpl. split; [exact H1|]. apply IH; exact H2.
Qed.

Lemma mark_stopped_sorted : forall t pid gid i,
  sorted_from i t -> sorted_from i (mark_job_member_stopped t pid gid).
Proof.
  intros. unfold mark_job_member_stopped, sh_mark_job_member_stopped.
  match goal with |- context [get_job_by_gid ?T ?G] => destruct (get_job_by_gid T G) as [j|] end.
  - destruct (all_members_stopped j); [unfold sh_mark_job_as_stopped|];
      repeat (apply upd_gid_sorted; [intros; reflexivity|]); assumption.
  - apply upd_gid_sorted; [intros; reflexivity|assumption].
Qed.

Lemma mark_continued_sorted : forall t pid gid i,
  sorted_from i t -> sorted_from i (mark_job_member_continued t pid gid).
Proof.
  intros. unfold mark_job_member_continued, sh_mark_job_member_continued.
  match goal with |- context [get_job_by_gid ?T ?G] => destruct (get_job_by_gid T G) as [j|] end.
  - destruct (all_members_running j); [unfold sh_mark_job_as_running|];
      repeat (apply upd_gid_sorted; [intros; reflexivity|]); assumption.
  - apply upd_gid_sorted; [intros; reflexivity|assumption].
Qed.

Lemma mark_done_sorted : forall t gid pid i,
  sorted_from i t -> sorted_from i (mark_job_as_done t gid pid).
Proof.
  intros t gid pid i H. unfold mark_job_as_done.
  pose proof (remove_pid_sorted t gid pid i H) as R.
  destruct (remove_drops t gid pid); [exact R|].
  destruct (get_job_by_gid (remove_pid_from_job t gid pid) gid) as [j|]; [|exact R].
  destruct (negb (is_stopped (jst j)) && all_members_stopped j); [|exact R].
  unfold sh_mark_job_as_stopped. apply upd_gid_sorted; [intros; reflexivity|exact R].
Qed.

Lemma sh_continued_sorted : forall t pid gid i,
  sorted_from i t -> sorted_from i (fst (sh_mark_job_member_continued t pid gid)).
Proof. intros. unfold sh_mark_job_member_continued. simpl. apply upd_gid_sorted; [intros; reflexivity|assumption]. Qed.

Lemma wait_loop_sorted : forall q s gid pids lastp n c st,
  sorted_from 1 (tab s) -> sorted_from 1 (tab (w_sh (wait_loop q s gid pids lastp n c st))).
Proof.
  induction q as [|e q IH]; intros s gid pids lastp n c st H; [exact H|].
  cbn [wait_loop].
  destruct e as [p v|p v|p v|p]; cbn [ev_pid is_cont];
    destruct (memZ p pids); cbn [andb negb];
    try (match goal with |- context [(n <=? ?C)%nat] => destruct (n <=? C)%nat end);
    try apply IH; cbn [tab w_sh];
    try apply mark_done_sorted; try apply mark_stopped_sorted; try apply sh_continued_sorted; exact H.
Qed.

Lemma poll_pid_sorted : forall gid s pid,
  sorted_from 1 (tab s) -> sorted_from 1 (tab (poll_pid gid s pid)).
Proof.
  intros gid s pid H. unfold poll_pid.
  destruct (map_get pid (m_reap (mp s))); [cbn [tab]; apply mark_done_sorted; exact H|].
  destruct (map_get pid (m_kill (mp s))); [cbn [tab]; apply mark_done_sorted; exact H|].
  destruct (memZ pid (m_stop (mp s))); [cbn [tab]; apply mark_stopped_sorted; exact H|].
  destruct (memZ pid (m_cont (mp s))); [cbn [tab]; apply mark_continued_sorted; exact H|exact H].
Qed.

Lemma fold_inv : forall (A B : Type) (P : A -> Prop) (f : A -> B -> A) l a,
  (forall a b, P a -> P (f a b)) -> P a -> P (fold_left f l a).
Proof. induction l; simpl; intros; auto. Qed.

Lemma step_sorted : forall r o, sorted_from 1 (tab (r_sh r)) -> sorted_from 1 (tab (r_sh (step r o))).
Proof.
  intros r o H. destruct o as [gid pids bg|gid pids evs|evs]; cbn [step].
  - cbn [r_sh tab]. unfold launch.
    apply (fold_inv _ _ (sorted_from 1)); [|exact H].
    intros; apply insert_job_from_sorted; assumption.
  - cbn [r_sh]. unfold wait_fg_job. destruct pids; [exact H|]. apply wait_loop_sorted; exact H.
  - unfold try_wait_bg_jobs. destruct (tab (r_sh r)) eqn:E; cbn [r_sh]; [rewrite E; exact I|].
    apply (fold_inv _ _ (fun s => sorted_from 1 (tab s))).
    + intros a b Ha. unfold poll_job.
      apply (fold_inv _ _ (fun s => sorted_from 1 (tab s))); [|exact Ha].
      intros; apply poll_pid_sorted; assumption.
    + cbn [tab]. exact H.
Qed.

(** every history, valid or not: ids stay unique and ordered *)
Theorem run_sorted : forall h, sorted_from 1 (tab (r_sh (run h))).
Proof.
  intros h. unfold run.
  apply (fold_inv _ _ (fun r => sorted_from 1 (tab (r_sh r)))); [apply step_sorted|exact I].
Qed.

Definition least_unused (k : Z) (t : table) : Prop :=
  1 <= k /\ ~ In k (map jid t) /\ forall m, 1 <= m < k -> In m (map jid t).

Theorem ids_unique_and_least : forall h,
  NoDup (map jid (tab (r_sh (run h)))) /\
  forall gid pid bg, (forall j, In j (tab (r_sh (run h))) -> jgid j <> gid) ->
    exists k, least_unused k (tab (r_sh (run h))) /\
      In (new_job k gid pid bg) (insert_job (tab (r_sh (run h))) gid pid bg) /\
      forall j, In j (tab (r_sh (run h))) -> In j (insert_job (tab (r_sh (run h))) gid pid bg).
Proof.
  intros h. pose proof (run_sorted h) as S. set (t := tab (r_sh (run h))) in *.
  split; [eapply sorted_from_nodup; exact S|].
  intros gid pid bg Hg.
  destruct (insert_job_from_fresh t 1 gid pid bg S Hg) as (k & t1 & t2 & A & B & Cc & D & E & F & _).
  exists k. unfold insert_job, least_unused. rewrite B. split; [|split].
  - split; [exact Cc|]. split.
    + rewrite A, map_app, in_app_iff. intros [Hin|Hin]; apply in_map_iff in Hin;
        destruct Hin as (j & Ej & Hj); [specialize (E j Hj)|specialize (F j Hj)]; lia.
    + intros m Hm. rewrite A, map_app, in_app_iff. left. apply D. exact Hm.
  - apply in_app_iff. right. left. reflexivity.
  - intros j Hj. rewrite A in Hj. apply in_app_iff in Hj. apply in_app_iff.
    destruct Hj; [left|right; right]; assumption.
Qed.

(** * D. no status of another process is lost by a foreground wait *)
Lemma mark_stopped_gid0 : forall t pid, (forall j, In j t -> jgid j <> 0) -> mark_job_member_stopped t pid 0 = t.
Proof.
  intros t pid H. unfold mark_job_member_stopped, sh_mark_job_member_stopped.
  assert (U : forall f, upd_gid f 0 t = t).
  { intros f. induction t as [|a t IH]; simpl; [reflexivity|].
    destruct (jgid a =? 0) eqn:E; [apply Z.eqb_eq in E; exfalso; apply (H a); simpl; auto|].
    f_equal. apply IH. intros j Hj. apply H. simpl; auto. }
  rewrite U.
  assert (G : get_job_by_gid t 0 = None).
  { induction t as [|a t IH]; simpl; [reflexivity|].
    destruct (jgid a =? 0) eqn:E; [apply Z.eqb_eq in E; exfalso; apply (H a); simpl; auto|].
    apply IH. intros j Hj. apply H. simpl; auto. intros f. specialize (U f). simpl in U. rewrite E in U.
    injection U; auto. }
  rewrite G. reflexivity.
Qed.

(** * C. remove_pid_from_job takes out exactly the first occurrence of the pid, for every pid vector *)
Lemma position_from_spec : forall x l i,
  match position_from i l x with
  | Some k => (i <= k)%nat /\ remove_at (k - i) l = set_remove x l /\ In x l
  | None => set_remove x l = l /\ ~ In x l
  end.
Proof.
  induction l as [|a l IH]; intros i; simpl; [auto|].
  destruct (a =? x) eqn:E.
  - apply Z.eqb_eq in E. replace (i - i)%nat with 0%nat by lia. simpl. auto.
  - apply Z.eqb_neq in E. specialize (IH (S i)). destruct (position_from (S i) l x) as [k|].
    + destruct IH as (H1 & H2 & H3). split; [lia|]. split; [|auto].
      replace (k - i)%nat with (S (k - S i)) by lia. simpl. rewrite H2. reflexivity.
    + destruct IH as (H1 & H2). rewrite H1. split; [reflexivity|]. intros [H|H]; [congruence|tauto].
Qed.

Lemma remove_position : forall l x,
  match position l x with Some i => remove_at i l | None => l end = set_remove x l.
Proof.
  intros l x. unfold position. pose proof (position_from_spec x l 0) as H.
  destruct (position_from 0 l x) as [k|].
  - destruct H as (_ & H & _). rewrite Nat.sub_0_r in H. exact H.
  - destruct H as (H & _). auto.
Qed.

(** what removing a pid is meant to do: drop its first occurrence from the
    first job of the group, drop the job when no pid is left *)
Fixpoint remove_spec (t : table) (gid pid : Z) : table :=
  match t with
  | [] => []
  | j :: r =>
      if jgid j =? gid then
        match set_remove pid (jpids j) with
        | [] => r
        | ps => mkjob (jid j) (jgid j) ps (jstopped j) (jst j) (jbg j) :: r
        end
      else j :: remove_spec r gid pid
  end.

Theorem remove_pid_exact : forall t gid pid, remove_pid_from_job t gid pid = remove_spec t gid pid.
Proof.
  induction t as [|a t IH]; simpl; intros gid pid; [reflexivity|].
  destruct (jgid a =? gid); [|f_equal; apply IH].
  rewrite remove_position. destruct (set_remove pid (jpids a)); reflexivity.
Qed.

Lemma set_remove_in : forall x y l, In y (set_remove x l) -> In y l.
Proof.
  induction l as [|a l IH]; simpl; [tauto|]. destruct (a =? x); simpl; tauto.
Qed.

Lemma set_remove_nodup : forall x l, NoDup l ->
  NoDup (set_remove x l) /\ ~ In x (set_remove x l) /\ forall y, y <> x -> In y l -> In y (set_remove x l).
Proof.
  induction l as [|a l IH]; simpl; intros H; [repeat split; auto; constructor|].
  inversion H as [|? ? Ha Hl]; subst. destruct (IH Hl) as (I1 & I2 & I3).
  destruct (a =? x) eqn:E.
  - apply Z.eqb_eq in E. subst a. repeat split; auto. intros y Hy [->|Hin]; [congruence|auto].
  - apply Z.eqb_neq in E. repeat split.
    + constructor; [|exact I1]. intros Hin. apply Ha. eapply set_remove_in; eauto.
    + intros [->|Hin]; [congruence|tauto].
    + intros y Hy [->|Hin]; simpl; auto.
Qed.
