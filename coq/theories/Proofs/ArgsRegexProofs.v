(** [Args.is_args_in_token] IS the test regex of scripting::is_args_in_token (dollar, optional brace, digits or
    at-signs, optional brace; searched anywhere), as regenerated from scripting.rs on every run. Round 9 (regexgen). *)
From Coq Require Import List NArith Bool Lia.
From Cicada Require Import Base.Chars Base.Regex Gen.ScriptArgsRegexes Model.Args Proofs.RegexCalc Proofs.RegexSearch.
Import ListNotations.
Local Open Scope N_scope.

Lemma cls_key c : in_cs false [(48, 57); (64, 64)] c = is_digit c || (c =? 64).
Proof. rewrite in_cs_pos. cbn [existsb fst snd]. rewrite leb_leb_eq, orb_false_r. reflexivity. Qed.

Definition key_first (r : str) : bool := match r with e :: _ => is_digit e || (e =? 64) | [] => false end.

Lemma keys_then_anything r :
  matchb (Cat (Cat (Cat (Chr false [(48, 57); (64, 64)]) (Star (Chr false [(48, 57); (64, 64)])))
                   (Alt (Chr false [(125, 125)]) Eps)) (Star any)) r = key_first r.
Proof.
  rewrite rc_Cat_assoc, rc_Cat_assoc, rc_Cat_Chr. destruct r as [|e t]; [reflexivity|].
  rewrite rc_opt_any_all, andb_true_r. apply cls_key.
Qed.

Lemma key_not_lbrace d : (d =? 123) = true -> is_digit d || (d =? 64) = false.
Proof. intros H. apply N.eqb_eq in H. subst. reflexivity. Qed.

Lemma args_here s :
  matchb (Cat (rx_re rx_args_in_token) (Star any)) s =
  match s with
  | c :: r => (c =? 36) &&
      match r with
      | d :: r' => if d =? 123 then key_first r' else is_digit d || (d =? 64)
      | [] => false
      end
  | [] => false
  end.
Proof.
  cbn [rx_re rx_args_in_token]. rewrite rc_Cat_assoc, rc_Cat_Chr. destruct s as [|c r]; [reflexivity|].
  rewrite in_cs_one. destruct (c =? 36); [|reflexivity]. cbn [andb].
  rewrite rc_Cat_assoc, rc_Cat_Alt, rc_Cat_Chr, rc_Cat_Eps_l, keys_then_anything.
  destruct r as [|d r']; [reflexivity|]. rewrite in_cs_one, keys_then_anything. cbn [key_first].
  destruct (d =? 123) eqn:D; cbn [andb orb]; [|reflexivity].
  rewrite (key_not_lbrace d D). apply orb_false_r.
Qed.

Theorem is_args_in_token_is_source_regex s : is_args_in_token s = rx_search rx_args_in_token s.
Proof.
  change rx_args_in_token with (mkrx false (rx_re rx_args_in_token) false).
  induction s as [|c r IH]; [reflexivity|].
  rewrite rc_search_unfold, <- IH, args_here. cbn [is_args_in_token].
  change c_dollar with 36. change c_lbrace with 123. change c_at with 64. reflexivity.
Qed.
