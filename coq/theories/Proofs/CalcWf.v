(** Well-formed pair lists (term (op term)*, nested), that the PEG model only
    produces such lists, and that the Pratt parser never hits one of its
    structural panics (nor runs out of fuel) on them. *)
From Coq Require Import Lia.
From Cicada Require Import Base.Chars Model.Calc Proofs.CalcPratt.
Local Open Scope N_scope.

Section Wf.
  Variable L : Type.
  Variable Q : L -> Prop.      (* what is required of a leaf *)

  Inductive wf_term : pair L -> Prop :=
  | WNum l : Q l -> wf_term (PNum l)
  | WExpr inner : wf_seq inner -> wf_term (PExpr inner)
  with wf_seq : list (pair L) -> Prop :=
  | WSeq t tl : wf_term t -> wf_tail tl -> wf_seq (t :: tl)
  with wf_tail : list (pair L) -> Prop :=
  | WNil : wf_tail []
  | WCons o t tl : wf_term t -> wf_tail tl -> wf_tail (POp o :: t :: tl).

  Lemma wf_tail_snoc tl o t : wf_tail tl -> wf_term t -> wf_tail (tl ++ [POp o; t]).
  Proof.
    intros H Ht. induction H as [|o' t' tl' Ht' Htl IH]; cbn.
    - constructor; [exact Ht|constructor].
    - constructor; assumption.
  Qed.

  Lemma wf_seq_snoc ps o t : wf_seq ps -> wf_term t -> wf_seq (ps ++ [POp o; t]).
  Proof. intros H Ht. destruct H as [t0 tl H0 Htl]. cbn. constructor; [exact H0|]. apply wf_tail_snoc; assumption. Qed.
End Wf.
Arguments wf_term {L} Q p.
Arguments wf_seq {L} Q ps.
Arguments wf_tail {L} Q ps.

Scheme wf_term_mut := Minimality for wf_term Sort Prop
  with wf_seq_mut := Minimality for wf_seq Sort Prop
  with wf_tail_mut := Minimality for wf_tail Sort Prop.
Combined Scheme wf_mutind from wf_term_mut, wf_seq_mut, wf_tail_mut.

(* ------------------------------------------------------------------ *)
(** * The PEG model produces well-formed lists *)

Definition anyleaf : str -> Prop := fun _ => True.

Lemma p_expr_S f s :
  p_expr (S f) s =
  pbind (p_term f s) (fun '(t, s1) =>
    let s2 := skip_ws s1 in
    match p_iter f s2 with
    | PFuel => PFuel
    | PFail => POk ([t], s2)
    | POk (o, t', s3) => p_rep f [t; POp o; t'] s3
    end).
Proof. reflexivity. Qed.
Lemma p_rep_S f acc s :
  p_rep (S f) acc s =
  match p_iter f (skip_ws s) with
  | PFuel => PFuel
  | PFail => POk (acc, s)
  | POk (o, t', s') => p_rep f (acc ++ [POp o; t']) s'
  end.
Proof. reflexivity. Qed.
Lemma p_iter_S f s :
  p_iter (S f) s =
  match p_op s with
  | None => PFail
  | Some (o, s1) => pbind (p_term f (skip_ws s1)) (fun '(t, s2) => POk (o, t, s2))
  end.
Proof. reflexivity. Qed.
Lemma p_term_S f s :
  p_term (S f) s =
  match p_num s with
  | Some (n, r) => POk (PNum n, r)
  | None =>
    match s with
    | c :: r =>
      if c =? 40 then
        pbind (p_expr f (skip_ws r)) (fun '(inner, s1) =>
          match skip_ws s1 with
          | c' :: r' => if c' =? 41 then POk (PExpr inner, r') else PFail
          | [] => PFail
          end)
      else PFail
    | [] => PFail
    end
  end.
Proof. reflexivity. Qed.

Lemma parser_wf f :
  (forall s ps s', p_expr f s = POk (ps, s') -> wf_seq anyleaf ps) /\
  (forall acc s ps s', p_rep f acc s = POk (ps, s') -> wf_seq anyleaf acc -> wf_seq anyleaf ps) /\
  (forall s o t s', p_iter f s = POk (o, t, s') -> wf_term anyleaf t) /\
  (forall s t s', p_term f s = POk (t, s') -> wf_term anyleaf t).
Proof.
  induction f as [|f (IHe & IHr & IHi & IHt)]; [repeat split; intros; discriminate|].
  repeat split.
  - intros s ps s'. rewrite p_expr_S. destruct (p_term f s) as [[t s1]| |] eqn:Et; try discriminate.
    cbn [pbind]. destruct (p_iter f (skip_ws s1)) as [[[o t'] s3]| |] eqn:Ei; try discriminate.
    + intros H. apply (IHr _ _ _ _ H). constructor; [exact (IHt _ _ _ Et)|].
      constructor; [exact (IHi _ _ _ _ Ei)|constructor].
    + intros H. injection H as <- <-. constructor; [exact (IHt _ _ _ Et)|constructor].
  - intros acc s ps s'. rewrite p_rep_S.
    destruct (p_iter f (skip_ws s)) as [[[o t'] s3]| |] eqn:Ei; try discriminate.
    + intros H Ha. apply (IHr _ _ _ _ H). apply wf_seq_snoc; [exact Ha|exact (IHi _ _ _ _ Ei)].
    + intros H Ha. injection H as <- <-. exact Ha.
  - intros s o t s'. rewrite p_iter_S. destruct (p_op s) as [[o' s1]|]; [|discriminate].
    destruct (p_term f (skip_ws s1)) as [[t' s2]| |] eqn:Et; try discriminate.
    cbn [pbind]. intros H. injection H as <- <- <-. exact (IHt _ _ _ Et).
  - intros s t s'. rewrite p_term_S. destruct (p_num s) as [[n r]|].
    + intros H. injection H as <- <-. constructor. exact I.
    + destruct s as [|c r]; [discriminate|]. destruct (c =? 40); [|discriminate].
      destruct (p_expr f (skip_ws r)) as [[inner s1]| |] eqn:Ee; try discriminate.
      cbn [pbind]. destruct (skip_ws s1) as [|c' r']; [discriminate|].
      destruct (c' =? 41); [|discriminate]. intros H. injection H as <- <-.
      constructor. exact (IHe _ _ _ Ee).
Qed.

Theorem parse_calc_wf line ps : parse_calc line = POk ps -> wf_seq anyleaf ps.
Proof.
  unfold parse_calc. destruct (p_expr (parse_fuel line) (skip_ws line)) as [[ps' s1]| |] eqn:E; try discriminate.
  cbn [pbind]. destruct (skip_ws s1); [|discriminate]. intros H. injection H as <-.
  exact (proj1 (parser_wf _) _ _ _ E).
Qed.

(* ------------------------------------------------------------------ *)
(** * The Pratt parser is total on well-formed lists *)

Section Total.
  Variable L T : Type.
  Variable Q : L -> Prop.
  Variable prec : op -> N.
  Variable left : op -> bool.
  Variable prim_num : L -> res T.
  Variable infix : T -> op -> T -> res T.
  Hypothesis prim_total : forall l, exists v, prim_num l = Ok v.
  Hypothesis infix_total : forall a o b, exists v, infix a o b = Ok v.

  Notation exprG := (expr (L := L) (T := T) prec left prim_num infix).
  Notation loopG := (loop (L := L) (T := T) prec left prim_num infix).

  Lemma exprG_S f ps rbp :
    exprG (S f) ps rbp =
    match ps with
    | [] => Panic SStruct
    | POp _ :: _ => Panic SStruct
    | PNum l :: ps1 => bind (prim_num l) (fun lhs => loopG f lhs ps1 rbp)
    | PExpr inner :: ps1 =>
      bind (bind (exprG f inner 0) (fun '(v, _) => Ok v)) (fun lhs => loopG f lhs ps1 rbp)
    end.
  Proof. reflexivity. Qed.
  Lemma loopG_S f lhs ps rbp :
    loopG (S f) lhs ps rbp =
    match ps with
    | [] => Ok (lhs, [])
    | POp o :: ps1 =>
      if rbp <? prec o then
        bind (exprG f ps1 (rb prec left o)) (fun '(rhs, ps2) =>
        bind (infix lhs o rhs) (fun v => loopG f v ps2 rbp))
      else Ok (lhs, ps)
    | _ :: _ => Panic SStruct
    end.
  Proof. reflexivity. Qed.

  Lemma pratt_total_aux f :
    (forall ps rbp, wf_seq Q ps -> (2 * tot ps + 1 <= f)%nat ->
       exists v rest, exprG f ps rbp = Ok (v, rest) /\ wf_tail Q rest /\ (tot rest < tot ps)%nat) /\
    (forall lhs ps rbp, wf_tail Q ps -> (2 * tot ps + 1 <= f)%nat ->
       exists v rest, loopG f lhs ps rbp = Ok (v, rest) /\ wf_tail Q rest /\ (tot rest <= tot ps)%nat).
  Proof.
    induction f as [|f [IHe IHl]]; [split; intros; lia|]. split.
    - intros ps rbp Hw Hf. destruct Hw as [t tl Ht Htl]. rewrite exprG_S.
      destruct Ht as [l Hl|inner Hin].
      + rewrite tot_cons_num in Hf. destruct (prim_total l) as [lhs ->]. cbn [bind].
        destruct (IHl lhs tl rbp Htl ltac:(lia)) as (v & rest & E & Hr & Hm).
        exists v, rest. rewrite tot_cons_num. repeat split; [exact E|exact Hr|lia].
      + rewrite tot_cons_expr in Hf.
        destruct (IHe inner 0 Hin ltac:(lia)) as (vi & ri & Ei & _ & _). rewrite Ei. cbn [bind].
        destruct (IHl vi tl rbp Htl ltac:(lia)) as (v & rest & E & Hr & Hm).
        exists v, rest. rewrite tot_cons_expr. repeat split; [exact E|exact Hr|lia].
    - intros lhs ps rbp Hw Hf. rewrite loopG_S. destruct Hw as [|o t tl Ht Htl].
      + exists lhs, []. repeat split; [constructor|lia].
      + destruct (rbp <? prec o).
        * rewrite tot_cons_op in Hf.
          destruct (IHe (t :: tl) (rb prec left o) (WSeq _ _ _ _ Ht Htl) ltac:(lia)) as (rhs & ps2 & E & Hr & Hm).
          rewrite E. cbn [bind]. destruct (infix_total lhs o rhs) as [v ->]. cbn [bind].
          destruct (IHl v ps2 rbp Hr ltac:(lia)) as (v' & rest & E' & Hr' & Hm').
          exists v', rest. rewrite tot_cons_op. repeat split; [exact E'|exact Hr'|lia].
        * exists lhs, (POp o :: t :: tl). repeat split; [constructor; assumption|lia].
  Qed.

  Theorem pratt_total fuel ps :
    wf_seq Q ps -> (2 * tot ps + 1 <= fuel)%nat -> exists v, pratt prec left prim_num infix fuel ps = Ok v.
  Proof.
    intros Hw Hf. unfold pratt.
    destruct (proj1 (pratt_total_aux fuel) ps 0 Hw Hf) as (v & rest & E & _ & _).
    rewrite E. cbn. eauto.
  Qed.
End Total.
