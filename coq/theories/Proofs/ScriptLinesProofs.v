(** run_script's per-line loop (Model/Args.v [extract_funcs], the model C15 owns):
    a physical line that is neither a function head nor a lone closing brace
    reaches the script parser -- or, between head and brace, the function body --
    character for character, whatever it contains (quotes, hashes, blanks). *)
From Cicada Require Import Base.Chars Model.Args.
Local Open Scope N_scope.

Definition plain_line (l : str) : bool :=
  match func_head (trim l) with Some _ => false | None => negb (func_tail (trim l)) end.

Fixpoint join_nl (ls : list str) : str :=
  match ls with [] => [] | l :: r => l ++ c_nl :: join_nl r end.

Lemma plain_line_inv l : plain_line l = true -> func_head (trim l) = None /\ func_tail (trim l) = false.
Proof.
  unfold plain_line. destruct (func_head (trim l)); [discriminate|].
  destruct (func_tail (trim l)); [discriminate|]. now split.
Qed.

Lemma extract_outside ls : forallb plain_line ls = true -> forall name body funcs tn,
  extract_funcs ls false name body funcs tn = (funcs, tn ++ join_nl ls).
Proof.
  induction ls as [|l ls IH]; intros H name body funcs tn.
  - cbn. now rewrite app_nil_r.
  - cbn [forallb] in H. apply andb_true_iff in H as [Hl Hls].
    destruct (plain_line_inv l Hl) as [Hh Ht]. cbn [extract_funcs]. rewrite Hh, Ht.
    rewrite (IH Hls). cbn [join_nl]. rewrite <- !app_assoc. reflexivity.
Qed.

Lemma extract_inside ls : forallb plain_line ls = true -> forall rest name body funcs tn,
  extract_funcs (ls ++ rest) true name body funcs tn =
  extract_funcs rest true name (body ++ join_nl ls) funcs tn.
Proof.
  induction ls as [|l ls IH]; intros H rest name body funcs tn.
  - cbn. now rewrite app_nil_r.
  - cbn [forallb] in H. apply andb_true_iff in H as [Hl Hls].
    destruct (plain_line_inv l Hl) as [Hh Ht]. cbn [app extract_funcs]. rewrite Hh, Ht.
    rewrite (IH Hls). cbn [join_nl]. rewrite <- !app_assoc. reflexivity.
Qed.

(** every plain line of the top level reaches the parser text unchanged *)
Theorem lines_reach_parser ls : forallb plain_line ls = true ->
  extract_funcs ls false [] [] [] [] = ([], join_nl ls).
Proof. intros H. now rewrite (extract_outside ls H). Qed.

(** ... and every plain line between a function head and its brace reaches the body unchanged *)
Theorem body_lines_reach_function h nm ls t rest : forall enter name0 body0 funcs tn,
  func_head (trim h) = Some nm -> forallb plain_line ls = true ->
  func_head (trim t) = None -> func_tail (trim t) = true ->
  extract_funcs (h :: ls ++ t :: rest) enter name0 body0 funcs tn =
  extract_funcs rest false nm (join_nl ls) (funcs ++ [(nm, join_nl ls)]) tn.
Proof.
  intros enter name0 body0 funcs tn Hh Hls Ht1 Ht2.
  cbn [extract_funcs]. rewrite Hh. rewrite (extract_inside ls Hls).
  cbn [extract_funcs app]. rewrite Ht1, Ht2. reflexivity.
Qed.
