(** run_script's per-line loop (Model/Args.v [extract_funcs], the model C15 owns):
    a physical line that is neither a function head nor a lone closing brace
    reaches the script parser -- or, between head and brace, the function body --
    character for character, whatever it contains (quotes, hashes, blanks). *)
From Cicada Require Import Base.Chars Model.Args.
Local Open Scope N_scope.

Definition plain_line (l : str) : bool :=
  match func_head (trim l) with Some _ => false | None => negb (func_tail (trim l)) end.

Fixpoint join_nl (ls : list str) : str :=
  match ls with [] => [] | l :: r => l ++ c_nl :: join_nl r end.

Lemma plain_line_inv l : plain_line l = true -> func_head (trim l) = None /\ func_tail (trim l) = false.
Proof.
  unfold plain_line. destruct (func_head (trim l)); [discriminate|].
  destruct (func_tail (trim l)); [discriminate|]. now split.
Qed.

Lemma extract_outside ls : forallb plain_line ls = true -> forall name body funcs tn,
  extract_funcs ls false name body funcs tn = (funcs, tn ++ join_nl ls).
Proof.
  induction ls as [|l ls IH]; intros H name body funcs tn.
  - cbn. now rewrite app_nil_r.
  - cbn [forallb] in H. apply andb_true_iff in H as [Hl Hls].
    destruct (plain_line_inv l Hl) as [Hh Ht]. cbn [extract_funcs]. rewrite Hh, Ht.
    rewrite (IH Hls). cbn [join_nl]. rewrite <- !app_assoc. reflexivity.
Qed.

Lemma extract_inside ls : forallb plain_line ls = true -> forall rest name body funcs tn,
  extract_funcs (ls ++ rest) true name body funcs tn =
  extract_funcs rest true name (body ++ join_nl ls) funcs tn.
Proof.
  induction ls as [|l ls IH]; intros H rest name body funcs tn.
  - cbn. now rewrite app_nil_r.
  - cbn [forallb] in H. apply andb_true_iff in H as [Hl Hls].
    destruct (plain_line_inv l Hl) as [Hh Ht]. cbn [app extract_funcs]. rewrite Hh, Ht.
    rewrite (IH Hls). cbn [join_nl]. rewrite <- !app_assoc. reflexivity.
Qed.

(** every plain line of the top level reaches the parser text unchanged *)
Theorem lines_reach_parser ls : forallb plain_line ls = true ->
  extract_funcs ls false [] [] [] [] = ([], join_nl ls).
Proof. intros H. now rewrite (extract_outside ls H). Qed.

(** ... and every plain line between a function head and its brace reaches the body unchanged *)
Theorem body_lines_reach_function h nm ls t rest : forall enter name0 body0 funcs tn,
  func_head (trim h) = Some nm -> forallb plain_line ls = true ->
  func_head (trim t) = None -> func_tail (trim t) = true ->
  extract_funcs (h :: ls ++ t :: rest) enter name0 body0 funcs tn =
  extract_funcs rest false nm (join_nl ls) (funcs ++ [(nm, join_nl ls)]) tn.
Proof.
  intros enter name0 body0 funcs tn Hh Hls Ht1 Ht2.
  cbn [extract_funcs]. rewrite Hh. rewrite (extract_inside ls Hls).
  cbn [extract_funcs app]. rewrite Ht1, Ht2. reflexivity.
Qed.

(** * The closing-brace test of the model is the regex of the source.
    [rx_func_tail] is regenerated from scripting.rs on every run; the hand matcher
    [Args.func_tail] equals it on every text, so the hypotheses above can be read
    on the source pattern. The function-head pattern is pinned as text (the hand
    matcher [Args.func_head], which also extracts the name, was derived from it). *)
From Cicada Require Import Base.Regex Gen.ScriptRegexes.
From Coq Require Import Lia.

Lemma in_cs_single k c : in_cs false [(k, k)] c = (c =? k).
Proof.
  unfold in_cs. cbn.
  destruct (N.leb_spec k c), (N.leb_spec c k), (N.eqb_spec c k); cbn; try reflexivity; lia.
Qed.

Lemma matchb_Empty s : matchb Empty s = false.
Proof. induction s as [|c s IH]; [reflexivity|exact IH]. Qed.

Lemma matchb_Eps s : matchb Eps s = is_empty s.
Proof. destruct s as [|c s]; [reflexivity|]. cbn. apply matchb_Empty. Qed.

Theorem func_tail_is_source_regex s : func_tail s = rx_search rx_func_tail s.
Proof.
  unfold func_tail, rx_search.
  change (rx_full rx_func_tail) with (Cat Eps (Cat (Chr false [(125, 125)]) Eps)).
  destruct s as [|c s]; [reflexivity|].
  cbn [matchb deriv nullable andb cat alt]. rewrite in_cs_single.
  cbn [str_eqb]. change c_rbrace with 125.
  destruct (c =? 125); cbn [cat alt andb].
  - rewrite matchb_Eps. destruct s; reflexivity.
  - now rewrite matchb_Empty.
Qed.

Example func_head_source_pinned :
  rx_func_head_src =
  [94; 102; 117; 110; 99; 116; 105; 111; 110; 32; 40; 91; 97; 45; 122; 65; 45; 90; 95; 45; 93; 91; 97; 45; 122; 65; 45; 90;
   48; 45; 57; 95; 45; 93; 42; 41; 32; 42; 40; 63; 58; 92; 40; 92; 41; 41; 63; 32; 42; 92; 123; 36].
Proof. reflexivity. Qed.

(** [plain_line] read on the source regex *)
Definition plain_line_src (l : str) : bool :=
  match func_head (trim l) with Some _ => false | None => negb (rx_search rx_func_tail (trim l)) end.

Lemma plain_line_src_eq l : plain_line_src l = plain_line l.
Proof. unfold plain_line_src, plain_line. now rewrite func_tail_is_source_regex. Qed.

Lemma forallb_plain_src ls : forallb plain_line_src ls = forallb plain_line ls.
Proof. induction ls as [|l ls IH]; [reflexivity|]. cbn. now rewrite plain_line_src_eq, IH. Qed.

Theorem lines_reach_parser_src ls : forallb plain_line_src ls = true ->
  extract_funcs ls false [] [] [] [] = ([], join_nl ls).
Proof. rewrite forallb_plain_src. apply lines_reach_parser. Qed.

Theorem body_lines_reach_function_src h nm ls t rest : forall enter name0 body0 funcs tn,
  func_head (trim h) = Some nm -> forallb plain_line_src ls = true ->
  func_head (trim t) = None -> rx_search rx_func_tail (trim t) = true ->
  extract_funcs (h :: ls ++ t :: rest) enter name0 body0 funcs tn =
  extract_funcs rest false nm (join_nl ls) (funcs ++ [(nm, join_nl ls)]) tn.
Proof.
  intros enter name0 body0 funcs tn Hh Hls Ht1 Ht2. rewrite forallb_plain_src in Hls.
  rewrite <- func_tail_is_source_regex in Ht2. now apply body_lines_reach_function.
Qed.
