(** C14, parser half: how the proved fragment [fragI_block] sits inside the property's own domain
    [wfp_block] (ScriptAst.v): every well-formed script whose conditions and word lists hold no `;`
    is in the fragment. *)
From Cicada Require Import Base.Chars Base.Peg Gen.LocustGrammar Model.Script Model.ScriptAst
  Proofs.PegProofs Proofs.LocustParse Proofs.ScriptProofs Proofs.LocustBlocks Proofs.LocustIndent.
From Coq Require Import ZArith Lia Arith.
Local Open Scope N_scope.

Lemma ts_len s : (length (trim_start s) <= length s)%nat.
Proof. induction s as [|c s IH]; [apply le_n|]. cbn [trim_start]. destruct (is_ws c); cbn [length]; lia. Qed.

Lemma te_len s : (length (trim_end s) <= length s)%nat.
Proof. unfold trim_end. rewrite rev_length. rewrite <- (rev_length s). apply ts_len. Qed.

Lemma trim_fix_ends t : t <> [] -> trim t = t -> starts_nonws t = true /\ ends_nonws t = true.
Proof.
  intros Hne Ht. destruct t as [|c r]; [congruence|].
  assert (Hc : is_ws c = false).
  { destruct (is_ws c) eqn:E; [|reflexivity]. exfalso.
    assert (L : (length (trim (c :: r)) <= length r)%nat).
    { unfold trim. cbn [trim_start]. rewrite E. eapply Nat.le_trans; [apply te_len | apply ts_len]. }
    rewrite Ht in L. cbn [length] in L. lia. }
  split; [cbn; rewrite Hc; reflexivity|].
  unfold trim in Ht. cbn [trim_start] in Ht. rewrite Hc in Ht. unfold trim_end in Ht.
  apply (f_equal (@rev char)) in Ht. rewrite rev_involutive in Ht.
  unfold ends_nonws. destruct (rev (c :: r)) as [|d q] eqn:Er.
  { apply (f_equal (@rev char)) in Er. rewrite rev_involutive in Er. discriminate. }
  destruct (is_ws d) eqn:Ed; [|reflexivity]. exfalso.
  cbn [trim_start] in Ht. rewrite Ed in Ht.
  pose proof (ts_len q) as L. rewrite Ht in L. cbn [length] in L. lia.
Qed.

Definition semi_free (t : str) : bool := forallb (fun c => negb (c =? 59)) t.

Lemma wfp_text_ok t : wfp_text t = true -> forallb okc t = true /\ starts_nonws t = true /\ ends_nonws t = true.
Proof.
  unfold wfp_text. intro H. apply andb_prop in H as [H Ht]. apply andb_prop in H as [Hne Hok].
  apply str_eqb_eq in Ht. split; [exact Hok|]. apply trim_fix_ends; [|exact Ht].
  destruct t; [discriminate|discriminate].
Qed.

Lemma wfp_cond_ok t : wfp_text t = true -> semi_free t = true -> cond_ok t = true.
Proof.
  intros H Hs. destruct (wfp_text_ok t H) as [Hok [H1 H2]]. unfold cond_ok. rewrite H1, H2.
  replace (forallb okt t) with true; [reflexivity|]. symmetry.
  unfold semi_free in Hs. rewrite forallb_forall in *. intros c Hc. unfold okt. rewrite (Hok c Hc), (Hs c Hc). reflexivity.
Qed.

Lemma wfp_cmd_ok2 line : wfp_text line = true -> starts_kw line = false -> cmd_ok2 line = true.
Proof.
  intros H Hk. destruct (wfp_text_ok line H) as [Hok [H1 H2]]. unfold cmd_ok2. rewrite Hok, H1, H2, Hk. reflexivity.
Qed.

(** no `;` inside any condition / word list *)
Fixpoint csf_block (b : block) : bool :=
  match b with
  | BNil => true
  | BCons s r => csf_stmt s && csf_block r
  end
with csf_stmt (s : stmt) : bool :=
  match s with
  | SCmd _ _ | SBlank _ | SBreak _ | SCont _ => true
  | SIf _ _ cond body rest => semi_free cond && csf_block body && csf_arms rest
  | SFor _ _ _ words body => semi_free words && csf_block body
  | SWhile _ _ cond body => semi_free cond && csf_block body
  end
with csf_arms (a : arms) : bool :=
  match a with
  | ANone _ => true
  | AElse _ body _ => csf_block body
  | AElif _ _ cond body rest => semi_free cond && csf_block body && csf_arms rest
  end.

Ltac andbs H := repeat match type of H with (_ && _ = true) => let H' := fresh "W" in apply andb_prop in H as [H H'] end.

Lemma wfp_in_frag :
  (forall b, wfp_block b = true -> csf_block b = true -> fragI_block b = true) /\
  (forall s, wfp_stmt s = true -> csf_stmt s = true -> fragI_stmt s = true) /\
  (forall a, wfp_arms a = true -> csf_arms a = true -> fragI_arms a = true).
Proof.
  apply ScriptProofs.ast_mutind.
  - reflexivity.
  - intros s IHs r IHr H C.
    change (wfp_block (BCons s r)) with (wfp_stmt s && wfp_block r) in H. apply andb_prop in H as [H1 H2].
    change (csf_block (BCons s r)) with (csf_stmt s && csf_block r) in C. apply andb_prop in C as [C1 C2].
    change (fragI_block (BCons s r)) with (fragI_stmt s && fragI_block r). rewrite (IHs H1 C1), (IHr H2 C2). reflexivity.
  - intros ind line H _.
    change (wfp_stmt (SCmd ind line)) with (wfp_ind ind && wfp_text line && wf_line line && negb (starts_kw line)) in H.
    apply andb_prop in H as [H Hk]. apply andb_prop in H as [H _]. apply andb_prop in H as [Hi Ht]. apply negb_true_iff in Hk.
    change (fragI_stmt (SCmd ind line)) with (wfp_ind ind && cmd_ok2 line). rewrite Hi, (wfp_cmd_ok2 line Ht Hk). reflexivity.
  - intros ws H _. exact H.
  - intros ind H _. exact H.
  - intros ind H _. exact H.
  - intros ind sp cond body IHb a IHa H C.
    change (wfp_stmt (SIf ind sp cond body a)) with
      (wfp_ind ind && wfp_text cond && no_semi cond && nonempty_block body && wfp_block body && wfp_arms a) in H.
    apply andb_prop in H as [H Ha]. apply andb_prop in H as [H Hb]. apply andb_prop in H as [H Hne].
    apply andb_prop in H as [H _]. apply andb_prop in H as [Hi Ht].
    change (csf_stmt (SIf ind sp cond body a)) with (semi_free cond && csf_block body && csf_arms a) in C.
    apply andb_prop in C as [C Ca]. apply andb_prop in C as [Cs Cb].
    change (fragI_stmt (SIf ind sp cond body a)) with (wfp_ind ind && cond_ok cond && nonempty_block body && fragI_block body && fragI_arms a).
    rewrite Hi, (wfp_cond_ok cond Ht Cs), Hne, (IHb Hb Cb), (IHa Ha Ca). reflexivity.
  - intros ind sp var words body IHb H C.
    change (wfp_stmt (SFor ind sp var words body)) with
      (wfp_ind ind && wfp_var var && wfp_text words && no_semi words && nonempty_block body && wfp_block body) in H.
    apply andb_prop in H as [H Hb]. apply andb_prop in H as [H Hne]. apply andb_prop in H as [H _].
    apply andb_prop in H as [H Ht]. apply andb_prop in H as [Hi Hv].
    change (csf_stmt (SFor ind sp var words body)) with (semi_free words && csf_block body) in C.
    apply andb_prop in C as [Cs Cb].
    change (fragI_stmt (SFor ind sp var words body)) with (wfp_ind ind && wfp_var var && cond_ok words && nonempty_block body && fragI_block body).
    rewrite Hi, Hv, (wfp_cond_ok words Ht Cs), Hne, (IHb Hb Cb). reflexivity.
  - intros ind sp cond body IHb H C.
    change (wfp_stmt (SWhile ind sp cond body)) with
      (wfp_ind ind && wfp_text cond && no_semi cond && nonempty_block body && wfp_block body) in H.
    apply andb_prop in H as [H Hb]. apply andb_prop in H as [H Hne]. apply andb_prop in H as [H _]. apply andb_prop in H as [Hi Ht].
    change (csf_stmt (SWhile ind sp cond body)) with (semi_free cond && csf_block body) in C.
    apply andb_prop in C as [Cs Cb].
    change (fragI_stmt (SWhile ind sp cond body)) with (wfp_ind ind && cond_ok cond && nonempty_block body && fragI_block body).
    rewrite Hi, (wfp_cond_ok cond Ht Cs), Hne, (IHb Hb Cb). reflexivity.
  - intros ind H _. exact H.
  - intros ind body IHb j H C.
    change (wfp_arms (AElse ind body j)) with (wfp_ind ind && wfp_ind j && nonempty_block body && wfp_block body) in H.
    apply andb_prop in H as [H Hb]. apply andb_prop in H as [H Hne]. apply andb_prop in H as [Hi Hj].
    change (csf_arms (AElse ind body j)) with (csf_block body) in C.
    change (fragI_arms (AElse ind body j)) with (wfp_ind ind && wfp_ind j && nonempty_block body && fragI_block body).
    rewrite Hi, Hj, Hne, (IHb Hb C). reflexivity.
  - intros ind sp cond body IHb a IHa H C.
    change (wfp_arms (AElif ind sp cond body a)) with
      (wfp_ind ind && wfp_text cond && no_semi cond && nonempty_block body && wfp_block body && wfp_arms a) in H.
    apply andb_prop in H as [H Ha]. apply andb_prop in H as [H Hb]. apply andb_prop in H as [H Hne].
    apply andb_prop in H as [H _]. apply andb_prop in H as [Hi Ht].
    change (csf_arms (AElif ind sp cond body a)) with (semi_free cond && csf_block body && csf_arms a) in C.
    apply andb_prop in C as [C Ca]. apply andb_prop in C as [Cs Cb].
    change (fragI_arms (AElif ind sp cond body a)) with (wfp_ind ind && cond_ok cond && nonempty_block body && fragI_block body && fragI_arms a).
    rewrite Hi, (wfp_cond_ok cond Ht Cs), Hne, (IHb Hb Cb), (IHa Ha Ca). reflexivity.
Qed.

(** C14_parse_full restricted to scripts without `;` in conditions / word lists, up to fuel *)
Theorem parse_full_nosemi : forall b, wfp_block b = true -> csf_block b = true ->
  parse_from l_grammar L_EXP (render_block b) = PFuel \/ parse_ok b.
Proof. intros b H C. apply parse_indented_from. apply (proj1 wfp_in_frag b H C). Qed.

(** The only thing between [parse_full_nosemi] and totality is the fuel: on the domain, the parse is the
    ideal one exactly when the computed fuel does not run out. *)
Theorem parse_total_iff : forall b, wfp_block b = true -> csf_block b = true ->
  (parse_ok b <-> parse_from l_grammar L_EXP (render_block b) <> PFuel).
Proof.
  intros b H C. split.
  - intros [p [kids [E _]]]. rewrite E. discriminate.
  - intro N. destruct (parse_full_nosemi b H C) as [F|P]; [contradiction | exact P].
Qed.

(** groundwork for texts without a final newline: the root text is the same *)
Lemma trim_app_nl x : trim (x ++ [10]) = trim x.
Proof.
  unfold trim. induction x as [|c x IH]; [reflexivity|].
  cbn [app trim_start]. destruct (is_ws c); [exact IH|].
  change (c :: x ++ [10]) with ((c :: x) ++ [10]). unfold trim_end. rewrite rev_app_distr. reflexivity.
Qed.

Lemma kw_done_eoi pos : EV (PRef L_KW_DONE) AtNon pos s_done (POk (pos + 4) [] [Node L_EOI (pos + 4) (pos + 4) []]).
Proof.
  ref_s. apply (evals_of_ev l_grammar 6); [|discriminate]. vm_compute.
  rewrite !Nat.add_succ_r, !Nat.add_0_r. reflexivity.
Qed.

Lemma kw_fi_eoi pos : EV (PRef L_KW_FI) AtNon pos s_fi (POk (pos + 2) [] [Node L_EOI (pos + 2) (pos + 2) []]).
Proof.
  ref_s. apply (evals_of_ev l_grammar 6); [|discriminate]. vm_compute.
  rewrite !Nat.add_succ_r, !Nat.add_0_r. reflexivity.
Qed.
