(** tokens_to_line is a right inverse of parse_line on renderable tokens:
    for every list of tokens that are unquoted words (no blank, quote,
    backslash, parenthesis, hash or bar), bar / double-bar tokens,
    single-quoted texts without a single quote, or double-quoted texts whose
    backslashes come in pairs (backslash, non-quote), and for any spacing,
      parse_line (rendering) = tokens.
    Hence the script path's round trip parse_line -> tokens_to_line leaves the
    tokens of such a line unchanged. Induction over the token list; inside a
    token over its characters (double quotes: over the length, because an
    escape consumes two characters). *)
From Cicada Require Import Base.Chars Base.Tag Model.Tokenizer Model.Cmds Model.Rerender
  Proofs.TokenizerProofs.
From Coq Require Import Lia.
Local Open Scope N_scope.

(** * classify versus the code points wrap_sep_string compares with *)
Ltac classify_tac c :=
  unfold classify;
  repeat match goal with |- context [if c =? ?n then _ else _] => destruct (N.eqb_spec c n) as [->|?] end;
  try reflexivity; symmetry; apply N.eqb_neq; assumption.

Lemma classify_sq c : cls_eqb (classify c) KSq = (c =? c_sq).
Proof. classify_tac c. Qed.
Lemma classify_dq c : cls_eqb (classify c) KDq = (c =? c_dq).
Proof. classify_tac c. Qed.
Lemma classify_bs c : cls_eqb (classify c) KBs = (c =? c_bs).
Proof. classify_tac c. Qed.

Lemma cls_neq_of_eqb c k : cls_eqb (classify c) k = false -> classify c <> k.
Proof. intros H E. rewrite E, cls_eqb_refl in H. discriminate. Qed.

(** * Unquoted words *)
Definition wchar (c : char) : bool :=
  match classify c with KOther | KDollar | KLt | KGt => true | _ => false end.
Definition uword (w : str) : bool := negb (is_empty w) && forallb wchar w.

Lemma step_round_w r hd c nxt : wchar c = true ->
  step (st_round r hd) c nxt = Cont (st_word r [c] (hd_upd hd c)).
Proof.
  unfold wchar. intros H.
  destruct (classify c) eqn:K; try discriminate H; clear H;
    cbv beta delta [step hd_upd]; rewrite K; destruct hd; reflexivity.
Qed.

Lemma step_word_w r tk hd c nxt : wchar c = true ->
  step (st_word r tk hd) c nxt = Cont (st_word r (c :: tk) (hd_upd hd c)).
Proof.
  unfold wchar. intros H.
  destruct (classify c) eqn:K; try discriminate H; clear H;
    cbv beta delta [step hd_upd]; rewrite K; destruct hd; reflexivity.
Qed.

Lemma loop_uword_tail w : forall r tk hd rest, forallb wchar w = true ->
  exists hd', loop (st_word r tk hd) (w ++ rest) = loop (st_word r (rev w ++ tk) hd') rest.
Proof.
  induction w as [|c w IH]; intros r tk hd rest H.
  - exists hd. reflexivity.
  - cbn [forallb] in H. apply andb_true_iff in H as [Hc Hw].
    cbn [app]. rewrite loop_cons, (step_word_w r tk hd c _ Hc).
    destruct (IH r (c :: tk) (hd_upd hd c) rest Hw) as [hd' E]. exists hd'.
    rewrite E. cbn [rev]. now rewrite <- app_assoc.
Qed.

Lemma loop_uword w r hd rest : uword w = true ->
  exists hd', loop (st_round r hd) (w ++ rest) = loop (st_word r (rev w) hd') rest.
Proof.
  intros H. apply andb_true_iff in H as [Hne Hall]. destruct w as [|c w]; [discriminate|].
  cbn [forallb] in Hall. apply andb_true_iff in Hall as [Hc Hw].
  cbn [app]. rewrite loop_cons, (step_round_w r hd c _ Hc).
  destruct (loop_uword_tail w r [c] (hd_upd hd c) rest Hw) as [hd' E]. exists hd'.
  rewrite E. reflexivity.
Qed.

(** * wrap_sep_string with a quote tag *)
Lemma wrap_loop_q_cons q c r m p : q <> TNone ->
  wrap_loop q (c :: r) m p = (if is_sep_char q c then [c_bs] else []) ++ c :: wrap_loop q r m p.
Proof.
  intros Hq. destruct q; try congruence; cbn [wrap_loop tag_eqb andb];
    rewrite andb_false_r; cbn [andb app]; reflexivity.
Qed.

Lemma wrap_loop_sq t : has_cls KSq t = false -> forall m p, wrap_loop TSq t m p = t.
Proof.
  induction t as [|c t IH]; intros H m p; [reflexivity|].
  cbn [has_cls] in H. apply orb_false_iff in H as [H1 H2].
  rewrite wrap_loop_q_cons by discriminate. cbn [is_sep_char].
  rewrite <- classify_sq, H1. cbn [app]. now rewrite IH.
Qed.

(** * Double quotes with escapes *)
Fixpoint dq_ok (t : str) : bool :=
  match t with
  | [] => true
  | c :: r =>
      if cls_eqb (classify c) KBs then
        match r with
        | x :: r' => negb (cls_eqb (classify x) KDq) && dq_ok r'
        | [] => false
        end
      else dq_ok r
  end.

Definition st_quote_bs (r : list (tag * str)) (tk : str) (hd : bool) : st :=
  mk r TDq TNone tk true false false false hd false TNone false.

Lemma step_dq_bs r tk hd nxt :
  step (st_quote r TDq tk hd) c_bs nxt = Cont (st_quote_bs r tk hd).
Proof. destruct hd; reflexivity. Qed.

Lemma step_dq_bs_dq r tk hd c nxt : classify c = KDq ->
  step (st_quote_bs r tk hd) c nxt = Cont (st_quote r TDq (c :: tk) hd).
Proof. intros K. cbv beta delta [step]. rewrite K. destruct hd; reflexivity. Qed.

Lemma step_dq_bs_other r tk hd c nxt : classify c <> KDq ->
  step (st_quote_bs r tk hd) c nxt = Cont (st_quote r TDq (c :: c_bs :: tk) hd).
Proof.
  intros K. cbv beta delta [step].
  destruct (classify c) eqn:E; try congruence; destruct hd; reflexivity.
Qed.

Lemma loop_dq_body n : forall t, (length t <= n)%nat -> dq_ok t = true ->
  forall r tk hd rest m p,
  exists hd', loop (st_quote r TDq tk hd) (wrap_loop TDq t m p ++ rest) =
              loop (st_quote r TDq (rev t ++ tk) hd') rest.
Proof.
  induction n as [|n IH]; intros t Hl Hok r tk hd rest m p.
  - destruct t; [exists hd; reflexivity|cbn in Hl; lia].
  - destruct t as [|c t]; [exists hd; reflexivity|].
    rewrite wrap_loop_q_cons by discriminate. cbn [is_sep_char].
    cbn [dq_ok] in Hok. rewrite classify_bs in Hok.
    destruct (c =? c_bs) eqn:Eb.
    + apply N.eqb_eq in Eb. subst c. destruct t as [|x t]; [discriminate|].
      apply andb_true_iff in Hok as [Hx Hok]. apply negb_true_false in Hx.
      change (c_bs =? c_dq) with false. cbn [app].
      rewrite wrap_loop_q_cons by discriminate. cbn [is_sep_char].
      rewrite <- classify_dq, Hx. cbn [app].
      rewrite loop_cons, step_dq_bs, loop_cons, (step_dq_bs_other _ _ _ x _ (cls_neq_of_eqb _ _ Hx)).
      destruct (IH t ltac:(cbn in Hl; lia) Hok r (x :: c_bs :: tk) hd rest m p) as [hd' E].
      exists hd'. rewrite E. cbn [rev]. now rewrite <- !app_assoc.
    + destruct (c =? c_dq) eqn:Ed.
      * cbn [app]. assert (K : classify c = KDq).
        { apply cls_eqb_eq. now rewrite classify_dq. }
        rewrite loop_cons, step_dq_bs, loop_cons, (step_dq_bs_dq _ _ _ c _ K).
        destruct (IH t ltac:(cbn in Hl; lia) Hok r (c :: tk) hd rest m p) as [hd' E].
        exists hd'. rewrite E. cbn [rev]. now rewrite <- app_assoc.
      * cbn [app].
        assert (K1 : classify c <> qcls TDq).
        { apply cls_neq_of_eqb. now rewrite classify_dq. }
        assert (K2 : classify c <> KBs).
        { apply cls_neq_of_eqb. now rewrite classify_bs. }
        rewrite loop_cons, (step_quote_body r TDq tk hd c _ (or_intror eq_refl) K1 (or_intror K2)).
        destruct (IH t ltac:(cbn in Hl; lia) Hok r (c :: tk) (hd_upd hd c) rest m p) as [hd' E].
        exists hd'. rewrite E. cbn [rev]. now rewrite <- app_assoc.
Qed.

(** the C01 double-quote domain (no quote, no backslash) is inside [dq_ok] *)
Lemma dq_ok_plain t : has_cls KDq t = false -> has_cls KBs t = false -> dq_ok t = true.
Proof.
  induction t as [|c t IH]; intros H1 H2; [reflexivity|].
  cbn [has_cls] in H1, H2. apply orb_false_iff in H1 as [_ H1]. apply orb_false_iff in H2 as [Hc H2].
  cbn [dq_ok]. rewrite Hc. now apply IH.
Qed.

(** * Tokens *)
Definition is_bar (w : str) : bool := str_eqb w [c_pipe] || str_eqb w [c_pipe; c_pipe].

Definition tok_ok (t : token) : bool :=
  match t with
  | (TNone, w) => if is_bar w then true else uword w
  | (TSq, w) => negb (has_cls KSq w)
  | (TDq, w) => dq_ok w
  | _ => false
  end.

Definition tok_text (t : token) : str :=
  if tag_eqb (fst t) TNone then snd t else wrap_sep_string (fst t) (snd t).

(** the tokenizer state right after the text of token [t] *)
Definition st_after (t : token) (r : list (tag * str)) (hd : bool) : st :=
  match t with
  | (TNone, w) => if is_bar w then st_round (t :: r) hd else st_word r (rev w) hd
  | (q, w) => st_closed r q (rev w) hd
  end.

Definition ends_ok (rest : str) : Prop := rest = [] \/ exists r', rest = c_space :: r'.

Definition st_skip (r : list (tag * str)) (hd : bool) : st :=
  mk r TNone TNone [] false false true true hd false TNone false.

Lemma step_round_bar r hd nxt : nxt = None \/ nxt = Some c_space ->
  step (st_round r hd) c_pipe nxt = Cont (st_round ((TNone, [c_pipe]) :: r) hd).
Proof. intros [->| ->]; destruct hd; reflexivity. Qed.
Lemma step_round_bar2 r hd :
  step (st_round r hd) c_pipe (Some c_pipe) = Cont (st_skip ((TNone, [c_pipe; c_pipe]) :: r) hd).
Proof. destruct hd; reflexivity. Qed.
Lemma step_skip r hd c nxt : step (st_skip r hd) c nxt = Cont (st_round r hd).
Proof. reflexivity. Qed.

Lemma loop_tok t : tok_ok t = true -> forall r hd rest, ends_ok rest ->
  exists hd', loop (st_round r hd) (tok_text t ++ rest) = loop (st_after t r hd') rest.
Proof.
  destruct t as [[] w]; cbn [tok_ok]; try discriminate; intros H r hd rest Hrest;
    unfold tok_text; cbn [fst snd tag_eqb st_after].
  - destruct (is_bar w) eqn:B.
    + exists hd. unfold is_bar in B. apply orb_true_iff in B as [B|B]; apply str_eqb_eq in B; subst w.
      * cbn [app]. rewrite loop_cons, step_round_bar; [reflexivity|].
        destruct Hrest as [->|[r' ->]]; [now left|now right].
      * cbn [app]. rewrite loop_cons. cbn [peek]. rewrite step_round_bar2, loop_cons, step_skip.
        reflexivity.
    + now apply loop_uword.
  - apply negb_true_false in H. exists (hd_after hd w).
    unfold wrap_sep_string. cbn [tag_str]. rewrite (wrap_loop_sq _ H).
    exact (loop_qarg (QSq w) ltac:(cbn; now rewrite H) r hd rest).
  - unfold wrap_sep_string. cbn [tag_str app].
    rewrite loop_cons, (step_round_open r hd TDq c_dq _ (or_intror eq_refl) eq_refl).
    rewrite <- app_assoc.
    destruct (loop_dq_body (length w) w (le_n _) H r [] hd ([c_dq] ++ rest) false c_N) as [hd' E].
    exists hd'. eapply eq_trans; [exact E|]. cbn [app]. rewrite loop_cons.
    rewrite (step_quote_close r TDq _ hd' c_dq _ (or_intror eq_refl) eq_refl).
    now rewrite app_nil_r.
Qed.

Lemma uword_rev_nonempty w : uword w = true -> rev w <> [].
Proof.
  intros H. apply andb_true_iff in H as [H _]. destruct w as [|c w]; [discriminate|].
  cbn [rev]. destruct (rev w); discriminate.
Qed.

Lemma step_after_space t r hd nxt : tok_ok t = true ->
  step (st_after t r hd) c_space nxt = Cont (st_round (t :: r) hd).
Proof.
  destruct t as [[] w]; cbn [tok_ok st_after]; try discriminate; intros H.
  - destruct (is_bar w); [apply step_round_space|].
    rewrite step_word_space. now rewrite rev_involutive.
  - rewrite (step_closed_space r TSq (rev w) hd nxt (or_introl eq_refl)). now rewrite rev_involutive.
  - rewrite (step_closed_space r TDq (rev w) hd nxt (or_intror eq_refl)). now rewrite rev_involutive.
Qed.

Lemma finish_closed r q tk hd : is_sd q -> finish (st_closed r q tk hd) = rev r ++ [(q, rev tk)].
Proof.
  intros Hq. unfold finish, st_closed. cbn [tok semi_ok]. rewrite orb_true_r.
  destruct Hq as [-> | ->]; destruct hd; reflexivity.
Qed.

Lemma finish_word r tk hd : tk <> [] -> finish (st_word r tk hd) = rev r ++ [(TNone, rev tk)].
Proof. intros H. destruct tk; [congruence|]. destruct hd; reflexivity. Qed.

Lemma finish_after t r hd : tok_ok t = true -> finish (st_after t r hd) = rev r ++ [t].
Proof.
  destruct t as [[] w]; cbn [tok_ok st_after]; try discriminate; intros H.
  - destruct (is_bar w); [destruct hd; reflexivity|].
    rewrite finish_word by now apply uword_rev_nonempty. now rewrite rev_involutive.
  - rewrite finish_closed by now left. now rewrite rev_involutive.
  - rewrite finish_closed by now right. now rewrite rev_involutive.
Qed.

(** * Token lists with arbitrary spacing *)
Fixpoint render_sp (l : list (nat * token)) : str :=
  match l with
  | [] => []
  | (n, t) :: r => spaces n ++ tok_text t ++ c_space :: render_sp r
  end.

Definition all_ok (l : list (nat * token)) : bool := forallb (fun x => tok_ok (snd x)) l.

Lemma loop_sp l : all_ok l = true -> forall r hd rest,
  exists hd', loop (st_round r hd) (render_sp l ++ rest) =
              loop (st_round (rev (map snd l) ++ r) hd') rest.
Proof.
  induction l as [|[n t] l IH]; intros H r hd rest.
  - exists hd. reflexivity.
  - cbn [all_ok forallb snd] in H. apply andb_true_iff in H as [Ht Hl].
    cbn [render_sp]. repeat rewrite <- app_assoc. cbn [app].
    rewrite loop_round_spaces.
    destruct (loop_tok t Ht r hd (c_space :: render_sp l ++ rest) (or_intror (ex_intro _ _ eq_refl))) as [hd1 E1].
    destruct (IH Hl (t :: r) hd1 rest) as [hd2 E2]. exists hd2.
    eapply eq_trans; [exact E1|]. rewrite loop_cons, (step_after_space t r hd1 _ Ht).
    eapply eq_trans; [exact E2|].
    cbn [map rev snd]. now rewrite <- app_assoc.
Qed.

(** a line: spaced tokens, then the last token without a blank after it *)
Definition render_ln (l : list (nat * token)) (n : nat) (t : token) : str :=
  render_sp l ++ spaces n ++ tok_text t.

Lemma finish_ln l n t : all_ok l = true -> tok_ok t = true ->
  finish (loop st0 (render_ln l n t)) = map snd l ++ [t].
Proof.
  intros Hl Ht. change st0 with (st_round [] false). unfold render_ln.
  destruct (loop_sp l Hl [] false (spaces n ++ tok_text t)) as [hd1 E1]. rewrite E1.
  rewrite loop_round_spaces. rewrite <- (app_nil_r (tok_text t)).
  destruct (loop_tok t Ht (rev (map snd l) ++ []) hd1 [] (or_introl eq_refl)) as [hd2 E2].
  eapply eq_trans; [apply f_equal; exact E2|]. cbn [loop]. rewrite (finish_after t _ hd2 Ht).
  now rewrite app_nil_r, rev_involutive.
Qed.

Theorem parse_line_sp l n t : all_ok l = true -> tok_ok t = true ->
  is_arithmetic (render_ln l n t) = false ->
  parse_line (render_ln l n t) = map snd l ++ [t].
Proof. intros Hl Ht Ha. unfold parse_line. rewrite Ha. now apply finish_ln. Qed.

(** * tokens_to_line is such a rendering *)
Lemma t2l_body_sp l : t2l_body l = render_sp (map (fun t => (0%nat, t)) l).
Proof.
  induction l as [|[tg w] l IH]; [reflexivity|].
  cbn [t2l_body map render_sp spaces repeat app]. now rewrite IH.
Qed.

Lemma t2l_body_app a b : t2l_body (a ++ b) = t2l_body a ++ t2l_body b.
Proof.
  induction a as [|[tg w] a IH]; [reflexivity|].
  cbn [app t2l_body]. rewrite IH, <- app_assoc. reflexivity.
Qed.

Lemma strip_last_space_snoc x : strip_last_space (x ++ [c_space]) = x.
Proof. unfold strip_last_space. rewrite rev_app_distr. cbn. apply rev_involutive. Qed.

Lemma tokens_to_line_snoc l t :
  tokens_to_line (l ++ [t]) = render_ln (map (fun t => (0%nat, t)) l) 0 t.
Proof.
  unfold tokens_to_line, render_ln. rewrite t2l_body_app, <- t2l_body_sp.
  destruct t as [tg w]. cbn [t2l_body spaces repeat app].
  change (if tag_eqb tg TNone then w else wrap_sep_string tg w) with (tok_text (tg, w)).
  rewrite app_assoc.
  apply strip_last_space_snoc.
Qed.

Lemma all_ok_map0 l : all_ok (map (fun t => (0%nat, t)) l) = forallb tok_ok l.
Proof. induction l as [|t l IH]; [reflexivity|]. cbn. now rewrite <- IH. Qed.

Lemma map_snd_map0 (l : list token) : map snd (map (fun t => (0%nat, t)) l) = l.
Proof. induction l as [|t l IH]; [reflexivity|]. cbn. now rewrite IH. Qed.

(** the inversion law *)
Theorem parse_tokens_to_line toks :
  forallb tok_ok toks = true -> is_arithmetic (tokens_to_line toks) = false ->
  parse_line (tokens_to_line toks) = toks.
Proof.
  intros Hok Ha. destruct toks as [|t0 toks]; [reflexivity|].
  destruct (exists_last (l := t0 :: toks)) as (l & t & E); [discriminate|].
  rewrite E in *. rewrite tokens_to_line_snoc in *.
  rewrite forallb_app in Hok. apply andb_true_iff in Hok as [Hl Ht]. cbn [forallb] in Ht.
  rewrite andb_true_r in Ht.
  rewrite parse_line_sp; [now rewrite map_snd_map0|now rewrite all_ok_map0|exact Ht|exact Ha].
Qed.

(** the script path's round trip leaves the tokens of a renderable line unchanged *)
Definition renderable (l : str) : bool :=
  forallb tok_ok (parse_line l) && negb (is_arithmetic (rerender l)).

Theorem rerender_tokens l : renderable l = true -> parse_line (rerender l) = parse_line l.
Proof.
  intros H. apply andb_true_iff in H as [H1 H2]. apply negb_true_false in H2.
  unfold rerender in *. now apply parse_tokens_to_line.
Qed.

(** * Lines without positional parameters are left alone by the script path's pass *)
Lemma expand_args_in_tokens_id toks args :
  existsb needs_args toks = false -> expand_args_in_tokens toks args = XOk toks.
Proof.
  induction toks as [|t toks IH]; intros H; [reflexivity|].
  cbn [existsb] in H. apply orb_false_iff in H as [H1 H2].
  cbn [expand_args_in_tokens]. rewrite H1, (IH H2). reflexivity.
Qed.

Theorem expand_args_id l args : no_positional l = true -> expand_args l args = XOk l.
Proof. unfold no_positional, expand_args. intros H. now rewrite H. Qed.

(** with a positional parameter the line is tokenized, substituted and re-rendered *)
Theorem expand_args_positional l args : no_positional l = false ->
  expand_args l args =
  match expand_args_in_tokens (parse_line l) args with
  | XOk toks => XOk (tokens_to_line toks) | XPanic => XPanic | XFuel => XFuel
  end.
Proof. unfold no_positional, expand_args. intros H. now rewrite H. Qed.

(** * The C01 domain: a plain command word and quoted arguments *)
Lemma plain_uword w : plain_word w = true -> uword w = true.
Proof.
  unfold plain_word, uword. intros H. apply andb_true_iff in H as [H1 H2]. rewrite H1. cbn [andb].
  rewrite forallb_forall in *. intros c Hc. apply H2, cls_eqb_eq in Hc. unfold wchar. now rewrite Hc.
Qed.

Lemma plain_not_bar w : plain_word w = true -> is_bar w = false.
Proof.
  intros H. apply andb_true_iff in H as [_ H]. unfold is_bar.
  destruct w as [|c w]; [reflexivity|]. cbn [forallb] in H. apply andb_true_iff in H as [Hc _].
  apply cls_eqb_eq in Hc. cbn [str_eqb].
  destruct (N.eqb_spec c c_pipe) as [->|_]; [discriminate|]. reflexivity.
Qed.

Lemma qarg_tok_ok a : wf_qarg a = true -> tok_ok (tok_of_qarg a) = true.
Proof.
  destruct a as [t|t]; cbn [wf_qarg tok_of_qarg qarg_tag qarg_text tok_ok]; intros H; [exact H|].
  apply andb_true_iff in H as [H1 H2]. apply negb_true_false in H1, H2. now apply dq_ok_plain.
Qed.

Lemma tokens_to_line_head cmd toks :
  exists rest, tokens_to_line ((TNone, cmd) :: toks) = cmd ++ rest.
Proof.
  destruct (exists_last (l := (TNone, cmd) :: toks)) as (l & t & E); [discriminate|].
  rewrite E, tokens_to_line_snoc. unfold render_ln. cbn [spaces repeat app].
  destruct l as [|t1 l].
  - cbn [app] in E. injection E as <-. exists []. cbn. now rewrite app_nil_r.
  - cbn [app] in E. injection E as <- _. cbn [map render_sp spaces repeat app].
    unfold tok_text at 1. cbn [fst snd tag_eqb]. rewrite <- app_assoc. eexists. reflexivity.
Qed.

Theorem rerender_quoted cmd (args : list (nat * qarg)) :
  plain_word cmd = true -> forallb arith_body cmd = false ->
  forallb (fun '(_, a) => wf_qarg a) args = true ->
  parse_line (rerender (render_cmd cmd args)) = parse_line (render_cmd cmd args).
Proof.
  intros Hw Hna Hargs. unfold rerender. rewrite (parse_line_quoted cmd args Hw Hna Hargs).
  apply parse_tokens_to_line.
  - cbn [forallb tok_ok]. rewrite (plain_not_bar _ Hw), (plain_uword _ Hw). cbn [andb].
    clear Hw Hna. induction args as [|[n a] args IH]; [reflexivity|].
    cbn [forallb] in Hargs. apply andb_true_iff in Hargs as [Ha Hl].
    cbn [map forallb]. rewrite (qarg_tok_ok a Ha). now apply IH.
  - destruct (tokens_to_line_head cmd (map (fun '(_, a) => tok_of_qarg a) args)) as [rest E].
    rewrite E. now apply not_arith.
Qed.
