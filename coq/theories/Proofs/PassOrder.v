(** C12: the ORDER of the passes of do_expansion is part of the transcription; these computed facts about the
    composed model pin the observable consequences of "braces before filename expansion" (regression for a swap). *)
From Coq Require Import List NArith ZArith Bool.
From Cicada Require Import Base.Chars Base.Tag Model.Expand Model.ExpandRef Proofs.ExpandBasics.
From Cicada Require Model.Tokenizer.
Import ListNotations.
From Coq Require String.
Import String.StringSyntax.
Local Open Scope N_scope.

(** a directory holding a1 b1 and a file whose NAME is x{1,2}.log, as a glob oracle *)
Definition W_dir : World :=
  mkWorld (fun _ => None) (fun _ => None) 0%Z 1%Z (s2l "/h")
          (fun p => if str_eqb p (s2l "a*") then Some [s2l "a1"]
                    else if str_eqb p (s2l "b*") then Some [s2l "b1"]
                    else if str_eqb p (s2l "x*.log") then Some [s2l "x{1,2}.log"]
                    else Some [])
          (fun _ => Some []) (fun _ => None).

(** echo {a,b}* : the word is split at the braces FIRST, then each part is expanded against the directory *)
Example brace_then_glob :
  do_expansion Tokenizer.parse_line W_dir 4 [(TNone, s2l "echo"); (TNone, s2l "{a,b}*")]
  = Ok [(TNone, s2l "echo"); (TNone, s2l "a1"); (TNone, s2l "b1")].
Proof. vm_compute. reflexivity. Qed.

(** echo x*.log : a file name that holds a brace group is NOT brace-expanded afterwards *)
Example glob_result_not_braced :
  do_expansion Tokenizer.parse_line W_dir 4 [(TNone, s2l "echo"); (TNone, s2l "x*.log")]
  = Ok [(TNone, s2l "echo"); (TNone, s2l "x{1,2}.log")].
Proof. vm_compute. reflexivity. Qed.

(** echo p{a,b}*q : parts that match nothing stay as the PARTS (p a*q, p b*q), not as the unsplit word *)
Example brace_then_glob_nomatch :
  do_expansion Tokenizer.parse_line W_dir 4 [(TNone, s2l "echo"); (TNone, s2l "p{a,b}*q")]
  = Ok [(TNone, s2l "echo"); (TNone, s2l "pa*q"); (TNone, s2l "pb*q")].
Proof. vm_compute. reflexivity. Qed.
