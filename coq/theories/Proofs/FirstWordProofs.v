(** C05 for the planner: [from_tokens]' [while has_redirect_from] loop always
    ends within the fuel [S (length l)]; the first-word look-ups panic exactly
    when a planned command has no words; a command whose first token is a
    proper word keeps it; the guarded look-ups of the tokenizer never panic. *)
From Coq Require Import Lia Arith.
From Cicada Require Import Base.Chars Base.Tag Model.Tokenizer Model.Redirect Model.Cmds
  Model.Highlight Model.FirstWord.

(** * from_tokens never runs out of fuel *)

Lemma position_lt w l n : position w l = Some n -> (n < length l)%nat.
Proof.
  revert n; induction l as [|[tg x] r IH]; intros n H; cbn [position] in H; [discriminate|].
  destruct (tag_eqb tg TNone && str_eqb x w).
  - injection H as <-. cbn. lia.
  - destruct (position w r) as [m|]; [|discriminate]. injection H as <-. specialize (IH _ eq_refl). cbn. lia.
Qed.

Lemma remove_at_length {A} n (l : list A) : (n < length l)%nat -> length (remove_at n l) = (length l - 1)%nat.
Proof.
  revert n; induction l as [|x r IH]; intros n H; cbn in H; [lia|].
  destruct n; cbn [remove_at length]; [lia|]. rewrite IH by lia. lia.
Qed.

Lemma remove_at_le {A} n (l : list A) : (length (remove_at n l) <= length l)%nat.
Proof.
  revert n; induction l as [|x r IH]; intros n; destruct n; cbn [remove_at length]; try lia.
  specialize (IH n). lia.
Qed.

Definition toks_of (st : list token * str * str) : list token := fst (fst st).

Lemma take_from_le w st : (length (toks_of (take_from w st)) <= length (toks_of st))%nat.
Proof.
  destruct st as [[l ty] va]. unfold take_from, toks_of. cbn [fst].
  destruct (position w l) as [idx|] eqn:P; cbn [fst]; [|lia].
  pose proof (remove_at_le idx l).
  destruct (nth_error (remove_at idx l) idx) as [[? v]|]; cbn [fst]; [|lia].
  pose proof (remove_at_le idx (remove_at idx l)). lia.
Qed.

Lemma take_from_lt w st n : position w (toks_of st) = Some n ->
  (length (toks_of (take_from w st)) < length (toks_of st))%nat.
Proof.
  destruct st as [[l ty] va]. unfold take_from, toks_of. cbn [fst]. intros P. rewrite P.
  pose proof (position_lt _ _ _ P) as Hl. pose proof (remove_at_length n l Hl) as Hr.
  destruct (nth_error (remove_at n l) n) as [[? v]|]; cbn [fst].
  - pose proof (remove_at_le n (remove_at n l)). lia.
  - lia.
Qed.

Lemma take_from_id w st : position w (toks_of st) = None -> take_from w st = st.
Proof. destruct st as [[l ty] va]. unfold take_from, toks_of. cbn [fst]. now intros ->. Qed.

Lemma position_cons_some w t r : position w r <> None -> position w (t :: r) <> None.
Proof.
  destruct t as [tg x]. cbn [position]. intro H.
  destruct (tag_eqb tg TNone && str_eqb x w); [discriminate|].
  destruct (position w r); [discriminate|contradiction].
Qed.

Lemma has_from_position l : has_from l = true -> position s_lt l <> None \/ position s_lt3 l <> None.
Proof.
  induction l as [|[tg x] r IH]; cbn [has_from existsb fst snd]; [discriminate|].
  intro H. apply orb_true_iff in H as [H|H].
  - apply andb_true_iff in H as [Ht Hx]. cbn [position]. rewrite Ht. cbn [andb].
    apply orb_true_iff in Hx as [Hx|Hx]; rewrite Hx; [left|right]; discriminate.
  - destruct (IH H) as [P|P]; [left|right]; now apply position_cons_some.
Qed.

Lemma from_body_lt st : has_from (toks_of st) = true ->
  (length (toks_of (take_from s_lt3 (take_from s_lt st))) < length (toks_of st))%nat.
Proof.
  intro H. destruct (position s_lt (toks_of st)) as [n|] eqn:P1.
  - pose proof (take_from_lt _ _ _ P1). pose proof (take_from_le s_lt3 (take_from s_lt st)). lia.
  - rewrite (take_from_id _ _ P1). destruct (has_from_position _ H) as [C|C]; [congruence|].
    destruct (position s_lt3 (toks_of st)) as [n|] eqn:P3; [|congruence].
    exact (take_from_lt _ _ _ P3).
Qed.

Lemma from_loop_total : forall fuel st, (length (toks_of st) < fuel)%nat -> from_loop fuel st <> None.
Proof.
  induction fuel as [|f IH]; intros st H; [lia|].
  destruct st as [[l ty] va]. cbn [from_loop]. destruct (has_from l) eqn:HF; [|discriminate].
  apply IH. pose proof (from_body_lt (l, ty, va) HF). unfold toks_of in *. cbn [fst] in *. lia.
Qed.

(** The loop [while has_redirect_from] of [Command::from_tokens] ends for every token list. *)
Lemma from_tokens_core_total l : from_tokens_core l <> inr PFuel.
Proof.
  unfold from_tokens_core. destruct (from_loop (S (length l)) (l, [], [])) as [[[l' ty] va]|] eqn:E.
  - destruct (tokens_to_redirections l') as [[tk rd]|e]; discriminate.
  - exfalso. apply (from_loop_total (S (length l)) (l, [], [])); [cbn; lia|exact E].
Qed.

(** ... also with the split of attached [<file] words in front of it (/repo 543507e): the fuel is computed
    from the list that enters the loop *)
Theorem from_tokens_total l : from_tokens l <> inr PFuel.
Proof. unfold from_tokens. apply from_tokens_core_total. Qed.

Lemma map_cmds_total segs : map_cmds segs <> inr PFuel.
Proof.
  induction segs as [|t r IH]; cbn [map_cmds]; [discriminate|].
  destruct (from_tokens t) as [c|e] eqn:E.
  - destruct (is_empty (c_tokens c)); [discriminate|].
    destruct (map_cmds r) as [cs'|e']; [discriminate|]. intro H. injection H as ->. now apply IH.
  - intro H. injection H as ->. now apply (from_tokens_total t).
Qed.

(** Planning a token list never diverges: the only failures are the five
    redirection syntax errors or the empty-command error. *)
Theorem plan_tokens_total toks : plan_tokens toks <> inr PFuel.
Proof.
  unfold plan_tokens. destruct (drain_envs toks []) as [envs tk].
  match goal with |- context [map_cmds ?x] => pose proof (map_cmds_total x) as H; destruct (map_cmds x) end;
    [discriminate|congruence].
Qed.

(** * first-word look-ups *)

Lemma empty_stages_nil : forall l i, empty_stages i l = [] <-> existsb no_words l = false.
Proof.
  induction l as [|c r IH]; intros i; cbn [empty_stages existsb]; [tauto|].
  destruct (no_words c); cbn [orb]; [split; discriminate|apply IH].
Qed.

(** Exact: on a non-arithmetic line the look-ups are panic free iff no planned command is wordless. *)
Theorem first_word_exact cl :
  (first_word_lookups false cl = FwSkip \/ first_word_lookups false cl = FwRun []) <->
  plans_empty_command cl = false.
Proof.
  unfold first_word_lookups, plans_empty_command. destruct (cl_cmds cl) as [|c0 rest] eqn:E.
  - cbn. tauto.
  - cbn [existsb]. destruct (no_words c0) eqn:N0; cbn [orb].
    + split; [intros [H|H]; discriminate|discriminate].
    + destruct rest as [|c1 r].
      * cbn. tauto.
      * split.
        -- intros [H|H]; [discriminate|].
           assert (H' : empty_stages 0 (c0 :: c1 :: r) = []) by (injection H; auto).
           apply (empty_stages_nil _ 0) in H'. cbn [existsb] in H'. now rewrite N0 in H'.
        -- intro H. right. f_equal. apply (empty_stages_nil _ 0). cbn [existsb]. now rewrite N0.
Qed.

(** The shell itself panics iff the FIRST command has no words (core.rs:626);
    the index in [is_builtin] (types.rs:232) is never the failing one in the shell. *)
Theorem shell_panic_iff cl :
  first_word_lookups false cl = FwPanicShell <-> exists c0 r, cl_cmds cl = c0 :: r /\ no_words c0 = true.
Proof.
  unfold first_word_lookups. destruct (cl_cmds cl) as [|c0 rest].
  - split; [discriminate|]. intros (? & ? & H & _). discriminate.
  - destruct (no_words c0) eqn:N0.
    + split; [|reflexivity]. intros _. now exists c0, rest.
    + split.
      * destruct rest; discriminate.
      * intros (? & ? & H & N). injection H as <- <-. congruence.
Qed.

(** * a command that starts with a proper word keeps it *)

Lemma safe_not_op t w : safe_word t = true -> (str_eqb w s_lt || str_eqb w s_lt3) = true ->
  (tag_eqb (fst t) TNone && str_eqb (snd t) w) = false.
Proof.
  destruct t as [tg x]. unfold safe_word. cbn [fst snd]. intros S W.
  destruct (tag_eqb tg TNone); cbn [negb orb andb] in *; [|reflexivity].
  destruct (str_eqb x w) eqn:E; [|reflexivity]. apply str_eqb_eq in E. subst x.
  apply andb_true_iff in S as [S S4]. apply andb_true_iff in S as [S S3]. apply andb_true_iff in S as [_ S1].
  apply orb_true_iff in W as [W|W]; rewrite W in *; discriminate.
Qed.

Lemma take_from_head w t l ty va : safe_word t = true -> (str_eqb w s_lt || str_eqb w s_lt3) = true ->
  exists l' ty' va', take_from w (t :: l, ty, va) = (t :: l', ty', va').
Proof.
  intros S W. unfold take_from. cbn [position]. destruct t as [tg x].
  pose proof (safe_not_op (tg, x) w S W) as N. cbn [fst snd] in N. rewrite N.
  destruct (position w l) as [n|]; [|now eexists _, _, _].
  cbn [remove_at nth_error].
  destruct (nth_error (remove_at n l) n) as [[? v]|]; cbn [remove_at]; now eexists _, _, _.
Qed.

Lemma from_loop_head : forall fuel t l ty va st', safe_word t = true ->
  from_loop fuel (t :: l, ty, va) = Some st' -> exists l', toks_of st' = t :: l'.
Proof.
  induction fuel as [|f IH]; intros t l ty va st' S H; cbn [from_loop] in H.
  - destruct (has_from (t :: l)); [discriminate|]. injection H as <-. now exists l.
  - destruct (has_from (t :: l)); [|injection H as <-; now exists l].
    destruct (take_from_head s_lt t l ty va S eq_refl) as (l1 & ty1 & va1 & E1). rewrite E1 in H.
    destruct (take_from_head s_lt3 t l1 ty1 va1 S eq_refl) as (l2 & ty2 & va2 & E2). rewrite E2 in H.
    eapply IH; eauto.
Qed.

Lemma redir_step_mono s t s' : redir_step s t = inl s' -> exists x, r_new s' = r_new s ++ x.
Proof.
  unfold redir_step. destruct t as [sep word].
  destruct (negb (tag_eqb sep TNone) && negb (r_tbc s)).
  { intro H; injection H as <-. now eexists. }
  destruct (r_tbc s).
  { destruct (tag_eqb sep TNone && starts_with_c c_amp word); [discriminate|].
    destruct (all_nd (r_s1 s)).
    - destruct (negb (str_eqb (r_s1 s) s_one) && negb (str_eqb (r_s1 s) s_two)); [discriminate|].
      intro H; injection H as <-. exists []. cbn. now rewrite app_nil_r.
    - intro H; injection H as <-. cbn [r_new]. destruct (is_empty (r_s1 s)); [exists []; now rewrite app_nil_r|now eexists]. }
  destruct (negb (has_char c_gt word)).
  { intro H; injection H as <-. now eexists. }
  destruct (match_gt word) as [s1 s2 s3|s1 s2|].
  - destruct (starts_with_c c_amp s3 && negb (str_eqb s3 s_amp1) && negb (str_eqb s3 s_amp2)); [discriminate|].
    destruct (all_nd s1).
    + destruct (negb (str_eqb s1 s_one) && negb (str_eqb s1 s_two)); [discriminate|].
      intro H; injection H as <-. exists []. cbn. now rewrite app_nil_r.
    + intro H; injection H as <-. cbn [r_new]. destruct (is_empty s1); [exists []; now rewrite app_nil_r|now eexists].
  - intro H; injection H as <-. exists []. cbn. now rewrite app_nil_r.
  - intro H; injection H as <-. exists []. now rewrite app_nil_r.
Qed.

Lemma redir_loop_mono : forall l s s', redir_loop s l = inl s' -> exists x, r_new s' = r_new s ++ x.
Proof.
  induction l as [|t r IH]; intros s s' H; cbn [redir_loop] in H.
  - injection H as <-. exists []. now rewrite app_nil_r.
  - destruct (redir_step s t) as [s1|e] eqn:E; [|discriminate].
    destruct (redir_step_mono _ _ _ E) as [x Hx]. destruct (IH _ _ H) as [y Hy].
    exists (x ++ y). now rewrite Hy, Hx, app_assoc.
Qed.

Lemma redir_first_safe t : safe_word t = true ->
  redir_step (mkr [] [] false [] []) t = inl (mkr [t] [] false [] []).
Proof.
  destruct t as [tg w]. unfold safe_word, redir_step. cbn [fst snd r_tbc r_new r_red r_s1 r_s2 negb andb].
  intro S. destruct (tag_eqb tg TNone); cbn [negb andb orb] in *; [|reflexivity].
  apply andb_true_iff in S as [S _]. apply andb_true_iff in S as [S _]. apply andb_true_iff in S as [S _]. now rewrite S.
Qed.

(** If the first token of a pipeline stage is a proper word (quoted, or free
    of [>] and not [<] / [<<<]), the planned command keeps it as its first
    word: such a stage can never be wordless. *)
Lemma safe_word_not_att t : safe_word t = true -> att_lt t = false.
Proof.
  destruct t as [tg w]. unfold safe_word. cbn [fst snd]. destruct tg; try reflexivity.
  cbn [tag_eqb negb orb]. intro H. repeat (apply andb_true_iff in H as [H ?]).
  destruct w as [|c [|c2 r]]; try reflexivity. cbn.
  match goal with H : negb (starts_with_c c_lt _) = true |- _ => apply negb_true_iff in H; cbn in H; rewrite H end.
  reflexivity.
Qed.

Theorem from_tokens_head_word t l c : safe_word t = true ->
  from_tokens (t :: l) = inl c -> exists r, c_tokens c = t :: r.
Proof.
  intros HS H. unfold from_tokens in H.
  assert (HA : att_lt t = false) by (apply safe_word_not_att; exact HS).
  change (split_lts (t :: l)) with (split_lt t ++ split_lts l) in H. unfold split_lt in H. rewrite HA in H.
  cbn [app] in H. unfold from_tokens_core in H. set (l0 := split_lts l) in *.
  destruct (from_loop (S (length (t :: l0))) (t :: l0, [], [])) as [[[l' ty] va]|] eqn:E; [|discriminate].
  destruct (from_loop_head _ _ _ _ _ _ HS E) as [l2 Hl]. unfold toks_of in Hl. cbn [fst] in Hl. subst l'.
  unfold tokens_to_redirections in H. cbn [redir_loop] in H. rewrite (redir_first_safe t HS) in H.
  destruct (redir_loop (mkr [t] [] false [] []) l2) as [s'|e] eqn:EL; [|discriminate].
  destruct (redir_loop_mono _ _ _ EL) as [x Hx]. cbn [r_new] in Hx.
  destruct (r_tbc s'); [discriminate|]. injection H as <-. cbn [c_tokens]. rewrite Hx. now exists x.
Qed.

Definition head_safe (seg : list token) : bool :=
  match seg with t :: _ => safe_word t | [] => false end.

Lemma map_cmds_words : forall segs cs, map_cmds segs = inl cs -> existsb no_words cs = false.
Proof.
  induction segs as [|seg r IH]; intros cs H; cbn [map_cmds] in H.
  - injection H as <-. reflexivity.
  - destruct (from_tokens seg) as [c|e]; [|discriminate].
    destruct (is_empty (c_tokens c)) eqn:N; [discriminate|].
    destruct (map_cmds r) as [cs'|e] eqn:E; [|discriminate]. injection H as <-.
    cbn [existsb]. unfold no_words at 1. rewrite N. cbn [orb]. now apply IH.
Qed.

(** stages that all start with a proper word are never rejected as empty *)
Lemma map_cmds_head_safe : forall segs, forallb head_safe segs = true -> map_cmds segs <> inr PEmpty.
Proof.
  induction segs as [|seg r IH]; intros HS; cbn [map_cmds]; [discriminate|].
  cbn [forallb] in HS. apply andb_true_iff in HS as [H1 H2].
  destruct (from_tokens seg) as [c|e] eqn:E.
  - destruct seg as [|t l]; [discriminate|]. cbn [head_safe] in H1.
    destruct (from_tokens_head_word _ _ _ H1 E) as [x Hx]. rewrite Hx. cbn [is_empty].
    specialize (IH H2). destruct (map_cmds r) as [cs|e']; [discriminate|]. intro H. injection H as ->. contradiction.
  - intro H. injection H as ->. unfold from_tokens, from_tokens_core in E.
    destruct (from_loop _ _) as [[[l' ty] va]|]; [|discriminate].
    destruct (tokens_to_redirections l') as [[tk rd]|e]; discriminate.
Qed.

(** * guarded look-ups of the tokenizer *)

Lemma nth_error_skipn {A} (l : list A) n : nth_error l n = match skipn n l with x :: _ => Some x | [] => None end.
Proof.
  revert n; induction l as [|x r IH]; intros n; destruct n; cbn [nth_error skipn]; try reflexivity. apply IH.
Qed.

(** the unwrap after [i + 1 < count_chars] never fails, and the value is the
    look-ahead the structural model hands to [step] *)
Theorem lookahead_guarded_ok l i : lookahead_guarded l i = Ok (peek (skipn (i + 1) l)).
Proof.
  unfold lookahead_guarded, peek. rewrite nth_error_skipn.
  destruct (Nat.ltb (i + 1) (length l)) eqn:L.
  - apply Nat.ltb_lt in L. destruct (skipn (i + 1) l) eqn:E; [|reflexivity].
    exfalso. assert (H : length (skipn (i + 1) l) = 0%nat) by now rewrite E. rewrite skipn_length in H. lia.
  - apply Nat.ltb_ge in L. now rewrite skipn_all2 by lia.
Qed.

Theorem rparen_guarded_ok l i : (i < length l)%nat -> exists b, rparen_guarded l i = Ok b.
Proof.
  intro H. unfold rparen_guarded. destruct (length l) as [|m] eqn:E; [lia|].
  destruct (Nat.eqb i m); [now eexists|]. rewrite lookahead_guarded_ok.
  destruct (peek (skipn (i + 1) l)); now eexists.
Qed.

Theorem last_guarded_ok {A} (r : list A) : exists o, last_guarded r = Ok o.
Proof.
  unfold last_guarded. destruct r as [|x r']; cbn [is_empty]; [now eexists|].
  destruct (nth_error (x :: r') (length (x :: r') - 1)) eqn:E; [now eexists|].
  apply nth_error_None in E. cbn [length] in E. lia.
Qed.

(** * the planner (with the empty-command check of baff407) satisfies the full statement *)
Theorem plan_full toks cl : plan_tokens toks = inl cl ->
  first_word_lookups false cl = FwSkip \/ first_word_lookups false cl = FwRun [].
Proof.
  intro H. apply first_word_exact. unfold plans_empty_command.
  unfold plan_tokens in H. destruct (drain_envs toks []) as [envs tk].
  match type of H with context [map_cmds ?x] =>
    destruct (map_cmds x) as [cs|e] eqn:E; [|discriminate] end.
  injection H as <-. cbn [cl_cmds]. now apply (map_cmds_words _ _ E).
Qed.

(** where the planner before the fix yielded no wordless command, the fix changes nothing *)
Lemma map_cmds_old_same : forall segs cs, map_cmds_old segs = inl cs -> existsb no_words cs = false ->
  map_cmds segs = inl cs.
Proof.
  induction segs as [|seg r IH]; intros cs H N; cbn [map_cmds map_cmds_old] in *.
  - exact H.
  - destruct (from_tokens seg) as [c|e]; [|discriminate].
    destruct (map_cmds_old r) as [cs'|e] eqn:E; [|discriminate]. injection H as <-.
    cbn [existsb] in N. apply orb_false_iff in N as [N1 N2]. unfold no_words in N1. rewrite N1.
    now rewrite (IH _ eq_refl N2).
Qed.

Theorem plan_old_conservative toks cl : plan_tokens_old toks = inl cl -> plans_empty_command cl = false ->
  plan_tokens toks = inl cl.
Proof.
  unfold plan_tokens, plan_tokens_old, plans_empty_command. destruct (drain_envs toks []) as [envs tk].
  match goal with |- context [map_cmds_old ?x] => destruct (map_cmds_old x) as [cs|e] eqn:E; [|discriminate] end.
  intros H N. injection H as <-. cbn [cl_cmds] in N. now rewrite (map_cmds_old_same _ _ E N).
Qed.

(** and where it now fails with [PEmpty] or succeeds, the old planner agreed on every other error *)
Lemma map_cmds_old_err : forall segs e, map_cmds segs = inr e -> e <> PEmpty -> map_cmds_old segs = inr e.
Proof.
  induction segs as [|seg r IH]; intros e H N; cbn [map_cmds map_cmds_old] in *; [discriminate|].
  destruct (from_tokens seg) as [c|e0]; [|exact H].
  destruct (is_empty (c_tokens c)); [injection H as <-; contradiction|].
  destruct (map_cmds r) as [cs|e1] eqn:E; [discriminate|]. injection H as ->. now rewrite (IH _ eq_refl N).
Qed.
