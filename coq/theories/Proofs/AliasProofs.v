(** Proofs about Model/Alias.v (C17). *)
From Coq Require Import Lia.
From Cicada Require Import Base.Chars Base.Tag Model.Alias.
Local Open Scope N_scope.

(* ------------------------------------------------------------------ table = finite map *)
Lemma str_eqb_sym a b : str_eqb a b = str_eqb b a.
Proof.
  destruct (str_eqb a b) eqn:E.
  - apply str_eqb_eq in E. subst. symmetry. apply str_eqb_refl.
  - destruct (str_eqb b a) eqn:E2; [|reflexivity]. apply str_eqb_eq in E2. subst. now rewrite str_eqb_refl in E.
Qed.

Lemma lookup_remove : forall t n m, lookup (remove t n) m = if str_eqb n m then None else lookup t m.
Proof.
  induction t as [|[k v] t IH]; intros n m; cbn.
  - now destruct (str_eqb n m).
  - destruct (str_eqb k n) eqn:E.
    + apply str_eqb_eq in E. subst k. rewrite IH. now destruct (str_eqb n m).
    + cbn. rewrite IH. destruct (str_eqb k m) eqn:E2; [|reflexivity].
      apply str_eqb_eq in E2. subst k. rewrite str_eqb_sym, E. reflexivity.
Qed.

Lemma lookup_add : forall t n v m, lookup (add_alias t n v) m = if str_eqb n m then Some v else lookup t m.
Proof. intros. unfold add_alias. cbn. rewrite lookup_remove. now destruct (str_eqb n m). Qed.

Lemma remove_alias_spec : forall t n,
  snd (remove_alias t n) = is_alias t n /\
  forall m, lookup (fst (remove_alias t n)) m = if str_eqb n m then None else lookup t m.
Proof. intros. split; [reflexivity|]. intro m. apply lookup_remove. Qed.

Lemma in_keys_remove : forall t n k, In k (map fst (remove t n)) -> In k (map fst t) /\ k <> n.
Proof.
  induction t as [|[k0 v] t IH]; intros n k H; [contradiction|]. cbn in H.
  destruct (str_eqb k0 n) eqn:E.
  - apply IH in H as [H1 H2]. split; [now right|exact H2].
  - cbn in H. destruct H as [<-|H].
    + split; [now left|]. now apply str_eqb_neq.
    + apply IH in H as [H1 H2]. split; [now right|exact H2].
Qed.

Lemma nodup_remove : forall t n, NoDup (map fst t) -> NoDup (map fst (remove t n)).
Proof.
  induction t as [|[k v] t IH]; intros n H; [constructor|]. cbn in *. inversion H as [|? ? Hn Hd]; subst.
  destruct (str_eqb k n); [now apply IH|]. cbn. constructor; [|now apply IH].
  intro X. apply in_keys_remove in X as [X _]. contradiction.
Qed.

Lemma nodup_add : forall t n v, NoDup (map fst t) -> NoDup (map fst (add_alias t n v)).
Proof.
  intros t n v H. unfold add_alias. cbn. constructor; [|now apply nodup_remove].
  intro X. apply in_keys_remove in X as [_ X]. now apply X.
Qed.

Lemma not_alias_no_content : forall t n, is_alias t n = false -> get_alias_content t n = None.
Proof. intros t n H. unfold is_alias, get_alias_content in *. now destruct (lookup t n). Qed.

(* ------------------------------------------------------------------ expand_alias = one structural pass *)
Section Expand.
  Variable tokenize : str -> list token.

  Lemma firstn_len_app : forall (pre post : list token), firstn (length pre) (pre ++ post) = pre.
  Proof. induction pre as [|x pre IH]; intro post; cbn; [reflexivity|]. now rewrite IH. Qed.
  Lemma skipn_len_app : forall (pre post : list token), skipn (length pre) (pre ++ post) = post.
  Proof. induction pre as [|x pre IH]; intro post; cbn; [reflexivity|]. apply IH. Qed.

  Lemma replace_at_app : forall pre x post new,
    replace_at (length pre) new (pre ++ x :: post) = pre ++ new ++ post.
  Proof.
    intros. unfold replace_at. rewrite firstn_len_app.
    change (S (length pre)) with (length (x :: nil) + length pre)%nat.
    replace (length (x :: nil) + length pre)%nat with (length (pre ++ [x])) by (rewrite app_length; cbn; lia).
    replace (pre ++ x :: post) with ((pre ++ [x]) ++ post) by (rewrite <- app_assoc; reflexivity).
    now rewrite skipn_len_app.
  Qed.

  Let F := fun (acc : list token) (iv : nat * str) => replace_at (fst iv) (tokenize (snd iv)) acc.

  Lemma expand_gen : forall t toks pre h,
    fold_left F (rev (scan t toks (length pre) h)) (pre ++ toks) = pre ++ expand_spec tokenize t toks h.
  Proof.
    induction toks as [|[sep text] rest IH]; intros pre h; [reflexivity|].
    cbn [scan expand_spec].
    set (tk := ((sep, text) : token)).
    assert (Hlen : S (length pre) = length (pre ++ [tk])) by (rewrite app_length; cbn; lia).
    assert (Hasm : forall X : list token, pre ++ tk :: X = (pre ++ [tk]) ++ X)
      by (intro X; rewrite <- app_assoc; reflexivity).
    destruct (tag_eqb sep TNone && str_eqb text s_pipe).
    { rewrite Hlen, (Hasm rest), IH, <- Hasm. reflexivity. }
    destruct (h && str_eqb text s_xargs).
    { rewrite Hlen, (Hasm rest), IH, <- Hasm. reflexivity. }
    destruct h; cbn [negb orb].
    - destruct (is_alias t text) eqn:Ea; cbn [negb].
      + destruct (get_alias_content t text) as [v|].
        * cbn [rev]. rewrite fold_left_app. rewrite Hlen, (Hasm rest), IH, <- Hasm.
          cbn [fold_left]. unfold F at 1. cbn [fst snd]. apply replace_at_app.
        * rewrite Hlen, (Hasm rest), IH, <- Hasm. reflexivity.
      + rewrite (not_alias_no_content t text Ea). rewrite Hlen, (Hasm rest), IH, <- Hasm. reflexivity.
    - rewrite Hlen, (Hasm rest), IH, <- Hasm. reflexivity.
  Qed.

  Theorem expand_once : forall t toks, expand_alias tokenize t toks = expand_spec tokenize t toks true.
  Proof. intros. unfold expand_alias. exact (expand_gen t toks [] true). Qed.

  (* ---- consequences in the vocabulary of the property *)
  Definition is_pipe (tk : token) : bool := tag_eqb (fst tk) TNone && str_eqb (snd tk) s_pipe.
  Definition pipe_free (l : list token) : bool := forallb (fun tk => negb (is_pipe tk)) l.

  Lemma spec_nonhead_id : forall t l, pipe_free l = true -> expand_spec tokenize t l false = l.
  Proof.
    induction l as [|[sep text] l IH]; intro H; [reflexivity|]. cbn in H. apply andb_true_iff in H as [H1 H2].
    unfold is_pipe in H1. cbn [fst snd] in H1. apply negb_true_iff in H1.
    cbn [expand_spec]. rewrite H1. cbn [andb]. now rewrite IH.
  Qed.

  (** stages are independent: an untagged pipe token restarts head detection *)
  Lemma spec_stage_split : forall t a b h, pipe_free a = true ->
    expand_spec tokenize t (a ++ (TNone, s_pipe) :: b) h =
    expand_spec tokenize t a h ++ (TNone, s_pipe) :: expand_spec tokenize t b true.
  Proof.
    intros t a b h H. revert h H. induction a as [|[sep text] a IH]; intros h H.
    - reflexivity.
    - cbn in H. apply andb_true_iff in H as [H1 H2]. unfold is_pipe in H1. cbn [fst snd] in H1.
      apply negb_true_iff in H1. cbn [app expand_spec]. rewrite H1.
      destruct (h && str_eqb text s_xargs); [now rewrite IH|].
      destruct h; [|now rewrite IH].
      destruct (get_alias_content t text); rewrite IH; auto. now rewrite app_assoc.
  Qed.

  (** head of a stage that is an alias: the stage runs as if the value had been written there *)
  Lemma stage_alias : forall t sep text rest v,
    is_pipe (sep, text) = false -> str_eqb text s_xargs = false ->
    get_alias_content t text = Some v -> pipe_free rest = true ->
    expand_alias tokenize t ((sep, text) :: rest) = tokenize v ++ rest.
  Proof.
    intros t sep text rest v Hp Hx Hc Hr. rewrite expand_once. cbn [expand_spec].
    unfold is_pipe in Hp. cbn [fst snd] in Hp. rewrite Hp, Hx, Hc. cbn [andb]. now rewrite spec_nonhead_id.
  Qed.

  (** head that is no alias (or an alias with an empty value): the stage is unchanged *)
  Lemma stage_plain : forall t sep text rest,
    is_pipe (sep, text) = false -> str_eqb text s_xargs = false ->
    get_alias_content t text = None -> pipe_free rest = true ->
    expand_alias tokenize t ((sep, text) :: rest) = (sep, text) :: rest.
  Proof.
    intros t sep text rest Hp Hx Hc Hr. rewrite expand_once. cbn [expand_spec].
    unfold is_pipe in Hp. cbn [fst snd] in Hp. rewrite Hp, Hx, Hc. cbn [andb]. now rewrite spec_nonhead_id.
  Qed.

  (** xargs at the head of a stage is skipped: the word after it is still a head *)
  Lemma stage_xargs : forall t sep rest,
    is_pipe (sep, s_xargs) = false ->
    expand_spec tokenize t ((sep, s_xargs) :: rest) true = (sep, s_xargs) :: expand_spec tokenize t rest true.
  Proof.
    intros t sep rest Hp. cbn [expand_spec]. unfold is_pipe in Hp. cbn [fst snd] in Hp. rewrite Hp.
    rewrite str_eqb_refl. reflexivity.
  Qed.
End Expand.

(* ------------------------------------------------------------------ listing *)
Lemma split_def_name : forall n acc r,
  forallb is_name_char n = true -> is_empty (acc ++ n) = false ->
  existsb (fun x => x =? c_nl) r = false ->
  split_def (n ++ c_eq :: r) acc = Some (acc ++ n, r).
Proof.
  induction n as [|c n IH]; intros acc r Hn Hne Hr.
  - rewrite app_nil_r in *. cbn [app split_def]. change (is_name_char c_eq) with false. cbv iota.
    rewrite N.eqb_refl, Hne, Hr. reflexivity.
  - cbn in Hn. apply andb_true_iff in Hn as [Hc Hn]. cbn [app split_def]. rewrite Hc.
    replace (acc ++ c :: n) with ((acc ++ [c]) ++ n) in * by (rewrite <- app_assoc; reflexivity).
    now apply IH.
Qed.

Lemma is_name_def_false : forall n r, is_name (n ++ c_eq :: r) = false.
Proof.
  intros. unfold is_name. rewrite forallb_app. cbn [forallb]. change (is_name_char c_eq) with false.
  cbn [andb]. now rewrite !andb_false_r.
Qed.

Definition has_nl (s : str) : bool := existsb (fun c => c =? c_nl) s.

Lemma nl_wrap : forall q v, (q =? c_nl) = false -> has_nl v = false ->
  existsb (fun x : char => x =? c_nl) (q :: v ++ [q]) = false.
Proof.
  intros q v Hq Hl. change (has_nl (q :: v ++ [q]) = false). unfold has_nl in *.
  cbn [existsb]. rewrite existsb_app.
  assert (X : forall b : bool, b = false -> (q =? c_nl) || (b || existsb (fun c : N => c =? c_nl) [q]) = false)
    by (intros b ->; cbn; rewrite Hq; reflexivity).
  apply X. exact Hl.
Qed.

(** the failing class that remains: a single quote together with a character special inside double quotes *)
Definition Known_C17 (v : str) : bool := has_sq v && has_special v.

Section Listing.
  Variable unquote : str -> str.
  (** what the real unquote does on the shapes that occur (checked against the
      implementation by the correspondence layers, not proved about the tokenizer) *)
  Hypothesis unquote_name : forall n, is_name n = true -> unquote n = n.
  Hypothesis unquote_sq : forall v, has_sq v = false -> unquote (c_sq :: v ++ [c_sq]) = v.
  Hypothesis unquote_dq : forall v, has_special v = false -> unquote (c_dq :: v ++ [c_dq]) = v.

  (** How the tokenizer may deliver the argument of a listing line: with the quotes
      kept and no tag, or with the quotes removed and the tag of the quote. *)
  Inductive delivered (n v : str) : token -> Prop :=
  | DKept : delivered n v (TNone, n ++ c_eq :: (if list_dq v then c_dq else c_sq) :: v ++ [if list_dq v then c_dq else c_sq])
  | DStripped : delivered n v (if list_dq v then TDq else TSq, n ++ c_eq :: v).

  Lemma relist_one : forall t n v tk, is_name n = true -> Known_C17 v = false -> has_nl v = false ->
    delivered n v tk -> alias_builtin unquote t [tk] = (add_alias t n v, OutNone).
  Proof.
    intros t n v tk Hn Hk Hl D.
    pose proof Hn as Hn'. unfold is_name in Hn'. apply andb_true_iff in Hn' as [Hne Hnc]. apply negb_true_iff in Hne.
    destruct D.
    - (* quotes kept *)
      unfold alias_builtin. rewrite is_name_def_false.
      destruct (list_dq v) eqn:Ld.
      + rewrite (split_def_name n [] (c_dq :: v ++ [c_dq])); [| exact Hnc | exact Hne | now apply nl_wrap].
        cbn [app tag_eqb andb starts_with_quote]. rewrite N.eqb_refl. cbn [orb].
        rewrite (unquote_name n Hn). unfold list_dq in Ld. apply andb_true_iff in Ld as [_ Ld].
        apply negb_true_iff in Ld. rewrite (unquote_dq v Ld). reflexivity.
      + rewrite (split_def_name n [] (c_sq :: v ++ [c_sq])); [| exact Hnc | exact Hne | now apply nl_wrap].
        cbn [app tag_eqb andb starts_with_quote]. rewrite N.eqb_refl, orb_true_r.
        rewrite (unquote_name n Hn).
        assert (Hs : has_sq v = false).
        { unfold Known_C17 in Hk. unfold list_dq in Ld. destruct (has_sq v); [|reflexivity].
          cbn in Hk, Ld. rewrite Hk in Ld. discriminate. }
        rewrite (unquote_sq v Hs). reflexivity.
    - (* quotes removed by the tokenizer: verbatim *)
      unfold alias_builtin. rewrite is_name_def_false.
      rewrite (split_def_name n [] v); [| exact Hnc | exact Hne | exact Hl].
      cbn [app]. rewrite (unquote_name n Hn).
      destruct (list_dq v); reflexivity.
  Qed.

  (** feeding a whole listing back, starting from any table, with any admissible delivery *)
  Variable deliver : str -> str -> token.
  Hypothesis deliver_ok : forall n v, delivered n v (deliver n v).

  Definition relist (t0 : table) (l : table) : table :=
    fold_left (fun acc kv => fst (alias_builtin unquote acc [deliver (fst kv) (snd kv)])) l t0.

  Definition listable (t : table) : Prop :=
    forall k v, In (k, v) t -> is_name k = true /\ Known_C17 v = false /\ has_nl v = false.

  Lemma relist_is_adds : forall l t0, listable l ->
    relist t0 l = fold_left (fun acc kv => add_alias acc (fst kv) (snd kv)) l t0.
  Proof.
    induction l as [|[k v] l IH]; intros t0 H; [reflexivity|].
    unfold relist. cbn [fold_left fst snd].
    destruct (H k v (or_introl eq_refl)) as (H1 & H2 & H3).
    rewrite (relist_one t0 k v _ H1 H2 H3 (deliver_ok k v)). cbn [fst]. apply IH.
    intros k' v' Hin. apply H. now right.
  Qed.

  Lemma lookup_fold_adds : forall l t0 m, NoDup (map fst l) ->
    lookup (fold_left (fun acc kv => add_alias acc (fst kv) (snd kv)) l t0) m =
    match lookup l m with Some v => Some v | None => lookup t0 m end.
  Proof.
    induction l as [|[k v] l IH]; intros t0 m Hd; [reflexivity|].
    cbn [fold_left fst snd map] in *. inversion Hd as [|? ? Hn Hd']; subst.
    rewrite (IH _ m Hd'). cbn [lookup]. rewrite lookup_add.
    destruct (lookup l m) as [v'|] eqn:E.
    - destruct (str_eqb k m) eqn:Ek; [|reflexivity].
      apply str_eqb_eq in Ek. subst m. exfalso. apply Hn.
      clear -E. induction l as [|[k2 v2] l IH]; [discriminate|]. cbn in *.
      destruct (str_eqb k2 k) eqn:E2; [left; now apply str_eqb_eq|right; now apply IH].
    - destruct (str_eqb k m); reflexivity.
  Qed.

  (** C17_listing (partial): a fresh shell fed the listing of t has the same alias map as t *)
  Theorem relist_recreates : forall t, NoDup (map fst t) -> listable t ->
    forall m, lookup (relist [] t) m = lookup t m.
  Proof.
    intros t Hd Hl m. rewrite (relist_is_adds t [] Hl), (lookup_fold_adds t [] m Hd).
    now destruct (lookup t m).
  Qed.
End Listing.

(** Reading a quoted word (no escape inside; the double-quoted form is only used for
    values without characters special inside double quotes). *)
Definition has_q (q : char) (s : str) : bool := existsb (fun c => c =? q) s.

Lemma q_read_no_q : forall q s v rest, q_read q s = Some (v, rest) -> has_q q v = false.
Proof.
  induction s as [|c s IH]; intros v rest H; [discriminate|]. cbn in H.
  destruct (c =? q) eqn:E.
  - injection H as <- <-. reflexivity.
  - destruct (q_read q s) as [[v' r']|] eqn:L; [|discriminate]. injection H as <- <-.
    unfold has_q. cbn [existsb]. rewrite E. exact (IH _ _ eq_refl).
Qed.

Lemma q_read_plain : forall q v rest, has_q q v = false -> q_read q (v ++ q :: rest) = Some (v, rest).
Proof.
  induction v as [|c v IH]; intros rest H.
  - cbn. now rewrite N.eqb_refl.
  - unfold has_q in H. cbn [existsb] in H. apply orb_false_iff in H as [Hc Hv].
    cbn [app q_read]. rewrite Hc. fold (has_q q v) in Hv. now rewrite (IH rest Hv).
Qed.

Lemma sq_read_iff : forall v rest, sq_read (v ++ c_sq :: rest) = Some (v, rest) <-> has_sq v = false.
Proof. intros. split; [apply (q_read_no_q c_sq)|apply (q_read_plain c_sq)]. Qed.

(** reading back the quoted word of the listing line of v *)
Definition read_listed (v : str) : option (str * str) :=
  if list_dq v then q_read c_dq (v ++ [c_dq]) else q_read c_sq (v ++ [c_sq]).

Lemma special_has_dq : forall v, has_special v = false -> has_q c_dq v = false.
Proof.
  induction v as [|c v IH]; intro H; [reflexivity|]. unfold has_special in H. cbn [existsb] in H.
  apply orb_false_iff in H as [Hc Hv]. unfold is_dq_special in Hc.
  apply orb_false_iff in Hc as [Hc _]. apply orb_false_iff in Hc as [Hc _]. apply orb_false_iff in Hc as [Hc _].
  unfold has_q. cbn [existsb]. rewrite Hc. exact (IH Hv).
Qed.

Lemma read_listed_iff : forall v, read_listed v = Some (v, []) <-> Known_C17 v = false.
Proof.
  intro v. unfold read_listed, Known_C17, list_dq. destruct (has_sq v) eqn:Hs; cbn [andb].
  - destruct (has_special v) eqn:Hp; cbn [negb].
    + split; [|discriminate]. intro H. apply (q_read_no_q c_sq) in H. unfold has_sq in Hs. unfold has_q in H. congruence.
    + split; [reflexivity|]. intros _. apply q_read_plain. now apply special_has_dq.
  - split; [reflexivity|]. intros _. now apply (q_read_plain c_sq).
Qed.
