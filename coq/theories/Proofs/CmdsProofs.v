(** [line_to_cmds] splits a rendered command list exactly at its operators:
    quoted, escaped and backquoted decoys never split, white space around
    operators is dropped. Proved for every well-formed program (any number of
    pipelines, any atoms), by induction over atoms / items. *)
From Cicada Require Import Base.Chars Model.Cmds Model.ListExec Proofs.ListExecProofs.
From Coq Require Import Lia PeanoNat.
Local Open Scope N_scope.

(** * Atoms of a pipeline text *)
Inductive atom :=
| APlain (c : char)     (* an ordinary character *)
| AEsc (c : char)       (* backslash followed by any character *)
| ASq (t : str)         (* '...' *)
| ADq (t : str)         (* "..." *)
| ABq (t : str)         (* `...` *)
| APipe.                (* a single bar followed by a space *)

Fixpoint has_lcls (k : lcls) (t : str) : bool :=
  match t with [] => false | c :: r => lcls_eqb (lclassify c) k || has_lcls k r end.

Definition wf_atom (a : atom) : bool :=
  match a with
  | APlain c => lcls_eqb (lclassify c) LOther
  | AEsc _ => true
  | ASq t => negb (has_lcls LSq t)
  | ADq t => negb (has_lcls LDq t) && negb (has_lcls LBs t)
  | ABq t => negb (has_lcls LBq t) && negb (has_lcls LBs t)
  | APipe => true
  end.

Definition render_atom (a : atom) : str :=
  match a with
  | APlain c => [c]
  | AEsc c => [c_bs; c]
  | ASq t => c_sq :: t ++ [c_sq]
  | ADq t => c_dq :: t ++ [c_dq]
  | ABq t => c_bq :: t ++ [c_bq]
  | APipe => [c_pipe; c_space]
  end.

Definition render_seg (l : list atom) : str := flat_map render_atom l.

Lemma lcls_eqb_eq a b : lcls_eqb a b = true <-> a = b.
Proof. destruct a, b; cbn; split; congruence. Qed.
Lemma lcls_eqb_refl a : lcls_eqb a a = true.
Proof. now destruct a. Qed.

(** * Step lemmas *)
Definition quote_cls (k : lcls) : Prop := k = LSq \/ k = LDq \/ k = LBq.

Lemma step_in_quote res q tok c nxt :
  quote_cls q -> lclassify c <> q -> (q = LSq \/ lclassify c <> LBs) ->
  l2c_step (mkl res q tok false) c nxt = LCont (mkl res q (tok ++ [c]) false).
Proof.
  intros Hq Hc Hb. cbv beta delta [l2c_step].
  destruct Hq as [-> | [-> | ->]]; destruct (lclassify c) eqn:K; cbn -[app];
    try reflexivity; try congruence; destruct Hb; congruence.
Qed.

Lemma step_open res tok c nxt q :
  quote_cls q -> lclassify c = q ->
  l2c_step (mkl res LOther tok false) c nxt = LCont (mkl res q (tok ++ [c]) false).
Proof.
  intros Hq Hc. cbv beta delta [l2c_step]. rewrite Hc.
  destruct Hq as [-> | [-> | ->]]; reflexivity.
Qed.

Lemma step_close res tok c nxt q :
  quote_cls q -> lclassify c = q ->
  l2c_step (mkl res q tok false) c nxt = LCont (mkl res LOther (tok ++ [c]) false).
Proof.
  intros Hq Hc. cbv beta delta [l2c_step]. rewrite Hc.
  destruct Hq as [-> | [-> | ->]]; reflexivity.
Qed.

Lemma step_plain res tok c nxt :
  lclassify c = LOther ->
  l2c_step (mkl res LOther tok false) c nxt = LCont (mkl res LOther (tok ++ [c]) false).
Proof. intros Hc. cbv beta delta [l2c_step]. rewrite Hc. reflexivity. Qed.

Lemma step_bs res tok nxt :
  l2c_step (mkl res LOther tok false) c_bs nxt = LCont (mkl res LOther tok true).
Proof. reflexivity. Qed.

Lemma step_after_bs res q tok c nxt :
  l2c_step (mkl res q tok true) c nxt = LCont (mkl res q (tok ++ [c_bs; c]) false).
Proof. reflexivity. Qed.

Lemma step_pipe_single res tok n :
  lclassify n <> LPipe ->
  l2c_step (mkl res LOther tok false) c_pipe (Some n) = LCont (mkl res LOther (tok ++ [c_pipe]) false).
Proof.
  intros Hn. cbv beta delta [l2c_step]. change (lclassify c_pipe) with LPipe. cbn -[app].
  destruct (lclassify n); try reflexivity. congruence.
Qed.

Lemma step_semi res tok nxt :
  l2c_step (mkl res LOther tok false) c_semi nxt =
  LCont (mkl (push_trimmed res tok ++ [[c_semi]]) LOther [] false).
Proof. reflexivity. Qed.

Lemma step_and1 res tok :
  l2c_step (mkl res LOther tok false) c_amp (Some c_amp) = LCont (mkl res LAmp tok false).
Proof. reflexivity. Qed.
Lemma step_and2 res tok nxt :
  l2c_step (mkl res LAmp tok false) c_amp nxt =
  LCont (mkl (push_trimmed res tok ++ [[c_amp; c_amp]]) LOther [] false).
Proof. reflexivity. Qed.
Lemma step_or1 res tok :
  l2c_step (mkl res LOther tok false) c_pipe (Some c_pipe) = LCont (mkl res LPipe tok false).
Proof. reflexivity. Qed.
Lemma step_or2 res tok nxt :
  l2c_step (mkl res LPipe tok false) c_pipe nxt =
  LCont (mkl (push_trimmed res tok ++ [[c_pipe; c_pipe]]) LOther [] false).
Proof. reflexivity. Qed.

(** * Loop lemmas *)
Lemma has_lcls_cons k c t : has_lcls k (c :: t) = false -> lclassify c <> k /\ has_lcls k t = false.
Proof.
  cbn. intros H. apply orb_false_iff in H as [H1 H2]. split; [|exact H2].
  intro E. rewrite E, lcls_eqb_refl in H1. discriminate.
Qed.

Lemma loop_in_quote q t : quote_cls q -> forall res tok rest,
  has_lcls q t = false -> (q = LSq \/ has_lcls LBs t = false) ->
  l2c_loop (mkl res q tok false) (t ++ rest) = l2c_loop (mkl res q (tok ++ t) false) rest.
Proof.
  intros Hq. induction t as [|c t IH]; intros res tok rest Hn Hb.
  - now rewrite app_nil_r.
  - apply has_lcls_cons in Hn as [Hc Hn].
    assert (Hb1 : q = LSq \/ lclassify c <> LBs).
    { destruct Hb as [Hb|Hb]; [now left|right]. now apply has_lcls_cons in Hb. }
    assert (Hb2 : q = LSq \/ has_lcls LBs t = false).
    { destruct Hb as [Hb|Hb]; [now left|right]. now apply has_lcls_cons in Hb. }
    cbn [app l2c_loop]. rewrite (step_in_quote res q tok c _ Hq Hc Hb1).
    rewrite IH by assumption. now rewrite <- app_assoc.
Qed.

Lemma loop_quoted q cq t : quote_cls q -> lclassify cq = q -> forall res tok rest,
  has_lcls q t = false -> (q = LSq \/ has_lcls LBs t = false) ->
  l2c_loop (mkl res LOther tok false) ((cq :: t ++ [cq]) ++ rest) =
  l2c_loop (mkl res LOther (tok ++ cq :: t ++ [cq]) false) rest.
Proof.
  intros Hq Hcq res tok rest Hn Hb.
  cbn [app l2c_loop]. rewrite (step_open res tok cq _ q Hq Hcq).
  rewrite <- app_assoc. rewrite (loop_in_quote q t Hq) by assumption.
  cbn [app l2c_loop]. rewrite (step_close res _ cq _ q Hq Hcq).
  f_equal. f_equal. rewrite <- !app_assoc. reflexivity.
Qed.

Lemma negb_true_false b : negb b = true -> b = false.
Proof. now destruct b. Qed.

Lemma loop_atom a : wf_atom a = true -> forall res tok rest,
  l2c_loop (mkl res LOther tok false) (render_atom a ++ rest) =
  l2c_loop (mkl res LOther (tok ++ render_atom a) false) rest.
Proof.
  destruct a as [c|c|t|t|t|]; cbn [wf_atom render_atom]; intros Hwf res tok rest.
  - apply lcls_eqb_eq in Hwf. cbn [app l2c_loop]. now rewrite step_plain.
  - cbn [app l2c_loop]. rewrite step_bs, step_after_bs. reflexivity.
  - apply negb_true_false in Hwf.
    apply (loop_quoted LSq c_sq t); [left; reflexivity|reflexivity|exact Hwf|now left].
  - apply andb_true_iff in Hwf as [H1 H2]. apply negb_true_false in H1, H2.
    apply (loop_quoted LDq c_dq t); [right; left; reflexivity|reflexivity|exact H1|now right].
  - apply andb_true_iff in Hwf as [H1 H2]. apply negb_true_false in H1, H2.
    apply (loop_quoted LBq c_bq t); [right; right; reflexivity|reflexivity|exact H1|now right].
  - cbn [app l2c_loop peek]. rewrite step_pipe_single by (cbn; discriminate).
    rewrite step_plain by reflexivity. now rewrite <- app_assoc.
Qed.

Lemma loop_seg l : forallb wf_atom l = true -> forall res tok rest,
  l2c_loop (mkl res LOther tok false) (render_seg l ++ rest) =
  l2c_loop (mkl res LOther (tok ++ render_seg l) false) rest.
Proof.
  induction l as [|a l IH]; intros Hwf res tok rest.
  - cbn. now rewrite app_nil_r.
  - cbn [forallb] in Hwf. apply andb_true_iff in Hwf as [Ha Hl].
    cbn [render_seg flat_map]. rewrite <- app_assoc. rewrite (loop_atom a Ha).
    fold (render_seg l). rewrite (IH Hl). now rewrite <- app_assoc.
Qed.

(** * White space *)
Lemma ws_is_other c : is_ws c = true -> lclassify c = LOther.
Proof.
  intros H. unfold lclassify.
  repeat match goal with
  | |- context [c =? ?k] => destruct (N.eqb_spec c k) as [->|_]; [cbv in H; discriminate|]
  end. reflexivity.
Qed.

Lemma loop_ws ws : forallb is_ws ws = true -> forall res tok rest,
  l2c_loop (mkl res LOther tok false) (ws ++ rest) = l2c_loop (mkl res LOther (tok ++ ws) false) rest.
Proof.
  induction ws as [|c ws IH]; intros H res tok rest.
  - now rewrite app_nil_r.
  - cbn [forallb] in H. apply andb_true_iff in H as [Hc Hw].
    cbn [app l2c_loop]. rewrite step_plain by now apply ws_is_other.
    rewrite IH by assumption. now rewrite <- app_assoc.
Qed.

Lemma trim_start_ws ws x : forallb is_ws ws = true -> trim_start (ws ++ x) = trim_start x.
Proof.
  induction ws as [|c ws IH]; intros H; [reflexivity|].
  cbn [forallb] in H. apply andb_true_iff in H as [Hc Hw]. cbn. rewrite Hc. now apply IH.
Qed.

(** a text is [solid] when it is non-empty and neither starts nor ends with white space *)
Definition first_nonws (s : str) : bool := match s with [] => false | c :: _ => negb (is_ws c) end.
Definition solid (s : str) : bool := first_nonws s && first_nonws (rev s).

Lemma trim_start_solid s : first_nonws s = true -> trim_start s = s.
Proof. destruct s as [|c r]; cbn; [discriminate|]. intros H. now rewrite (negb_true_false _ H). Qed.

Lemma forallb_rev {A} (f : A -> bool) l : forallb f (rev l) = forallb f l.
Proof.
  induction l as [|x l IH]; [reflexivity|]. cbn. rewrite forallb_app, IH. cbn.
  rewrite andb_true_r. apply andb_comm.
Qed.

Lemma trim_pad ws1 s ws2 :
  forallb is_ws ws1 = true -> forallb is_ws ws2 = true -> solid s = true ->
  trim (ws1 ++ s ++ ws2) = s.
Proof.
  intros H1 H2 Hs. apply andb_true_iff in Hs as [Hf Hl].
  unfold trim, trim_end. rewrite trim_start_ws by assumption.
  assert (E : trim_start (s ++ ws2) = s ++ ws2).
  { destruct s as [|c r]; [discriminate|]. cbn in *. now rewrite (negb_true_false _ Hf). }
  rewrite E, rev_app_distr, trim_start_ws by now rewrite forallb_rev.
  rewrite trim_start_solid by assumption. apply rev_involutive.
Qed.

Lemma solid_nonempty s : solid s = true -> is_empty s = false.
Proof. destruct s; [discriminate|reflexivity]. Qed.

(** ** Trailing backslashes: in a rendered segment they always come in pairs,
    so [trim_cmd] (which keeps a blank escaped by an odd number of
    backslashes) trims a padded segment exactly like [trim]. *)
Definition tb (s : str) : nat := leading_bs (rev s).

Lemma tb_snoc s c : tb (s ++ [c]) = if c =? 92 then S (tb s) else O.
Proof. unfold tb. rewrite rev_app_distr. reflexivity. Qed.

Lemma tb_atom x a : wf_atom a = true -> Nat.even (tb x) = true -> Nat.even (tb (x ++ render_atom a)) = true.
Proof.
  intros Hwf Hx. destruct a as [c|c|t|t|t|]; cbn [render_atom wf_atom] in *.
  - rewrite tb_snoc. apply lcls_eqb_eq in Hwf. unfold lclassify in Hwf.
    destruct (c =? 92) eqn:E; [discriminate Hwf|reflexivity].
  - change [c_bs; c] with ([c_bs] ++ [c]). rewrite app_assoc, tb_snoc.
    destruct (c =? 92); [|reflexivity]. rewrite tb_snoc. cbn. exact Hx.
  - change (c_sq :: t ++ [c_sq]) with ((c_sq :: t) ++ [c_sq]). rewrite app_assoc, tb_snoc. reflexivity.
  - change (c_dq :: t ++ [c_dq]) with ((c_dq :: t) ++ [c_dq]). rewrite app_assoc, tb_snoc. reflexivity.
  - change (c_bq :: t ++ [c_bq]) with ((c_bq :: t) ++ [c_bq]). rewrite app_assoc, tb_snoc. reflexivity.
  - change [c_pipe; c_space] with ([c_pipe] ++ [c_space]). rewrite app_assoc, tb_snoc. reflexivity.
Qed.

Lemma tb_seg l : forallb wf_atom l = true -> forall x,
  Nat.even (tb x) = true -> Nat.even (tb (x ++ render_seg l)) = true.
Proof.
  induction l as [|a l IH]; intros Hwf x Hx.
  - cbn. now rewrite app_nil_r.
  - cbn [forallb] in Hwf. apply andb_true_iff in Hwf as [Ha Hl].
    cbn [render_seg flat_map]. rewrite app_assoc. fold (render_seg l).
    apply IH; [exact Hl|]. now apply tb_atom.
Qed.

Lemma even_bs_seg l : forallb wf_atom l = true -> Nat.even (tb (render_seg l)) = true.
Proof. intros H. apply (tb_seg l H []). reflexivity. Qed.

Lemma trim_cmd_pad ws1 s ws2 :
  forallb is_ws ws1 = true -> forallb is_ws ws2 = true -> solid s = true ->
  Nat.even (tb s) = true -> trim_cmd (ws1 ++ s ++ ws2) = s.
Proof.
  intros H1 H2 Hs He. pose proof Hs as Hs'. apply andb_true_iff in Hs' as [Hf Hl].
  unfold trim_cmd. rewrite trim_start_ws by assumption.
  assert (E : trim_start (s ++ ws2) = s ++ ws2).
  { destruct s as [|c r]; [discriminate|]. cbn in *. now rewrite (negb_true_false _ Hf). }
  rewrite E.
  assert (E2 : trim_end (s ++ ws2) = s).
  { unfold trim_end. rewrite rev_app_distr, trim_start_ws by now rewrite forallb_rev.
    rewrite trim_start_solid by assumption. apply rev_involutive. }
  rewrite E2. fold (tb s). unfold Nat.odd. rewrite He. cbn [negb].
  now destruct (Nat.ltb (length s) (length (s ++ ws2))).
Qed.

Lemma push_trimmed_pad res ws1 s ws2 :
  forallb is_ws ws1 = true -> forallb is_ws ws2 = true -> solid s = true ->
  Nat.even (tb s) = true ->
  push_trimmed res (ws1 ++ s ++ ws2) = res ++ [s].
Proof.
  intros. unfold push_trimmed. rewrite trim_cmd_pad by assumption.
  now rewrite solid_nonempty.
Qed.

(** * Whole lines *)
Record item := mki { it_ws1 : str; it_op : lop; it_ws2 : str; it_seg : list atom }.

Definition wf_seg (l : list atom) : bool := forallb wf_atom l && solid (render_seg l).
Definition wf_item (it : item) : bool :=
  forallb is_ws (it_ws1 it) && forallb is_ws (it_ws2 it) && wf_seg (it_seg it) &&
  match it_op it with OpNone => false | _ => true end.

Definition render_item (it : item) : str :=
  it_ws1 it ++ op_tok (it_op it) ++ it_ws2 it ++ render_seg (it_seg it).

Definition render_line (ws0 : str) (seg0 : list atom) (items : list item) (ws_end : str) : str :=
  ws0 ++ render_seg seg0 ++ flat_map render_item items ++ ws_end.

Definition prog_of (seg0 : list atom) (items : list item) : prog :=
  (render_seg seg0, map (fun it => (it_op it, render_seg (it_seg it))) items).

Lemma loop_op o : is_op o -> forall res tok rest,
  l2c_loop (mkl res LOther tok false) (op_tok o ++ rest) =
  l2c_loop (mkl (push_trimmed res tok ++ [op_tok o]) LOther [] false) rest.
Proof.
  intros Ho res tok rest. destruct o; cbn [op_tok app l2c_loop peek].
  - rewrite step_semi. reflexivity.
  - rewrite step_and1, step_and2. reflexivity.
  - rewrite step_or1, step_or2. reflexivity.
  - now contradiction Ho.
Qed.

Lemma loop_items items : forallb wf_item items = true ->
  forall res pre seg ws_end,
  forallb is_ws pre = true -> wf_seg seg = true -> forallb is_ws ws_end = true ->
  l2c_finish (l2c_loop (mkl res LOther (pre ++ render_seg seg) false)
                       (flat_map render_item items ++ ws_end)) =
  res ++ render_seg seg :: tokens_of_tail (map (fun it => (it_op it, render_seg (it_seg it))) items).
Proof.
  induction items as [|it items IH]; intros Hwf res pre seg ws_end Hpre Hseg Hend.
  - cbn [flat_map app map tokens_of_tail]. rewrite <- (app_nil_r ws_end), loop_ws by assumption.
    cbn [l2c_loop]. unfold l2c_finish. cbn [l_res l_tok]. rewrite <- app_assoc.
    apply andb_true_iff in Hseg as [Hat Hs]. apply push_trimmed_pad; try assumption. now apply even_bs_seg.
  - cbn [forallb] in Hwf. apply andb_true_iff in Hwf as [Hit Hwf].
    unfold wf_item in Hit. repeat (apply andb_true_iff in Hit as [Hit ?]).
    assert (Ho : is_op (it_op it)) by (unfold is_op; destruct (it_op it); congruence).
    cbn [flat_map]. unfold render_item at 1. rewrite <- !app_assoc.
    rewrite loop_ws by assumption. rewrite (loop_op _ Ho).
    rewrite loop_ws by assumption. cbn [app].
    match goal with H : wf_seg (it_seg it) = true |- _ => pose proof H as Hseg' end.
    apply andb_true_iff in Hseg' as [Hatoms' _].
    rewrite (loop_seg _ Hatoms').
    rewrite IH by assumption.
    apply andb_true_iff in Hseg as [Hat Hs].
    rewrite <- (app_assoc pre), push_trimmed_pad by (try assumption; now apply even_bs_seg).
    cbn [map tokens_of_tail flat_map]. rewrite <- !app_assoc. reflexivity.
Qed.

Theorem line_to_cmds_render ws0 seg0 items ws_end :
  forallb is_ws ws0 = true -> wf_seg seg0 = true -> forallb wf_item items = true ->
  forallb is_ws ws_end = true ->
  line_to_cmds (render_line ws0 seg0 items ws_end) = tokens_of (prog_of seg0 items).
Proof.
  intros H0 Hs Hi He. unfold line_to_cmds, render_line, lst0.
  rewrite loop_ws by assumption. cbn [app].
  pose proof Hs as Hs'. apply andb_true_iff in Hs' as [Ha _].
  rewrite (loop_seg _ Ha). rewrite (loop_items items Hi [] ws0 seg0 ws_end) by assumption.
  reflexivity.
Qed.

(** * A rendered pipeline is never mistaken for an operator *)
Lemma wf_seg_is_pipeline seg : wf_seg seg = true -> is_pipeline (render_seg seg).
Proof.
  intros H. apply andb_true_iff in H as [Ha Hs].
  destruct seg as [|a seg]; [discriminate|].
  cbn [forallb] in Ha. apply andb_true_iff in Ha as [Ha _].
  unfold is_pipeline, op_of. cbn [render_seg flat_map].
  destruct a as [c|c|t|t|t|]; cbn [render_atom wf_atom] in *.
  - apply lcls_eqb_eq in Ha. unfold lclassify in Ha.
    cbn [app str_eqb].
    destruct (N.eqb_spec c 59) as [->|_]; [discriminate|].
    destruct (N.eqb_spec c 38) as [->|_]; [discriminate|].
    destruct (N.eqb_spec c 124) as [->|_]; [discriminate|].
    reflexivity.
  - reflexivity.
  - reflexivity.
  - reflexivity.
  - reflexivity.
  - reflexivity.
Qed.

Lemma wf_prog_of seg0 items :
  wf_seg seg0 = true -> forallb wf_item items = true -> wf_prog (prog_of seg0 items).
Proof.
  intros Hs Hi. split; [now apply wf_seg_is_pipeline|].
  unfold prog_of, wf_tail. cbn [snd]. induction items as [|it items IH]; [constructor|].
  cbn [forallb] in Hi. apply andb_true_iff in Hi as [Hit Hi].
  cbn [map]. constructor; [|now apply IH].
  unfold wf_item in Hit. repeat (apply andb_true_iff in Hit as [Hit ?]).
  split; [unfold is_op; destruct (it_op it); congruence|now apply wf_seg_is_pipeline].
Qed.

Section Full.
  Variable W : Type.
  Variable run : W -> str -> W * BinNums.Z.

  Theorem run_command_line_ref w ws0 seg0 items ws_end :
    forallb is_ws ws0 = true -> wf_seg seg0 = true -> forallb wf_item items = true ->
    forallb is_ws ws_end = true ->
    obs W (run_command_line W run w (render_line ws0 seg0 items ws_end)) =
    ref_exec W run w (prog_of seg0 items).
  Proof.
    intros H0 Hs Hi He. unfold run_command_line.
    rewrite line_to_cmds_render by assumption.
    apply run_tokens_ref. now apply wf_prog_of.
  Qed.
End Full.
