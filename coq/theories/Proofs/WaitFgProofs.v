(** Proofs about [Model.WaitFg.wait_fg_job]: when every fg child terminates
    exactly once (in ANY order, interleaved with arbitrary non-error events of
    other children), the status returned is the one of the LAST pid of the
    pipeline, and exactly the schedule is consumed. *)
From Coq Require Import List ZArith Lia Bool Permutation.
From Cicada Require Import Model.WaitFg.
Import ListNotations.
Local Open Scope Z_scope.

(** An event of a fg child. *)
Definition is_fg (pids : list Z) (w : ws) : bool := contains pids (ws_pid w).

(** The status a terminal event stands for: the exit code, or 128 + signal. *)
Definition term_status (w : ws) : Z :=
  if Z.eqb (ws_kind w) 0 then ws_val w else 128 + ws_val w.

(** [fg_schedule pids evs]: [evs] is an interleaving in which
    (a) the fg events are terminal events (exited / signaled) and their pids
        are a permutation of [pids]: every fg pid terminates exactly once and
        has no other event;
    (b) no event is an error (the non-fg events are otherwise arbitrary:
        exited, signaled, stopped, continued, others);
    (c) the last event is a fg event. *)
Definition fg_schedule (pids : list Z) (evs : list ws) : Prop :=
  Permutation (map ws_pid (filter (is_fg pids) evs)) pids /\
  (forall w, In w evs -> is_fg pids w = true -> ws_kind w = 0 \/ ws_kind w = 1) /\
  (forall w, In w evs -> ws_kind w <> 255) /\
  (exists evs' e, evs = evs' ++ [e] /\ is_fg pids e = true).

(** What the loop does to [cmd_result.status] over a run without continued
    fg events and without errors. *)
Definition upd_status (pids : list Z) (pl : Z) (st : Z) (w : ws) : Z :=
  if is_fg pids w && Z.eqb (ws_pid w) pl then get_status w else st.

Definition final_status (pids : list Z) (pl : Z) (evs : list ws) (st : Z) : Z :=
  fold_left (upd_status pids pl) evs st.

(* ------------------------------------------------------------------ *)
(** One loop iteration. *)

Lemma wait_loop_fg_step : forall pids pl cc w tl st cw c side,
  is_error w = false -> is_fg pids w = true -> is_continued w = false ->
  contains cw (ws_pid w) = false ->
  wait_loop pids pl cc (w :: tl) st cw c side =
  if Nat.leb cc (S (length cw)) then mkr (upd_status pids pl st w) (S c) tl side
  else wait_loop pids pl cc tl (upd_status pids pl st w) (ws_pid w :: cw) (S c) side.
Proof.
  intros pids pl cc w tl st cw c side He Hf Hc Hn.
  unfold is_fg in Hf. unfold upd_status, is_fg.
  cbn [wait_loop]. rewrite He, Hf, Hc. unfold set_insert. rewrite Hn. cbn [length].
  destruct (is_exited w), (is_stopped w), (is_signaled w); reflexivity.
Qed.

Lemma wait_loop_bg_step : forall pids pl cc w tl st cw c side,
  is_error w = false -> is_fg pids w = false -> Nat.leb cc (length cw) = false ->
  exists side',
    wait_loop pids pl cc (w :: tl) st cw c side =
    wait_loop pids pl cc tl st cw (S c) side'.
Proof.
  intros pids pl cc w tl st cw c side He Hf Hl.
  unfold is_fg in Hf.
  cbn [wait_loop]. rewrite He, Hf.
  destruct (is_exited w), (is_stopped w), (is_continued w), (is_signaled w);
    cbn; rewrite ?Hl; eexists; reflexivity.
Qed.

Lemma upd_status_bg : forall pids pl st w,
  is_fg pids w = false -> upd_status pids pl st w = st.
Proof. intros. unfold upd_status. rewrite H. reflexivity. Qed.

(* ------------------------------------------------------------------ *)
(** The loop invariant: [count_waited] + (fg events still to come) =
    [count_child]; the run ends exactly at the last event of [evs]. *)

Lemma wait_loop_spec : forall pids pl cc evs rest st cw c side,
  (forall w, In w evs -> is_error w = false) ->
  (forall w, In w evs -> is_fg pids w = true -> is_continued w = false) ->
  (exists evs' e, evs = evs' ++ [e] /\ is_fg pids e = true) ->
  NoDup (map ws_pid (filter (is_fg pids) evs)) ->
  (forall w, In w evs -> is_fg pids w = true -> contains cw (ws_pid w) = false) ->
  (length cw + length (filter (is_fg pids) evs))%nat = cc ->
  let r := wait_loop pids pl cc (evs ++ rest) st cw c side in
  r_consumed r = (c + length evs)%nat /\ r_left r = rest /\
  r_status r = final_status pids pl evs st.
Proof.
  intros pids pl cc evs. induction evs as [|w tl IH];
    intros rest st cw c side Herr Hcont Hlast Hnd Hfresh Hcnt r.
  - destruct Hlast as (evs' & e & H & _). destruct evs'; discriminate H.
  - assert (Hew : is_error w = false) by (apply Herr; left; reflexivity).
    assert (Herr' : forall x, In x tl -> is_error x = false)
      by (intros; apply Herr; right; assumption).
    assert (Hcont' : forall x, In x tl -> is_fg pids x = true -> is_continued x = false)
      by (intros; apply Hcont; [right|]; assumption).
    (* either tl = [] and w is the last (fg) event, or tl ends in a fg event *)
    assert (Htl : (tl = [] /\ is_fg pids w = true) \/
                  (exists evs' e, tl = evs' ++ [e] /\ is_fg pids e = true)).
    { destruct Hlast as (evs' & e & H & Hfe). destruct evs' as [|x evs''].
      - cbn in H. injection H as -> ->. left. split; [reflexivity|assumption].
      - cbn in H. injection H as -> ->. right. exists evs'', e. split; [reflexivity|assumption]. }
    assert (Hpos : tl <> [] -> (1 <= length (filter (is_fg pids) tl))%nat).
    { intros Hne. destruct Htl as [[-> _]|(evs' & e & -> & Hfe)]; [congruence|].
      rewrite filter_app, app_length. cbn [filter]. rewrite Hfe. cbn [length]. lia. }
    assert (Hfresh' : forall x, In x tl -> is_fg pids x = true -> contains cw (ws_pid x) = false)
      by (intros; apply Hfresh; [right|]; assumption).
    subst r. cbn [app]. cbn [filter] in Hcnt, Hnd.
    destruct (is_fg pids w) eqn:Hfw.
    + (* a fg event: counted *)
      cbn [length] in Hcnt. cbn [map] in Hnd.
      assert (Hnd' : NoDup (map ws_pid (filter (is_fg pids) tl))) by (inversion Hnd; assumption).
      assert (Hnw : ~ In (ws_pid w) (map ws_pid (filter (is_fg pids) tl))) by (inversion Hnd; assumption).
      rewrite wait_loop_fg_step by (first [assumption | apply Hcont; [left; reflexivity|assumption]
                                         | apply Hfresh; [left; reflexivity|assumption]]).
      destruct tl as [|x tl'].
      * cbn [filter length] in Hcnt.
        replace (Nat.leb cc (S (length cw))) with true by (symmetry; apply Nat.leb_le; lia).
        cbn. repeat split; lia.
      * assert (1 <= length (filter (is_fg pids) (x :: tl')))%nat by (apply Hpos; discriminate).
        replace (Nat.leb cc (S (length cw))) with false by (symmetry; apply Nat.leb_gt; lia).
        destruct Htl as [[Hnil _]|Htl]; [discriminate Hnil|].
        assert (Hfresh2 : forall y, In y (x :: tl') -> is_fg pids y = true -> contains (ws_pid w :: cw) (ws_pid y) = false).
        { intros y Hy Hfy. unfold contains. cbn [existsb]. apply Bool.orb_false_iff. split.
          - apply Z.eqb_neq. intro E. apply Hnw. rewrite <- E. apply in_map. apply filter_In. split; assumption.
          - apply (Hfresh' y Hy Hfy). }
        specialize (IH rest (upd_status pids pl st w) (ws_pid w :: cw) (S c) side Herr' Hcont' Htl Hnd' Hfresh2).
        cbn zeta in IH. destruct IH as (I1 & I2 & I3); [cbn [length]; lia|].
        rewrite I1, I2, I3. cbn [length final_status fold_left]. repeat split; lia.
    + (* an event of another child: not counted, never ends the loop *)
      destruct Htl as [[_ Hc]|Htl]; [congruence|].
      assert (Hne : tl <> []).
      { destruct Htl as (evs' & e & -> & _). destruct evs'; discriminate. }
      specialize (Hpos Hne).
      assert (Hl : Nat.leb cc (length cw) = false) by (apply Nat.leb_gt; lia).
      destruct (wait_loop_bg_step pids pl cc w (tl ++ rest) st cw c side Hew Hfw Hl)
        as (side' & ->).
      specialize (IH rest st cw (S c) side' Herr' Hcont' Htl Hnd Hfresh' Hcnt).
      cbn zeta in IH. destruct IH as (I1 & I2 & I3).
      rewrite I1, I2, I3. cbn [length final_status fold_left].
      rewrite upd_status_bg by assumption. repeat split; lia.
Qed.

(* ------------------------------------------------------------------ *)
(** The status: decided by the unique event of [pid_last]. *)

Lemma final_status_no_last : forall pids pl evs st,
  (forall x, In x evs -> is_fg pids x = true -> ws_pid x <> pl) ->
  final_status pids pl evs st = st.
Proof.
  intros pids pl evs. induction evs as [|w tl IH]; intros st H; [reflexivity|].
  cbn [final_status fold_left]. fold (final_status pids pl tl (upd_status pids pl st w)).
  rewrite IH by (intros; apply H; [right|]; assumption).
  unfold upd_status. destruct (is_fg pids w) eqn:Hf; [|reflexivity].
  destruct (Z.eqb_spec (ws_pid w) pl) as [E|]; [|reflexivity].
  exfalso. apply (H w); [left; reflexivity|assumption|assumption].
Qed.

Lemma get_status_term : forall w,
  ws_pid w <> 0 -> ws_kind w = 0 \/ ws_kind w = 1 -> get_status w = term_status w.
Proof.
  intros w Hp Hk. unfold get_status, term_status, is_exited, get_signaled_status.
  destruct (Z.eqb_spec (ws_pid w) 0); [contradiction|].
  destruct Hk as [E | E]; rewrite E; cbn [negb andb Z.eqb Pos.eqb]; lia.
Qed.

Lemma final_status_unique : forall pids pl e evs st,
  NoDup (map ws_pid (filter (is_fg pids) evs)) ->
  In e evs -> is_fg pids e = true -> ws_pid e = pl ->
  final_status pids pl evs st = get_status e.
Proof.
  intros pids pl e evs. induction evs as [|w tl IH]; intros st Hnd Hin Hfe Hpe; [destruct Hin|].
  cbn [final_status fold_left]. fold (final_status pids pl tl (upd_status pids pl st w)).
  cbn [filter] in Hnd.
  destruct Hin as [->|Hin].
  - rewrite Hfe in Hnd. cbn [map] in Hnd. apply NoDup_cons_iff in Hnd. destruct Hnd as [Hni _].
    rewrite final_status_no_last.
    + unfold upd_status. rewrite Hfe, Hpe, Z.eqb_refl. reflexivity.
    + intros x Hx Hfx Hpx. apply Hni. rewrite Hpe, <- Hpx.
      apply in_map. apply filter_In. split; assumption.
  - apply IH; try assumption.
    destruct (is_fg pids w); [|assumption].
    cbn [map] in Hnd. apply NoDup_cons_iff in Hnd. apply Hnd.
Qed.

(* ------------------------------------------------------------------ *)

Lemma contains_In : forall pids p, contains pids p = true <-> In p pids.
Proof.
  intros. unfold contains. rewrite existsb_exists. split.
  - intros (x & Hx & E). apply Z.eqb_eq in E. subst. assumption.
  - intros H. exists p. split; [assumption|apply Z.eqb_refl].
Qed.

Lemma last_In : forall (l : list Z) d, l <> [] -> In (last l d) l.
Proof.
  induction l as [|a l IH]; intros d H; [congruence|].
  destruct l as [|b l]; [left; reflexivity|].
  right. apply IH. discriminate.
Qed.

(** The property. [pids] is the pipeline in stage order; the hypotheses do
    not constrain the ORDER in which the fg children terminate in [evs]. *)
Theorem wait_fg_job_spec : forall pids evs rest,
  NoDup pids -> ~ In 0 pids ->
  fg_schedule pids evs ->
  let r := wait_fg_job pids (evs ++ rest) in
  r_consumed r = length evs /\
  r_left r = rest /\
  (exists e, In e evs /\ ws_pid e = last pids 0) /\
  (forall e, In e evs -> ws_pid e = last pids 0 ->
     (ws_kind e = 0 \/ ws_kind e = 1) /\
     r_status r = term_status e /\
     (ws_kind e = 0 -> r_status r = ws_val e) /\
     (ws_kind e = 1 -> r_status r = 128 + ws_val e)).
Proof.
  intros pids evs rest Hnd H0 (Hperm & Hterm & Hnoerr & Hlast) r.
  assert (Hne : pids <> []).
  { destruct Hlast as (_ & e & _ & Hf). intros ->. discriminate Hf. }
  assert (Hlp : In (last pids 0) pids) by (apply last_In; assumption).
  assert (Hr : r = wait_loop pids (last pids 0) (length pids) (evs ++ rest) 0 [] 0%nat []).
  { subst r. unfold wait_fg_job. destruct pids; [congruence|reflexivity]. }
  assert (Hnd' : NoDup (map ws_pid (filter (is_fg pids) evs))).
  { apply (Permutation_NoDup (Permutation_sym Hperm)). assumption. }
  pose proof (wait_loop_spec pids (last pids 0) (length pids) evs rest 0 [] 0%nat []) as L.
  cbn zeta in L. rewrite <- Hr in L.
  destruct L as (L1 & L2 & L3).
  { intros w Hw. unfold is_error. apply Z.eqb_neq. apply Hnoerr. assumption. }
  { intros w Hw Hf. unfold is_continued. destruct (Hterm w Hw Hf) as [-> | ->]; reflexivity. }
  { assumption. }
  { exact Hnd'. }
  { intros; reflexivity. }
  { cbn [length]. rewrite <- (Permutation_length Hperm), map_length. reflexivity. }
  assert (Hst : forall e, In e evs -> ws_pid e = last pids 0 ->
                          (ws_kind e = 0 \/ ws_kind e = 1) /\ r_status r = term_status e).
  { intros e He Hpe.
    assert (Hfe : is_fg pids e = true) by (unfold is_fg; rewrite Hpe; apply contains_In; assumption).
    split; [apply Hterm; assumption|].
    rewrite L3, (final_status_unique pids (last pids 0) e evs 0 Hnd' He Hfe Hpe).
    apply get_status_term; [|apply Hterm; assumption].
    rewrite Hpe. intros E. apply H0. rewrite <- E. assumption. }
  split; [simpl in L1; exact L1|]. split; [exact L2|]. split.
  - assert (Hin : In (last pids 0) (map ws_pid (filter (is_fg pids) evs))).
    { apply (Permutation_in _ (Permutation_sym Hperm)). assumption. }
    apply in_map_iff in Hin. destruct Hin as (e & Hpe & Hin).
    apply filter_In in Hin. exists e. split; [apply Hin|assumption].
  - intros e He Hpe. destruct (Hst e He Hpe) as (Hk & Hs).
    split; [assumption|]. split; [assumption|].
    rewrite Hs. unfold term_status. split; intros ->; reflexivity.
Qed.

(** Order independence: two schedules (any termination orders, any
    interleaved bg events, any unconsumed rests) in which the last stage has
    the same terminal event give the same status. *)
Corollary wait_fg_job_order_independent : forall pids evs1 evs2 rest1 rest2 e,
  NoDup pids -> ~ In 0 pids ->
  fg_schedule pids evs1 -> fg_schedule pids evs2 ->
  ws_pid e = last pids 0 -> In e evs1 -> In e evs2 ->
  r_status (wait_fg_job pids (evs1 ++ rest1)) = r_status (wait_fg_job pids (evs2 ++ rest2)).
Proof.
  intros pids evs1 evs2 rest1 rest2 e Hnd H0 S1 S2 Hpe I1 I2.
  destruct (wait_fg_job_spec pids evs1 rest1 Hnd H0 S1) as (_ & _ & _ & A).
  destruct (wait_fg_job_spec pids evs2 rest2 Hnd H0 S2) as (_ & _ & _ & B).
  destruct (A e I1 Hpe) as (_ & -> & _). destruct (B e I2 Hpe) as (_ & -> & _).
  reflexivity.
Qed.

(** A concrete schedule: three stages 101 | 102 | 103; the LAST stage is
    killed first (signal 9), then a bg child (200) exits, 101 exits 0, a non-fg
    child (300) stops, 102 exits 1; one more event stays unconsumed. *)
Definition ex_pids : list Z := [101; 102; 103].
Definition ex_evs : list ws :=
  [(103, 1, 9); (200, 0, 0); (101, 0, 0); (300, 2, 19); (102, 0, 1)].
Definition ex_rest : list ws := [(400, 0, 7)].

Example wait_fg_job_example :
  let r := wait_fg_job ex_pids (ex_evs ++ ex_rest) in
  r_status r = 137 /\ r_consumed r = 5%nat /\ r_left r = ex_rest /\
  r_side r = [(200, SReap); (300, SStopped)].
Proof. vm_compute. repeat split. Qed.

Example ex_schedule : fg_schedule ex_pids ex_evs.
Proof.
  unfold fg_schedule. split; [|split; [|split]].
  - change (Permutation (103 :: [101; 102]) ([101; 102] ++ 103 :: [])).
    apply Permutation_cons_app. rewrite app_nil_r. apply Permutation_refl.
  - intros w Hw Hf. cbn in Hw.
    repeat (destruct Hw as [<-|Hw];
            [first [left; reflexivity | right; reflexivity
                   | vm_compute in Hf; discriminate Hf]|]).
    destruct Hw.
  - intros w Hw. cbn in Hw.
    repeat (destruct Hw as [<-|Hw]; [cbn; discriminate|]). destruct Hw.
  - exists [(103, 1, 9); (200, 0, 0); (101, 0, 0); (300, 2, 19)], (102, 0, 1).
    split; reflexivity.
Qed.

(* Print Assumptions wait_fg_job_spec. *)
