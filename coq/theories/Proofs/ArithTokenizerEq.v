(** [Tokenizer.is_arithmetic] (the copy used by parse_line's model: C01, C05, ...) equals [Calc.is_arithmetic]
    (C19's three matchers), hence it too is the composition of the three regexes of tools::is_arithmetic as
    regenerated from the source. Round 9 (regexgen). *)
From Coq Require Import List NArith Bool Lia.
From Cicada Require Import Base.Chars Base.Regex Gen.ToolsRegexes Model.Calc Proofs.CalcClassify Proofs.ArithRegexProofs.
From Cicada Require Model.Tokenizer.
Import ListNotations.
Local Open Scope N_scope.

Lemma forallb_rev {A} (f : A -> bool) l : forallb f (rev l) = forallb f l.
Proof.
  induction l as [|a l IH]; [reflexivity|]. cbn [rev forallb]. rewrite forallb_app, IH. cbn [forallb].
  rewrite andb_true_r. apply andb_comm.
Qed.

Lemma last_opt_snoc l c : last_opt (l ++ [c]) = Some c.
Proof.
  induction l as [|a l IH]; [reflexivity|]. cbn [app]. remember (l ++ [c]) as r eqn:E. destruct r as [|x r'].
  - destruct l; discriminate.
  - exact IH.
Qed.

Theorem tokenizer_is_arithmetic_eq l : Tokenizer.is_arithmetic l = is_arithmetic l.
Proof.
  rewrite is_arithmetic_desc. unfold Tokenizer.is_arithmetic, arith_desc.
  change Tokenizer.is_arith_op with is_op_char.
  change Tokenizer.arith_body with in_set_a. change Tokenizer.arith_last with in_set_b.
  rewrite <- (rev_involutive l). generalize (rev l). clear l. intros r. rewrite rev_involutive.
  destruct r as [|lst body]; [reflexivity|].
  cbn [rev]. rewrite forallb_app, forallb_rev. unfold last_in_b. rewrite last_opt_snoc. cbn [forallb].
  destruct body as [|b bs].
  - cbn [rev app existsb forallb]. destruct (is_digit lst) eqn:Dg.
    + rewrite (digit_not_op _ Dg). cbn. rewrite ?andb_false_r. reflexivity.
    + cbn. rewrite ?andb_false_r. reflexivity.
  - generalize (existsb is_digit (rev (b :: bs) ++ [lst])), (existsb is_op_char (rev (b :: bs) ++ [lst])).
    intros d o. destruct (in_set_b lst) eqn:Bl.
    + rewrite (set_b_sub_a _ Bl). destruct d, o, (forallb in_set_a (b :: bs)); reflexivity.
    + rewrite ?andb_false_r. destruct d, o; reflexivity.
Qed.

Theorem tokenizer_is_arithmetic_is_source_regex l :
  Tokenizer.is_arithmetic l =
  if negb (rx_search rx_arith_digit l) then false
  else if negb (rx_search rx_arith_op l) then false
  else rx_search rx_arith_shape l.
Proof. rewrite tokenizer_is_arithmetic_eq. apply is_arithmetic_is_source_regex. Qed.
