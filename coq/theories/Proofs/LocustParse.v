(** C14, parser half: per-rule lemmas about the generic PEG interpreter on the
    grammar value regenerated from grammar.pest, and the unbounded theorem for
    the fragment of flat scripts (any number of command lines). *)
From Cicada Require Import Base.Chars Base.Peg Gen.LocustGrammar Model.Script Model.ScriptAst Proofs.PegProofs.
From Coq Require Import ZArith Lia Arith.
Local Open Scope N_scope.

Notation EV := (evals l_grammar).
Definition NL : pexp := PAlt (PStr [10]) (PAlt (PStr [13; 10]) (PStr [13])).

(** ---- implicit skip ---- *)
Definition starts_blank (r : str) : bool := match r with c :: _ => is_blank c | [] => false end.

Lemma ws_fail pos r : starts_blank r = false -> EV (PRef L_WHITESPACE) AtNon pos r PFail.
Proof.
  intro H. apply (evals_of_ev l_grammar 3); [|discriminate].
  destruct r as [|c r]; [reflexivity|]. cbn in H. unfold is_blank in H. apply orb_false_iff in H as [H1 H2].
  rewrite N.eqb_sym in H1, H2. cbn in H1, H2. cbn. rewrite H1, H2. reflexivity.
Qed.

Lemma ws_ok pos c r : is_blank c = true -> EV (PRef L_WHITESPACE) AtNon pos (c :: r) (POk (S pos) r []).
Proof.
  intro H. apply (evals_of_ev l_grammar 3); [|discriminate].
  unfold is_blank in H. destruct (c =? 32) eqn:E1.
  - apply N.eqb_eq in E1. subst c. cbn. rewrite Nat.add_1_r. reflexivity.
  - cbn [orb] in H. apply N.eqb_eq in H. subst c. cbn. rewrite Nat.add_1_r. reflexivity.
Qed.

Lemma skip_none pos r : starts_blank r = false -> EV PSkip AtNon pos r (POk pos r []).
Proof. intro H. eapply evals_skip_stop; [reflexivity | apply ws_fail, H]. Qed.

Lemma skip_blanks bl : forall pos r, forallb is_blank bl = true -> starts_blank r = false ->
  EV PSkip AtNon pos (bl ++ r) (POk (pos + length bl) r []).
Proof.
  induction bl as [|c bl IH]; intros pos r Hb Hr.
  - cbn [app length]. rewrite Nat.add_0_r. apply skip_none, Hr.
  - cbn [forallb] in Hb. apply andb_prop in Hb as [Hc Hb].
    cbn [app length]. replace (pos + S (length bl))%nat with (S pos + length bl)%nat by lia.
    change (@nil tree) with (@nil tree ++ @nil tree)%list.
    eapply evals_skip_step; [reflexivity | apply ws_ok, Hc | lia | apply IH; assumption].
Qed.

(** ---- string prefixes ---- *)
Lemma strip_prefix_app_none p : forall t x, strip_prefix p t = None -> forallb (fun c => negb (c =? 10)) p = true ->
  strip_prefix p (t ++ 10 :: x) = None.
Proof.
  induction p as [|a p IH]; intros t x H Hp; [discriminate|].
  cbn [forallb] in Hp. apply andb_prop in Hp as [Ha Hp]. apply negb_true_iff in Ha.
  destruct t as [|c t]; cbn [app strip_prefix] in *.
  - rewrite Ha. reflexivity.
  - destruct (a =? c); [apply IH; assumption | reflexivity].
Qed.

Lemma strip_prefix_app_some p : forall x, strip_prefix p (p ++ x) = Some x.
Proof. induction p as [|a p IH]; intros; cbn [app strip_prefix]; [reflexivity|]. rewrite N.eqb_refl. apply IH. Qed.

(** ---- the characters of a command line:  (!NEWLINE ~ ANY)*  ---- *)
Definition okc (c : char) : bool := negb (c =? 10) && negb (c =? 13).
Definition E_line : pexp := PSeq (PNot NL) PAny.

Lemma nl_fail pos c r : okc c = true -> EV NL AtNon pos (c :: r) PFail.
Proof.
  intro H. unfold okc in H. apply andb_prop in H as [H1 H2]. apply negb_true_iff in H1, H2.
  rewrite N.eqb_sym in H1, H2. cbn in H1, H2.
  apply (evals_of_ev l_grammar 3); [|discriminate]. cbn. rewrite H1, H2. reflexivity.
Qed.

Lemma nl_fail_nil pos : EV NL AtNon pos [] PFail.
Proof. apply (evals_of_ev l_grammar 3); [reflexivity|discriminate]. Qed.

Lemma nl_ok pos r : EV NL AtNon pos (10 :: r) (POk (S pos) r []).
Proof. apply (evals_of_ev l_grammar 3); [|discriminate]. cbn. rewrite Nat.add_1_r. reflexivity. Qed.

Lemma E_char pos c r : okc c = true -> is_blank c = false -> EV E_line AtNon pos (c :: r) (POk (S pos) r []).
Proof.
  intros Hc Hb. unfold E_line.
  change (@nil tree) with ([] ++ [] ++ @nil tree)%list.
  eapply evals_seq_ok.
  - apply evals_not_ok, nl_fail, Hc.
  - apply skip_none. exact Hb.
  - apply evals_any.
Qed.

Lemma E_stop pos r : EV E_line AtNon pos (10 :: r) PFail.
Proof. unfold E_line. apply evals_seq_fail. eapply evals_not_fail, nl_ok. Qed.

Lemma E_stop_nil pos : EV E_line AtNon pos [] PFail.
Proof.
  unfold E_line.
  eapply evals_seq_fail_b.
  - apply evals_not_ok, nl_fail_nil.
  - apply skip_none. reflexivity.
  - apply (evals_of_ev l_grammar 1); [reflexivity|discriminate].
Qed.

(** blanks at the front of a text *)
Fixpoint span_bl (t : str) : str * str :=
  match t with
  | c :: r => if is_blank c then let '(a, b) := span_bl r in (c :: a, b) else ([], t)
  | [] => ([], [])
  end.

Lemma span_bl_spec t : forall a b, span_bl t = (a, b) ->
  t = a ++ b /\ forallb is_blank a = true /\ starts_blank b = false.
Proof.
  induction t as [|c r IH]; intros a b H; cbn in H.
  - injection H as <- <-. repeat split.
  - destruct (is_blank c) eqn:Hc.
    + destruct (span_bl r) as [a' b'] eqn:E. injection H as <- <-.
      destruct (IH a' b' eq_refl) as [-> [H1 H2]]. cbn. rewrite Hc. repeat split; assumption.
    + injection H as <- <-. cbn. rewrite Hc. repeat split.
Qed.

(** a text whose last character is not a blank (or which is empty) *)
Definition ends_ok (t : str) : bool := match rev t with [] => true | c :: _ => negb (is_blank c) end.

Lemma ends_ok_tail c t : t <> [] -> ends_ok (c :: t) = ends_ok t.
Proof.
  intro H. unfold ends_ok. cbn [rev]. destruct (rev t) eqn:E; [|reflexivity].
  apply (f_equal (@rev char)) in E. rewrite rev_involutive in E. contradiction.
Qed.

Lemma ends_ok_app_blank a b : forallb is_blank a = true -> b <> [] -> ends_ok (a ++ b) = ends_ok b.
Proof.
  intros Ha Hb. induction a as [|c a IH]; [reflexivity|]. cbn [forallb] in Ha. apply andb_prop in Ha as [_ Ha].
  cbn [app]. rewrite ends_ok_tail; [apply IH, Ha|]. destruct a; cbn; [exact Hb|discriminate].
Qed.

Lemma all_blank_ends a : a <> [] -> forallb is_blank a = true -> ends_ok a = false.
Proof.
  intros Hn Ha. unfold ends_ok. destruct (rev a) as [|c r] eqn:E.
  - apply (f_equal (@rev char)) in E. rewrite rev_involutive in E. contradiction.
  - assert (In c a) by (apply in_rev; rewrite E; left; reflexivity).
    rewrite forallb_forall in Ha. rewrite (Ha c H). reflexivity.
Qed.

Lemma line_tail : forall n t pos rest, (length t <= n)%nat -> forallb okc t = true -> ends_ok t = true ->
  EV (PRepTail E_line) AtNon pos (t ++ 10 :: rest) (POk (pos + length t) (10 :: rest) []).
Proof.
  induction n as [|n IH]; intros t pos rest Hl Hok He.
  - destruct t; [|cbn in Hl; lia]. cbn [app length]. rewrite Nat.add_0_r.
    eapply evals_reptail_stop; [apply skip_none; reflexivity | apply E_stop].
  - destruct t as [|c0 t0].
    { cbn [app length]. rewrite Nat.add_0_r.
      eapply evals_reptail_stop; [apply skip_none; reflexivity | apply E_stop]. }
    destruct (span_bl (c0 :: t0)) as [a b] eqn:Es.
    destruct (span_bl_spec _ _ _ Es) as [Et [Ha Hb]].
    destruct b as [|c b].
    { exfalso. rewrite app_nil_r in Et. rewrite Et in He. rewrite all_blank_ends in He; [discriminate| |exact Ha].
      intro Z. rewrite Z in Et. discriminate. }
    rewrite Et in *. cbn [starts_blank] in Hb.
    rewrite forallb_app in Hok. apply andb_prop in Hok as [_ Hok]. cbn [forallb] in Hok. apply andb_prop in Hok as [Hc Hok].
    rewrite <- app_assoc. cbn [app].
    change (@nil tree) with ([] ++ [] ++ @nil tree)%list.
    eapply evals_reptail_step.
    + apply skip_blanks; [exact Ha | exact Hb].
    + apply E_char; assumption.
    + lia.
    + rewrite app_length in *. cbn [length] in *.
      replace (pos + (length a + S (length b)))%nat with (S (pos + length a) + length b)%nat by lia.
      apply IH; [lia | exact Hok |].
      destruct b as [|c1 b1]; [reflexivity|].
      rewrite ends_ok_app_blank in He by (assumption || discriminate).
      rewrite ends_ok_tail in He by discriminate. exact He.
Qed.

(** a whole line: first character not blank *)
Lemma line_chars c t pos rest : okc c = true -> is_blank c = false -> forallb okc t = true -> ends_ok (c :: t) = true ->
  EV (PRep E_line) AtNon pos ((c :: t) ++ 10 :: rest) (POk (pos + length (c :: t)) (10 :: rest) []).
Proof.
  intros Hc Hb Hok He. cbn [app length].
  change (@nil tree) with ([] ++ @nil tree)%list.
  eapply evals_rep_some; [apply E_char; assumption|].
  replace (pos + S (length t))%nat with (S pos + length t)%nat by lia.
  apply (line_tail (length t)); [lia | exact Hok |].
  destruct t; [reflexivity|]. rewrite ends_ok_tail in He by discriminate. exact He.
Qed.

(** ---- a command line ---- *)
Definition kw_prefixes : list str := [s_if; s_for; s_elseif; s_else; s_fi; s_while; s_done].
Definition strict_nokw (line : str) : bool := forallb (fun p => negb (has_prefix p line)) kw_prefixes.
Definition starts_nonws (t : str) : bool := match t with c :: _ => negb (is_ws c) | [] => false end.
Definition ends_nonws (t : str) : bool := match rev t with c :: _ => negb (is_ws c) | [] => false end.
Definition cmd_ok (line : str) : bool :=
  forallb okc line && starts_nonws line && ends_nonws line && strict_nokw line.

Lemma blank_ws c : is_ws c = false -> is_blank c = false.
Proof.
  unfold is_blank, is_ws. intro H. repeat (apply orb_false_iff in H as [H ?]).
  apply orb_false_iff. split; [assumption|].
  destruct (c =? 9) eqn:E; [|reflexivity]. apply N.eqb_eq in E. subst c. cbn in H. discriminate.
Qed.

Lemma nokw_fail p line rest : has_prefix p line = false -> forallb (fun c => negb (c =? 10)) p = true ->
  strip_prefix p (line ++ 10 :: rest) = None.
Proof.
  intros H Hp. apply strip_prefix_app_none; [|exact Hp]. unfold has_prefix in H.
  destruct (strip_prefix p line); [discriminate|reflexivity].
Qed.

Ltac ref_s := eapply evals_ref_silent; [reflexivity | reflexivity | ].
Ltac ref_nf := eapply evals_ref_normal_fail; [reflexivity | reflexivity | ].

Lemma kw_list_fail pos line rest : strict_nokw line = true ->
  EV (PRef L_KW_LIST) AtNon pos (line ++ 10 :: rest) PFail.
Proof.
  intro H. unfold strict_nokw, kw_prefixes in H. cbn [forallb] in H.
  repeat (apply andb_prop in H as [? H]).
  repeat match goal with X : negb _ = true |- _ => apply negb_true_iff in X end.
  ref_s.
  apply evals_alt_r; [ref_s; apply evals_str_fail, nokw_fail; [assumption|reflexivity]|].
  apply evals_alt_r; [ref_s; apply evals_str_fail, nokw_fail; [assumption|reflexivity]|].
  apply evals_alt_r; [ref_s; apply evals_str_fail, nokw_fail; [assumption|reflexivity]|].
  apply evals_alt_r; [ref_nf; apply evals_seq_fail, evals_str_fail, nokw_fail; [assumption|reflexivity]|].
  apply evals_alt_r; [ref_s; apply evals_seq_fail, evals_str_fail, nokw_fail; [assumption|reflexivity]|].
  apply evals_alt_r; [ref_s; apply evals_str_fail, nokw_fail; [assumption|reflexivity]|].
  ref_s; apply evals_seq_fail, evals_str_fail, nokw_fail; [assumption|reflexivity].
Qed.

Lemma cmd_parses pos line rest : cmd_ok line = true ->
  EV (PRef L_CMD) AtNon pos (line ++ 10 :: rest)
     (POk (S (pos + length line)) rest [Node L_CMD pos (S (pos + length line)) []]).
Proof.
  intro H. unfold cmd_ok in H.
  apply andb_prop in H as [H Hkw]. apply andb_prop in H as [H He]. apply andb_prop in H as [Hok Hs].
  destruct line as [|c t]; [discriminate|].
  cbn [starts_nonws] in Hs. apply negb_true_iff in Hs.
  assert (Hb : is_blank c = false) by (apply blank_ws, Hs).
  assert (He' : ends_ok (c :: t) = true).
  { unfold ends_nonws in He. unfold ends_ok. destruct (rev (c :: t)); [reflexivity|].
    apply negb_true_iff in He. rewrite (blank_ws _ He). reflexivity. }
  cbn [forallb] in Hok. apply andb_prop in Hok as [Hc Hok].
  eapply evals_ref_normal_ok; [reflexivity | reflexivity |].
  apply evals_alt_l. ref_s.
  change (@nil tree) with ([] ++ [] ++ ([] ++ [] ++ @nil tree))%list.
  eapply evals_seq_ok.
  - apply evals_not_ok. apply (kw_list_fail pos (c :: t) rest Hkw).
  - apply skip_none. cbn. exact Hb.
  - eapply evals_seq_ok.
    + apply (line_chars c t pos rest Hc Hb Hok He').
    + apply skip_none. reflexivity.
    + apply nl_ok.
Qed.
