(** C14, parser half: per-rule lemmas about the generic PEG interpreter on the
    grammar value regenerated from grammar.pest, and the unbounded theorem for
    the fragment of flat scripts (any number of command lines). *)
From Cicada Require Import Base.Chars Base.Peg Gen.LocustGrammar Model.Script Model.ScriptAst Proofs.PegProofs.
From Coq Require Import ZArith Lia Arith.
Local Open Scope N_scope.

Notation EV := (evals l_grammar).
Definition NL : pexp := PAlt (PStr [10]) (PAlt (PStr [13; 10]) (PStr [13])).

(** ---- implicit skip ---- *)
Definition starts_blank (r : str) : bool := match r with c :: _ => is_blank c | [] => false end.

Lemma ws_fail pos r : starts_blank r = false -> EV (PRef L_WHITESPACE) AtNon pos r PFail.
Proof.
  intro H. apply (evals_of_ev l_grammar 3); [|discriminate].
  destruct r as [|c r]; [reflexivity|]. cbn in H. unfold is_blank in H. apply orb_false_iff in H as [H1 H2].
  rewrite N.eqb_sym in H1, H2. cbn in H1, H2. cbn. rewrite H1, H2. reflexivity.
Qed.

Lemma ws_ok pos c r : is_blank c = true -> EV (PRef L_WHITESPACE) AtNon pos (c :: r) (POk (S pos) r []).
Proof.
  intro H. apply (evals_of_ev l_grammar 3); [|discriminate].
  unfold is_blank in H. destruct (c =? 32) eqn:E1.
  - apply N.eqb_eq in E1. subst c. cbn. rewrite Nat.add_1_r. reflexivity.
  - cbn [orb] in H. apply N.eqb_eq in H. subst c. cbn. rewrite Nat.add_1_r. reflexivity.
Qed.

Lemma skip_none pos r : starts_blank r = false -> EV PSkip AtNon pos r (POk pos r []).
Proof. intro H. eapply evals_skip_stop; [reflexivity | apply ws_fail, H]. Qed.

Lemma skip_blanks bl : forall pos r, forallb is_blank bl = true -> starts_blank r = false ->
  EV PSkip AtNon pos (bl ++ r) (POk (pos + length bl) r []).
Proof.
  induction bl as [|c bl IH]; intros pos r Hb Hr.
  - cbn [app length]. rewrite Nat.add_0_r. apply skip_none, Hr.
  - cbn [forallb] in Hb. apply andb_prop in Hb as [Hc Hb].
    cbn [app length]. replace (pos + S (length bl))%nat with (S pos + length bl)%nat by lia.
    change (@nil tree) with (@nil tree ++ @nil tree)%list.
    eapply evals_skip_step; [reflexivity | apply ws_ok, Hc | lia | apply IH; assumption].
Qed.

(** ---- string prefixes ---- *)
Lemma strip_prefix_app_none p : forall t x, strip_prefix p t = None -> forallb (fun c => negb (c =? 10)) p = true ->
  strip_prefix p (t ++ 10 :: x) = None.
Proof.
  induction p as [|a p IH]; intros t x H Hp; [discriminate|].
  cbn [forallb] in Hp. apply andb_prop in Hp as [Ha Hp]. apply negb_true_iff in Ha.
  destruct t as [|c t]; cbn [app strip_prefix] in *.
  - rewrite Ha. reflexivity.
  - destruct (a =? c); [apply IH; assumption | reflexivity].
Qed.

Lemma strip_prefix_app_some p : forall x, strip_prefix p (p ++ x) = Some x.
Proof. induction p as [|a p IH]; intros; cbn [app strip_prefix]; [reflexivity|]. rewrite N.eqb_refl. apply IH. Qed.

(** ---- the characters of a command line:  (!NEWLINE ~ ANY)*  ---- *)
Definition okc (c : char) : bool := negb (c =? 10) && negb (c =? 13).
Definition E_line : pexp := PSeq (PNot NL) PAny.

Lemma nl_fail pos c r : okc c = true -> EV NL AtNon pos (c :: r) PFail.
Proof.
  intro H. unfold okc in H. apply andb_prop in H as [H1 H2]. apply negb_true_iff in H1, H2.
  rewrite N.eqb_sym in H1, H2. cbn in H1, H2.
  apply (evals_of_ev l_grammar 3); [|discriminate]. cbn. rewrite H1, H2. reflexivity.
Qed.

Lemma nl_fail_nil pos : EV NL AtNon pos [] PFail.
Proof. apply (evals_of_ev l_grammar 3); [reflexivity|discriminate]. Qed.

Lemma nl_ok pos r : EV NL AtNon pos (10 :: r) (POk (S pos) r []).
Proof. apply (evals_of_ev l_grammar 3); [|discriminate]. cbn. rewrite Nat.add_1_r. reflexivity. Qed.

Lemma E_char pos c r : okc c = true -> is_blank c = false -> EV E_line AtNon pos (c :: r) (POk (S pos) r []).
Proof.
  intros Hc Hb. unfold E_line.
  change (@nil tree) with ([] ++ [] ++ @nil tree)%list.
  eapply evals_seq_ok.
  - apply evals_not_ok, nl_fail, Hc.
  - apply skip_none. exact Hb.
  - apply evals_any.
Qed.

Lemma E_stop pos r : EV E_line AtNon pos (10 :: r) PFail.
Proof. unfold E_line. apply evals_seq_fail. eapply evals_not_fail, nl_ok. Qed.

Lemma E_stop_nil pos : EV E_line AtNon pos [] PFail.
Proof.
  unfold E_line.
  eapply evals_seq_fail_b.
  - apply evals_not_ok, nl_fail_nil.
  - apply skip_none. reflexivity.
  - apply (evals_of_ev l_grammar 1); [reflexivity|discriminate].
Qed.

(** blanks at the front of a text *)
Fixpoint span_bl (t : str) : str * str :=
  match t with
  | c :: r => if is_blank c then let '(a, b) := span_bl r in (c :: a, b) else ([], t)
  | [] => ([], [])
  end.

Lemma span_bl_spec t : forall a b, span_bl t = (a, b) ->
  t = a ++ b /\ forallb is_blank a = true /\ starts_blank b = false.
Proof.
  induction t as [|c r IH]; intros a b H; cbn in H.
  - injection H as <- <-. repeat split.
  - destruct (is_blank c) eqn:Hc.
    + destruct (span_bl r) as [a' b'] eqn:E. injection H as <- <-.
      destruct (IH a' b' eq_refl) as [-> [H1 H2]]. cbn. rewrite Hc. repeat split; assumption.
    + injection H as <- <-. cbn. rewrite Hc. repeat split.
Qed.

(** a text whose last character is not a blank (or which is empty) *)
Definition ends_ok (t : str) : bool := match rev t with [] => true | c :: _ => negb (is_blank c) end.

Lemma ends_ok_tail c t : t <> [] -> ends_ok (c :: t) = ends_ok t.
Proof.
  intro H. unfold ends_ok. cbn [rev]. destruct (rev t) eqn:E; [|reflexivity].
  apply (f_equal (@rev char)) in E. rewrite rev_involutive in E. contradiction.
Qed.

Lemma ends_ok_app_blank a b : forallb is_blank a = true -> b <> [] -> ends_ok (a ++ b) = ends_ok b.
Proof.
  intros Ha Hb. induction a as [|c a IH]; [reflexivity|]. cbn [forallb] in Ha. apply andb_prop in Ha as [_ Ha].
  cbn [app]. rewrite ends_ok_tail; [apply IH, Ha|]. destruct a; cbn; [exact Hb|discriminate].
Qed.

Lemma all_blank_ends a : a <> [] -> forallb is_blank a = true -> ends_ok a = false.
Proof.
  intros Hn Ha. unfold ends_ok. destruct (rev a) as [|c r] eqn:E.
  - apply (f_equal (@rev char)) in E. rewrite rev_involutive in E. contradiction.
  - assert (In c a) by (apply in_rev; rewrite E; left; reflexivity).
    rewrite forallb_forall in Ha. rewrite (Ha c H). reflexivity.
Qed.

Lemma line_tail : forall n t pos rest, (length t <= n)%nat -> forallb okc t = true -> ends_ok t = true ->
  EV (PRepTail E_line) AtNon pos (t ++ 10 :: rest) (POk (pos + length t) (10 :: rest) []).
Proof.
  induction n as [|n IH]; intros t pos rest Hl Hok He.
  - destruct t; [|cbn in Hl; lia]. cbn [app length]. rewrite Nat.add_0_r.
    eapply evals_reptail_stop; [apply skip_none; reflexivity | apply E_stop].
  - destruct t as [|c0 t0].
    { cbn [app length]. rewrite Nat.add_0_r.
      eapply evals_reptail_stop; [apply skip_none; reflexivity | apply E_stop]. }
    destruct (span_bl (c0 :: t0)) as [a b] eqn:Es.
    destruct (span_bl_spec _ _ _ Es) as [Et [Ha Hb]].
    destruct b as [|c b].
    { exfalso. rewrite app_nil_r in Et. rewrite Et in He. rewrite all_blank_ends in He; [discriminate| |exact Ha].
      intro Z. rewrite Z in Et. discriminate. }
    rewrite Et in *. cbn [starts_blank] in Hb.
    rewrite forallb_app in Hok. apply andb_prop in Hok as [_ Hok]. cbn [forallb] in Hok. apply andb_prop in Hok as [Hc Hok].
    rewrite <- app_assoc. cbn [app].
    change (@nil tree) with ([] ++ [] ++ @nil tree)%list.
    eapply evals_reptail_step.
    + apply skip_blanks; [exact Ha | exact Hb].
    + apply E_char; assumption.
    + lia.
    + rewrite app_length in *. cbn [length] in *.
      replace (pos + (length a + S (length b)))%nat with (S (pos + length a) + length b)%nat by lia.
      apply IH; [lia | exact Hok |].
      destruct b as [|c1 b1]; [reflexivity|].
      rewrite ends_ok_app_blank in He by (assumption || discriminate).
      rewrite ends_ok_tail in He by discriminate. exact He.
Qed.

(** a whole line: first character not blank *)
Lemma line_chars c t pos rest : okc c = true -> is_blank c = false -> forallb okc t = true -> ends_ok (c :: t) = true ->
  EV (PRep E_line) AtNon pos ((c :: t) ++ 10 :: rest) (POk (pos + length (c :: t)) (10 :: rest) []).
Proof.
  intros Hc Hb Hok He. cbn [app length].
  change (@nil tree) with ([] ++ @nil tree)%list.
  eapply evals_rep_some; [apply E_char; assumption|].
  replace (pos + S (length t))%nat with (S pos + length t)%nat by lia.
  apply (line_tail (length t)); [lia | exact Hok |].
  destruct t; [reflexivity|]. rewrite ends_ok_tail in He by discriminate. exact He.
Qed.


(** ---- the same loop for any element expression that eats one ordinary character and fails at a newline ---- *)
Section GenLoop.
Variable E : pexp.
Variable okc' : char -> bool.
Hypothesis HE_char : forall pos c r, okc' c = true -> is_blank c = false -> EV E AtNon pos (c :: r) (POk (S pos) r []).
Hypothesis HE_stop : forall pos r, EV E AtNon pos (10 :: r) PFail.

Lemma gen_tail : forall n t pos rest, (length t <= n)%nat -> forallb okc' t = true -> ends_ok t = true ->
  EV (PRepTail E) AtNon pos (t ++ 10 :: rest) (POk (pos + length t) (10 :: rest) []).
Proof.
  induction n as [|n IH]; intros t pos rest Hl Hok He.
  - destruct t; [|cbn in Hl; lia]. cbn [app length]. rewrite Nat.add_0_r.
    eapply evals_reptail_stop; [apply skip_none; reflexivity | apply HE_stop].
  - destruct t as [|c0 t0].
    { cbn [app length]. rewrite Nat.add_0_r.
      eapply evals_reptail_stop; [apply skip_none; reflexivity | apply HE_stop]. }
    destruct (span_bl (c0 :: t0)) as [a b] eqn:Es.
    destruct (span_bl_spec _ _ _ Es) as [Et [Ha Hb]].
    destruct b as [|c b].
    { exfalso. rewrite app_nil_r in Et. rewrite Et in He. rewrite all_blank_ends in He; [discriminate| |exact Ha].
      intro Z. rewrite Z in Et. discriminate. }
    rewrite Et in *. cbn [starts_blank] in Hb.
    rewrite forallb_app in Hok. apply andb_prop in Hok as [_ Hok]. cbn [forallb] in Hok. apply andb_prop in Hok as [Hc Hok].
    rewrite <- app_assoc. cbn [app].
    change (@nil tree) with ([] ++ [] ++ @nil tree)%list.
    eapply evals_reptail_step.
    + apply skip_blanks; [exact Ha | exact Hb].
    + apply HE_char; assumption.
    + lia.
    + rewrite app_length in *. cbn [length] in *.
      replace (pos + (length a + S (length b)))%nat with (S (pos + length a) + length b)%nat by lia.
      apply IH; [lia | exact Hok |].
      destruct b as [|c1 b1]; [reflexivity|].
      rewrite ends_ok_app_blank in He by (assumption || discriminate).
      rewrite ends_ok_tail in He by discriminate. exact He.
Qed.


Lemma gen_chars c t pos rest : okc' c = true -> is_blank c = false -> forallb okc' t = true -> ends_ok (c :: t) = true ->
  EV (PRep E) AtNon pos ((c :: t) ++ 10 :: rest) (POk (pos + length (c :: t)) (10 :: rest) []).
Proof.
  intros Hc Hb Hok He. cbn [app length].
  change (@nil tree) with ([] ++ @nil tree)%list.
  eapply evals_rep_some; [apply HE_char; assumption|].
  replace (pos + S (length t))%nat with (S pos + length t)%nat by lia.
  apply (gen_tail (length t)); [lia | exact Hok |].
  destruct t; [reflexivity|]. rewrite ends_ok_tail in He by discriminate. exact He.
Qed.

End GenLoop.

(** ---- a command line ---- *)
Definition kw_prefixes : list str := [s_if; s_for; s_elseif; s_else; s_fi; s_while; s_done].
Definition strict_nokw (line : str) : bool := forallb (fun p => negb (has_prefix p line)) kw_prefixes.
Definition starts_nonws (t : str) : bool := match t with c :: _ => negb (is_ws c) | [] => false end.
Definition ends_nonws (t : str) : bool := match rev t with c :: _ => negb (is_ws c) | [] => false end.
Definition cmd_ok (line : str) : bool :=
  forallb okc line && starts_nonws line && ends_nonws line && strict_nokw line.

Lemma blank_ws c : is_ws c = false -> is_blank c = false.
Proof.
  unfold is_blank, is_ws. intro H. repeat (apply orb_false_iff in H as [H ?]).
  apply orb_false_iff. split; [assumption|].
  destruct (c =? 9) eqn:E; [|reflexivity]. apply N.eqb_eq in E. subst c. cbn in H. discriminate.
Qed.

Lemma nokw_fail p line rest : has_prefix p line = false -> forallb (fun c => negb (c =? 10)) p = true ->
  strip_prefix p (line ++ 10 :: rest) = None.
Proof.
  intros H Hp. apply strip_prefix_app_none; [|exact Hp]. unfold has_prefix in H.
  destruct (strip_prefix p line); [discriminate|reflexivity].
Qed.

Ltac ref_s := eapply evals_ref_silent; [reflexivity | reflexivity | ].
Ltac ref_nf := eapply evals_ref_normal_fail; [reflexivity | reflexivity | ].

Lemma kw_list_fail pos line rest : strict_nokw line = true ->
  EV (PRef L_KW_LIST) AtNon pos (line ++ 10 :: rest) PFail.
Proof.
  intro H. unfold strict_nokw, kw_prefixes in H. cbn [forallb] in H.
  repeat (apply andb_prop in H as [? H]).
  repeat match goal with X : negb _ = true |- _ => apply negb_true_iff in X end.
  ref_s.
  apply evals_alt_r; [ref_s; apply evals_str_fail, nokw_fail; [assumption|reflexivity]|].
  apply evals_alt_r; [ref_s; apply evals_str_fail, nokw_fail; [assumption|reflexivity]|].
  apply evals_alt_r; [ref_s; apply evals_str_fail, nokw_fail; [assumption|reflexivity]|].
  apply evals_alt_r; [ref_nf; apply evals_seq_fail, evals_str_fail, nokw_fail; [assumption|reflexivity]|].
  apply evals_alt_r; [ref_s; apply evals_seq_fail, evals_str_fail, nokw_fail; [assumption|reflexivity]|].
  apply evals_alt_r; [ref_s; apply evals_str_fail, nokw_fail; [assumption|reflexivity]|].
  ref_s; apply evals_seq_fail, evals_str_fail, nokw_fail; [assumption|reflexivity].
Qed.

Lemma cmd_parses pos line rest : cmd_ok line = true ->
  EV (PRef L_CMD) AtNon pos (line ++ 10 :: rest)
     (POk (S (pos + length line)) rest [Node L_CMD pos (S (pos + length line)) []]).
Proof.
  intro H. unfold cmd_ok in H.
  apply andb_prop in H as [H Hkw]. apply andb_prop in H as [H He]. apply andb_prop in H as [Hok Hs].
  destruct line as [|c t]; [discriminate|].
  cbn [starts_nonws] in Hs. apply negb_true_iff in Hs.
  assert (Hb : is_blank c = false) by (apply blank_ws, Hs).
  assert (He' : ends_ok (c :: t) = true).
  { unfold ends_nonws in He. unfold ends_ok. destruct (rev (c :: t)); [reflexivity|].
    apply negb_true_iff in He. rewrite (blank_ws _ He). reflexivity. }
  cbn [forallb] in Hok. apply andb_prop in Hok as [Hc Hok].
  eapply evals_ref_normal_ok; [reflexivity | reflexivity |].
  apply evals_alt_l. ref_s.
  change (@nil tree) with ([] ++ [] ++ ([] ++ [] ++ @nil tree))%list.
  eapply evals_seq_ok.
  - apply evals_not_ok. apply (kw_list_fail pos (c :: t) rest Hkw).
  - apply skip_none. cbn. exact Hb.
  - eapply evals_seq_ok.
    + apply (line_chars c t pos rest Hc Hb Hok He').
    + apply skip_none. reflexivity.
    + apply nl_ok.
Qed.

(** ---- the alternatives of the top rule on a command line / at the end ---- *)
Lemma opt_soi pos r : EV (POpt PSoi) AtNon pos r (POk pos r []).
Proof. apply (evals_of_ev l_grammar 2); [|discriminate]. destruct pos; reflexivity. Qed.

Lemma exp_if_fails pos r : strip_prefix s_if r = None -> starts_blank r = false -> EV (PRef L_EXP_IF) AtNon pos r PFail.
Proof.
  intros H Hb. ref_nf. eapply evals_seq_fail_b; [apply opt_soi | apply skip_none, Hb |].
  apply evals_seq_fail. ref_nf. apply evals_seq_fail. ref_nf. apply evals_seq_fail. ref_s. apply evals_str_fail, H.
Qed.

Lemma exp_for_fails pos r : strip_prefix s_for r = None -> starts_blank r = false -> EV (PRef L_EXP_FOR) AtNon pos r PFail.
Proof.
  intros H Hb. ref_nf. eapply evals_seq_fail_b; [apply opt_soi | apply skip_none, Hb |].
  apply evals_seq_fail. ref_nf. apply evals_seq_fail. ref_s. apply evals_str_fail, H.
Qed.

Lemma exp_while_fails pos r : strip_prefix s_while r = None -> starts_blank r = false -> EV (PRef L_EXP_WHILE) AtNon pos r PFail.
Proof.
  intros H Hb. ref_nf. eapply evals_seq_fail_b; [apply opt_soi | apply skip_none, Hb |].
  apply evals_seq_fail. ref_nf. apply evals_seq_fail. ref_s. apply evals_str_fail, H.
Qed.

Definition Y_top : pexp := PAlt (PRef L_EXP_IF) (PAlt (PRef L_EXP_FOR) (PAlt (PRef L_EXP_WHILE) (PRef L_CMD))).

Lemma cmd_ok_facts line : cmd_ok line = true ->
  forall rest, starts_blank (line ++ 10 :: rest) = false /\
  strip_prefix s_if (line ++ 10 :: rest) = None /\ strip_prefix s_for (line ++ 10 :: rest) = None /\
  strip_prefix s_while (line ++ 10 :: rest) = None.
Proof.
  intros H rest. unfold cmd_ok in H.
  apply andb_prop in H as [H Hkw]. apply andb_prop in H as [H He]. apply andb_prop in H as [Hok Hs].
  unfold strict_nokw, kw_prefixes in Hkw. cbn [forallb] in Hkw.
  repeat (apply andb_prop in Hkw as [? Hkw]).
  repeat match goal with X : negb _ = true |- _ => apply negb_true_iff in X end.
  split; [|repeat split; apply nokw_fail; (assumption || reflexivity)].
  destruct line as [|c t]; [discriminate|]. cbn. apply blank_ws. cbn in Hs. apply negb_true_iff in Hs. exact Hs.
Qed.

Lemma Y_cmd pos line rest : cmd_ok line = true ->
  EV Y_top AtNon pos (line ++ 10 :: rest) (POk (S (pos + length line)) rest [Node L_CMD pos (S (pos + length line)) []]).
Proof.
  intro H. destruct (cmd_ok_facts line H rest) as [Hb [H1 [H2 H3]]]. unfold Y_top.
  apply evals_alt_r; [apply exp_if_fails; assumption|].
  apply evals_alt_r; [apply exp_for_fails; assumption|].
  apply evals_alt_r; [apply exp_while_fails; assumption|].
  apply cmd_parses, H.
Qed.

Lemma Y_nil pos : EV Y_top AtNon pos [] PFail.
Proof. apply (evals_of_ev l_grammar 40); [|discriminate]. destruct pos; vm_compute; reflexivity. Qed.

(** ---- flat scripts ---- *)
Fixpoint render_lines (ls : list str) : str :=
  match ls with [] => [] | l :: r => l ++ 10 :: render_lines r end.
Fixpoint cmd_nodes (pos : nat) (ls : list str) : list tree :=
  match ls with
  | [] => []
  | l :: r => Node L_CMD pos (S (pos + length l)) [] :: cmd_nodes (S (pos + length l)) r
  end.

Lemma render_lines_start ls : forallb cmd_ok ls = true -> starts_blank (render_lines ls) = false.
Proof.
  destruct ls as [|l r]; [reflexivity|]. cbn [forallb render_lines]. intro H. apply andb_prop in H as [H _].
  apply (cmd_ok_facts l H (render_lines r)).
Qed.

Lemma lines_tail : forall ls pos, forallb cmd_ok ls = true ->
  EV (PRepTail Y_top) AtNon pos (render_lines ls) (POk (pos + length (render_lines ls)) [] (cmd_nodes pos ls)).
Proof.
  induction ls as [|l r IH]; intros pos H.
  - cbn [render_lines length cmd_nodes]. rewrite Nat.add_0_r.
    eapply evals_reptail_stop; [apply skip_none; reflexivity | apply Y_nil].
  - pose proof (render_lines_start _ H) as Hs.
    cbn [forallb] in H. apply andb_prop in H as [Hl Hr].
    cbn [render_lines cmd_nodes] in *.
    replace (pos + length (l ++ (10%N :: render_lines r)))%nat with (S (pos + length l) + length (render_lines r))%nat
      by (rewrite app_length; cbn [length]; lia).
    change (Node L_CMD pos (S (pos + length l)) [] :: cmd_nodes (S (pos + length l)) r)
      with ([] ++ [Node L_CMD pos (S (pos + length l)) []] ++ cmd_nodes (S (pos + length l)) r)%list.
    eapply evals_reptail_step; [apply skip_none, Hs | apply Y_cmd, Hl | lia | apply IH, Hr].
Qed.

Lemma lines_rep ls pos : forallb cmd_ok ls = true ->
  EV (PRep Y_top) AtNon pos (render_lines ls) (POk (pos + length (render_lines ls)) [] (cmd_nodes pos ls)).
Proof.
  intro H. destruct ls as [|l r].
  - cbn [render_lines length cmd_nodes]. rewrite Nat.add_0_r. apply evals_rep_none, Y_nil.
  - cbn [forallb] in H. apply andb_prop in H as [Hl Hr]. cbn [render_lines cmd_nodes].
    replace (pos + length (l ++ (10%N :: render_lines r)))%nat with (S (pos + length l) + length (render_lines r))%nat
      by (rewrite app_length; cbn [length]; lia).
    change (Node L_CMD pos (S (pos + length l)) [] :: cmd_nodes (S (pos + length l)) r)
      with ([Node L_CMD pos (S (pos + length l)) []] ++ cmd_nodes (S (pos + length l)) r)%list.
    eapply evals_rep_some; [apply Y_cmd, Hl | apply lines_tail, Hr].
Qed.

Theorem flat_script_parses ls : forallb cmd_ok ls = true ->
  let n := length (render_lines ls) in
  EV (PRef L_EXP) AtNon 0 (render_lines ls)
     (POk n [] [Node L_EXP 0 n (cmd_nodes 0 ls ++ [Node L_EOI n n []])]).
Proof.
  intros H n. eapply evals_ref_normal_ok; [reflexivity | reflexivity |].
  change (cmd_nodes 0 ls ++ [Node L_EOI n n []])%list
    with ([] ++ [] ++ (cmd_nodes 0 ls ++ [] ++ [Node L_EOI n n []]))%list.
  eapply evals_seq_ok.
  - apply (evals_of_ev l_grammar 1); [reflexivity|discriminate].
  - apply skip_none, render_lines_start, H.
  - eapply evals_seq_ok.
    + apply (lines_rep ls 0 H).
    + apply skip_none. reflexivity.
    + apply (evals_of_ev l_grammar 1); [reflexivity|discriminate].
Qed.

(** ---- texts of the pairs ---- *)
Lemma sub_mid pre t rest : sub (pre ++ t ++ rest) (length pre) (length pre + length t) = t.
Proof.
  unfold sub. replace (length pre + length t - length pre)%nat with (length t) by lia.
  rewrite skipn_app, skipn_all, Nat.sub_diag. cbn [skipn app].
  rewrite firstn_app, firstn_all, Nat.sub_diag. cbn [firstn]. apply app_nil_r.
Qed.

Lemma trim_start_nonws t : starts_nonws t = true -> trim_start t = t.
Proof. destruct t as [|c t]; [discriminate|]. cbn. intro H. apply negb_true_iff in H. rewrite H. reflexivity. Qed.

Lemma trim_line l : starts_nonws l = true -> ends_nonws l = true -> trim (l ++ [10]) = l.
Proof.
  intros Hs He. unfold trim. rewrite trim_start_nonws.
  2:{ destruct l; [discriminate|exact Hs]. }
  unfold trim_end. rewrite rev_app_distr. cbn [rev app]. 
  change (trim_start (10 :: rev l)) with (trim_start (rev l)).
  unfold ends_nonws in He. rewrite trim_start_nonws; [apply rev_involutive|].
  destruct (rev l); [discriminate|exact He].
Qed.

Definition cmd_t (l : str) : ttree := TNode L_CMD l [].

Lemma annot_cmds : forall ls pre, forallb cmd_ok ls = true ->
  map (annotate (pre ++ render_lines ls)) (cmd_nodes (length pre) ls) = map cmd_t ls.
Proof.
  induction ls as [|l r IH]; intros pre H; [reflexivity|].
  cbn [forallb] in H. apply andb_prop in H as [Hl Hr].
  cbn [render_lines cmd_nodes map]. f_equal.
  - cbn [annotate map]. unfold cmd_t. f_equal.
    replace (pre ++ l ++ 10 :: render_lines r) with (pre ++ (l ++ [10]) ++ render_lines r)
      by (rewrite <- (app_assoc l); reflexivity).
    replace (S (length pre + length l)) with (length pre + length (l ++ [10%N]))%nat
      by (rewrite app_length; cbn [length]; lia).
    rewrite sub_mid. unfold cmd_ok in Hl.
    apply andb_prop in Hl as [Hl _]. apply andb_prop in Hl as [Hl He]. apply andb_prop in Hl as [_ Hs].
    apply trim_line; assumption.
  - replace (pre ++ l ++ 10 :: render_lines r) with ((pre ++ l ++ [10]) ++ render_lines r)
      by (rewrite <- !app_assoc; reflexivity).
    replace (S (length pre + length l)) with (length (pre ++ l ++ [10%N]))
      by (rewrite !app_length; cbn [length]; lia).
    apply IH, Hr.
Qed.

(** ---- flat scripts as syntax trees ---- *)
Fixpoint flat_lines (b : block) : option (list str) :=
  match b with
  | BNil => Some []
  | BCons (SCmd [] line) r => option_map (cons line) (flat_lines r)
  | BCons (SBreak []) r => option_map (cons kw_break) (flat_lines r)
  | BCons (SCont []) r => option_map (cons kw_continue) (flat_lines r)
  | BCons _ _ => None
  end.

(** the fragment: command lines only (break / continue included), no indentation, each line
    free of CR / LF, not starting or ending with white space, not starting with one of
    `if `, `for `, `else if `, `else`, `fi`, `while `, `done` *)
Definition frag_flat (b : block) : bool :=
  match flat_lines b with Some ls => forallb cmd_ok ls | None => false end.

Lemma flat_lines_spec : forall b ls, flat_lines b = Some ls ->
  render_block b = render_lines ls /\ kids_of_block b = map cmd_t ls.
Proof.
  fix IH 1. intros b ls H. destruct b as [|s r]; cbn [flat_lines] in H.
  - injection H as <-. split; reflexivity.
  - destruct s as [ind line|ws|ind|ind| | | ]; try discriminate H;
      destruct ind; try discriminate H;
      destruct (flat_lines r) as [ls'|] eqn:E; try discriminate H;
      injection H as <-; destruct (IH r ls' E) as [H1 H2];
      (split; [ change (render_block (BCons ?s r)) with (render_stmt s ++ render_block r)
              | change (kids_of_block (BCons ?s r)) with (tree_of_stmt s :: kids_of_block r) ]).
    all: try (cbn [render_stmt app nl]; rewrite H1; cbn [render_lines]; rewrite <- app_assoc; reflexivity).
    all: try (rewrite H2; reflexivity).
Qed.

Lemma sub_all src : sub src 0 (length src) = src.
Proof. unfold sub. rewrite Nat.sub_0_r. cbn [skipn]. apply firstn_all. Qed.

Lemma strip_cmds ls : 
  filter (fun k => negb (t_rule k =? L_EOI)) (map (strip_eoi L_EOI) (map cmd_t ls ++ [TNode L_EOI [] []])) = map cmd_t ls.
Proof.
  rewrite map_app, filter_app. cbn [map strip_eoi filter t_rule]. rewrite N.eqb_refl. cbn [negb]. rewrite app_nil_r.
  induction ls as [|l r IH]; [reflexivity|]. cbn [map strip_eoi filter t_rule cmd_t].
  change (L_CMD =? L_EOI) with false. cbn [negb]. f_equal. exact IH.
Qed.

(** C14_parse_partial: every flat script is parsed, completely, to its ideal tree --
    for all sufficiently large fuel (the real parser has no fuel). *)
Theorem parse_flat : forall b, frag_flat b = true ->
  exists kids,
    EV (PRef L_EXP) AtNon 0 (render_block b) (POk (length (render_block b)) [] kids) /\
    map (fun k => strip_eoi L_EOI (annotate (render_block b) k)) kids = [tree_of_script b].
Proof.
  intros b H. unfold frag_flat in H. destruct (flat_lines b) as [ls|] eqn:E; [|discriminate].
  destruct (flat_lines_spec b ls E) as [Hr Hk].
  pose proof (flat_script_parses ls H) as P. cbv zeta in P.
  eexists. split.
  - rewrite Hr. exact P.
  - cbn [map]. f_equal. unfold tree_of_script. rewrite Hk, Hr.
    cbn [annotate strip_eoi]. rewrite sub_all. f_equal.
    rewrite map_app. cbn [map annotate].
    pose proof (annot_cmds ls [] H) as A. cbn [app length] in A. rewrite A.
    replace (trim (sub (render_lines ls) (length (render_lines ls)) (length (render_lines ls)))) with (@nil char).
    + apply strip_cmds.
    + unfold sub. rewrite Nat.sub_diag. reflexivity.
Qed.

(** ... and for the fuel that parse_from computes: that result or out of fuel, nothing else. *)
Corollary parse_flat_from : forall b, frag_flat b = true ->
  parse_from l_grammar L_EXP (render_block b) = PFuel \/ parse_ok b.
Proof.
  intros b H. destruct (parse_flat b H) as [kids [[f0 Hf] Hk]].
  destruct (parse_from l_grammar L_EXP (render_block b)) as [| |p r k] eqn:E; [|left; reflexivity|].
  - right. exfalso. unfold parse_from in E.
    pose proof (Hf (Nat.max f0 (peg_fuel (render_block b))) (Nat.le_max_l _ _)) as H1.
    rewrite (ev_mono_le l_grammar _ _ _ _ _ _ _ E) in H1; [discriminate|discriminate|apply Nat.le_max_r].
  - right. unfold parse_from in E.
    pose proof (Hf (Nat.max f0 (peg_fuel (render_block b))) (Nat.le_max_l _ _)) as H1.
    rewrite (ev_mono_le l_grammar _ _ _ _ _ _ _ E) in H1; [|discriminate|apply Nat.le_max_r].
    injection H1 as -> -> ->. exists (length (render_block b)), kids. split; [exact E | exact Hk].
Qed.

(** ================= groundwork for blocks: TEST and the heads ================= *)
Definition STOPSET : pexp := PAlt NL (PAlt (PRef L_DUMMY_THEN) (PRef L_DUMMY_DO)).
Definition E_test : pexp := PSeq (PNot STOPSET) PAny.
Definition okt (c : char) : bool := okc c && negb (c =? 59).

Lemma semi_fail c r : (c =? 59) = false -> strip_prefix [59] (c :: r) = None.
Proof. intro H. cbn [strip_prefix]. rewrite N.eqb_sym, H. reflexivity. Qed.

Lemma stopset_fail pos c r : okt c = true -> EV STOPSET AtNon pos (c :: r) PFail.
Proof.
  intro H. unfold okt in H. apply andb_prop in H as [H1 H2]. apply negb_true_iff in H2.
  unfold STOPSET. apply evals_alt_r; [apply nl_fail, H1|].
  apply evals_alt_r; ref_s; apply evals_seq_fail, evals_str_fail, semi_fail, H2.
Qed.

Lemma stopset_nl pos r : EV STOPSET AtNon pos (10 :: r) (POk (S pos) r []).
Proof. unfold STOPSET. apply evals_alt_l, nl_ok. Qed.

Lemma Et_char pos c r : okt c = true -> is_blank c = false -> EV E_test AtNon pos (c :: r) (POk (S pos) r []).
Proof.
  intros Hc Hb. unfold E_test.
  change (@nil tree) with ([] ++ [] ++ @nil tree)%list.
  eapply evals_seq_ok; [apply evals_not_ok, stopset_fail, Hc | apply skip_none; exact Hb | apply evals_any].
Qed.

Lemma Et_stop pos r : EV E_test AtNon pos (10 :: r) PFail.
Proof. unfold E_test. apply evals_seq_fail. eapply evals_not_fail, stopset_nl. Qed.

(** E ~ E*  (the unrolled E+) over a text: after the first character the implicit skip runs once *)
Section SeqRep.
Variable E : pexp.
Variable okc' : char -> bool.
Hypothesis HE_char : forall pos c r, okc' c = true -> is_blank c = false -> EV E AtNon pos (c :: r) (POk (S pos) r []).
Hypothesis HE_stop : forall pos r, EV E AtNon pos (10 :: r) PFail.

Lemma skip_rep t pos rest : forallb okc' t = true -> ends_ok t = true ->
  exists p1 r1, EV PSkip AtNon pos (t ++ 10 :: rest) (POk p1 r1 []) /\
                EV (PRep E) AtNon p1 r1 (POk (pos + length t) (10 :: rest) []).
Proof.
  intros Hok He. destruct (span_bl t) as [a b] eqn:Es.
  destruct (span_bl_spec _ _ _ Es) as [Et [Ha Hb]]. subst t.
  destruct b as [|c b].
  - rewrite app_nil_r in *. destruct a as [|a0 a].
    + exists pos, (10 :: rest). cbn [app length]. rewrite Nat.add_0_r. split.
      * apply skip_none. reflexivity.
      * apply evals_rep_none, HE_stop.
    + rewrite all_blank_ends in He; [discriminate|discriminate|exact Ha].
  - exists (pos + length a)%nat, ((c :: b) ++ 10 :: rest). split.
    + rewrite <- app_assoc. apply skip_blanks; [exact Ha | exact Hb].
    + rewrite forallb_app in Hok. apply andb_prop in Hok as [_ Hok]. cbn [forallb] in Hok.
      apply andb_prop in Hok as [Hc Hok]. cbn [starts_blank] in Hb.
      rewrite ends_ok_app_blank in He by (assumption || discriminate).
      rewrite app_length. rewrite Nat.add_assoc.
      apply (gen_chars E okc' HE_char HE_stop c b (pos + length a) rest Hc Hb Hok He).
Qed.

Lemma plus_chars c t pos rest : okc' c = true -> is_blank c = false -> forallb okc' t = true -> ends_ok (c :: t) = true ->
  EV (PSeq E (PRep E)) AtNon pos ((c :: t) ++ 10 :: rest) (POk (pos + length (c :: t)) (10 :: rest) []).
Proof.
  intros Hc Hb Hok He.
  assert (He' : ends_ok t = true) by (destruct t; [reflexivity | rewrite ends_ok_tail in He by discriminate; exact He]).
  destruct (skip_rep t (S pos) rest Hok He') as [p1 [r1 [Hs Hr]]].
  cbn [app length]. replace (pos + S (length t))%nat with (S pos + length t)%nat by lia.
  change (@nil tree) with ([] ++ [] ++ @nil tree)%list.
  eapply evals_seq_ok; [apply HE_char; assumption | exact Hs | exact Hr].
Qed.
End SeqRep.

(** a condition / word list: one line, no `;`, no white space at either end *)
Definition cond_ok (t : str) : bool := forallb okt t && starts_nonws t && ends_nonws t.

Lemma test_parses pos cond rest : cond_ok cond = true ->
  EV (PRef L_TEST) AtNon pos (cond ++ 10 :: rest)
     (POk (pos + length cond) (10 :: rest) [Node L_TEST pos (pos + length cond) []]).
Proof.
  intro H. unfold cond_ok in H. apply andb_prop in H as [H He]. apply andb_prop in H as [Hok Hs].
  destruct cond as [|c t]; [discriminate|].
  cbn [starts_nonws] in Hs. apply negb_true_iff in Hs.
  assert (Hb : is_blank c = false) by (apply blank_ws, Hs).
  assert (He' : ends_ok (c :: t) = true).
  { unfold ends_nonws in He. unfold ends_ok. destruct (rev (c :: t)); [reflexivity|].
    apply negb_true_iff in He. rewrite (blank_ws _ He). reflexivity. }
  cbn [forallb] in Hok. apply andb_prop in Hok as [Hc Hok].
  eapply evals_ref_normal_ok; [reflexivity | reflexivity |].
  apply (plus_chars E_test okt Et_char Et_stop c t pos rest Hc Hb Hok He').
Qed.

(** WHILE_HEAD / IF_HEAD on  `while cond NL` / `if cond NL`  (newline spelling) *)
Lemma cond_starts cond rest : cond_ok cond = true -> starts_blank (cond ++ 10 :: rest) = false.
Proof.
  intro H. unfold cond_ok in H. apply andb_prop in H as [H _]. apply andb_prop in H as [_ Hs].
  destruct cond as [|c t]; [discriminate|]. cbn. apply blank_ws. cbn in Hs. apply negb_true_iff in Hs. exact Hs.
Qed.

Lemma then_do_fail pos r : EV (PAlt (PRef L_DUMMY_THEN) NL) AtNon pos (10 :: r) (POk (S pos) r []) /\
                           EV (PAlt (PRef L_DUMMY_DO) NL) AtNon pos (10 :: r) (POk (S pos) r []).
Proof.
  split; (apply evals_alt_r; [ref_s; apply evals_seq_fail, evals_str_fail; reflexivity | apply nl_ok]).
Qed.

Lemma while_head_parses pos cond rest : cond_ok cond = true ->
  EV (PRef L_WHILE_HEAD) AtNon pos (s_while ++ cond ++ 10 :: rest)
     (POk (S (pos + 6 + length cond)) rest
        [Node L_WHILE_HEAD pos (S (pos + 6 + length cond)) [Node L_TEST (pos + 6) (pos + 6 + length cond) []]]).
Proof.
  intro H. eapply evals_ref_normal_ok; [reflexivity | reflexivity |].
  change [Node L_TEST (pos + 6) (pos + 6 + length cond) []]
    with ([] ++ [] ++ ([Node L_TEST (pos + 6) (pos + 6 + length cond) []] ++ [] ++ []))%list.
  eapply evals_seq_ok.
  - ref_s. apply evals_str_ok. apply strip_prefix_app_some.
  - apply skip_none, cond_starts, H.
  - eapply evals_seq_ok.
    + apply test_parses, H.
    + apply skip_none. reflexivity.
    + apply then_do_fail.
Qed.

Lemma if_head_parses pos cond rest : cond_ok cond = true ->
  EV (PRef L_IF_HEAD) AtNon pos (s_if ++ cond ++ 10 :: rest)
     (POk (S (pos + 3 + length cond)) rest
        [Node L_IF_HEAD pos (S (pos + 3 + length cond)) [Node L_TEST (pos + 3) (pos + 3 + length cond) []]]).
Proof.
  intro H. eapply evals_ref_normal_ok; [reflexivity | reflexivity |].
  change [Node L_TEST (pos + 3) (pos + 3 + length cond) []]
    with ([] ++ [] ++ ([Node L_TEST (pos + 3) (pos + 3 + length cond) []] ++ [] ++ []))%list.
  eapply evals_seq_ok.
  - ref_s. apply evals_str_ok. apply strip_prefix_app_some.
  - apply skip_none, cond_starts, H.
  - eapply evals_seq_ok.
    + apply test_parses, H.
    + apply skip_none. reflexivity.
    + apply then_do_fail.
Qed.

(** ================= one block: `while cond / flat body / done` ================= *)
(** ---- a flat body inside a block: the repetition stops at the closing keyword ---- *)
Section BodyLoop.
Variable A : pexp.
Variable T : str.     (* what follows the body *)
Hypothesis A_cmd : forall pos line rest, cmd_ok line = true ->
  EV A AtNon pos (line ++ 10 :: rest) (POk (S (pos + length line)) rest [Node L_CMD pos (S (pos + length line)) []]).
Hypothesis A_stop : forall pos, EV A AtNon pos T PFail.
Hypothesis T_start : starts_blank T = false.

Lemma render_lines_app_start ls : forallb cmd_ok ls = true -> starts_blank (render_lines ls ++ T) = false.
Proof.
  destruct ls as [|l r]; [intros _; exact T_start|]. cbn [forallb render_lines]. intro H. apply andb_prop in H as [H _].
  rewrite <- app_assoc. cbn [app]. apply (cmd_ok_facts l H (render_lines r ++ T)).
Qed.

Lemma lines_tail_gen : forall ls pos, forallb cmd_ok ls = true ->
  EV (PRepTail A) AtNon pos (render_lines ls ++ T) (POk (pos + length (render_lines ls)) T (cmd_nodes pos ls)).
Proof.
  induction ls as [|l r IH]; intros pos H.
  - cbn [render_lines length cmd_nodes app]. rewrite Nat.add_0_r.
    eapply evals_reptail_stop; [apply skip_none, T_start | apply A_stop].
  - pose proof (render_lines_app_start _ H) as Hs.
    cbn [forallb] in H. apply andb_prop in H as [Hl Hr].
    cbn [render_lines cmd_nodes] in *. rewrite <- app_assoc in *. cbn [app] in *.
    replace (pos + length (l ++ (10%N :: render_lines r)))%nat with (S (pos + length l) + length (render_lines r))%nat
      by (rewrite app_length; cbn [length]; lia).
    change (Node L_CMD pos (S (pos + length l)) [] :: cmd_nodes (S (pos + length l)) r)
      with ([] ++ [Node L_CMD pos (S (pos + length l)) []] ++ cmd_nodes (S (pos + length l)) r)%list.
    eapply evals_reptail_step; [apply skip_none, Hs | apply A_cmd, Hl | lia | apply IH, Hr].
Qed.

(** A ~ A*  over a non-empty flat body *)
Lemma body_plus l r pos : forallb cmd_ok (l :: r) = true ->
  EV (PSeq A (PRep A)) AtNon pos (render_lines (l :: r) ++ T)
     (POk (pos + length (render_lines (l :: r))) T (cmd_nodes pos (l :: r))).
Proof.
  intro H. cbn [forallb] in H. apply andb_prop in H as [Hl Hr].
  cbn [render_lines cmd_nodes]. rewrite <- app_assoc. cbn [app].
  replace (pos + length (l ++ (10%N :: render_lines r)))%nat with (S (pos + length l) + length (render_lines r))%nat
    by (rewrite app_length; cbn [length]; lia).
  change (Node L_CMD pos (S (pos + length l)) [] :: cmd_nodes (S (pos + length l)) r)
    with ([Node L_CMD pos (S (pos + length l)) []] ++ [] ++ cmd_nodes (S (pos + length l)) r)%list.
  eapply evals_seq_ok; [apply A_cmd, Hl | apply skip_none, render_lines_app_start, Hr |].
  destruct r as [|l2 r2].
  - cbn [render_lines length cmd_nodes app]. rewrite Nat.add_0_r. apply evals_rep_none, A_stop.
  - cbn [forallb] in Hr. apply andb_prop in Hr as [Hl2 Hr2].
    cbn [render_lines cmd_nodes]. rewrite <- app_assoc. cbn [app].
    replace (S (pos + length l) + length (l2 ++ (10%N :: render_lines r2)))%nat
      with (S (S (pos + length l) + length l2) + length (render_lines r2))%nat
      by (rewrite app_length; cbn [length]; lia).
    change (Node L_CMD (S (pos + length l)) (S (S (pos + length l) + length l2)) [] :: cmd_nodes (S (S (pos + length l) + length l2)) r2)
      with ([Node L_CMD (S (pos + length l)) (S (S (pos + length l) + length l2)) []] ++ cmd_nodes (S (S (pos + length l) + length l2)) r2)%list.
    eapply evals_rep_some; [apply A_cmd, Hl2 | apply lines_tail_gen, Hr2].
Qed.
End BodyLoop.

Definition X_body : pexp := PAlt (PRef L_CMD) (PAlt (PRef L_EXP_IF) (PAlt (PRef L_EXP_WHILE) (PRef L_EXP_FOR))).

Lemma X_cmd pos line rest : cmd_ok line = true ->
  EV X_body AtNon pos (line ++ 10 :: rest) (POk (S (pos + length line)) rest [Node L_CMD pos (S (pos + length line)) []]).
Proof. intro H. apply evals_alt_l, cmd_parses, H. Qed.

Lemma X_stop_done pos rest : EV X_body AtNon pos (s_done ++ 10 :: rest) PFail.
Proof. apply (evals_of_ev l_grammar 40); [|discriminate]. destruct pos; vm_compute; reflexivity. Qed.

Lemma X_stop_fi pos rest : EV X_body AtNon pos (s_fi ++ 10 :: rest) PFail.
Proof. apply (evals_of_ev l_grammar 40); [|discriminate]. destruct pos; vm_compute; reflexivity. Qed.

(** EXP_BODY over a non-empty flat body closed by `done` *)
Lemma exp_body_done l r pos rest : forallb cmd_ok (l :: r) = true ->
  EV (PRef L_EXP_BODY) AtNon pos (render_lines (l :: r) ++ s_done ++ 10 :: rest)
     (POk (pos + length (render_lines (l :: r))) (s_done ++ 10 :: rest)
          [Node L_EXP_BODY pos (pos + length (render_lines (l :: r))) (cmd_nodes pos (l :: r))]).
Proof.
  intro H. eapply evals_ref_normal_ok; [reflexivity | reflexivity |].
  apply (body_plus X_body (s_done ++ 10 :: rest) X_cmd (fun p => X_stop_done p rest) eq_refl l r pos H).
Qed.

(** `while cond NL  flat body  done NL`: the rule EXP_WHILE, spans included *)
Lemma while_parses pos cond l r rest : cond_ok cond = true -> forallb cmd_ok (l :: r) = true ->
  let body := render_lines (l :: r) in
  let p1 := S (pos + 6 + length cond) in
  let p2 := (p1 + length body)%nat in
  EV (PRef L_EXP_WHILE) AtNon pos (s_while ++ cond ++ 10 :: body ++ s_done ++ 10 :: rest)
     (POk (p2 + 5) rest
        [Node L_EXP_WHILE pos (p2 + 5)
           [Node L_WHILE_HEAD pos p1 [Node L_TEST (pos + 6) (pos + 6 + length cond) []];
            Node L_EXP_BODY p1 p2 (cmd_nodes p1 (l :: r))]]).
Proof.
  intros Hc Hb body p1 p2.
  eapply evals_ref_normal_ok; [reflexivity | reflexivity |].
  change [Node L_WHILE_HEAD pos p1 [Node L_TEST (pos + 6) (pos + 6 + length cond) []]; Node L_EXP_BODY p1 p2 (cmd_nodes p1 (l :: r))]
    with ([] ++ [] ++ ([Node L_WHILE_HEAD pos p1 [Node L_TEST (pos + 6) (pos + 6 + length cond) []]] ++ [] ++
           ([Node L_EXP_BODY p1 p2 (cmd_nodes p1 (l :: r))] ++ [] ++ [])))%list.
  eapply evals_seq_ok; [apply opt_soi | apply skip_none; reflexivity |].
  eapply evals_seq_ok.
  - apply while_head_parses, Hc.
  - apply skip_none. apply (render_lines_app_start (s_done ++ 10 :: rest) eq_refl (l :: r) Hb).
  - eapply evals_seq_ok.
    + apply exp_body_done, Hb.
    + apply skip_none. reflexivity.
    + ref_s. apply (evals_of_ev l_grammar 6); [|discriminate]. vm_compute. rewrite !Nat.add_succ_r, !Nat.add_0_r. reflexivity.
Qed.

(** ---- a script that is one `while` block around a flat body ---- *)
Lemma annot_cmds_suf : forall ls pre suf, forallb cmd_ok ls = true ->
  map (annotate (pre ++ render_lines ls ++ suf)) (cmd_nodes (length pre) ls) = map cmd_t ls.
Proof.
  induction ls as [|l r IH]; intros pre suf H; [reflexivity|].
  cbn [forallb] in H. apply andb_prop in H as [Hl Hr].
  cbn [render_lines cmd_nodes map]. f_equal.
  - cbn [annotate map]. unfold cmd_t. f_equal.
    replace (pre ++ (l ++ 10 :: render_lines r) ++ suf) with (pre ++ (l ++ [10]) ++ (render_lines r ++ suf))
      by (rewrite <- !app_assoc; reflexivity).
    replace (S (length pre + length l)) with (length pre + length (l ++ [10%N]))%nat
      by (rewrite app_length; cbn [length]; lia).
    rewrite sub_mid. unfold cmd_ok in Hl.
    apply andb_prop in Hl as [Hl _]. apply andb_prop in Hl as [Hl He]. apply andb_prop in Hl as [_ Hs].
    apply trim_line; assumption.
  - replace (pre ++ (l ++ 10 :: render_lines r) ++ suf) with ((pre ++ l ++ [10]) ++ render_lines r ++ suf)
      by (rewrite <- !app_assoc; reflexivity).
    replace (S (length pre + length l)) with (length (pre ++ l ++ [10%N]))
      by (rewrite !app_length; cbn [length]; lia).
    apply IH, Hr.
Qed.

Lemma trim_self t : starts_nonws t = true -> ends_nonws t = true -> trim t = t.
Proof.
  intros Hs He. unfold trim. rewrite trim_start_nonws by exact Hs.
  unfold trim_end. unfold ends_nonws in He. rewrite trim_start_nonws; [apply rev_involutive|].
  destruct (rev t); [discriminate|exact He].
Qed.

Definition while_script (cond : str) (ls : list str) : str :=
  s_while ++ cond ++ 10 :: render_lines ls ++ s_done ++ [10].

(** positions only: the whole script `while cond / flat body / done` is parsed completely, to
    EXP [ EXP_WHILE [ WHILE_HEAD [TEST]; EXP_BODY [CMD ...] ]; EOI ]  with these spans *)
Theorem while_script_parses_pos cond l r : cond_ok cond = true -> forallb cmd_ok (l :: r) = true ->
  let src := while_script cond (l :: r) in
  let p1 := S (6 + length cond) in
  let p2 := (p1 + length (render_lines (l :: r)))%nat in
  EV (PRef L_EXP) AtNon 0 src
     (POk (length src) []
        [Node L_EXP 0 (length src)
           [Node L_EXP_WHILE 0 (p2 + 5)
              [Node L_WHILE_HEAD 0 p1 [Node L_TEST 6 (6 + length cond) []];
               Node L_EXP_BODY p1 p2 (cmd_nodes p1 (l :: r))];
            Node L_EOI (length src) (length src) []]]).
Proof.
  intros Hc Hb src p1 p2.
  pose proof (while_parses 0 cond l r [] Hc Hb) as P. cbv zeta in P. cbn [Nat.add] in P. fold p1 in P. fold p2 in P.
  assert (Hn : length src = (p2 + 5)%nat).
  { unfold src, while_script, p2, p1. rewrite !app_length. cbn [length]. rewrite !app_length. cbn [length].
    change (length s_while) with 6%nat. change (length s_done) with 4%nat. lia. }
  eapply evals_ref_normal_ok; [reflexivity | reflexivity |].
  change [Node L_EXP_WHILE 0 (p2 + 5) [Node L_WHILE_HEAD 0 p1 [Node L_TEST 6 (6 + length cond) []]; Node L_EXP_BODY p1 p2 (cmd_nodes p1 (l :: r))];
          Node L_EOI (length src) (length src) []]
    with ([] ++ [] ++ (([Node L_EXP_WHILE 0 (p2 + 5) [Node L_WHILE_HEAD 0 p1 [Node L_TEST 6 (6 + length cond) []]; Node L_EXP_BODY p1 p2 (cmd_nodes p1 (l :: r))]] ++ []) ++ [] ++
          [Node L_EOI (length src) (length src) []]))%list.
  eapply evals_seq_ok; [apply (evals_of_ev l_grammar 1); [reflexivity|discriminate] | apply skip_none; reflexivity |].
  eapply evals_seq_ok.
  - eapply evals_rep_some.
    + unfold Y_top. apply evals_alt_r; [apply exp_if_fails; reflexivity|].
      apply evals_alt_r; [apply exp_for_fails; reflexivity|].
      apply evals_alt_l. exact P.
    + eapply evals_reptail_stop; [apply skip_none; reflexivity | apply Y_nil].
  - apply skip_none. reflexivity.
  - rewrite Hn. apply (evals_of_ev l_grammar 1); [reflexivity|discriminate].
Qed.
