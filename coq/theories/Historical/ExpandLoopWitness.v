(** HISTORICAL (outside every cone): concrete witnesses against the full statement of C10 for the
    former loop (values are rescanned; self reference, newline and an unterminated brace make
    the loop diverge). *)
From Coq Require Import List NArith ZArith Bool Lia.
From Cicada Require Import Base.Chars Base.Tag Base.Regex Gen.ShellRegexes Model.Expand Model.ExpandRef
  Historical.ExpandLoop Proofs.ExpandBasics Historical.ExpandLoopProofs.
Import ListNotations.
From Coq Require String.
Import String.StringSyntax.
Local Open Scope N_scope.

Definition C10_full_old : Prop :=
  forall W ps tg, wf_pieces ps = true -> tg <> TSq -> tg <> TBq ->
  exists f, expand_env_old f W [(tg, render_pieces ps)] = Ok [(tg, den_pieces W ps)].

(** A='$A'; echo $A *)
Definition W_self := world_of [(s2l "A", s2l "$A")] [].
Definition ps_A := [PRef false (s2l "A")].

Lemma self_reference_hangs : forall f tg, tg <> TSq -> tg <> TBq ->
  expand_env_old f W_self [(tg, render_pieces ps_A)] = OutOfFuel.
Proof.
  intros f tg H1 H2. apply expand_env_diverges; try assumption; vm_compute; reflexivity.
Qed.

Theorem full_refuted : ~ C10_full_old.
Proof.
  intros H. destruct (H W_self ps_A TNone eq_refl) as [f Hf]; try discriminate.
  rewrite self_reference_hangs in Hf by discriminate. discriminate.
Qed.

(** A='x$B'; B=y; echo $A  gives xy: the inserted value is scanned again *)
Definition W_rescan := world_of [(s2l "A", s2l "x$B"); (s2l "B", s2l "y")] [].
Lemma rescan_witness :
  wf_pieces ps_A = true /\ den_pieces W_rescan ps_A = s2l "x$B" /\
  forall f, (3 <= f)%nat -> expand_env_old f W_rescan [(TNone, render_pieces ps_A)] = Ok [(TNone, s2l "xy")].
Proof.
  split; [reflexivity|]. split; [reflexivity|].
  intros f Hf.
  assert (E : expand_env_loop 3 W_rescan (render_pieces ps_A) = Ok (s2l "xy")) by (vm_compute; reflexivity).
  cbn [expand_env_old]. unfold expand_env_tok_old. cbn [fst snd].
  replace (env_in_token (render_pieces ps_A)) with true by (vm_compute; reflexivity).
  rewrite (expand_env_loop_ge 3 _ _ _ E f Hf). reflexivity.
Qed.

(** a word holding a newline and a reference:  a<newline>$A  (any world) *)
Lemma newline_hangs W : forall f tg, tg <> TSq -> tg <> TBq ->
  expand_env_old f W [(tg, [97; 10; 36; 65])] = OutOfFuel.
Proof.
  intros f tg H1 H2. apply expand_env_diverges; try assumption; vm_compute; reflexivity.
Qed.

(** an unterminated brace reference:  ${A  (any world) *)
Lemma unterminated_brace_hangs W : forall f tg, tg <> TSq -> tg <> TBq ->
  expand_env_old f W [(tg, [36; 123; 65])] = OutOfFuel.
Proof.
  intros f tg H1 H2. apply expand_env_diverges; try assumption; vm_compute; reflexivity.
Qed.

(** with the braced form on a later line, the earlier lines are dropped:  a<newline>${A}  becomes the value *)
Lemma newline_braced_drops_lines :
  expand_env_old 5 (world_of [(s2l "A", s2l "v")] []) [(TDq, [97; 10; 36; 123; 65; 125])] = Ok [(TDq, s2l "v")].
Proof. vm_compute. reflexivity. Qed.
