(** HISTORICAL (outside every cone): the proofs about the former loop
    [while env_in_token(t) { t = expand_one_env(t) }] (Historical/ExpandLoop.v): quoted tokens,
    divergence on accepted fixed points, and the partial theorem [expand_env_pieces] -- on the
    domain [c10_dom] the loop ended within [count_refs + 1] iterations with the one-pass
    substitution [den_pieces]. *)
From Coq Require Import List NArith ZArith Bool Lia.
From Cicada Require Import Base.Chars Base.Tag Base.Regex Gen.ShellRegexes Model.Expand Model.ExpandRef
  Historical.ExpandLoop Proofs.ExpandBasics Proofs.EnvProofs.
Import ListNotations.
Local Open Scope N_scope.

(* ------------------------------------------------------------------ quoted tokens *)
Lemma expand_env_tok_old_quoted f W t : fst t = TSq \/ fst t = TBq -> expand_env_tok_old f W t = Ok t.
Proof. intros [H|H]; unfold expand_env_tok_old; rewrite H; reflexivity. Qed.

Lemma expand_env_old_quoted f W toks :
  (forall t, In t toks -> fst t = TSq \/ fst t = TBq) -> expand_env_old f W toks = Ok toks.
Proof.
  induction toks as [|t r IH]; intros H; cbn [expand_env_old]; [reflexivity|].
  rewrite expand_env_tok_old_quoted by (apply H; left; reflexivity).
  cbn [bind]. rewrite IH by (intros x Hx; apply H; right; exact Hx). reflexivity.
Qed.

(** a single-quoted token inside any line is returned as it is (when the line is expanded at all) *)
Lemma expand_env_old_keeps_sq f W pre s post r :
  expand_env_old f W (pre ++ (TSq, s) :: post) = Ok r ->
  exists pre' post', r = pre' ++ (TSq, s) :: post' /\ length pre' = length pre.
Proof.
  revert r; induction pre as [|t pre IH]; intros r H; cbn [app expand_env_old] in H.
  - rewrite expand_env_tok_old_quoted in H by (left; reflexivity). cbn [bind] in H.
    destruct (expand_env_old f W post) as [p| |]; cbn in H; try discriminate.
    injection H as <-. exists [], p. split; reflexivity.
  - destruct (expand_env_tok_old f W t) as [t'| |]; cbn [bind] in H; try discriminate.
    destruct (expand_env_old f W (pre ++ (TSq, s) :: post)) as [q| |] eqn:E; cbn in H; try discriminate.
    injection H as <-. destruct (IH q eq_refl) as (pre' & post' & -> & L).
    exists (t' :: pre'), post'. split; [reflexivity|]. cbn. rewrite L. reflexivity.
Qed.

(* ------------------------------------------------------------------ divergence *)
Lemma expand_env_loop_S f W t :
  expand_env_loop (S f) W t = if env_in_token t then expand_env_loop f W (expand_one_env W t) else Ok t.
Proof. reflexivity. Qed.

(** [while env_in_token(t) { t = expand_one_env(t) }] never ends on a fixed point that tests positive *)
Lemma expand_env_loop_diverges W t :
  expand_one_env W t = t -> env_in_token t = true -> forall f, expand_env_loop f W t = OutOfFuel.
Proof.
  intros Hfix Hin f. induction f as [|f IH]; [reflexivity|].
  rewrite expand_env_loop_S, Hin, Hfix. exact IH.
Qed.

Lemma expand_env_diverges W tg t :
  tg <> TSq -> tg <> TBq -> expand_one_env W t = t -> env_in_token t = true ->
  forall f, expand_env_old f W [(tg, t)] = OutOfFuel.
Proof.
  intros H1 H2 Hfix Hin f. cbn [expand_env_old]. unfold expand_env_tok_old. cbn [fst snd].
  rewrite Hin, (expand_env_loop_diverges W t Hfix Hin f).
  destruct tg; try contradiction; reflexivity.
Qed.

(** cycles of any length: if the k-fold iterate comes back and every iterate tests positive *)
Fixpoint iter_one (k : nat) (W : World) (t : str) : str :=
  match k with O => t | S k' => iter_one k' W (expand_one_env W t) end.

Lemma expand_env_loop_ge f W t r : expand_env_loop f W t = Ok r -> forall g, (f <= g)%nat -> expand_env_loop g W t = Ok r.
Proof.
  revert t; induction f as [|f IH]; intros t H g Hg; [discriminate|].
  destruct g as [|g]; [lia|]. rewrite expand_env_loop_S in *.
  destruct (env_in_token t); [|exact H]. apply IH; [exact H | lia].
Qed.

(* ================================================================== the old domain implies the gate's *)
Lemma okc_okg noeq c : okc noeq c = true -> okg noeq c = true.
Proof.
  unfold okc, okg. intros H. apply andb_true_iff in H as [H H2].
  apply andb_true_iff in H as [_ H1]. rewrite H1, H2. reflexivity.
Qed.

Lemma lits_ok_okg noeq ps : lits_ok noeq ps = true -> lits_okg noeq ps = true.
Proof.
  unfold lits_ok, lits_okg. rewrite !forallb_forall. intros H p Hp. specialize (H p Hp).
  destruct p as [c|b k]; [apply okc_okg; exact H | reflexivity].
Qed.

Lemma okc_10 noeq : okc noeq 10 = false.
Proof. destruct noeq; reflexivity. Qed.

Lemma render_no_nl noeq ps :
  wf_pieces ps = true -> lits_ok noeq ps = true -> ~ In 10 (render_pieces ps).
Proof.
  intros Hwf Hl Hin.
  destruct (in_render 10 ps Hwf Hin) as [H|[H|[H|[H|[H|H]]]]]; try discriminate.
  unfold lits_ok in Hl. rewrite forallb_forall in Hl. apply Hl in H. rewrite okc_10 in H. discriminate.
Qed.

(* ================================================================== keys *)

Lemma key_at_key k rest :
  wf_key k = true -> (is_name k = true -> nhd rest = true) -> key_at (k ++ rest) = Some (k, rest).
Proof.
  intros Hk Hn. destruct (wf_key_cases k Hk) as [H|[-> | ->]].
  - pose proof (name_all_alnum k H) as Ha. specialize (Hn H).
    destruct k as [|c r]; [cbn in H; discriminate|].
    assert (Hc : is_alnum_us c = true)
      by (cbn [forallb] in Ha; apply andb_true_iff in Ha; tauto).
    cbn [app]. unfold key_at. rewrite Hc.
    change (c :: r ++ rest) with ((c :: r) ++ rest). rewrite span_name; auto.
  - reflexivity.
  - reflexivity.
Qed.

Lemma bkey_at_key k rest : wf_key k = true -> bkey_at (k ++ 125 :: rest) = Some (k, rest).
Proof.
  intros Hk. destruct (wf_key_cases k Hk) as [H|[-> | ->]].
  - pose proof (name_all_alnum k H) as Ha.
    destruct k as [|c r]; [cbn in H; discriminate|].
    assert (Hc : is_alnum_us c = true)
      by (cbn [forallb] in Ha; apply andb_true_iff in Ha; tauto).
    cbn [app]. unfold bkey_at. rewrite Hc.
    change (c :: r ++ 125 :: rest) with ((c :: r) ++ 125 :: rest).
    rewrite span_name; [|exact Ha|reflexivity]. rewrite strip_prefix_hd. reflexivity.
  - reflexivity.
  - reflexivity.
Qed.

(* ================================================================== B: first-match functions *)
Lemma find_re1_cons c r :
  find_re1 (c :: r) =
  match (if c =? 36 then key_at r else None) with
  | Some (k, t) => Some ([], k, t)
  | None => match find_re1 r with Some (h, k, t) => Some (c :: h, k, t) | None => None end
  end.
Proof. reflexivity. Qed.

Lemma find_re2_cons c r :
  find_re2 (c :: r) =
  match (if c =? 36 then match strip_prefix [123] r with Some r' => bkey_at r' | None => None end else None) with
  | Some (k, t) => Some ([], k, t)
  | None => match find_re2 r with Some (h, k, t) => Some (c :: h, k, t) | None => None end
  end.
Proof. reflexivity. Qed.

Definition push (h : str) (x : option (str * str * str)) : option (str * str * str) :=
  match x with Some (a, k, t) => Some (h ++ a, k, t) | None => None end.

Lemma find_re1_skip c r : (c =? 36) = false -> find_re1 (c :: r) = push [c] (find_re1 r).
Proof. intros H. rewrite find_re1_cons, H. destruct (find_re1 r) as [[[? ?] ?]|]; reflexivity. Qed.

Lemma find_re2_skip c r : (c =? 36) = false -> find_re2 (c :: r) = push [c] (find_re2 r).
Proof. intros H. rewrite find_re2_cons, H. destruct (find_re2 r) as [[[? ?] ?]|]; reflexivity. Qed.

Lemma push_push h1 h2 x : push h1 (push h2 x) = push (h1 ++ h2) x.
Proof. destruct x as [[[? ?] ?]|]; cbn [push]; [rewrite app_assoc|]; reflexivity. Qed.

Lemma find_re1_nodollar h rest : ~ In 36 h -> find_re1 (h ++ rest) = push h (find_re1 rest).
Proof.
  induction h as [|c h IH]; intros H.
  - cbn [app]. destruct (find_re1 rest) as [[[? ?] ?]|]; reflexivity.
  - cbn [app]. rewrite find_re1_skip.
    + rewrite IH by (intro; apply H; right; assumption). rewrite push_push. reflexivity.
    + apply N.eqb_neq. intro E. apply H. left. exact E.
Qed.

Lemma find_re1_dollar_nokey r : key_at r = None -> find_re1 (36 :: r) = push [36] (find_re1 r).
Proof.
  intros H. rewrite find_re1_cons. change (36 =? 36) with true. cbv iota. rewrite H.
  destruct (find_re1 r) as [[[? ?] ?]|]; reflexivity.
Qed.

(** the text of a braced reference is skipped by re1 *)
Lemma find_re1_braced k rest :
  wf_key k = true ->
  find_re1 (36 :: 123 :: k ++ 125 :: rest) = push (36 :: 123 :: k ++ [125]) (find_re1 rest).
Proof.
  intros Hk.
  rewrite find_re1_dollar_nokey by reflexivity.
  rewrite find_re1_skip by reflexivity. rewrite push_push.
  assert (E : find_re1 (k ++ 125 :: rest) = push (k ++ [125]) (find_re1 rest)).
  { destruct (wf_key_cases k Hk) as [H|[-> | ->]].
    - replace (k ++ 125 :: rest) with ((k ++ [125]) ++ rest) by (rewrite <- app_assoc; reflexivity).
      apply find_re1_nodollar. intros Hin. apply in_app_or in Hin as [Hin|[Hin|[]]]; [|discriminate].
      apply name_all_alnum in H. exact (alnum_not_36 _ H Hin).
    - cbn [app]. rewrite find_re1_dollar_nokey by reflexivity.
      rewrite find_re1_skip by reflexivity. rewrite push_push. reflexivity.
    - cbn [app]. rewrite find_re1_skip by reflexivity.
      rewrite find_re1_skip by reflexivity. rewrite push_push. reflexivity. }
  rewrite E, push_push. reflexivity.
Qed.

Fixpoint split_ub (ps : list piece) : option (list piece * str * list piece) :=
  match ps with
  | [] => None
  | PRef false k :: r => Some ([], k, r)
  | p :: r => match split_ub r with Some (a, k, b) => Some (p :: a, k, b) | None => None end
  end.

Fixpoint split_br (ps : list piece) : option (list piece * str * list piece) :=
  match ps with
  | [] => None
  | PRef true k :: r => Some ([], k, r)
  | PRef false _ :: _ => None
  | PLit c :: r => match split_br r with Some (a, k, b) => Some (PLit c :: a, k, b) | None => None end
  end.

Definition rend3 (x : list piece * str * list piece) : str * str * str :=
  match x with (a, k, b) => (render_pieces a, k, render_pieces b) end.

(** B1 *)
Lemma find_re1_spec ps :
  wf_pieces ps = true -> find_re1 (render_pieces ps) = option_map rend3 (split_ub ps).
Proof.
  induction ps as [|p r IH]; intros Hwf; [reflexivity|].
  pose proof (wf_tail _ _ Hwf) as Hr. specialize (IH Hr).
  destruct p as [c|[|] k].
  - rewrite render_lit, find_re1_skip by (eapply wf_lit_36; eauto).
    rewrite IH. cbn [split_ub]. destruct (split_ub r) as [[[a k] b]|]; reflexivity.
  - rewrite render_br, find_re1_braced by (eapply wf_ref_key; eauto).
    rewrite IH. cbn [split_ub]. destruct (split_ub r) as [[[a k'] b]|]; [|reflexivity].
    cbn [option_map rend3 push]. rewrite render_br.
    cbn [app]. rewrite <- app_assoc. reflexivity.
  - rewrite render_ub, find_re1_cons. change (36 =? 36) with true. cbv iota.
    rewrite key_at_key; [reflexivity | eapply wf_ref_key; eauto | apply wf_ref_nhd; exact Hwf].
Qed.

(** B2 *)
Lemma find_re2_spec ps :
  wf_pieces ps = true -> split_ub ps = None ->
  find_re2 (render_pieces ps) = option_map rend3 (split_br ps).
Proof.
  induction ps as [|p r IH]; intros Hwf Hn; [reflexivity|].
  pose proof (wf_tail _ _ Hwf) as Hr. specialize (IH Hr).
  destruct p as [c|[|] k].
  - rewrite render_lit, find_re2_skip by (eapply wf_lit_36; eauto).
    cbn [split_ub] in Hn. destruct (split_ub r) as [[[a k] b]|]; [discriminate|].
    rewrite IH by reflexivity. cbn [split_br]. destruct (split_br r) as [[[a k] b]|]; reflexivity.
  - rewrite render_br, find_re2_cons. change (36 =? 36) with true. cbv iota.
    rewrite strip_prefix_hd. rewrite bkey_at_key by (eapply wf_ref_key; eauto). reflexivity.
  - discriminate Hn.
Qed.

(** B3 *)
Lemma contains_none c s : ~ In c s -> contains_char c s = false.
Proof.
  unfold contains_char. induction s as [|x s IH]; intros H; [reflexivity|].
  cbn [existsb]. rewrite IH by (intro; apply H; right; assumption).
  rewrite orb_false_r. apply N.eqb_neq. intro E. apply H. left. exact E.
Qed.

Lemma split_last_none c s : ~ In c s -> split_last c s = None.
Proof.
  induction s as [|x s IH]; intros H; [reflexivity|].
  cbn [split_last]. rewrite IH by (intro; apply H; right; assumption).
  replace (x =? c) with false; [reflexivity|].
  symmetry. apply N.eqb_neq. intro E. apply H. left. exact E.
Qed.

Lemma last_line_none s : ~ In 10 s -> last_line s = s.
Proof. intros H. unfold last_line. rewrite split_last_none by exact H. reflexivity. Qed.

Definition pick (ps : list piece) : option (list piece * str * list piece) :=
  match split_ub ps with Some x => Some x | None => split_br ps end.

Lemma expand_one_spec W ps :
  wf_pieces ps = true -> ~ In 10 (render_pieces ps) ->
  expand_one_env W (render_pieces ps) =
  match pick ps with
  | Some (a, k, b) => render_pieces (a ++ map PLit (key_value W k) ++ b)
  | None => render_pieces ps
  end.
Proof.
  intros Hwf H10. unfold expand_one_env, re1_captures, re2_captures.
  rewrite (contains_none _ _ H10), (last_line_none _ H10).
  rewrite (find_re1_spec _ Hwf). unfold pick.
  destruct (split_ub ps) as [[[a k] b]|] eqn:E.
  - cbn [option_map rend3]. rewrite !render_app, render_map_lit. reflexivity.
  - cbn [option_map]. rewrite (find_re2_spec _ Hwf E).
    destruct (split_br ps) as [[[a k] b]|]; cbn [option_map rend3]; [|reflexivity].
    rewrite !render_app, render_map_lit. reflexivity.
Qed.

Lemma split_ub_some ps : forall a k b,
  split_ub ps = Some (a, k, b) -> ps = a ++ PRef false k :: b /\ forallb nub a = true.
Proof.
  induction ps as [|p r IH]; intros a k b H; [discriminate|].
  destruct p as [c|[|] k0]; cbn [split_ub] in H.
  - destruct (split_ub r) as [[[a' k'] b']|]; [|discriminate]. injection H as <- <- <-.
    destruct (IH _ _ _ eq_refl) as [-> Hn]. split; [reflexivity | exact Hn].
  - destruct (split_ub r) as [[[a' k'] b']|]; [|discriminate]. injection H as <- <- <-.
    destruct (IH _ _ _ eq_refl) as [-> Hn]. split; [reflexivity | exact Hn].
  - injection H as <- <- <-. split; reflexivity.
Qed.

Lemma split_br_some ps : forall a k b,
  split_br ps = Some (a, k, b) -> ps = a ++ PRef true k :: b /\ forallb nub a = true.
Proof.
  induction ps as [|p r IH]; intros a k b H; [discriminate|].
  destruct p as [c|[|] k0]; cbn [split_br] in H.
  - destruct (split_br r) as [[[a' k'] b']|]; [|discriminate]. injection H as <- <- <-.
    destruct (IH _ _ _ eq_refl) as [-> Hn]. split; [reflexivity | exact Hn].
  - injection H as <- <- <-. split; reflexivity.
  - discriminate.
Qed.

Lemma split_br_none ps : split_br ps = None -> split_ub ps = None -> count_refs ps = 0%nat.
Proof.
  induction ps as [|p r IH]; intros H1 H2; [reflexivity|].
  destruct p as [c|[|] k0]; cbn [split_br split_ub] in H1, H2; try discriminate.
  rewrite count_lit. apply IH.
  - destruct (split_br r) as [[[? ?] ?]|]; [discriminate|reflexivity].
  - destruct (split_ub r) as [[[? ?] ?]|]; [discriminate|reflexivity].
Qed.

Lemma pick_some ps a k b :
  pick ps = Some (a, k, b) -> exists br, ps = a ++ PRef br k :: b /\ forallb nub a = true.
Proof.
  unfold pick. destruct (split_ub ps) as [x|] eqn:E.
  - intros H. injection H as ->. exists false. apply split_ub_some. exact E.
  - intros H. exists true. apply split_br_some. exact H.
Qed.

Lemma pick_none ps : pick ps = None -> count_refs ps = 0%nat.
Proof.
  unfold pick. destruct (split_ub ps) as [x|] eqn:E; [discriminate|].
  intros H. apply split_br_none; assumption.
Qed.

(* ================================================================== C: invariant preservation *)
Lemma okc_not_36 noeq c : okc noeq c = true -> negb (c =? 36) = true.
Proof.
  unfold okc. intros H. apply andb_true_iff in H as [H _]. apply andb_true_iff in H as [H _].
  apply andb_true_iff in H as [H _]. exact H.
Qed.

Lemma okc_all_not_36 noeq v :
  forallb (okc noeq) v = true -> forallb (fun c => negb (c =? 36)) v = true.
Proof.
  rewrite !forallb_forall. intros H c Hc. eapply okc_not_36. apply H. exact Hc.
Qed.

Lemma lits_map_lit noeq v : lits_ok noeq (map PLit v) = forallb (okc noeq) v.
Proof. unfold lits_ok. induction v as [|c v IH]; [reflexivity|]. cbn [map forallb]. rewrite IH. reflexivity. Qed.

Lemma vals_map_lit noeq W v : vals_ok noeq W (map PLit v) = true.
Proof. unfold vals_ok. induction v as [|c v IH]; [reflexivity|]. cbn [map forallb]. exact IH. Qed.

Lemma step_inv noeq W a br k b :
  forallb nub a = true ->
  wf_pieces (a ++ PRef br k :: b) = true ->
  dom_ok noeq W (a ++ PRef br k :: b) = true ->
  wf_pieces (a ++ map PLit (key_value W k) ++ b) = true /\
  dom_ok noeq W (a ++ map PLit (key_value W k) ++ b) = true /\
  S (count_refs (a ++ map PLit (key_value W k) ++ b)) = count_refs (a ++ PRef br k :: b) /\
  den_pieces W (a ++ map PLit (key_value W k) ++ b) = den_pieces W (a ++ PRef br k :: b).
Proof.
  intros Hn Hwf Hd.
  unfold dom_ok in Hd. apply andb_true_iff in Hd as [Hl Hv].
  unfold lits_ok in Hl. unfold vals_ok in Hv.
  rewrite forallb_app in Hl, Hv. cbn [forallb] in Hl, Hv.
  apply andb_true_iff in Hl as [Hla Hlb]. cbn [andb] in Hlb.
  apply andb_true_iff in Hv as [Hva Hvb]. apply andb_true_iff in Hvb as [Hvk Hvb].
  rewrite wf_app_nub in Hwf by exact Hn. apply andb_true_iff in Hwf as [Hwa Hwb].
  pose proof (wf_tail _ _ Hwb) as Hwb'.
  split; [|split; [|split]].
  - rewrite wf_app_nub by exact Hn. rewrite Hwa, wf_map_lit, Hwb'.
    rewrite (okc_all_not_36 _ _ Hvk). reflexivity.
  - unfold dom_ok. apply andb_true_iff. split.
    + change (lits_ok noeq (a ++ map PLit (key_value W k) ++ b) = true).
      unfold lits_ok. rewrite !forallb_app. fold (lits_ok noeq (map PLit (key_value W k))).
      rewrite lits_map_lit, Hla, Hvk, Hlb. reflexivity.
    + unfold vals_ok. rewrite !forallb_app. fold (vals_ok noeq W (map PLit (key_value W k))).
      rewrite vals_map_lit, Hva, Hvb. reflexivity.
  - rewrite !count_app, count_map_lit, count_ref. lia.
  - rewrite !den_app, den_map_lit. reflexivity.
Qed.

(* ================================================================== D: the loop *)
Lemma loop_correct noeq W : forall n ps,
  count_refs ps = n -> wf_pieces ps = true -> dom_ok noeq W ps = true ->
  expand_env_loop (S n) W (render_pieces ps) = Ok (den_pieces W ps).
Proof.
  induction n as [|n IH]; intros ps Hc Hwf Hd.
  - destruct (render_no_refs W ps Hwf Hc) as [H36 Hden].
    cbn [expand_env_loop]. rewrite (env_in_token_no_dollar _ H36), Hden. reflexivity.
  - pose proof Hd as Hd'. unfold dom_ok in Hd'. apply andb_true_iff in Hd' as [Hl _].
    pose proof (render_no_nl noeq ps Hwf Hl) as H10.
    destruct (pick ps) as [[[a k] b]|] eqn:Ep.
    2:{ apply pick_none in Ep. congruence. }
    destruct (pick_some _ _ _ _ Ep) as (br & -> & Hn).
    destruct (step_inv noeq W a br k b Hn Hwf Hd) as (Hwf' & Hd' & Hc' & Hden).
    change (expand_env_loop (S (S n)) W (render_pieces (a ++ PRef br k :: b)))
      with (if env_in_token (render_pieces (a ++ PRef br k :: b))
            then expand_env_loop (S n) W (expand_one_env W (render_pieces (a ++ PRef br k :: b)))
            else Ok (render_pieces (a ++ PRef br k :: b))).
    rewrite (env_in_render_ref noeq _ _ _ _ Hwf (lits_ok_okg _ _ Hl)).
    rewrite (expand_one_spec W _ Hwf H10), Ep.
    rewrite IH; [rewrite Hden; reflexivity | lia | exact Hwf' | exact Hd'].
Qed.

Theorem expand_env_pieces : forall W ps tg,
  c10_dom W ps = true -> tg <> TSq -> tg <> TBq ->
  expand_env_old (S (count_refs ps)) W [(tg, render_pieces ps)] = Ok [(tg, den_pieces W ps)].
Proof.
  intros W ps tg Hdom Hsq Hbq.
  unfold c10_dom in Hdom. apply andb_true_iff in Hdom as [Hwf Hd].
  assert (L : expand_env_loop (S (count_refs ps)) W (render_pieces ps) = Ok (den_pieces W ps)).
  { apply orb_true_iff in Hd as [Hd|Hd]; eapply loop_correct; eauto. }
  assert (T : expand_env_tok_old (S (count_refs ps)) W (tg, render_pieces ps) = Ok (tg, den_pieces W ps)).
  { unfold expand_env_tok_old. cbn [fst snd].
    destruct (env_in_token (render_pieces ps)) eqn:E.
    - rewrite L. destruct tg; try contradiction; reflexivity.
    - cbn [expand_env_loop] in L. rewrite E in L. injection L as <-.
      destruct tg; reflexivity. }
  cbn [expand_env_old]. rewrite T. reflexivity.
Qed.

Print Assumptions expand_env_pieces.
