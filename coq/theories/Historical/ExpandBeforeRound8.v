(** HISTORICAL (outside every cone): the forms of five functions before the repairs f69a693 (range affixes),
    9bedc7c (range parse error skips the token), 7572cd1 (hidden directory components), 8a189aa (backquote command
    that does not plan), 8dc686a (gate takes the tag). *)
From Coq Require Import ZArith.
From Cicada Require Import Base.Chars Base.Tag Base.Regex Gen.ShellRegexes Model.Expand.
Local Open Scope N_scope.

(** the range pattern (rx_brace_range_src) after its opening brace *)
Definition range_at_old (s : str) : option (str * str * option str) :=
  match int_at s with
  | None => None
  | Some (g1, r1) =>
      match strip_prefix [46; 46] r1 with
      | None => None
      | Some r2 =>
          match int_at r2 with
          | None => None
          | Some (g2, r3) =>
              if starts_with [125] r3 then Some (g1, g2, None)
              else match strip_prefix [46; 46] r3 with
                   | None => None
                   | Some r4 =>
                       let (d, r5) := span is_digit r4 in
                       if starts_with [125] r5 then Some (g1, g2, if is_empty d then None else Some d)
                       else None
                   end
          end
      end
  end.

Fixpoint find_range_old (s : str) : option (str * str * option str) :=
  match s with
  | [] => None
  | c :: r =>
      match (if c =? 123 then range_at_old r else None) with
      | Some x => Some x
      | None => find_range_old r
      end
  end.

(** [n = match n.checked_add(incr) { Some(x) => x, None => break }] : the loop ends at the i32 boundary;
    debug and release builds behave alike, nothing can panic *)

Definition range_sel_old (t : token) : res selr :=
  if negb (tag_is_empty (fst t)) || negb (rx_search rx_brace_range (snd t)) then Ok Skip
  else match find_range_old (snd t) with
       | None => Panic site_range_unwrap
       | Some (g1, g2, g4) =>
           match parse_i32 g1, parse_i32 g2 with
           | Some a, Some b =>
               match (match g4 with None => Some 1%Z | Some d => parse_i32 d end) with
               | None => Ok Abort
               | Some i0 =>
                   let incr := if (i0 <=? 1)%Z then 1%Z else i0 in
                   res_map (fun l => Repl (map retag l)) (range_list a b incr)
               end
           | _, _ => Ok Abort
           end
       end.

Definition expand_brace_range_old (toks : tokens) : res tokens := run_pass range_sel_old toks.


Definition glob_keep_old (show_hidden : bool) (p : str) : bool :=
  let b := basename p in
  if str_eqb b [46; 46] || str_eqb b [46] then false
  else if starts_with [46] b && negb show_hidden then false
  else true.


(** the inner [loop] for an unquoted / double-quoted token with embedded backquotes;
    a substitution that fails to plan leaves [_output] at its PREVIOUS value *)
Fixpoint dot_loop_old (fuel : nat) (W : World) (tok item output : str) (log : list str) : res (str * list str) :=
  match fuel with
  | O => OutOfFuel
  | S f =>
      match dot_split tok with
      | None => Ok (if is_empty tok then item else item ++ tok, log)
      | Some (h, c, t) =>
          let output' := match run_capture W c with Some out => trim out | None => output end in
          let item' := item ++ h ++ output' in
          if is_empty t then Ok (item', log ++ [c]) else dot_loop_old f W t item' output' (log ++ [c])
      end
  end.

(** first loop of do_command_substitution_for_dot; note the [continue] without [idx += 1]
    when a whole-token backquote command fails to plan *)
Fixpoint dot_collect_old (W : World) (toks : tokens) (idx : nat) (log : list str)
  : res (list (nat * str) * list str) :=
  match toks with
  | [] => Ok ([], log)
  | (tg, text) :: r =>
      match tg with
      | TBq =>
          match run_capture W text with
          | None => dot_collect_old W r idx (log ++ [text])
          | Some out => res_map (fun x => ((idx, trim out) :: fst x, snd x))
                                (dot_collect_old W r (S idx) (log ++ [text]))
          end
      | TDq | TNone =>
          match dot_split text with
          | None => dot_collect_old W r (S idx) log
          | Some _ =>
              bind (dot_loop_old (S (length text)) W text [] [] log) (fun y =>
              res_map (fun x => ((idx, fst y) :: fst x, snd x)) (dot_collect_old W r (S idx) (snd y)))
          end
      | _ => dot_collect_old W r (S idx) log
      end
  end.


Definition env_sel_old (W : World) (t : token) : option str :=
  match fst t with
  | TBq | TSq => None
  | _ => if env_in_token (snd t) then Some (expand_env_once W (snd t)) else None
  end.
