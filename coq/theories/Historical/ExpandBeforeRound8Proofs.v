(** HISTORICAL: the range finder with context (now the model) finds the same leftmost match as the former one. *)
From Coq Require Import List NArith ZArith Bool Lia.
From Cicada Require Import Base.Chars Base.Tag Base.Regex Gen.ShellRegexes Model.Expand Historical.ExpandBeforeRound8 Proofs.RangeGlobProofs.
Import ListNotations.
Local Open Scope N_scope.

Lemma range_at_ctx_agrees s caps rest : range_at s = Some (caps, rest) -> range_at_old s = Some caps.
Proof.
  unfold range_at, range_at_old. intros H.
  destruct (int_at s) as [[g1 r1]|]; [|discriminate].
  destruct (strip_prefix [46; 46] r1) as [r2|]; [|discriminate].
  destruct (int_at r2) as [[g2 r3]|]; [|discriminate].
  destruct (strip_prefix [125] r3) as [x|] eqn:E3.
  - apply strip_one in E3. destruct E3 as [E3 _]. rewrite E3. inversion H. reflexivity.
  - apply strip_one_none in E3. rewrite E3.
    destruct (strip_prefix [46; 46] r3) as [r4|]; [|discriminate].
    destruct (span is_digit r4) as [d r5].
    destruct (strip_prefix [125] r5) as [y|] eqn:E5; [|discriminate].
    apply strip_one in E5. destruct E5 as [E5 _]. rewrite E5. inversion H. reflexivity.
Qed.

Lemma range_at_ctx_none s : range_at s = None -> range_at_old s = None.
Proof.
  unfold range_at, range_at_old. intros H.
  destruct (int_at s) as [[g1 r1]|]; [|reflexivity].
  destruct (strip_prefix [46; 46] r1) as [r2|]; [|reflexivity].
  destruct (int_at r2) as [[g2 r3]|]; [|reflexivity].
  destruct (strip_prefix [125] r3) as [x|] eqn:E3; [discriminate|].
  apply strip_one_none in E3. rewrite E3.
  destruct (strip_prefix [46; 46] r3) as [r4|]; [|reflexivity].
  destruct (span is_digit r4) as [d r5].
  destruct (strip_prefix [125] r5) as [y|] eqn:E5; [discriminate|].
  apply strip_one_none in E5. rewrite E5. reflexivity.
Qed.

Lemma find_range_ctx_agrees s pre caps post :
  find_range s = Some (pre, caps, post) -> find_range_old s = Some caps.
Proof.
  revert pre caps post. induction s as [|c r IH]; intros pre caps post H; cbn [find_range] in H; [discriminate|].
  cbn [find_range_old]. destruct (c =? 123).
  - destruct (range_at r) as [[caps0 post0]|] eqn:E.
    + inversion H. subst. rewrite (range_at_ctx_agrees _ _ _ E). reflexivity.
    + rewrite (range_at_ctx_none _ E).
      destruct (find_range r) as [[[pre1 caps1] post1]|] eqn:Ef; [|discriminate].
      inversion H. subst. eapply IH. reflexivity.
  - destruct (find_range r) as [[[pre1 caps1] post1]|] eqn:Ef; [|discriminate].
    inversion H. subst. eapply IH. reflexivity.
Qed.

Lemma find_range_ctx_none s : find_range s = None -> find_range_old s = None.
Proof.
  induction s as [|c r IH]; intros H; [reflexivity|]. cbn [find_range] in H. cbn [find_range_old].
  destruct (c =? 123).
  - destruct (range_at r) as [[caps0 post0]|] eqn:E; [discriminate|].
    rewrite (range_at_ctx_none _ E).
    destruct (find_range r) as [[[pre1 caps1] post1]|] eqn:Ef; [discriminate|]. apply IH. reflexivity.
  - destruct (find_range r) as [[[pre1 caps1] post1]|] eqn:Ef; [discriminate|]. apply IH. reflexivity.
Qed.

(** the tests on the last path component are the former glob filter *)
Lemma glob_keep_last_is_old show p : glob_keep_last show p = glob_keep_old show p.
Proof. reflexivity. Qed.

(** outside double quotes the parameter-expansion selector is the former one *)
Lemma env_sel_old_agrees W t : fst t <> TDq -> env_sel W t = env_sel_old W t.
Proof.
  intros H. unfold env_sel, env_sel_old.
  destruct (fst t); try reflexivity; exfalso; apply H; reflexivity.
Qed.

Print Assumptions range_at_ctx_agrees.
Print Assumptions range_at_ctx_none.
Print Assumptions find_range_ctx_agrees.
Print Assumptions find_range_ctx_none.
Print Assumptions glob_keep_last_is_old.
Print Assumptions env_sel_old_agrees.
