(** HISTORICAL (outside every cone): the model of parameter expansion as it was before
    e586def -- the loop [while env_in_token(t) { t = expand_one_env(t) }] with the hand-written
    first-match functions for its two capture regexes.  expand_one_env still exists in
    src/shell.rs as dead code.  Kept for the record of the findings it explained
    (values rescanned; self reference / newline / unterminated brace never terminate). *)
From Coq Require Import ZArith.
From Cicada Require Import Base.Chars Base.Tag Base.Regex Gen.ShellRegexes Model.Expand Model.ExpandRef.
Local Open Scope N_scope.

(* first-match functions for re1 (src_env_re1: anchored, lazy head, dollar, KEY, rest) and
   re2 (src_env_re2: lazy head, dollar, open brace, KEY, close brace, rest, end anchor);
   KEY = one or more of [A-Za-z0-9_], or a dollar, or a question mark (greedy name) *)
Definition key_at (s : str) : option (str * str) :=
  match s with
  | [] => None
  | c :: r => if is_alnum_us c then Some (span is_alnum_us s)
              else if (c =? 36) || (c =? 63) then Some ([c], r) else None
  end.

Definition bkey_at (s : str) : option (str * str) :=
  match s with
  | [] => None
  | c :: r =>
      if is_alnum_us c then
        let (k, t) := span is_alnum_us s in
        match strip_prefix [125] t with Some t' => Some (k, t') | None => None end
      else if (c =? 36) || (c =? 63) then
        match strip_prefix [125] r with Some t' => Some ([c], t') | None => None end
      else None
  end.

Fixpoint find_re1 (s : str) : option (str * str * str) :=
  match s with
  | [] => None
  | c :: r =>
      match (if c =? 36 then key_at r else None) with
      | Some (k, t) => Some ([], k, t)
      | None => match find_re1 r with Some (h, k, t) => Some (c :: h, k, t) | None => None end
      end
  end.

Fixpoint find_re2 (s : str) : option (str * str * str) :=
  match s with
  | [] => None
  | c :: r =>
      match (if c =? 36 then match strip_prefix [123] r with Some r' => bkey_at r' | None => None end else None) with
      | Some (k, t) => Some ([], k, t)
      | None => match find_re2 r with Some (h, k, t) => Some (c :: h, k, t) | None => None end
      end
  end.

(** [.] does not match a newline and re1 is anchored at both ends: no newline at all *)
Definition re1_captures (tok : str) : option (str * str * str) :=
  if contains_char 10 tok then None else find_re1 tok.

(** re2 is anchored at the end only: the leftmost start from which head, key and tail
    (none of which crosses a newline) reach the end is the start of the last line;
    whatever precedes it is not part of the match and is DROPPED by the caller *)
Definition last_line (s : str) : str :=
  match split_last 10 s with Some (_, b) => b | None => s end.
Definition re2_captures (tok : str) : option (str * str * str) := find_re2 (last_line tok).

Definition expand_one_env (W : World) (tok : str) : str :=
  match (match re1_captures tok with Some c => Some c | None => re2_captures tok end) with
  | None => tok
  | Some (head, key, tail) => head ++ key_value W key ++ tail
  end.

(** [while env_in_token(&_token) { _token = expand_one_env(sh, &_token); }] *)
Fixpoint expand_env_loop (fuel : nat) (W : World) (t : str) : res str :=
  match fuel with
  | O => OutOfFuel
  | S f => if env_in_token t then expand_env_loop f W (expand_one_env W t) else Ok t
  end.

Definition expand_env_tok_old (fuel : nat) (W : World) (t : token) : res token :=
  match fst t with
  | TBq | TSq => Ok t
  | _ => if env_in_token (snd t) then res_map (fun s => (fst t, s)) (expand_env_loop fuel W (snd t)) else Ok t
  end.

Fixpoint expand_env_old (fuel : nat) (W : World) (toks : tokens) : res tokens :=
  match toks with
  | [] => Ok []
  | t :: r => bind (expand_env_tok_old fuel W t) (fun t' => res_map (cons t') (expand_env_old fuel W r))
  end.


(* ------------------------------------------------------------------ C10: the domain of the partial theorem *)
(** characters that can neither start a reference (dollar), nor break re1 / re2 (newline),
    nor make one of env_in_token's four exemption patterns match: those need an open
    paren, or an equals sign together with a backquote or a single quote.  [noeq] selects
    which of the two ways the word avoids the latter. *)
Definition okc (noeq : bool) (c : char) : bool :=
  negb (c =? 36) && negb (c =? 10) && negb (c =? 40)
  && (if noeq then negb (c =? 61) else negb (c =? 96) && negb (c =? 39)).

Definition lits_ok (noeq : bool) (ps : list piece) : bool :=
  forallb (fun p => match p with PLit c => okc noeq c | PRef _ _ => true end) ps.
Definition vals_ok (noeq : bool) (W : World) (ps : list piece) : bool :=
  forallb (fun p => match p with PLit _ => true | PRef _ k => forallb (okc noeq) (key_value W k) end) ps.
Definition dom_ok (noeq : bool) (W : World) (ps : list piece) : bool := lits_ok noeq ps && vals_ok noeq W ps.

(** decidable: the word is a well-formed segment list and lies in one of the two character classes *)
Definition c10_dom (W : World) (ps : list piece) : bool :=
  wf_pieces ps && (dom_ok true W ps || dom_ok false W ps).
