(** HISTORICAL (outside every cone): the regex crate's replacement-template language
    (regex-automata 0.4.9 util/interpolate.rs), modelled because until 5e2d7b7 / 1c7eddf the command
    output and the home directory were pasted into Regex::replace templates. *)
From Coq Require Import ZArith.
From Cicada Require Import Base.Chars Base.Tag Model.Expand.
Local Open Scope N_scope.

(** str::parse::<usize> (64-bit): optional '+', ASCII digits+, value < 2^64 *)
Definition parse_usize (s : str) : option N :=
  let d := match strip_prefix [43] s with Some r => r | None => s end in
  if is_empty d || negb (forallb is_digit d) then None else
  let v := dec_value d in
  if v <? 18446744073709551616 then Some v else None.

(** format! with one hole: evaluates {{ }} {} of a template literal *)
Fixpoint fmt1 (tpl arg : str) : str :=
  match tpl with
  | [] => []
  | 123 :: 123 :: r => 123 :: fmt1 r arg
  | 125 :: 125 :: r => 125 :: fmt1 r arg
  | 123 :: 125 :: r => arg ++ fmt1 r arg
  | c :: r => c :: fmt1 r arg
  end.

(* ------------------------------------------------------------------ Regex::replace templates *)
(** regex-automata util/interpolate.rs: [$$], [$name], [${name}], [$1]; a reference to a
    group that does not exist (or did not participate) expands to nothing. *)
Definition cap_ref (G : N -> str) (NM : str -> option N) (name : str) : str :=
  match parse_usize name with
  | Some i => G i
  | None => match NM name with Some i => G i | None => [] end
  end.

(** [r] = the template text after a [$] that is not followed by [$]; returns the
    expansion of the reference and how many characters of [r] it spans *)
Definition find_cap_ref (G : N -> str) (NM : str -> option N) (r : str) : option (str * nat) :=
  match r with
  | [] => None
  | d :: r' =>
      if d =? 123 then
        match split_first 125 r' with
        | Some (name, _) => Some (cap_ref G NM name, S (S (length name)))
        | None => None
        end
      else let (name, _) := span is_alnum_us r in
           if is_empty name then None else Some (cap_ref G NM name, length name)
  end.

Fixpoint tpl_go (G : N -> str) (NM : str -> option N) (skip : nat) (t : str) : str :=
  match t with
  | [] => []
  | c :: r =>
      match skip with
      | S k => tpl_go G NM k r
      | O =>
          if c =? 36 then
            match r with
            | [] => [36]
            | d :: _ =>
                if d =? 36 then 36 :: tpl_go G NM 1 r
                else match find_cap_ref G NM r with
                     | None => 36 :: tpl_go G NM 0 r
                     | Some (txt, n) => txt ++ tpl_go G NM n r
                     end
            end
          else c :: tpl_go G NM 0 r
      end
  end.
Definition expand_template (G : N -> str) (NM : str -> option N) (t : str) : str := tpl_go G NM 0 t.

