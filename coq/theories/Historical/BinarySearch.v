(** HISTORICAL, not in any property cone. Until /repo commit bbf8fc1
    Shell::remove_pid_from_job searched the pid vector (launch order) with
    slice::binary_search. This file keeps the line-by-line transcription of
    core::slice::binary_search_by (rust-src of nightly 1.97; compared with the
    stable 1.95 toolchain's real binary_search in round 1) and the lemmas:
    it finds exactly the members of an ascending vector, and misses 9 in [9;3]
    (the defect recorded as `fixed: property=C06 bbf8fc1`). *)
From Coq Require Import ZArith List Bool Arith Lia Sorting.Sorted.
Import ListNotations.
Local Open Scope Z_scope.

(** core::slice::binary_search_by, f = |p| p.cmp(x)
    [size], [base], [half], [mid] as in the source; the while loop runs at
    most [size] times, [fuel] is that bound. Returns inl i for Ok(i) and
    inr i for Err(i). *)
Fixpoint bs_loop (fuel : nat) (l : list Z) (x : Z) (base size : nat) : nat :=
  match fuel with
  | O => base
  | S f =>
      if (size <=? 1)%nat then base
      else
        let half := (size / 2)%nat in
        let mid := (base + half)%nat in
        (* base = select_unpredictable(cmp == Greater, base, mid) *)
        let base' := if nth mid l 0 >? x then base else mid in
        bs_loop f l x base' (size - half)%nat
  end.

Definition binary_search (l : list Z) (x : Z) : nat + nat :=
  let size := length l in
  if (size =? 0)%nat then inr 0%nat
  else
    let base := bs_loop size l x 0%nat size in
    let c := nth base l 0 in
    if c =? x then inl base
    else inr (base + (if Z.ltb c x then 1 else 0))%nat.


(** * A. binary_search_by on an ascending vector *)
Definition asc (l : list Z) : Prop :=
  forall i j, (i < j)%nat -> (j < length l)%nat -> nth i l 0 < nth j l 0.

Lemma half_facts : forall size, (2 <= size)%nat ->
  (1 <= size / 2)%nat /\ (size / 2 <= size - size / 2)%nat /\ (size / 2 < size)%nat.
Proof.
  intros size H.
  pose proof (Nat.div_mod size 2 ltac:(lia)).
  pose proof (Nat.mod_upper_bound size 2 ltac:(lia)).
  lia.
Qed.

Lemma bs_loop_spec : forall fuel l x base size,
  asc l -> (size <= fuel)%nat -> (1 <= size)%nat -> (base + size <= length l)%nat ->
  (forall k, (k < length l)%nat -> nth k l 0 = x -> (base <= k < base + size)%nat) ->
  let b := bs_loop fuel l x base size in
  (b < length l)%nat /\ (forall k, (k < length l)%nat -> nth k l 0 = x -> k = b).
Proof.
  induction fuel as [|f IH]; intros l x base size Ha Hf H1 Hb Hk.
  - lia.
  - cbn [bs_loop].
    destruct (size <=? 1)%nat eqn:E.
    + apply Nat.leb_le in E. split; [lia|]. intros k K1 K2. specialize (Hk k K1 K2). lia.
    + apply Nat.leb_gt in E.
      destruct (half_facts size ltac:(lia)) as (h1 & h2 & h3).
      set (half := (size / 2)%nat) in *.
      destruct (nth (base + half) l 0 >? x) eqn:G.
      * apply IH; try assumption; try lia.
        intros k K1 K2. specialize (Hk k K1 K2).
        assert (k < base + half)%nat.
        { destruct (Nat.lt_ge_cases k (base + half)) as [L|L]; [exact L|].
          exfalso. apply Z.gtb_lt in G.
          destruct (Nat.eq_dec k (base + half)) as [->|N]; [lia|].
          pose proof (Ha (base + half)%nat k ltac:(lia) K1). lia. }
        lia.
      * apply IH; try assumption; try lia.
        intros k K1 K2. specialize (Hk k K1 K2).
        assert (base + half <= k)%nat.
        { destruct (Nat.lt_ge_cases k (base + half)) as [L|L]; [|exact L].
          exfalso. rewrite Z.gtb_ltb in G. apply Z.ltb_ge in G.
          pose proof (Ha k (base + half)%nat L ltac:(lia)). lia. }
        lia.
Qed.

(** On an ascending vector the search finds every member, at its index. *)
Theorem binary_search_asc : forall l x, asc l ->
  (In x l -> exists i, binary_search l x = inl i /\ (i < length l)%nat /\ nth i l 0 = x) /\
  (forall i, binary_search l x = inl i -> (i < length l)%nat /\ nth i l 0 = x).
Proof.
  intros l x Ha. unfold binary_search.
  destruct (length l =? 0)%nat eqn:E.
  - apply Nat.eqb_eq in E. destruct l; [|discriminate]. split; [intros []|discriminate].
  - apply Nat.eqb_neq in E.
    destruct (bs_loop_spec (length l) l x 0 (length l) Ha ltac:(lia) ltac:(lia) ltac:(lia)) as (B1 & B2).
    { intros; lia. }
    set (b := bs_loop (length l) l x 0 (length l)) in *.
    split.
    + intros Hin. apply (In_nth _ _ 0) in Hin. destruct Hin as (k & K1 & K2).
      pose proof (B2 k K1 K2) as ->. exists b. rewrite K2, Z.eqb_refl. auto.
    + intros i. destruct (nth b l 0 =? x) eqn:Q; [|discriminate].
      intros [= <-]. apply Z.eqb_eq in Q. auto.
Qed.

(** Not so on a vector in launch order: the witness of the design note. *)
Lemma binary_search_unsorted : binary_search [9; 3] 9 = inr 2%nat /\ In 9 [9; 3].
Proof. split; [reflexivity | simpl; auto]. Qed.


Lemma ssorted_asc : forall l, StronglySorted Z.lt l -> asc l.
Proof.
  induction l as [|a l IH]; intros H; unfold asc; intros i j Hij Hj; simpl in Hj; [lia|].
  apply StronglySorted_inv in H. destruct H as (H1 & H2).
  destruct j as [|j]; [lia|]. destruct i as [|i]; simpl.
  - rewrite Forall_forall in H2. apply H2. apply nth_In. lia.
  - apply IH; auto; lia.
Qed.
