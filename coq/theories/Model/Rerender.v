(** The script path's extra pass over every line (src/scripting.rs [expand_args]):
      parse_line -> expand_args_in_tokens -> tokens_to_line
    with [parser_line::tokens_to_line] (src/parsers/parser_line.rs:24-40),
    [tools::wrap_sep_string] (src/tools.rs:124-150), [is_args_in_token],
    [expand_args_for_single_token], [expand_args_in_tokens], and the [-c] path's
    [tools::env_args_to_command_line]. Statement-by-statement transcription.
    The tokenizer is imported from Model/Tokenizer.v. *)
From Cicada Require Import Base.Chars Base.Tag Model.Tokenizer Model.Cmds.
Local Open Scope N_scope.

Definition token := (tag * str)%type.

(** the [sep] string of a token as text *)
Definition tag_str (t : tag) : str :=
  match t with TNone => [] | TSq => [c_sq] | TDq => [c_dq] | TBq => [c_bq] | TBs => [c_bs] end.

(** [c.to_string() == sep] *)
Definition is_sep_char (t : tag) (c : char) : bool :=
  match t with
  | TNone => false | TSq => c =? c_sq | TDq => c =? c_dq | TBq => c =? c_bq | TBs => c =? c_bs
  end.

Definition c_N : char := 78.

(** the [for c in s.chars()] loop of wrap_sep_string; [met] = met_subsep,
    [prev] = previous_subsep *)
Fixpoint wrap_loop (sep : tag) (s : str) (met : bool) (prev : char) : str :=
  match s with
  | [] => []
  | c :: r =>
    let '(met1, prev1) :=
      if tag_eqb sep TNone && ((c =? c_bq) || (c =? c_dq)) then
        if negb met then (true, c)
        else if c =? prev then (false, c_N)
        else (met, prev)
      else (met, prev) in
    let e1 := if is_sep_char sep c then [c_bs] else [] in
    let e2 := if (c =? c_space) && tag_eqb sep TNone && negb met1 then [c_bs] else [] in
    e1 ++ e2 ++ c :: wrap_loop sep r met1 prev1
  end.

Definition wrap_sep_string (sep : tag) (s : str) : str :=
  tag_str sep ++ wrap_loop sep s false c_N ++ tag_str sep.

(** tokens_to_line: untagged tokens are pushed RAW (wrap_sep_string is only
    reached with a non-empty sep), one blank after each token, then one
    trailing blank removed. *)
Fixpoint t2l_body (toks : list token) : str :=
  match toks with
  | [] => []
  | (tg, t) :: r =>
      (if tag_eqb tg TNone then t else wrap_sep_string tg t) ++ c_space :: t2l_body r
  end.

Definition strip_last_space (s : str) : str :=
  match rev s with
  | c :: r => if c =? c_space then rev r else s
  | [] => s
  end.

Definition tokens_to_line (toks : list token) : str := strip_last_space (t2l_body toks).

Definition rerender (l : str) : str := tokens_to_line (parse_line l).

(** * positional parameters *)
Definition is_d_at (c : char) : bool := is_digit c || (c =? c_at).

(** re_contains(token, dollar, optional left brace, one or more of 0-9 and at-sign, optional right brace) *)
Fixpoint is_args_in_token (s : str) : bool :=
  match s with
  | [] => false
  | c :: r =>
      ((c =? c_dollar) &&
       match r with
       | x :: r1 => is_d_at x || ((x =? c_lb) && match r1 with y :: _ => is_d_at y | [] => false end)
       | [] => false
       end)
      || is_args_in_token r
  end.

(** the anchored capture regex of expand_args_for_single_token: lazy head,
    dollar, optional left brace, (digits | at-sign), optional right brace, tail;
    [.] excludes newline, so a token holding a newline never matches. *)
Fixpoint take_digits (s : str) : str * str :=
  match s with
  | c :: r => if is_digit c then let '(d, t) := take_digits r in (c :: d, t) else ([], s)
  | [] => ([], [])
  end.

Definition drop_rb (s : str) : str :=
  match s with c :: r => if c =? c_rb then r else s | [] => s end.

(** key and tail when the text right after a dollar sign is [s] *)
Definition match_key (s : str) : option (str * str) :=
  let body := match s with c :: r => if c =? c_lb then Some r else None | [] => None end in
  let try_at (b : str) : option (str * str) :=
    match b with
    | c :: r => if c =? c_at then Some ([c_at], drop_rb r)
                else if is_digit c then let '(d, t) := take_digits b in Some (d, drop_rb t)
                else None
    | [] => None
    end in
  match body with
  | Some b => match try_at b with Some x => Some x | None => try_at s end
  | None => try_at s
  end.

Fixpoint first_match (s : str) : option (str * str * str) :=
  match s with
  | [] => None
  | c :: r =>
      match (if c =? c_dollar then match_key r else None) with
      | Some (k, t) => Some ([], k, t)
      | None => match first_match r with
                | Some (h, k, t) => Some (c :: h, k, t)
                | None => None
                end
      end
  end.

Definition re_match (s : str) : option (str * str * str) :=
  if no_nl s then first_match s else None.

Fixpoint digits_val (d : str) (acc : N) : N :=
  match d with [] => acc | c :: r => digits_val r (acc * 10 + (c - 48)) end.

Fixpoint join_sp (l : list str) : str :=
  match l with [] => [] | [x] => x | x :: r => x ++ c_space :: join_sp r end.

Inductive xres (A : Type) := XOk (a : A) | XPanic | XFuel.
Arguments XOk {A} a. Arguments XPanic {A}. Arguments XFuel {A}.

(** the [loop] of expand_args_for_single_token; [args[1..]] panics on an empty slice *)
Fixpoint single_loop (fuel : nat) (args : list str) (tok : str) (result : str) : xres str :=
  match fuel with
  | O => XFuel
  | S f =>
    match re_match tok with
    | None => XOk (result ++ tok)
    | Some (h, k, t) =>
        let sub : xres str :=
          if str_eqb k [c_at] then
            match args with [] => XPanic | _ :: r => XOk (join_sp r) end
          else (* parse::<usize>() then [arg_idx < args.len()]; compared in N so that a huge index
                   (also one that overflows usize: Err, same outcome) never becomes a unary number *)
               let ix := digits_val k 0 in
               if ix <? N.of_nat (length args) then XOk (nth (N.to_nat ix) args []) else XOk [] in
        match sub with
        | XOk v => if is_empty t then XOk (result ++ h ++ v) else single_loop f args t (result ++ h ++ v)
        | XPanic => XPanic
        | XFuel => XFuel
        end
    end
  end.

Definition expand_args_for_single_token (tok : str) (args : list str) : xres str :=
  single_loop (S (length tok)) args tok [].

Definition needs_args (t : token) : bool :=
  negb (tag_eqb (fst t) TBq) && negb (tag_eqb (fst t) TSq) && is_args_in_token (snd t).

Fixpoint expand_args_in_tokens (toks : list token) (args : list str) : xres (list token) :=
  match toks with
  | [] => XOk []
  | t :: r =>
      let hd : xres token :=
        if needs_args t then
          match expand_args_for_single_token (snd t) args with
          | XOk v => XOk (fst t, v) | XPanic => XPanic | XFuel => XFuel
          end
        else XOk t in
      match hd with
      | XOk t1 => match expand_args_in_tokens r args with
                  | XOk r1 => XOk (t1 :: r1) | XPanic => XPanic | XFuel => XFuel
                  end
      | XPanic => XPanic
      | XFuel => XFuel
      end
  end.

(** a token the positional-parameter pass would touch *)
Definition has_positional (toks : list token) : bool := existsb needs_args toks.

(** [scripting::expand_args] (since 032e44d): the line is returned UNCHANGED when
    no token needs positional expansion; otherwise tokenized, substituted and
    re-rendered with tokens_to_line. *)
Definition expand_args (l : str) (args : list str) : xres str :=
  let toks := parse_line l in
  if negb (has_positional toks) then XOk l
  else match expand_args_in_tokens toks args with
       | XOk toks' => XOk (tokens_to_line toks')
       | XPanic => XPanic
       | XFuel => XFuel
       end.

(** a line none of whose tokens is touched by the positional-parameter pass *)
Definition no_positional (l : str) : bool := negb (has_positional (parse_line l)).

(** [tools::env_args_to_command_line]: every argv element after argv[0] that is
    not literally -c, concatenated WITHOUT separator *)
Definition s_dash_c : str := [c_minus; 99].
Fixpoint concat_args (l : list str) : str :=
  match l with [] => [] | a :: r => (if str_eqb a s_dash_c then [] else a) ++ concat_args r end.
Definition env_args_to_command_line (argv : list str) : str :=
  match argv with [] => [] | [_] => [] | _ :: r => concat_args r end.

(** [shell::trim_multiline_prompts] is the identity on a line without newline;
    [tools::extend_bangbang] returns early unless the line holds two bangs. *)
Fixpoint has_nl (s : str) : bool := match s with [] => false | c :: r => (c =? c_nl) || has_nl r end.
Fixpoint has_bangbang (s : str) : bool :=
  match s with
  | c :: ((d :: _) as r) => ((c =? c_bang) && (d =? c_bang)) || has_bangbang r
  | _ => false
  end.

(** the observable the property speaks about, per list segment: the tokens each
    segment of [line_to_cmds] is cut into (all later passes are functions of them) *)
Definition seg_tokens (l : str) : list (list token) := map parse_line (line_to_cmds l).


(** * run_script's folding of continuation lines (src/scripting.rs:67-74):
    when the text contains backslash-newline, first every match of
    (blanks-or-none backslash newline blanks) | (blanks backslash newline blanks-or-none)
    is replaced by one blank (blank = space or tab), then every remaining
    backslash-newline is removed.
    The first replace_all as a one-pass scanner (leftmost match, alternatives
    in order, greedy blanks): [bl] = pending run of blanks (reversed). *)
Definition is_blank (c : char) : bool := (c =? c_space) || (c =? c_tab).

Inductive fstate :=
| F0 (bl : str)                  (* scanning; [bl] pending blanks *)
| FBs (bl : str)                 (* a backslash seen after the pending blanks *)
| FNl (bl : str) (had : bool).   (* backslash newline seen; absorbing blanks, [had] = at least one *)

(** what a state still owes the output when the text ends / no match is made *)
Definition fflush (st : fstate) : str :=
  match st with
  | F0 bl => rev bl
  | FBs bl => rev bl ++ [c_bs]
  | FNl bl had => if had || negb (is_empty bl) then [c_space] else [c_bs; c_nl]
  end.

Fixpoint fold1 (st : fstate) (s : str) : str :=
  match s with
  | [] => fflush st
  | c :: r =>
    match st with
    | F0 bl =>
        if is_blank c then fold1 (F0 (c :: bl)) r
        else if c =? c_bs then fold1 (FBs bl) r
        else rev bl ++ c :: fold1 (F0 []) r
    | FBs bl =>
        if c =? c_nl then fold1 (FNl bl false) r
        else if is_blank c then rev bl ++ c_bs :: fold1 (F0 [c]) r
        else if c =? c_bs then rev bl ++ c_bs :: fold1 (FBs []) r
        else rev bl ++ c_bs :: c :: fold1 (F0 []) r
    | FNl bl had =>
        if is_blank c then fold1 (FNl bl true) r
        else fflush st ++ (if c =? c_bs then fold1 (FBs []) r else c :: fold1 (F0 []) r)
    end
  end.

(** the second replace_all: every remaining backslash-newline is removed *)
Fixpoint rm_bsnl (s : str) : str :=
  match s with
  | c :: ((d :: r') as r) => if (c =? c_bs) && (d =? c_nl) then rm_bsnl r' else c :: rm_bsnl r
  | _ => s
  end.

Fixpoint contains_bsnl (s : str) : bool :=
  match s with
  | c :: ((d :: _) as r) => ((c =? c_bs) && (d =? c_nl)) || contains_bsnl r
  | _ => false
  end.

Definition fold_body (t : str) : str := rm_bsnl (fold1 (F0 []) t).
Definition fold_lines (t : str) : str := if contains_bsnl t then fold_body t else t.

(** proposed repair (notes/C16-fix-3.patch): ONE pass over the characters that
    replaces both replace_all calls. [o] = the output so far (reversed), [odd] =
    parity of the backslashes just pushed, [joining] = just after a continuation
    (blanks are swallowed), [sep] = blanks were seen around it. A newline after an
    ODD number of backslashes is a continuation: the backslash and the blanks
    before it are taken back, the blanks after it skipped, one blank inserted if
    there were any. A newline after an even number is an ordinary character. *)
Fixpoint drop_blanks (o : str) : str :=
  match o with c :: r => if is_blank c then drop_blanks r else o | [] => [] end.

Fixpoint fold3 (o : str) (odd joining sep : bool) (s : str) : str :=
  match s with
  | [] => rev (if joining && sep then c_space :: o else o)
  | c :: r =>
      if joining && is_blank c then fold3 o odd true true r
      else
        let o1 := if joining && sep then c_space :: o else o in
        if (c =? c_nl) && odd then
          let o2 := tl o1 in
          let o3 := drop_blanks o2 in
          fold3 o3 false true (Nat.ltb (length o3) (length o2)) r
        else fold3 (c :: o1) (if c =? c_bs then negb odd else false) false sep r
  end.

Definition fold_lines_fixed (t : str) : str :=
  if contains_bsnl t then fold3 [] false false false t else t.

(** every newline is preceded by an even number of backslashes: no line of the
    text asks for a continuation *)
Fixpoint nc (odd : bool) (t : str) : bool :=
  match t with
  | [] => true
  | c :: r => if c =? c_bs then nc (negb odd) r
              else if c =? c_nl then negb odd && nc false r
              else nc false r
  end.
Definition no_cont (t : str) : bool := nc false t.
