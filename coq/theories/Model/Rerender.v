(** The script path's extra pass over every line (src/scripting.rs [expand_args]):
      parse_line -> expand_args_in_tokens -> tokens_to_line
    with [parser_line::tokens_to_line] (src/parsers/parser_line.rs:24-40),
    [tools::wrap_sep_string] (src/tools.rs:124-150), [is_args_in_token],
    [expand_args_for_single_token], [expand_args_in_tokens], and the [-c] path's
    [tools::env_args_to_command_line]. Statement-by-statement transcription.
    The tokenizer is imported from Model/Tokenizer.v. *)
From Cicada Require Import Base.Chars Base.Tag Model.Tokenizer Model.Cmds.
Local Open Scope N_scope.

Definition token := (tag * str)%type.

(** the [sep] string of a token as text *)
Definition tag_str (t : tag) : str :=
  match t with TNone => [] | TSq => [c_sq] | TDq => [c_dq] | TBq => [c_bq] | TBs => [c_bs] end.

(** [c.to_string() == sep] *)
Definition is_sep_char (t : tag) (c : char) : bool :=
  match t with
  | TNone => false | TSq => c =? c_sq | TDq => c =? c_dq | TBq => c =? c_bq | TBs => c =? c_bs
  end.

Definition c_N : char := 78.

(** the [for c in s.chars()] loop of wrap_sep_string; [met] = met_subsep,
    [prev] = previous_subsep *)
Fixpoint wrap_loop (sep : tag) (s : str) (met : bool) (prev : char) : str :=
  match s with
  | [] => []
  | c :: r =>
    let '(met1, prev1) :=
      if tag_eqb sep TNone && ((c =? c_bq) || (c =? c_dq)) then
        if negb met then (true, c)
        else if c =? prev then (false, c_N)
        else (met, prev)
      else (met, prev) in
    let e1 := if is_sep_char sep c then [c_bs] else [] in
    let e2 := if (c =? c_space) && tag_eqb sep TNone && negb met1 then [c_bs] else [] in
    e1 ++ e2 ++ c :: wrap_loop sep r met1 prev1
  end.

Definition wrap_sep_string (sep : tag) (s : str) : str :=
  tag_str sep ++ wrap_loop sep s false c_N ++ tag_str sep.

(** tokens_to_line: untagged tokens are pushed RAW (wrap_sep_string is only
    reached with a non-empty sep), one blank after each token, then one
    trailing blank removed. *)
Fixpoint t2l_body (toks : list token) : str :=
  match toks with
  | [] => []
  | (tg, t) :: r =>
      (if tag_eqb tg TNone then t else wrap_sep_string tg t) ++ c_space :: t2l_body r
  end.

Definition strip_last_space (s : str) : str :=
  match rev s with
  | c :: r => if c =? c_space then rev r else s
  | [] => s
  end.

Definition tokens_to_line (toks : list token) : str := strip_last_space (t2l_body toks).

Definition rerender (l : str) : str := tokens_to_line (parse_line l).

(** * positional parameters *)
Definition is_d_at (c : char) : bool := is_digit c || (c =? c_at).

(** re_contains(token, dollar, optional left brace, one or more of 0-9 and at-sign, optional right brace) *)
Fixpoint is_args_in_token (s : str) : bool :=
  match s with
  | [] => false
  | c :: r =>
      ((c =? c_dollar) &&
       match r with
       | x :: r1 => is_d_at x || ((x =? c_lb) && match r1 with y :: _ => is_d_at y | [] => false end)
       | [] => false
       end)
      || is_args_in_token r
  end.

(** the anchored capture regex of expand_args_for_single_token: lazy head,
    dollar, optional left brace, (digits | at-sign), optional right brace, tail;
    [.] excludes newline, so a token holding a newline never matches. *)
Fixpoint take_digits (s : str) : str * str :=
  match s with
  | c :: r => if is_digit c then let '(d, t) := take_digits r in (c :: d, t) else ([], s)
  | [] => ([], [])
  end.

Definition drop_rb (s : str) : str :=
  match s with c :: r => if c =? c_rb then r else s | [] => s end.

(** key and tail when the text right after a dollar sign is [s] *)
Definition match_key (s : str) : option (str * str) :=
  let body := match s with c :: r => if c =? c_lb then Some r else None | [] => None end in
  let try_at (b : str) : option (str * str) :=
    match b with
    | c :: r => if c =? c_at then Some ([c_at], drop_rb r)
                else if is_digit c then let '(d, t) := take_digits b in Some (d, drop_rb t)
                else None
    | [] => None
    end in
  match body with
  | Some b => match try_at b with Some x => Some x | None => try_at s end
  | None => try_at s
  end.

Fixpoint first_match (s : str) : option (str * str * str) :=
  match s with
  | [] => None
  | c :: r =>
      match (if c =? c_dollar then match_key r else None) with
      | Some (k, t) => Some ([], k, t)
      | None => match first_match r with
                | Some (h, k, t) => Some (c :: h, k, t)
                | None => None
                end
      end
  end.

Definition re_match (s : str) : option (str * str * str) :=
  if no_nl s then first_match s else None.

Fixpoint digits_val (d : str) (acc : N) : N :=
  match d with [] => acc | c :: r => digits_val r (acc * 10 + (c - 48)) end.

Fixpoint join_sp (l : list str) : str :=
  match l with [] => [] | [x] => x | x :: r => x ++ c_space :: join_sp r end.

Inductive xres (A : Type) := XOk (a : A) | XPanic | XFuel.
Arguments XOk {A} a. Arguments XPanic {A}. Arguments XFuel {A}.

(** the [loop] of expand_args_for_single_token; [args[1..]] panics on an empty slice *)
Fixpoint single_loop (fuel : nat) (args : list str) (tok : str) (result : str) : xres str :=
  match fuel with
  | O => XFuel
  | S f =>
    match re_match tok with
    | None => XOk (result ++ tok)
    | Some (h, k, t) =>
        let sub : xres str :=
          if str_eqb k [c_at] then
            match args with [] => XPanic | _ :: r => XOk (join_sp r) end
          else (* parse::<usize>() then [arg_idx < args.len()]; compared in N so that a huge index
                   (also one that overflows usize: Err, same outcome) never becomes a unary number *)
               let ix := digits_val k 0 in
               if ix <? N.of_nat (length args) then XOk (nth (N.to_nat ix) args []) else XOk [] in
        match sub with
        | XOk v => if is_empty t then XOk (result ++ h ++ v) else single_loop f args t (result ++ h ++ v)
        | XPanic => XPanic
        | XFuel => XFuel
        end
    end
  end.

Definition expand_args_for_single_token (tok : str) (args : list str) : xres str :=
  single_loop (S (length tok)) args tok [].

Definition needs_args (t : token) : bool :=
  negb (tag_eqb (fst t) TBq) && negb (tag_eqb (fst t) TSq) && is_args_in_token (snd t).

Fixpoint expand_args_in_tokens (toks : list token) (args : list str) : xres (list token) :=
  match toks with
  | [] => XOk []
  | t :: r =>
      let hd : xres token :=
        if needs_args t then
          match expand_args_for_single_token (snd t) args with
          | XOk v => XOk (fst t, v) | XPanic => XPanic | XFuel => XFuel
          end
        else XOk t in
      match hd with
      | XOk t1 => match expand_args_in_tokens r args with
                  | XOk r1 => XOk (t1 :: r1) | XPanic => XPanic | XFuel => XFuel
                  end
      | XPanic => XPanic
      | XFuel => XFuel
      end
  end.

Definition expand_args (l : str) (args : list str) : xres str :=
  match expand_args_in_tokens (parse_line l) args with
  | XOk toks => XOk (tokens_to_line toks)
  | XPanic => XPanic
  | XFuel => XFuel
  end.

(** a line none of whose tokens is touched by the positional-parameter pass *)
Definition no_positional (l : str) : bool := negb (existsb needs_args (parse_line l)).

(** proposed repair (notes/C16-fix-1.patch): leave the line alone when no token
    needs positional expansion *)
Definition expand_args_fixed (l : str) (args : list str) : xres str :=
  if existsb needs_args (parse_line l) then expand_args l args else XOk l.

(** [tools::env_args_to_command_line]: every argv element after argv[0] that is
    not literally -c, concatenated WITHOUT separator *)
Definition s_dash_c : str := [c_minus; 99].
Fixpoint concat_args (l : list str) : str :=
  match l with [] => [] | a :: r => (if str_eqb a s_dash_c then [] else a) ++ concat_args r end.
Definition env_args_to_command_line (argv : list str) : str :=
  match argv with [] => [] | [_] => [] | _ :: r => concat_args r end.

(** [shell::trim_multiline_prompts] is the identity on a line without newline;
    [tools::extend_bangbang] returns early unless the line holds two bangs. *)
Fixpoint has_nl (s : str) : bool := match s with [] => false | c :: r => (c =? c_nl) || has_nl r end.
Fixpoint has_bangbang (s : str) : bool :=
  match s with
  | c :: ((d :: _) as r) => ((c =? c_bang) && (d =? c_bang)) || has_bangbang r
  | _ => false
  end.

(** the observable the property speaks about, per list segment: the tokens each
    segment of [line_to_cmds] is cut into (all later passes are functions of them) *)
Definition seg_tokens (l : str) : list (list token) := map parse_line (line_to_cmds l).

(** * The failing classes of the round trip, as decidable predicates on the line
    (mirrored by nothing in the driver: the driver asks the extracted model).
    [k_esc]: a backslash outside single and double quotes (the tokenizer consumes it,
    tokens_to_line does not put it back); [k_glue]: a quote character that touches
    a non-blank on its outer side (the neighbour is pulled inside the quotes);
    [k_paren]: a parenthesis outside quotes; [k_orglue]: two bars directly after a
    non-blank (cut into two one-bar tokens). *)
Record kflags := mkk { k_esc : bool; k_glue : bool; k_paren : bool; k_orglue : bool }.
Definition is_quote_char (c : char) : bool := (c =? c_sq) || (c =? c_dq) || (c =? c_bq).
Definition nonblank (o : option char) : bool :=
  match o with Some p => negb (p =? c_space) | None => false end.

Fixpoint kscan (l : str) (q : option char) (prev : option char) (skip : bool) (f : kflags) : kflags :=
  match l with
  | [] => f
  | c :: r =>
    let nxt := match r with n :: _ => Some n | [] => None end in
    if skip then kscan r q (Some c) false f
    else match q with
    | None =>
        if c =? c_bs then kscan r q (Some c) true (mkk true (k_glue f) (k_paren f) (k_orglue f))
        else if is_quote_char c then
          kscan r (Some c) (Some c) false (mkk (k_esc f) (k_glue f || nonblank prev) (k_paren f) (k_orglue f))
        else if (c =? c_lp) || (c =? c_rp) then
          kscan r q (Some c) false (mkk (k_esc f) (k_glue f) true (k_orglue f))
        else if (c =? c_pipe) && match nxt with Some n => n =? c_pipe | None => false end && nonblank prev then
          kscan r q (Some c) false (mkk (k_esc f) (k_glue f) (k_paren f) true)
        else kscan r q (Some c) false f
    | Some qc =>
        if (c =? c_bs) && (qc =? c_bq) then kscan r q (Some c) true (mkk true (k_glue f) (k_paren f) (k_orglue f))
        else if (c =? c_bs) && (qc =? c_dq) then kscan r q (Some c) true f
        else if c =? qc then
          kscan r None (Some c) false (mkk (k_esc f) (k_glue f || nonblank nxt) (k_paren f) (k_orglue f))
        else kscan r q (Some c) false f
    end
  end.

Definition c16_classes (l : str) : kflags := kscan l None None false (mkk false false false false).
Definition known_c16 (l : str) : bool :=
  let f := c16_classes l in
  k_esc f || k_glue f || k_paren f || k_orglue f || negb (is_complete l) || negb (no_positional l).
