(** C15: exit_on_error (set -e) and the function table as shell state, threaded through
    run_script / run_lines / try_run_func / source, with exit_on_error saved at the start of run_script and
    restored at its end (scripting.rs, since 3fef4c9).
    Transcription for scripts whose lines are: `set -e`, `source <path>`, a call of a defined
    function, or an external command (status given by the oracle [ext]). The block structure
    is that of Model/Script.v (run_lines is reused, with this file's [exec_line] as its
    run_line oracle and the state's flag as exit_on_error). No proofs here. *)
From Cicada Require Import Base.Chars Base.Peg Gen.LocustGrammar Model.Script Model.Args Model.Cmds Model.ListExec Model.CondLine.
From Coq Require Import ZArith.
Local Open Scope N_scope.

Record shs := mk_shs { s_eoe : bool; s_funcs : list (str * str); s_log : list str }.

Definition s_set_e : str := [115; 101; 116; 32; 45; 101].
Definition s_source : str := [115; 111; 117; 114; 99; 101].

Fixpoint first_word (l : str) : str * str :=
  match l with
  | [] => ([], [])
  | c :: r => if c =? c_space then ([], r) else let '(a, b) := first_word r in (c :: a, b)
  end.

Fixpoint get_func (name : str) (fs : list (str * str)) : option str :=
  match fs with
  | [] => None
  | (k, v) :: r => if str_eqb k name then Some v else get_func name r
  end.

(** sh.set_func for every definition of the file, in order (later ones win) *)
Fixpoint set_funcs (defs : list (str * str)) (fs : list (str * str)) : list (str * str) :=
  match defs with
  | [] => fs
  | d :: r => set_funcs r (d :: fs)
  end.

(** the words of a pipeline, and the same without output redirections written as separate words
    (`> f`, `>> f`, `1> f`, `2> f`, `2>> f`): redirects_to is not part of the command's words, so it
    cannot change which builtin / function the line is *)
Fixpoint words_acc (l : str) (cur : str) : list str :=
  match l with
  | [] => match cur with [] => [] | _ => [cur] end
  | c :: r => if (c =? c_space) || (c =? 9)
              then match cur with [] => words_acc r [] | _ => cur :: words_acc r [] end
              else words_acc r (cur ++ [c])
  end.
Definition words (l : str) : list str := words_acc l [].

Definition is_redir_op (t : str) : bool :=
  str_eqb t [62] || str_eqb t [62; 62] || str_eqb t [49; 62] || str_eqb t [49; 62; 62]
  || str_eqb t [50; 62] || str_eqb t [50; 62; 62].

Fixpoint drop_redirs (ws : list str) : list str :=
  match ws with
  | [] => []
  | t :: r =>
      if is_redir_op t then match r with [] => [] | _ :: r' => drop_redirs r' end
      else t :: drop_redirs r
  end.

Definition cmd_words (line : str) : list str := drop_redirs (words line).

Section M.
Variable ext : str -> Z.                   (* status of an external command line *)
Variable file_text : str -> option str.    (* contents of a script file *)
Variable n : nat.                          (* while bound of Model/Script.v *)

Definition no_words (w : shs) (_ : str) : shs * list str := (w, []).
Definition no_setvar (w : shs) (_ _ : str) : shs := w.

(** one pipeline of a line: `set -e`, `source f`, a function call, or an external command *)
Fixpoint exec_pipe (fuel : nat) (w : shs) (line : str) {struct fuel} : shs * Z :=
  match fuel with
  | O => (w, 0%Z)
  | S f =>
      match cmd_words line with
      | [] => (w, 0%Z)
      | cmd :: args =>
          if str_eqb cmd [115; 101; 116] && match args with [a] => str_eqb a [45; 101] | _ => false end
          then (mk_shs true (s_funcs w) (s_log w), 0%Z)                               (* builtins/set.rs: set -e *)
          else if str_eqb cmd s_source then                                           (* builtins/source.rs *)
            match args with
            | path :: _ => run_script f w path
            | [] => (w, 0%Z)                                                          (* no file specified *)
            end
          else
            match get_func cmd (s_funcs w) with
            | Some body =>                                                            (* core.rs try_run_func *)
                (* let cr_list = run_lines(body); status = cr_list.last().map_or(0, |cr| cr.status) *)
                match run_lines shs (run_line_of shs (exec_pipe f)) no_words no_setvar s_eoe n body w with
                | Some (Done w1 crs _ _) => (w1, func_call_status crs)
                | _ => (w, 0%Z)
                end
            | None => (mk_shs (s_eoe w) (s_funcs w) (s_log w ++ [line]), ext line)
            end
      end
  end
with run_script (fuel : nat) (w : shs) (path : str) {struct fuel} : shs * Z :=
  match fuel with
  | O => (w, 1%Z)
  | S f =>
      match file_text path with
      | None => (w, 1%Z)                                                            (* no such file *)
      | Some text =>
          let '(defs, text_new) := function_table text in
          let w0 := mk_shs (s_eoe w) (set_funcs defs (s_funcs w)) (s_log w) in
          let '(w1, crs) :=
            match run_lines shs (run_line_of shs (exec_pipe f)) no_words no_setvar s_eoe n text_new w0 with
            | Some (Done w1 crs _ _) => (w1, crs)
            | _ => (w0, [])
            end in
          (* sh.exit_on_error = exit_on_error_saved;  -- since 3fef4c9 the caller's flag is restored *)
          (mk_shs (s_eoe w) (s_funcs w1) (s_log w1), script_status crs)
      end
  end.

(** one script line = an and-or list of such pipelines (execute::run_command_line, Model/ListExec.v):
    the result vector holds the status of every pipeline that was executed *)
Definition exec_line (fuel : nat) (w : shs) (line : str) : shs * list Z :=
  run_line_of shs (exec_pipe fuel) w line.

End M.
