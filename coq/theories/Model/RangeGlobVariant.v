(** VARIANT models for three proposed repairs in C12 (not applied; Model/Expand.v stays the model of the code as it is):
    notes/C12-fix-3.patch  the text around a brace range is kept (prefix / suffix from the match's start / end);
    notes/C12-fix-4.patch  an operand that does not parse skips THAT token instead of returning from the pass;
    notes/C12-fix-5.patch  a path is dropped when a DIRECTORY component begins with a dot while the pattern component
                           at the same distance from the end does not (a star never matches a leading dot). *)
From Coq Require Import ZArith.
From Cicada Require Import Base.Chars Base.Tag Base.Regex Gen.ShellRegexes Model.Expand.
Local Open Scope N_scope.

(* ------------------------------------------------------------------ fix-3 / fix-4: ranges *)
(** the range pattern after its opening brace, also returning what follows the closing brace *)
Definition range_at_ctx (s : str) : option ((str * str * option str) * str) :=
  match int_at s with
  | None => None
  | Some (g1, r1) =>
      match strip_prefix [46; 46] r1 with
      | None => None
      | Some r2 =>
          match int_at r2 with
          | None => None
          | Some (g2, r3) =>
              match strip_prefix [125] r3 with
              | Some rest => Some ((g1, g2, None), rest)
              | None =>
                  match strip_prefix [46; 46] r3 with
                  | None => None
                  | Some r4 =>
                      let (d, r5) := span is_digit r4 in
                      match strip_prefix [125] r5 with
                      | Some rest => Some ((g1, g2, if is_empty d then None else Some d), rest)
                      | None => None
                      end
                  end
              end
          end
      end
  end.

(** leftmost match with its context: (text before the match, captures, text after the match) *)
Fixpoint find_range_ctx (s : str) : option (str * (str * str * option str) * str) :=
  match s with
  | [] => None
  | c :: r =>
      match (if c =? 123 then range_at_ctx r else None) with
      | Some (caps, post) => Some ([], caps, post)
      | None =>
          match find_range_ctx r with
          | Some (pre, caps, post) => Some (c :: pre, caps, post)
          | None => None
          end
      end
  end.

Definition range_sel_v (t : token) : res selr :=
  if negb (tag_is_empty (fst t)) || negb (rx_search rx_brace_range (snd t)) then Ok Skip
  else match find_range_ctx (snd t) with
       | None => Panic site_range_unwrap
       | Some (pre, (g1, g2, g4), post) =>
           match parse_i32 g1, parse_i32 g2 with
           | Some a, Some b =>
               match (match g4 with None => Some 1%Z | Some d => parse_i32 d end) with
               | None => Ok Skip                                   (* fix-4: idx += 1; continue *)
               | Some i0 =>
                   let incr := if (i0 <=? 1)%Z then 1%Z else i0 in
                   res_map (fun l => Repl (map (fun x => retag (pre ++ x ++ post)) l)) (range_list a b incr)   (* fix-3 *)
               end
           | _, _ => Ok Skip                                       (* fix-4 *)
           end
       end.
Definition expand_brace_range_v (toks : tokens) : res tokens := run_pass range_sel_v toks.

(* ------------------------------------------------------------------ fix-5: hidden directory components *)
Fixpoint split_on (c0 : char) (s : str) : list str :=
  match s with
  | [] => [[]]
  | c :: r =>
      if c =? c0 then [] :: split_on c0 r
      else match split_on c0 r with
           | x :: l => (c :: x) :: l
           | [] => [[c]]
           end
  end.

(** directory components from the last one outwards: [path.rsplit('/').skip(1)] *)
Definition dirs_rev (p : str) : list str := tl (rev (split_on 47 p)).

Fixpoint hidden_zip (pc pp : list str) : bool :=
  match pc with
  | [] => false
  | comp :: r =>
      (starts_with [46] comp && negb (str_eqb comp [46]) && negb (str_eqb comp [46; 46])
       && negb (starts_with [46] (hd [] pp)))
      || hidden_zip r (tl pp)
  end.
Definition hidden_dir_matched (pattern path : str) : bool := hidden_zip (dirs_rev path) (dirs_rev pattern).

Definition glob_keep_v (pattern : str) (show_hidden : bool) (p : str) : bool :=
  glob_keep show_hidden p && negb (hidden_dir_matched pattern p).
