(** Transcription of [parsers::parser_line::line_to_cmds] (src/parsers/parser_line.rs).
    One step per character; the one-character look-ahead the Rust code obtains
    with [nth(i+1)] is passed in as [nxt] ([None] iff this is the last char). *)
From Cicada Require Import Base.Chars.
Local Open Scope N_scope.

(** character classes the splitter distinguishes *)
Inductive lcls := LBs | LHash | LSq | LDq | LBq | LAmp | LPipe | LSemi | LOther.
Definition lclassify (c : char) : lcls :=
  if c =? 92 then LBs else if c =? 35 then LHash else if c =? 39 then LSq
  else if c =? 34 then LDq else if c =? 96 then LBq else if c =? 38 then LAmp
  else if c =? 124 then LPipe else if c =? 59 then LSemi else LOther.
Definition lcls_eqb (a b : lcls) : bool :=
  match a, b with
  | LBs, LBs | LHash, LHash | LSq, LSq | LDq, LDq | LBq, LBq | LAmp, LAmp
  | LPipe, LPipe | LSemi, LSemi | LOther, LOther => true
  | _, _ => false
  end.

(** [sep] is the empty string or one quote / ampersand / bar character: its
    class suffices, [LOther] standing for the empty string. *)
Record lst := mkl { l_res : list str; l_sep : lcls; l_tok : str; l_bs : bool }.
Definition lst0 := mkl [] LOther [] false.

(** [trim_cmd] (parser_line.rs): trims white space around one command of a
    list, but keeps one trailing white-space character when it is escaped by an
    odd number of backslashes. *)
Fixpoint leading_bs (s : str) : nat :=
  match s with
  | c :: r => if c =? 92 then S (leading_bs r) else O
  | [] => O
  end.

Definition trim_cmd (tok : str) : str :=
  let t := trim_start tok in
  let trimmed := trim_end t in
  if Nat.ltb (length trimmed) (length t) then
    if Nat.odd (leading_bs (rev trimmed)) then
      match skipn (length trimmed) t with
      | c :: _ => trimmed ++ [c]
      | [] => trimmed
      end
    else trimmed
  else trimmed.

Definition push_trimmed (res : list str) (tok : str) : list str :=
  let t := trim_cmd tok in if is_empty t then res else res ++ [t].

Inductive loutcome := LCont (s : lst) | LBreak (s : lst).

Definition l2c_step (s : lst) (c : char) (nxt : option char) : loutcome :=
  let k := lclassify c in
  let sep_empty := lcls_eqb (l_sep s) LOther in
  if l_bs s then LCont (mkl (l_res s) (l_sep s) (l_tok s ++ [c_bs; c]) false)
  else if lcls_eqb k LBs && negb (lcls_eqb (l_sep s) LSq) then
    LCont (mkl (l_res s) (l_sep s) (l_tok s) true)
  else if lcls_eqb k LHash then
    if sep_empty then LBreak s
    else LCont (mkl (l_res s) (l_sep s) (l_tok s ++ [c]) false)
  else if lcls_eqb k LSq || lcls_eqb k LDq || lcls_eqb k LBq then
    if sep_empty then LCont (mkl (l_res s) k (l_tok s ++ [c]) false)
    else if lcls_eqb (l_sep s) k then LCont (mkl (l_res s) LOther (l_tok s ++ [c]) false)
    else LCont (mkl (l_res s) (l_sep s) (l_tok s ++ [c]) false)
  else if lcls_eqb k LAmp || lcls_eqb k LPipe then
    let same_next := match nxt with Some n => lcls_eqb (lclassify n) k | None => false end in
    if sep_empty && negb same_next then
      (* last char of the line, or next char differs: ordinary character *)
      LCont (mkl (l_res s) (l_sep s) (l_tok s ++ [c]) false)
    else if sep_empty then LCont (mkl (l_res s) k (l_tok s) false)
    else if lcls_eqb (l_sep s) k then
      LCont (mkl (push_trimmed (l_res s) (l_tok s) ++ [[c; c]]) LOther [] false)
    else LCont (mkl (l_res s) (l_sep s) (l_tok s ++ [c]) false)
  else if lcls_eqb k LSemi then
    if sep_empty then LCont (mkl (push_trimmed (l_res s) (l_tok s) ++ [[c_semi]]) LOther [] false)
    else LCont (mkl (l_res s) (l_sep s) (l_tok s ++ [c]) false)
  else LCont (mkl (l_res s) (l_sep s) (l_tok s ++ [c]) false).

Definition peek (l : str) : option char := match l with [] => None | n :: _ => Some n end.

Fixpoint l2c_loop (s : lst) (l : str) : lst :=
  match l with
  | [] => s
  | c :: r => match l2c_step s c (peek r) with
              | LCont s' => l2c_loop s' r
              | LBreak s' => s'
              end
  end.

Definition l2c_finish (s : lst) : list str := push_trimmed (l_res s) (l_tok s).

Definition line_to_cmds (l : str) : list str := l2c_finish (l2c_loop lst0 l).
