(** Decidable, purely syntactic predicates over an input line naming the
    crash / hang classes of C05 whose mechanism is modelled under OTHER
    properties (C10 variable expansion, C11 command substitution, C12 brace
    ranges, C19 calculator).  They are deliberately wide: a line inside a
    class is still run, and only the class's own failure mode (a hang for the
    expansion loops, a panic for the integer overflows) is tolerated there.
    drive/c05.py mirrors these functions and compares its answer with the
    extracted ones on every generated line. *)
From Cicada Require Import Base.Chars Model.Tokenizer Model.Redirect.
Local Open Scope N_scope.

Fixpoint prefix_of (p s : str) : bool :=
  match p with
  | [] => true
  | x :: p' => match s with y :: s' => (x =? y) && prefix_of p' s' | [] => false end
  end.

Fixpoint contains_sub (p s : str) : bool :=
  prefix_of p s || match s with [] => false | _ :: r => contains_sub p r end.

(** longest run of ASCII digits *)
Fixpoint digit_run (s : str) (cur best : nat) : nat :=
  match s with
  | [] => Nat.max cur best
  | c :: r => if is_digit c then digit_run r (S cur) best else digit_run r 0 (Nat.max cur best)
  end.

Fixpoint count_char (c : char) (s : str) : nat :=
  match s with [] => 0 | x :: r => ((if x =? c then 1 else 0) + count_char c r)%nat end.

Inductive fclass := FRange | FArith | FSubst | FNlDollar | FSelfRef | FBraceOpen | FHereString.

(** C12: a brace range with an operand of ten digits or more (the i32 limits have ten) *)
Definition k_range (l : str) : bool :=
  has_char c_lb l && contains_sub [c_dot; c_dot] l && Nat.leb 10 (digit_run l 0 0).
(** C19: an arithmetic line with a literal of 19 digits or more, or a power *)
Definition k_arith (l : str) : bool :=
  is_arithmetic l && (Nat.leb 19 (digit_run l 0 0) || has_char c_caret l).
(** C11: a dollar and an opening parenthesis (quotes or a backslash may stand between them
    and are removed by the tokenizer) or a backquote, and a redirection sign *)
Definition k_subst (l : str) : bool :=
  ((has_char c_dollar l && has_char c_lp l) || has_char c_bq l) && (has_char c_gt l || has_char c_lt l).
(** C02/C08: a here-string (the shell dies with SIGPIPE when nobody reads it) *)
Definition k_herestring (l : str) : bool := contains_sub [c_lt; c_lt; c_lt] l.
(** C10: a newline and a dollar *)
Definition k_nl_dollar (l : str) : bool := has_char c_nl l && has_char c_dollar l.
(** C10: an assignment and two dollars (a value holding a reference, then a use) *)
Definition k_selfref (l : str) : bool := has_char c_eq l && Nat.leb 2 (count_char c_dollar l).
(** C10: a dollar-brace reference *)
Definition k_brace_open (l : str) : bool := contains_sub [c_dollar; c_lb] l.

Definition known_foreign (l : str) : list fclass :=
  (if k_range l then [FRange] else []) ++ (if k_arith l then [FArith] else []) ++
  (if k_subst l then [FSubst] else []) ++ (if k_nl_dollar l then [FNlDollar] else []) ++
  (if k_selfref l then [FSelfRef] else []) ++ (if k_brace_open l then [FBraceOpen] else []) ++
  (if k_herestring l then [FHereString] else []).
