(** Decidable, purely syntactic predicates over an input line naming the
    crash / hang classes of C05 whose mechanism is modelled under OTHER
    properties.  After the repairs e586def, 85ca576, 3746800, c1ba25a, 1ce9d84
    and baff407 in /repo a single one is left (C19, calculator recursion
    depth).  A line inside a class is still run, and only the class's own
    failure mode (the process aborts) is tolerated there.
    drive/c05.py mirrors these functions and compares its answer with the
    extracted ones on every generated line. *)
From Cicada Require Import Base.Chars Model.Tokenizer Model.Redirect.
Local Open Scope N_scope.

Fixpoint count_char (c : char) (s : str) : nat :=
  match s with [] => 0 | x :: r => ((if x =? c then 1 else 0) + count_char c r)%nat end.

Inductive fclass : Set := FCalcDeep.

(** C19 [stack_overflow]: an arithmetic line nested a thousand parentheses deep or with a
    chain of a thousand powers: the recursive pest / Pratt parsers of the calculator exhaust
    the stack (SIGABRT).  Unreachable within the 200 characters of the generated lines;
    exercised by one corpus line. *)
Definition k_calc_deep (l : str) : bool :=
  is_arithmetic l && (Nat.leb 1000 (count_char c_lp l) || Nat.leb 1000 (count_char c_caret l)).

Definition known_foreign (l : str) : list fclass :=
  if k_calc_deep l then [FCalcDeep] else [].
