(** What [execute::run_proc] and the prologue of [core::run_pipeline] do with a
    planned command line before anything is executed (src/execute.rs:97-122,
    src/core.rs:120-330, 617-651, src/types.rs:231-233, 376-386):

    - [cl.is_empty()] (no command): run_proc returns, run_pipeline is not called;
    - [try_run_calculator(&cl.line)]: taken iff [is_arithmetic line];
    - [try_run_func]: evaluates [cl.commands[0].tokens[0].1] -- an index
      panic IN THE SHELL when the first command has no words (core.rs:626);
    - per stage, [run_single_program]: [cl.is_single_and_builtin()] =
      [commands.len() == 1 && commands[0].is_builtin()] (short-circuit: the
      index in [is_builtin], types.rs:232, is evaluated in the shell only for
      a one-command line, whose first command try_run_func has already
      indexed); otherwise a child is forked for EVERY stage and each child
      evaluates [cmd.is_builtin()] = [tools::is_builtin(&self.tokens[0].1)]:
      an index panic IN THAT CHILD (status 101 of the stage, the shell
      survives) when the stage has no words.

    Also the three guarded look-ups of the tokenizer, written with the index
    arithmetic of the Rust code, so that their panic freedom is a theorem and
    not a reading: [line.chars().nth(i + 1).unwrap()] under [i + 1 < count]
    (parser_line.rs:252-254, 289) and [result[result.len() - 1]] under
    [!result.is_empty()] (parser_line.rs:461). *)
From Cicada Require Import Base.Chars Base.Tag Model.Tokenizer Model.Redirect Model.Highlight.
Local Open Scope N_scope.

Inductive fw :=
| FwSkip                       (* no command planned: nothing is looked up *)
| FwCalc                       (* arithmetic line: handed to the calculator *)
| FwPanicShell                 (* core.rs:626 index out of bounds in the shell *)
| FwRun (child_panics : list nat).   (* stages forked; indices of the children that panic (types.rs:232) *)

Definition no_words (c : command) : bool := is_empty (c_tokens c).

Fixpoint empty_stages (i : nat) (l : list command) : list nat :=
  match l with
  | [] => []
  | c :: r => if no_words c then i :: empty_stages (S i) r else empty_stages (S i) r
  end.

Definition first_word_lookups (arith : bool) (cl : cmdline) : fw :=
  match cl_cmds cl with
  | [] => FwSkip
  | c0 :: rest =>
      if arith then FwCalc
      else if no_words c0 then FwPanicShell
      else match rest with
           | [] => FwRun []            (* single command with a word: builtin in the shell or one child *)
           | _ => FwRun (empty_stages 0 (cl_cmds cl))
           end
  end.

(** A planned line, given the tokens after expansion (expansion itself is
    the business of C10-C12 and enters as the token list). *)
Inductive stage_out := SErr (e : perr) | SPlan (cl : cmdline) (f : fw).

Definition plan_and_lookup (arith : bool) (toks : list token) : stage_out :=
  match plan_tokens toks with
  | inr e => SErr e
  | inl cl => SPlan cl (first_word_lookups arith cl)
  end.

(** Decidable: some planned command has no words (cannot happen after baff407: [plan_full]). *)
Definition plans_empty_command (cl : cmdline) : bool := existsb no_words (cl_cmds cl).

(** A token that certainly stays a word of its command: quoted, or free of
    [>] and not an input-redirection operator. *)
Definition safe_word (t : token) : bool :=
  negb (tag_eqb (fst t) TNone) ||
  (negb (has_char c_gt (snd t)) && negb (str_eqb (snd t) s_lt) && negb (str_eqb (snd t) s_lt3)
   && negb (starts_with_c c_lt (snd t))).   (* /repo 543507e: an untagged <file is split, it is no proper word *)

(** * Guarded look-ups of the tokenizer, with the Rust index arithmetic *)

(** [if i + 1 < count_chars && line.chars().nth(i + 1).unwrap() == X]: the
    look-ahead, [Panic] if the unwrap fails *)
Definition lookahead_guarded (l : str) (i : nat) : res (option char) :=
  if Nat.ltb (i + 1) (length l) then
    match nth_error l (i + 1) with Some c => Ok (Some c) | None => Panic 289 end
  else Ok None.

(** [i == count_chars - 1 || (i + 1 < count_chars && nth(i + 1).unwrap() == ' ')]
    evaluated inside the loop, i.e. with [i < count_chars]; usize subtraction
    panics (debug) when [count_chars = 0] *)
Definition rparen_guarded (l : str) (i : nat) : res bool :=
  match length l with
  | O => Panic 252
  | S m =>
      if Nat.eqb i m then Ok true
      else match lookahead_guarded l i with
           | Ok (Some c) => Ok (c =? c_space)
           | Ok None => Ok false
           | Panic s => Panic s
           end
  end.

(** [if !result.is_empty() { result[result.len() - 1] ... }] *)
Definition last_guarded {A} (r : list A) : res (option A) :=
  if is_empty r then Ok None
  else match nth_error r (length r - 1) with Some x => Ok (Some x) | None => Panic 461 end.

(** * The planner BEFORE fix baff407 (no empty-command check), kept to state that the
    repair changed nothing where no command was wordless ([plan_old_conservative]) and
    as a regression witness of what the unrepaired code did. *)
Fixpoint map_cmds_old (l : list (list token)) : list command + perr :=
  match l with
  | [] => inl []
  | t :: r => match from_tokens t with
              | inr e => inr e
              | inl c => match map_cmds_old r with inl cs => inl (c :: cs) | inr e => inr e end
              end
  end.

Definition plan_tokens_old (toks : list token) : cmdline + perr :=
  let '(envs, toks) := drain_envs toks [] in
  let n := length toks in
  let is_bg := (Nat.ltb 1 n) && match rev toks with (tg, w) :: _ => tag_eqb tg TNone && str_eqb w [c_amp] | [] => false end in
  let toks := if is_bg then removelast toks else toks in
  match map_cmds_old (split_pipes toks [] []) with
  | inl cs => inl (mkcl cs envs is_bg)
  | inr e => inr e
  end.

Definition plan_and_lookup_old (arith : bool) (toks : list token) : stage_out :=
  match plan_tokens_old toks with
  | inr e => SErr e
  | inl cl => SPlan cl (first_word_lookups arith cl)
  end.
