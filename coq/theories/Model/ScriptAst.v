(** C14 reference side: the property's syntax trees, their two accepted
    spellings as text (with indentation and blank lines), the ideal pair tree,
    and the structured semantics. Definitions only. *)
From Cicada Require Import Base.Chars Base.Peg Gen.LocustGrammar Model.Script.
From Coq Require Import ZArith.
Local Open Scope N_scope.

(** [ind] = the blanks before a line; [sp] = true for the `; then` / `; do`
    spelling of a head, false for the newline spelling. *)
Inductive block :=
| BNil
| BCons (s : stmt) (b : block)
with stmt :=
| SCmd (ind line : str)
| SBlank (ws : str)
| SBreak (ind : str)
| SCont (ind : str)
| SIf (ind : str) (sp : bool) (cond : str) (body : block) (rest : arms)
| SFor (ind : str) (sp : bool) (var words : str) (body : block)
| SWhile (ind : str) (sp : bool) (cond : str) (body : block)
with arms :=
| ANone (ind : str)                                   (* fi *)
| AElse (ind : str) (body : block) (ind_fi : str)     (* else ... fi *)
| AElif (ind : str) (sp : bool) (cond : str) (body : block) (rest : arms).

Definition s_if : str := [105; 102; 32].
Definition s_fi : str := [102; 105].
Definition s_else : str := [101; 108; 115; 101].
Definition s_elseif : str := [101; 108; 115; 101; 32; 105; 102; 32].
Definition s_for : str := [102; 111; 114; 32].
Definition s_in : str := [32; 105; 110; 32].
Definition s_while : str := [119; 104; 105; 108; 101; 32].
Definition s_done : str := [100; 111; 110; 101].
Definition s_then (sp : bool) : str := if sp then [59; 32; 116; 104; 101; 110; 10] else [10].
Definition s_do (sp : bool) : str := if sp then [59; 32; 100; 111; 10] else [10].
Definition nl : str := [10].

(** Text. [core_*] is a statement without the blanks before it and without its
    final newline, i.e. what as_str().trim() of its pair is. *)
Fixpoint render_block (b : block) : str :=
  match b with
  | BNil => []
  | BCons s r => render_stmt s ++ render_block r
  end
with render_stmt (s : stmt) : str :=
  match s with
  | SCmd ind line => ind ++ line ++ nl
  | SBlank ws => ws ++ nl
  | SBreak ind => ind ++ kw_break ++ nl
  | SCont ind => ind ++ kw_continue ++ nl
  | SIf ind sp cond body rest =>
      ind ++ (s_if ++ cond ++ s_then sp ++ render_block body ++ core_arms rest) ++ nl
  | SFor ind sp var words body =>
      ind ++ (s_for ++ var ++ s_in ++ words ++ s_do sp ++ render_block body ++ ind ++ s_done) ++ nl
  | SWhile ind sp cond body =>
      ind ++ (s_while ++ cond ++ s_do sp ++ render_block body ++ ind ++ s_done) ++ nl
  end
with core_arms (a : arms) : str :=
  match a with
  | ANone ind => ind ++ s_fi
  | AElse ind body ind_fi => ind ++ s_else ++ nl ++ render_block body ++ ind_fi ++ s_fi
  | AElif ind sp cond body rest =>
      ind ++ s_elseif ++ cond ++ s_then sp ++ render_block body ++ core_arms rest
  end.

Definition core_stmt (s : stmt) : str :=
  match s with
  | SCmd _ line => line
  | SBlank _ => []
  | SBreak _ => kw_break
  | SCont _ => kw_continue
  | SIf _ sp cond body rest => s_if ++ cond ++ s_then sp ++ render_block body ++ core_arms rest
  | SFor ind sp var words body => s_for ++ var ++ s_in ++ words ++ s_do sp ++ render_block body ++ ind ++ s_done
  | SWhile ind sp cond body => s_while ++ cond ++ s_do sp ++ render_block body ++ ind ++ s_done
  end.

(** The ideal pair tree (texts already trimmed, as [annotate] gives them). *)
Definition body_node (kids : list ttree) (b : block) : ttree :=
  TNode L_EXP_BODY (trim (render_block b)) kids.

Fixpoint kids_of_block (b : block) : list ttree :=
  match b with
  | BNil => []
  | BCons s r => tree_of_stmt s :: kids_of_block r
  end
with tree_of_stmt (s : stmt) : ttree :=
  match s with
  | SCmd _ _ | SBlank _ | SBreak _ | SCont _ => TNode L_CMD (core_stmt s) []
  | SIf _ sp cond body rest =>
      TNode L_EXP_IF (core_stmt s)
        (TNode L_IF_IF_BR (trim (s_if ++ cond ++ s_then sp ++ render_block body))
           [TNode L_IF_HEAD (trim (s_if ++ cond ++ s_then sp)) [TNode L_TEST cond []];
            body_node (kids_of_block body) body]
         :: nodes_of_arms rest)
  | SFor _ sp var words body =>
      TNode L_EXP_FOR (core_stmt s)
        [TNode L_FOR_HEAD (trim (s_for ++ var ++ s_in ++ words ++ s_do sp))
           [TNode L_FOR_INIT (trim (var ++ s_in ++ words ++ s_do sp))
              [TNode L_FOR_VAR var []; TNode L_TEST words []]];
         body_node (kids_of_block body) body]
  | SWhile _ sp cond body =>
      TNode L_EXP_WHILE (core_stmt s)
        [TNode L_WHILE_HEAD (trim (s_while ++ cond ++ s_do sp)) [TNode L_TEST cond []];
         body_node (kids_of_block body) body]
  end
with nodes_of_arms (a : arms) : list ttree :=
  match a with
  | ANone _ => []
  | AElse _ body _ =>
      [TNode L_IF_ELSE_BR (trim (s_else ++ nl ++ render_block body))
         [TNode L_KW_ELSE s_else []; body_node (kids_of_block body) body]]
  | AElif _ sp cond body rest =>
      TNode L_IF_ELSEIF_BR (trim (s_elseif ++ cond ++ s_then sp ++ render_block body))
        [TNode L_IF_ELSEIF_HEAD (trim (s_elseif ++ cond ++ s_then sp)) [TNode L_TEST cond []];
         body_node (kids_of_block body) body]
      :: nodes_of_arms rest
  end.

Definition tree_of_script (b : block) : ttree :=
  TNode L_EXP (trim (render_block b)) (kids_of_block b).

(** What the interpreter needs of a tree: command lines are non-empty and are
    not the two loop keywords (those are SBreak / SCont). *)
Definition wf_line (line : str) : bool :=
  negb (is_empty line) && negb (str_eqb line kw_continue) && negb (str_eqb line kw_break).

Fixpoint wf_block (b : block) : bool :=
  match b with
  | BNil => true
  | BCons s r => wf_stmt s && wf_block r
  end
with wf_stmt (s : stmt) : bool :=
  match s with
  | SCmd _ line => wf_line line
  | SBlank _ | SBreak _ | SCont _ => true
  | SIf _ _ _ body rest => wf_block body && wf_arms rest
  | SFor _ _ _ _ body => wf_block body
  | SWhile _ _ _ body => wf_block body
  end
with wf_arms (a : arms) : bool :=
  match a with
  | ANone _ => true
  | AElse _ body _ => wf_block body
  | AElif _ _ _ body rest => wf_block body && wf_arms rest
  end.

(** What the parser needs in addition (the domain of C14_parse_full):
    indentation is blanks; command lines, conditions and word lists are
    non-empty, trimmed, on one line; a command line does not begin with a
    block keyword; conditions and word lists hold no `; then` / `; do`; loop variables are
    identifiers; every body has at least one line. *)
Definition is_blank (c : char) : bool := (c =? 32) || (c =? 9).
Definition wfp_ind (ind : str) : bool := forallb is_blank ind.
Definition wfp_text (t : str) : bool :=
  negb (is_empty t) && forallb (fun c => negb (c =? 10) && negb (c =? 13)) t && str_eqb (trim t) t.
(** a condition / word list may hold `;` (an and-or list) but no `; then` / `; do` *)
Fixpoint drop_blanks (t : str) : str :=
  match t with
  | c :: r => if (c =? 32) || (c =? 9) then drop_blanks r else t
  | [] => []
  end.
Fixpoint no_semi (t : str) : bool :=
  match t with
  | [] => true
  | c :: r =>
      (if c =? 59
       then negb (match strip_prefix [116; 104; 101; 110] (drop_blanks r) with Some _ => true | None => false end
                  || match strip_prefix [100; 111] (drop_blanks r) with Some _ => true | None => false end)
       else true) && no_semi r
  end.
Definition has_prefix (p t : str) : bool := match strip_prefix p t with Some _ => true | None => false end.
Definition starts_kw (line : str) : bool :=
  has_prefix s_if line || has_prefix s_for line || has_prefix s_elseif line || has_prefix s_while line
  || str_eqb line s_else || str_eqb line s_fi || str_eqb line s_done.
Definition wfp_var (v : str) : bool :=
  match v with
  | [] => false
  | c :: r => (is_alpha c || (c =? 95)) && forallb is_alnum_us r
  end.
Definition nonempty_block (b : block) : bool := match b with BNil => false | BCons _ _ => true end.

Fixpoint wfp_block (b : block) : bool :=
  match b with
  | BNil => true
  | BCons s r => wfp_stmt s && wfp_block r
  end
with wfp_stmt (s : stmt) : bool :=
  match s with
  | SCmd ind line => wfp_ind ind && wfp_text line && wf_line line && negb (starts_kw line)
  | SBlank ws => wfp_ind ws
  | SBreak ind | SCont ind => wfp_ind ind
  | SIf ind _ cond body rest =>
      wfp_ind ind && wfp_text cond && no_semi cond && nonempty_block body && wfp_block body && wfp_arms rest
  | SFor ind _ var words body =>
      wfp_ind ind && wfp_var var && wfp_text words && no_semi words && nonempty_block body && wfp_block body
  | SWhile ind _ cond body =>
      wfp_ind ind && wfp_text cond && no_semi cond && nonempty_block body && wfp_block body
  end
with wfp_arms (a : arms) : bool :=
  match a with
  | ANone ind => wfp_ind ind
  | AElse ind body ind_fi => wfp_ind ind && wfp_ind ind_fi && nonempty_block body && wfp_block body
  | AElif ind _ cond body rest =>
      wfp_ind ind && wfp_text cond && no_semi cond && nonempty_block body && wfp_block body && wfp_arms rest
  end.

(** [parse_ok b]: the generated grammar parses the text of [b] completely, to
    the ideal tree (EOI pairs, which no consumer reads, left out). *)
Definition parse_ok (b : block) : Prop :=
  exists p kids,
    parse_from l_grammar L_EXP (render_block b) = POk p [] kids /\
    map (fun k => strip_eoi L_EOI (annotate (render_block b) k)) kids = [tree_of_script b].

(** Nesting measure: the depth bound the transcribed interpreter needs. *)
Fixpoint depth_block (b : block) : nat :=
  match b with
  | BNil => 1
  | BCons s r => Nat.max (depth_stmt s) (depth_block r)
  end
with depth_stmt (s : stmt) : nat :=
  match s with
  | SCmd _ _ | SBlank _ | SBreak _ | SCont _ => 1
  | SIf _ _ _ body rest => 3 + Nat.max (depth_block body) (depth_arms rest)
  | SFor _ _ _ _ body => 3 + depth_block body
  | SWhile _ _ _ body => 3 + depth_block body
  end
with depth_arms (a : arms) : nat :=
  match a with
  | ANone _ => 1
  | AElse _ body _ => depth_block body
  | AElif _ _ _ body rest => Nat.max (depth_block body) (depth_arms rest)
  end.

(** The structured semantics. Same oracles as the interpreter; no pair tree,
    no rule names, no accumulators: a block runs its statements in order until
    one of them asks to leave the innermost loop; an `if` runs exactly the
    first arm whose condition succeeds (else the `else` arm, else nothing);
    `for` binds each word in order; `while` re-tests before every iteration
    (at most [n] iterations, then OutOfFuel); `break` / `continue` outside a
    loop do nothing. With [e] (set -e in effect) the first statement whose last
    pipeline failed -- at any depth -- ends the block, the loops and branches
    around it and so the whole script; its status is the last of the list. A condition succeeds iff the last pipeline it ran
    returned 0. The status list of a compound statement is that of the
    statements it ran (conditions excluded). *)
Section Sem.
Variable W : Type.
Variable run_line : W -> str -> W * list Z.
Variable for_words : W -> str -> W * list str.
Variable set_var : W -> str -> str -> W.
Variable e : bool.   (* set -e in effect *)
Variable n : nat.

(** with set -e in effect, a statement whose last pipeline failed ends everything *)
Definition stops (crs : list Z) : bool := e && last_is_nonzero crs.

(** sequencing: a statement that asks to leave the innermost loop ends the block *)
Definition then_ (o : outcome W) (k : W -> outcome W) : outcome W :=
  match o with
  | Done w1 crs c b =>
      if stops crs then Done w1 crs false false
      else if c then Done w1 crs true false
      else if b then Done w1 crs false true
      else match k w1 with
           | Done w2 crs2 c2 b2 => Done w2 (crs ++ crs2) c2 b2
           | x => x
           end
  | x => x
  end.

(** `for`: one run of the body per word, in order; break ends the loop, continue only the iteration *)
Fixpoint sem_each (body : W -> outcome W) (var : str) (vs : list str) (w : W) : outcome W :=
  match vs with
  | [] => Done w [] false false
  | v :: vs' =>
      match body (set_var w var v) with
      | Done w2 crs _ b =>
          if b || stops crs then Done w2 crs false false
          else match sem_each body var vs' w2 with
               | Done w3 crs3 c3 b3 => Done w3 (crs ++ crs3) c3 b3
               | x => x
               end
      | x => x
      end
  end.

(** `while`: the condition is run before every iteration *)
Fixpoint sem_iter (cond : str) (body : W -> outcome W) (k : nat) (w : W) : outcome W :=
  match k with
  | O => OutOfFuel
  | S k' =>
      let '(w1, crs) := run_line w cond in
      if last_is_zero crs then
        match body w1 with
        | Done w2 crs2 _ b =>
            if b || stops crs2 then Done w2 crs2 false false
            else match sem_iter cond body k' w2 with
                 | Done w3 crs3 c3 b3 => Done w3 (crs2 ++ crs3) c3 b3
                 | x => x
                 end
        | x => x
        end
      else Done w1 [] false false
  end.

Fixpoint sem_block (b : block) (in_loop : bool) (w : W) {struct b} : outcome W :=
  match b with
  | BNil => Done w [] false false
  | BCons s r => then_ (sem_stmt s in_loop w) (sem_block r in_loop)
  end
with sem_stmt (s : stmt) (in_loop : bool) (w : W) {struct s} : outcome W :=
  match s with
  | SCmd _ line => let '(w1, crs) := run_line w line in Done w1 crs false false
  | SBlank _ => Done w [] false false
  | SBreak _ => Done w [] false in_loop
  | SCont _ => Done w [] in_loop false
  | SIf _ _ cond body rest =>
      let '(w1, crs) := run_line w cond in
      if last_is_zero crs then sem_block body in_loop w1 else sem_arms rest in_loop w1
  | SFor _ _ var words body =>
      let '(w1, vs) := for_words w words in
      sem_each (sem_block body true) var vs w1
  | SWhile _ _ cond body => sem_iter cond (sem_block body true) n w
  end
with sem_arms (a : arms) (in_loop : bool) (w : W) {struct a} : outcome W :=
  match a with
  | ANone _ => Done w [] false false
  | AElse _ body _ => sem_block body in_loop w
  | AElif _ _ cond body rest =>
      let '(w1, crs) := run_line w cond in
      if last_is_zero crs then sem_block body in_loop w1 else sem_arms rest in_loop w1
  end.
End Sem.
