(** C07 -- the foreground wait of Model/Term.v with the kernel as an ORACLE.

    [Term.settle] runs the loop of jobc::wait_fg_job (after /repo 1687e77)
    against the kernel model of Term.v ([next_status], rules K2-K4). Here the
    same loop -- the same [Term.wait_body] per iteration, the same return test,
    the same [Term.finish] (run_proc / fg.rs hand the terminal back) -- runs
    against an arbitrary list of answers of [waitpid(-1, WUNTRACED|WCONTINUED)]:

      RStatus e   a wait status: exit / signal / stop / continue of ANY child
                  of the shell, member of the job or not, in any order;
      REchild     the call fails with ECHILD (the loop breaks).

    The list running out means the call blocks: [WBlocked] with the state the
    shell is in meanwhile. Nothing here reads or changes [procs]: the kernel
    IS the oracle. [status] is [cmd_result.status] of wait_fg_job (updated as
    in [Jobs.wait_loop]: on a status of the LAST pid of the job that is not a
    continue); Term.v itself does not carry it.

    The loop takes fuel (one unit per call of waitpid); [WOutOfFuel] is
    excluded by hypothesis in the theorems, and [length q < fuel] suffices
    (Proofs/WaitTermProofs.v). No proofs in this file. *)
From Coq Require Import ZArith List Bool Arith.
From Cicada Require Import Model.Jobs Model.Term.
Import ListNotations.
Local Open Scope Z_scope.

Inductive reply := RStatus (e : ev) | REchild.

Inductive wout :=
| WReturned (s : st) (status : Z) (left : list reply)   (* wait_fg_job returned, the caller took the terminal back *)
| WBlocked (s : st) (status : Z)                        (* the oracle is exhausted: waitpid blocks *)
| WOutOfFuel.

(** the state of the session while the shell is inside the loop *)
Definition waiting_st (kk : core) (gid : Z) (pids w : list Z) (v : via) (rest : list cmd)
           (ow : Z) (m : bool) (g : list op) (we : list ev) : st :=
  mkst kk (Waiting gid pids w v rest) ow m g we.

Fixpoint wait_o (c : cfg) (fuel : nat) (q : list reply) (kk : core) (gid : Z) (pids w : list Z)
         (v : via) (rest : list cmd) (ow : Z) (m : bool) (g : list op) (we : list ev) (status : Z) : wout :=
  match fuel with
  | O => WOutOfFuel
  | S f =>
      match q with
      | [] => WBlocked (waiting_st kk gid pids w v rest ow m g we) status
      | REchild :: q' =>
          (* ws.is_error() && err == ECHILD: break *)
          WReturned (finish c kk v ow m (g ++ [Wait gid pids we]) rest) status q'
      | RStatus e :: q' =>
          let '(k', w') := wait_body kk gid pids w e in
          let status' :=
            if is_cont e then status                                      (* continue; *)
            else if memZ (ev_pid e) pids && (ev_pid e =? last pids 0) then ev_status e else status in
          if negb (is_cont e) && (length pids <=? length w')%nat
          then WReturned (finish c k' v ow m (g ++ [Wait gid pids (we ++ [e])]) rest) status' q'
          else wait_o c f q' k' gid pids w' v rest ow m g (we ++ [e]) status'
      end
  end.

(** wait_fg_job called by run_pipeline (v = VLaunch term_given) or fg.rs (v = VFg),
    as in [Term.enter_wait] *)
Definition wait_fg_o (c : cfg) (fuel : nat) (q : list reply) (kk : core) (gid : Z) (pids : list Z)
           (v : via) (rest : list cmd) (ow : Z) (m : bool) (g : list op) : wout :=
  match pids with
  | [] => WReturned (finish c kk v ow m (g ++ [Wait gid [] []]) rest) 0 q   (* if count_child == 0 { return } *)
  | _ => wait_o c fuel q kk gid pids [] v rest ow m g [] 0
  end.

(** the statuses among a list of answers *)
Fixpoint statuses (q : list reply) : list ev :=
  match q with
  | [] => []
  | RStatus e :: r => e :: statuses r
  | REchild :: r => statuses r
  end.

(** the answers the kernel model of Term.v gives ([next_status], K3; ECHILD when
    every child has been reaped, K4; otherwise the call blocks), for the link
    between [wait_o] and [Term.settle] in Proofs/WaitTermProofs.v *)
Fixpoint kreplies (fuel : nat) (ps : list proc) : list reply :=
  match fuel with
  | O => []
  | S f =>
      match next_status ps with
      | Some (e, ps') => RStatus e :: kreplies f ps'
      | None => if all_gone ps then [REchild] else []
      end
  end.
