(** C04 (parser part): transcription of
    - [tokens_to_redirections]  (src/parsers/parser_line.rs)
    - [Command::from_tokens]    (src/types.rs)
    A token is [(sep, word)]; only emptiness of [sep] is ever tested.
    No proofs in this file (see Proofs/RedirsProofs.v). *)
From Cicada Require Import Base.Chars.
Local Open Scope N_scope.

Definition tok := (str * str)%type.
Definition redir := (str * str * str)%type.

(** String constants (chars are N): *)
Definition s_1 : str := [49].          (* 1 *)
Definition s_2 : str := [50].          (* 2 *)
Definition s_gt : str := [62].         (* > *)
Definition s_gtgt : str := [62; 62].   (* >> *)
Definition s_amp1 : str := [38; 49].   (* &1 *)
Definition s_amp2 : str := [38; 50].   (* &2 *)
Definition s_lt : str := [60].         (* < *)
Definition s_lt3 : str := [60; 60; 60]. (* <<< *)

(** [word.starts_with('&')] *)
Definition starts_with_amp (w : str) : bool :=
  match w with c :: _ => c =? 38 | [] => false end.

(** ---- the regexes (crate [regex], Unicode mode, no multi-line) ---- *)

(** backslash-d of the regex crate is the Unicode class Nd (decimal digits), not
    only ASCII.  The full Nd table (60+ ranges) is NOT transcribed: ASCII 0-9 plus the
    Arabic-Indic digits U+0660..U+0669 stand for it; extend the disjunction to
    add further ranges.  The driver alphabet contains U+0661 to exercise it. *)
Definition is_nd (c : char) : bool :=
  ((48 <=? c) && (c <=? 57)) || ((1632 <=? c) && (c <=? 1641)).

(** [re_contains(s, ^\d+$)]: non-empty and only Nd characters.  (Without the
    multi-line flag the dollar matches at the very end of the text only.) *)
Definition all_digits (s : str) : bool := negb (is_empty s) && forallb is_nd s.

(** [re_contains(word, >)] *)
Definition contains_gt (w : str) : bool := existsb (fun c => c =? 62) w.

(** The group [^>]-star anchored at the start, followed by something that must start
    with [>]: the longest prefix free of [>] and the remaining text.  ([^>]
    matches every other scalar value, new-lines included.) *)
Fixpoint span_not_gt (w : str) : str * str :=
  match w with
  | [] => ([], [])
  | c :: r => if c =? 62 then ([], w)
              else let p := span_not_gt r in (c :: fst p, snd p)
  end.

(** ptn1 = ^ ( [^>]* ) ( >>? ) ( [^>]+ ) $ : captures (s1, s2, s3).  After s1 the text
    must be [>] or [>>] (greedy; backtracking to a single [>] cannot succeed
    because group 3 may not start with [>]) followed by a non-empty rest free of [>]. *)
Definition ptn1 (w : str) : option (str * str * str) :=
  let p := span_not_gt w in
  match snd p with
  | [] => None
  | _ :: r1 =>
      match r1 with
      | [] => None
      | c :: r2 =>
          if c =? 62 then
            if negb (is_empty r2) && negb (contains_gt r2)
            then Some (fst p, s_gtgt, r2) else None
          else
            if negb (contains_gt r1) then Some (fst p, s_gt, r1) else None
      end
  end.

(** ptn2 = ^ ( [^>]* ) ( >>? ) $ : captures (s1, s2). *)
Definition ptn2 (w : str) : option (str * str) :=
  let p := span_not_gt w in
  match snd p with
  | [] => None
  | _ :: r1 =>
      match r1 with
      | [] => Some (fst p, s_gt)
      | c :: r2 =>
          if (c =? 62) && is_empty r2 then Some (fst p, s_gtgt) else None
      end
  end.

(** ---- tokens_to_redirections ---- *)

Inductive result :=
| RErr (code : nat)
    (* 1 = bad redirection syntax near &     2 = Bad file descriptor #3
       3 = Bad file descriptor #1            4 = Bad file descriptor #2
       5 = redirection syntax error          (6 = Failed to build Regex: the
       patterns are constants that do compile, unreachable, not modelled) *)
| ROk (tokens_new : list tok) (redirects : list redir).

(** Outcome of one iteration of the [for token in tokens] body: an error
    return, or what is pushed on [tokens_new] / [redirects] (zero or one
    element each) and the new [to_be_continued], [.._s1], [.._s2]. *)
Inductive step_res :=
| SErr (code : nat)
| SNext (push_tokens : list tok) (push_redirects : list redir)
        (to_be_continued : bool) (tbc_s1 tbc_s2 : str).

Definition ttr_step (token : tok) (to_be_continued : bool) (tbc_s1 tbc_s2 : str)
  : step_res :=
  let sep := fst token in
  if negb (is_empty sep) && negb to_be_continued then
    (* tokens_new.push(token.clone()); continue; *)
    SNext [token] [] to_be_continued tbc_s1 tbc_s2
  else
  let word := snd token in
  if to_be_continued then
    if is_empty sep && starts_with_amp word then SErr 1 else
    let s3 := word in
    if all_digits tbc_s1 then
      if negb (str_eqb tbc_s1 s_1) && negb (str_eqb tbc_s1 s_2) then SErr 2 else
      SNext [] [(tbc_s1, tbc_s2, s3)] false tbc_s1 tbc_s2
    else
      (* NB: the left-over prefix is pushed with the separator of the CURRENT
         token (the file-name token), as in the source. *)
      SNext (if negb (is_empty tbc_s1) then [(sep, tbc_s1)] else [])
            [(s_1, tbc_s2, s3)] false tbc_s1 tbc_s2
  else
  if negb (contains_gt word) then
    SNext [token] [] to_be_continued tbc_s1 tbc_s2
  else
    match ptn1 word with
    | Some (s1, s2, s3) =>
        if starts_with_amp s3 && negb (str_eqb s3 s_amp1) && negb (str_eqb s3 s_amp2)
        then SErr 3 else
        if all_digits s1 then
          if negb (str_eqb s1 s_1) && negb (str_eqb s1 s_2) then SErr 4 else
          SNext [] [(s1, s2, s3)] to_be_continued tbc_s1 tbc_s2
        else
          SNext (if negb (is_empty s1) then [(sep, s1)] else [])
                [(s_1, s2, s3)] to_be_continued tbc_s1 tbc_s2
    | None =>
        match ptn2 word with
        | Some (s1, s2) => SNext [] [] true s1 s2
        | None =>
            (* contains [>] but matches neither pattern (a>b>c, >>>, ...):
               the token is silently dropped. *)
            SNext [] [] to_be_continued tbc_s1 tbc_s2
        end
    end.

Fixpoint ttr_loop (tokens : list tok) (tokens_new : list tok) (redirects : list redir)
         (to_be_continued : bool) (tbc_s1 tbc_s2 : str) : result :=
  match tokens with
  | [] => if to_be_continued then RErr 5 else ROk tokens_new redirects
  | token :: rest =>
      match ttr_step token to_be_continued tbc_s1 tbc_s2 with
      | SErr c => RErr c
      | SNext pt pr tbc a b =>
          ttr_loop rest (tokens_new ++ pt) (redirects ++ pr) tbc a b
      end
  end.

Definition tokens_to_redirections (tokens : list tok) : result :=
  ttr_loop tokens [] [] false [] [].

(** ---- Command::from_tokens ---- *)

Inductive result2 :=
| R2Err (code : nat)          (* the error of tokens_to_redirections *)
| R2OutOfFuel                 (* the while loop did not finish within the fuel *)
| R2Panic                     (* Vec::remove out of range *)
| R2Ok (tokens : list tok) (redirects_to : list redir) (redirect_from : option (str * str)).

(** [iter().position(p)] *)
Fixpoint position {A} (p : A -> bool) (l : list A) : option nat :=
  match l with
  | [] => None
  | x :: r => if p x then Some O
              else match position p r with Some i => Some (S i) | None => None end
  end.

(** [Vec::remove(idx)]: the removed element and the remaining vector; [None] = panic. *)
Fixpoint vec_remove {A} (idx : nat) (l : list A) : option (A * list A) :=
  match l, idx with
  | [], _ => None
  | x :: r, O => Some (x, r)
  | x :: r, S i => match vec_remove i r with
                   | Some (y, r') => Some (y, x :: r')
                   | None => None
                   end
  end.

(** [x.0.is_empty() && x.1 == w]: an unquoted token whose word is [w]
    (since /repo ea20a23 a quoted [<] is an ordinary argument). *)
Definition word_is (w : str) (t : tok) : bool :=
  match fst t with [] => str_eqb (snd t) w | _ => false end.
Definition is_from_tok (t : tok) : bool := word_is s_lt t || word_is s_lt3 t.

(** State of the while loop: tokens_new, len, redirects_from_type, redirects_from_value. *)
Definition ft_state := (list tok * nat * str * str)%type.

(** One [if let Some(idx) = tokens_new.iter().position(|x| x.1 == op) { ... }].
    [len] is a separate variable in the source (kept; it always equals the
    length of tokens_new); usize subtraction is [Nat.sub] (never 0 - 1 there). *)
Definition take_from (op : str) (s : ft_state) : option ft_state :=
  match s with
  | (tokens_new, len, ty, val) =>
      match position (word_is op) tokens_new with
      | None => Some s
      | Some idx =>
          let ty := op in
          match vec_remove idx tokens_new with
          | None => None
          | Some (_, tokens_new) =>
              let len := Nat.sub len 1 in
              if Nat.ltb idx len then           (* len > idx *)
                match vec_remove idx tokens_new with
                | None => None
                | Some (t, tokens_new) => Some (tokens_new, Nat.sub len 1, ty, snd t)
                end
              else
                (* trailing operator without operand: value left unchanged *)
                Some (tokens_new, len, ty, val)
          end
      end
  end.

Inductive ft_res := FPanic | FOutOfFuel | FDone (s : ft_state).

Fixpoint ft_while (fuel : nat) (has_redirect_from : bool) (s : ft_state) : ft_res :=
  if negb has_redirect_from then FDone s else
  match fuel with
  | O => FOutOfFuel
  | S fuel' =>
      match take_from s_lt s with
      | None => FPanic
      | Some s =>
          match take_from s_lt3 s with
          | None => FPanic
          | Some s =>
              ft_while fuel' (existsb is_from_tok (fst (fst (fst s)))) s
          end
      end
  end.

Definition from_tokens_core (tokens : list tok) : result2 :=
  let tokens_new := tokens in
  let has_redirect_from := existsb is_from_tok tokens_new in
  let len := length tokens_new in
  (* every iteration that starts removes at least one token: fuel = len + 1 *)
  match ft_while (S len) has_redirect_from (tokens_new, len, [], []) with
  | FPanic => R2Panic
  | FOutOfFuel => R2OutOfFuel
  | FDone (tokens_new, _, ty, val) =>
      match tokens_to_redirections tokens_new with
      | RErr e => R2Err e
      | ROk tokens_final redirects_to =>
          let redirect_from := if is_empty ty then None else Some (ty, val) in
          R2Ok tokens_final redirects_to redirect_from
      end
  end.

(** ---- the spellings of property C04 (shared by the proofs and generators) ---- *)

Inductive fdsel := FdNone | Fd1 | Fd2.              (* no prefix / 1 / 2 *)
Inductive rform := Attached | Spaced (sepf : str).  (* >f  /  > f (f with any separator) *)
Inductive rspec :=
| RFile (fd : fdsel) (append : bool) (form : rform) (name : str)
| RDup21        (* 2>&1 *)
| RDup12        (* 1>&2 *)
| RDup12short.  (* >&2  *)

Definition fd_prefix (fd : fdsel) : str :=
  match fd with FdNone => [] | Fd1 => s_1 | Fd2 => s_2 end.
Definition fd_name (fd : fdsel) : str :=
  match fd with Fd2 => s_2 | _ => s_1 end.
Definition gts (append : bool) : str := if append then s_gtgt else s_gt.
Definition op_word (fd : fdsel) (append : bool) : str := fd_prefix fd ++ gts append.

(** The tokens a spelling is made of. *)
Definition render_r (r : rspec) : list tok :=
  match r with
  | RFile fd ap Attached name => [([], op_word fd ap ++ name)]
  | RFile fd ap (Spaced sepf) name => [([], op_word fd ap); (sepf, name)]
  | RDup21 => [([], s_2 ++ s_gt ++ s_amp1)]
  | RDup12 => [([], s_1 ++ s_gt ++ s_amp2)]
  | RDup12short => [([], s_gt ++ s_amp2)]
  end.

(** The redirection triple it must parse to. *)
Definition triple (r : rspec) : redir :=
  match r with
  | RFile fd ap _ name => (fd_name fd, gts ap, name)
  | RDup21 => (s_2, s_gt, s_amp1)
  | RDup12 => (s_1, s_gt, s_amp2)
  | RDup12short => (s_1, s_gt, s_amp2)
  end.

(** A command: argument tokens interleaved with redirections, then final arguments. *)
Definition item := (list tok * rspec)%type.
Definition render (items : list item) (last : list tok) : list tok :=
  flat_map (fun it => fst it ++ render_r (snd it)) items ++ last.

(* /repo 543507e: `cmd <file` written without a blank.  An untagged word that starts
   with one `<` (not `<<`) and has more characters is split into `<` and the rest before the loop. *)
Definition split_lt (t : tok) : list tok :=
  match fst t, snd t with
  | [], c :: (c2 :: r) =>
      if N.eqb c 60 && negb (N.eqb c2 60) then [([], s_lt); ([], c2 :: r)] else [t]
  | _, _ => [t]
  end.
(* [from_tokens_core]: the function from the extraction loop on (= the whole function before 543507e) *)
Definition from_tokens (tokens : list tok) : result2 := from_tokens_core (flat_map split_lt tokens).
