(** Transcription of [execute::run_command_line]: the ;/&&/|| loop over the
    segments returned by [line_to_cmds]. The runner of one pipeline is an
    oracle [run : W -> str -> W * Z] over an abstract world [W]; the shell's
    [previous_status] is part of the loop state (it is what [$?] reads). *)
From Cicada Require Import Base.Chars Model.Cmds.
From Coq Require Import ZArith.
Local Open Scope Z_scope.

Inductive lop := OpSemi | OpAnd | OpOr | OpNone.

Definition op_of (t : str) : lop :=
  if str_eqb t [59%N] then OpSemi
  else if str_eqb t [38%N; 38%N] then OpAnd
  else if str_eqb t [124%N; 124%N] then OpOr
  else OpNone.

Section Exec.
  Variable W : Type.
  Variable run : W -> str -> W * Z.

  Record est := mke { e_w : W; e_status : Z; e_sep : lop; e_ran : list (str * Z) }.

  Definition exec_token (s : est) (t : str) : est :=
    match op_of t with
    | OpNone =>
        match e_sep s with
        | OpAnd => if Z.eqb (e_status s) 0 then
                     let '(w', st) := run (e_w s) t in mke w' st (e_sep s) (e_ran s ++ [(t, st)])
                   else s
        | OpOr => if Z.eqb (e_status s) 0 then s
                  else let '(w', st) := run (e_w s) t in mke w' st (e_sep s) (e_ran s ++ [(t, st)])
        | _ => let '(w', st) := run (e_w s) t in mke w' st (e_sep s) (e_ran s ++ [(t, st)])
        end
    | o => mke (e_w s) (e_status s) o (e_ran s)
    end.

  Definition run_tokens (w : W) (toks : list str) : est :=
    fold_left exec_token toks (mke w 0 OpNone []).

  Definition run_command_line (w : W) (line : str) : est :=
    run_tokens w (line_to_cmds line).
End Exec.
