(** The [run_line] oracle of Model/Script.v made concrete for and-or lists: a script line
    (a command line or the TEST of an if / else-if / while head) goes through
    execute::run_command_line, i.e. Model/ListExec.v, and the vector of CommandResults it
    returns is the list of the statuses of the pipelines that were executed, in order.
    run_exp_test_br decides a condition by the LAST element of that vector. No proofs here. *)
From Cicada Require Import Base.Chars Model.Cmds Model.ListExec.
From Coq Require Import ZArith.

Section CondLine.
Variable W : Type.
Variable run : W -> str -> W * Z.      (* one pipeline *)

Definition run_line_of (w : W) (line : str) : W * list Z :=
  let s := run_command_line W run w line in (e_w W s, map snd (e_ran W s)).
End CondLine.
