(** Transcription of cicada's job table code:
      src/shell.rs   insert_job, mark_job_member_stopped / _continued,
                     mark_job_as_running / _stopped, remove_pid_from_job
                     (Iterator::position since /repo bbf8fc1)
      src/types.rs   Job::all_members_stopped / all_members_running, WaitStatus
      src/signals.rs REAP_MAP / STOP_MAP / CONT_MAP / KILL_MAP and handle_sigchld
      src/jobc.rs    mark_job_as_done, mark_job_member_stopped / _continued
                     (the wrappers), wait_fg_job, try_wait_bg_jobs
    Conventions: i32 values are Z; a HashMap is an association list kept
    strictly sorted by key (job id); a HashSet is a strictly sorted list.
    The scan loops [i in 1..65535 { jobs.get(i) }] are walks over the sorted
    table (the bound 65535 itself is not modelled). The command text of a job
    ([cmd]) is not modelled. No proofs in this file. *)
From Coq Require Import ZArith List Bool Arith.
Import ListNotations.
Local Open Scope Z_scope.

Inductive jstat := Running | Stopped.

Record job := mkjob {
  jid : Z; jgid : Z; jpids : list Z; jstopped : list Z; jst : jstat; jbg : bool }.

Definition table := list job.

(** the four parked-event maps of signals.rs *)
Record maps := mkmaps {
  m_reap : list (Z * Z); m_stop : list Z; m_cont : list Z; m_kill : list (Z * Z) }.

Record shell := mksh { tab : table; mp : maps }.

Definition empty_maps := mkmaps [] [] [] [].
Definition empty_shell := mksh [] empty_maps.

(** what waitpid hands back (types::WaitStatus): pid, kind, extra *)
Inductive ev :=
| Exited (pid status : Z)
| Signaled (pid sig : Z)
| StoppedE (pid sig : Z)
| Continued (pid : Z).

Definition ev_pid (e : ev) : Z :=
  match e with Exited p _ | Signaled p _ | StoppedE p _ | Continued p => p end.

(** WaitStatus::get_status *)
Definition ev_status (e : ev) : Z :=
  match e with
  | Exited _ s => s
  | Signaled _ s => s + 128
  | StoppedE _ s => s + 128
  | Continued _ => 0 + 128
  end.

Definition is_cont (e : ev) : bool := match e with Continued _ => true | _ => false end.

(** ---------- sorted sets / maps (HashSet<i32>, HashMap<i32,i32>) *)
Fixpoint memZ (x : Z) (l : list Z) : bool :=
  match l with [] => false | y :: r => if y =? x then true else memZ x r end.

Fixpoint set_add (x : Z) (l : list Z) : list Z :=
  match l with
  | [] => [x]
  | y :: r => if x <? y then x :: y :: r else if x =? y then y :: r else y :: set_add x r
  end.

(** HashSet<i32> insert / remove: the order of the list carries no meaning
    (snapshots are printed sorted) *)
Definition hs_add (x : Z) (l : list Z) : list Z := if memZ x l then l else x :: l.
Definition hs_remove (x : Z) (l : list Z) : list Z := filter (fun y => negb (y =? x)) l.

(** Vec::remove of the first occurrence *)
Fixpoint set_remove (x : Z) (l : list Z) : list Z :=
  match l with [] => [] | y :: r => if y =? x then r else y :: set_remove x r end.

Fixpoint map_put (k v : Z) (l : list (Z * Z)) : list (Z * Z) :=
  match l with
  | [] => [(k, v)]
  | (k', v') :: r => if k <? k' then (k, v) :: (k', v') :: r
                     else if k =? k' then (k, v) :: r else (k', v') :: map_put k v r
  end.

Fixpoint map_get (k : Z) (l : list (Z * Z)) : option Z :=
  match l with [] => None | (k', v) :: r => if k' =? k then Some v else map_get k r end.

Fixpoint map_del (k : Z) (l : list (Z * Z)) : list (Z * Z) :=
  match l with [] => [] | (k', v) :: r => if k' =? k then r else (k', v) :: map_del k r end.

(** ---------- types.rs: Job *)
Definition all_members_stopped (j : job) : bool :=
  forallb (fun p => memZ p (jstopped j)) (jpids j).

Definition all_members_running (j : job) : bool :=
  match jstopped j with [] => true | _ => false end.

(** ---------- Iterator::position(|p| *p == pid): index of the first match.
    (Until /repo commit bbf8fc1 this was slice::binary_search on the vector in
    launch order; that transcription and its lemmas are kept, outside every
    property cone, in Historical/BinarySearch.v.) *)
Fixpoint position_from (i : nat) (l : list Z) (x : Z) : option nat :=
  match l with
  | [] => None
  | y :: r => if y =? x then Some i else position_from (S i) r x
  end.

Definition position (l : list Z) (x : Z) : option nat := position_from 0%nat l x.

Fixpoint remove_at (i : nat) (l : list Z) : list Z :=
  match l, i with
  | [], _ => []
  | _ :: r, O => r
  | y :: r, S k => y :: remove_at k r
  end.

(** ---------- shell.rs *)
Definition new_job (i gid pid : Z) (bg : bool) : job := mkjob i gid [pid] [] Running bg.

(** insert_job: [i] counts up from 1; [jobs.get(i)] on the sorted table is
    the head when its id is [i], and absent when the head's id is larger. *)
Fixpoint insert_job_from (i : Z) (t : table) (gid pid : Z) (bg : bool) : table :=
  match t with
  | [] => [new_job i gid pid bg]
  | j :: r =>
      if jid j =? i then
        if jgid j =? gid then
          mkjob (jid j) (jgid j) (jpids j ++ [pid]) (jstopped j) (jst j) (jbg j) :: r
        else j :: insert_job_from (i + 1) r gid pid bg
      else if i <? jid j then new_job i gid pid bg :: j :: r
      else j :: insert_job_from i r gid pid bg
  end.

Definition insert_job (t : table) (gid pid : Z) (bg : bool) : table :=
  insert_job_from 1 t gid pid bg.

(** the shared scan [loop { if let Some(job) = jobs.get_mut(i) { if job.gid == gid {..} } i += 1 }]:
    apply [f] to the first job (in id order) whose gid matches. *)
Fixpoint upd_gid (f : job -> job) (gid : Z) (t : table) : table :=
  match t with
  | [] => []
  | j :: r => if jgid j =? gid then f j :: r else j :: upd_gid f gid r
  end.

Fixpoint get_job_by_gid (t : table) (gid : Z) : option job :=
  match t with
  | [] => None
  | j :: r => if jgid j =? gid then Some j else get_job_by_gid r gid
  end.

Definition sh_mark_job_member_stopped (t : table) (pid gid : Z) : table * option job :=
  let t' := upd_gid (fun j => mkjob (jid j) (jgid j) (jpids j) (hs_add pid (jstopped j)) (jst j) (jbg j)) gid t in
  (t', get_job_by_gid t' gid).

Definition sh_mark_job_member_continued (t : table) (pid gid : Z) : table * option job :=
  let t' := upd_gid (fun j => mkjob (jid j) (jgid j) (jpids j) (hs_remove pid (jstopped j)) Running (jbg j)) gid t in
  (t', get_job_by_gid t' gid).

Definition sh_mark_job_as_running (t : table) (gid : Z) (bg : bool) : table :=
  upd_gid (fun j => mkjob (jid j) (jgid j) (jpids j) [] Running bg) gid t.

Definition sh_mark_job_as_stopped (t : table) (gid : Z) : table :=
  upd_gid (fun j => mkjob (jid j) (jgid j) (jpids j) (jstopped j) Stopped true) gid t.

(** remove_pid_from_job: position of the pid in the vector, remove on Some,
    drop the job when the vector is empty. *)
Fixpoint remove_pid_from_job (t : table) (gid pid : Z) : table :=
  match t with
  | [] => []
  | j :: r =>
      if jgid j =? gid then
        let pids' := match position (jpids j) pid with
                     | Some i => remove_at i (jpids j)
                     | None => jpids j
                     end in
        match pids' with
        | [] => r
        | _ => mkjob (jid j) (jgid j) pids' (jstopped j) (jst j) (jbg j) :: r
        end
      else j :: remove_pid_from_job r gid pid
  end.

(** does remove_pid_from_job drop the job (its Some(job) result)? *)
Fixpoint remove_drops (t : table) (gid pid : Z) : bool :=
  match t with
  | [] => false
  | j :: r =>
      if jgid j =? gid then
        match (match position (jpids j) pid with
               | Some i => remove_at i (jpids j)
               | None => jpids j
               end) with
        | [] => true
        | _ => false
        end
      else remove_drops r gid pid
  end.

Definition is_stopped (s : jstat) : bool := match s with Stopped => true | Running => false end.

(** ---------- jobc.rs wrappers *)
(** mark_job_as_done: when the job lives on and every remaining member is
    stopped, the job is marked Stopped (since /repo 2503a9b) *)
Definition mark_job_as_done (t : table) (gid pid : Z) : table :=
  let t' := remove_pid_from_job t gid pid in
  if remove_drops t gid pid then t'
  else match get_job_by_gid t' gid with
       | Some job => if negb (is_stopped (jst job)) && all_members_stopped job
                     then sh_mark_job_as_stopped t' gid else t'
       | None => t'
       end.

(** note: the wrapper computes [_gid] (getpgid when gid == 0) but uses [gid] *)
Definition mark_job_member_stopped (t : table) (pid gid : Z) : table :=
  match sh_mark_job_member_stopped t pid gid with
  | (t', Some j) => if all_members_stopped j then sh_mark_job_as_stopped t' gid else t'
  | (t', None) => t'
  end.

Definition mark_job_member_continued (t : table) (pid gid : Z) : table :=
  match sh_mark_job_member_continued t pid gid with
  | (t', Some j) => if all_members_running j then sh_mark_job_as_running t' gid true else t'
  | (t', None) => t'
  end.

(** ---------- signals.rs *)
Definition park (m : maps) (e : ev) : maps :=
  match e with
  | Exited p s => mkmaps (map_put p s (m_reap m)) (m_stop m) (m_cont m) (m_kill m)
  (* the later of a stop and a continue supersedes the other (since /repo ac20f13) *)
  | StoppedE p _ => mkmaps (m_reap m) (hs_add p (m_stop m)) (hs_remove p (m_cont m)) (m_kill m)
  | Continued p => mkmaps (m_reap m) (hs_remove p (m_stop m)) (hs_add p (m_cont m)) (m_kill m)
  | Signaled p s => mkmaps (m_reap m) (m_stop m) (m_cont m) (map_put p s (m_kill m))
  end.

(** handle_sigchld: waitpid(-1, WNOHANG) until nothing is pending *)
Definition handle_sigchld (m : maps) (q : list ev) : maps := fold_left park q m.

(** ---------- jobc.rs: wait_fg_job
    [q] = the statuses the blocking waitpid(-1) returns, in order; running out
    of them is reported as [w_blocked = true] (the real call would block; the
    hook answers ECHILD and the loop breaks). *)
Record wres := mkwres { w_sh : shell; w_status : Z; w_blocked : bool; w_left : list ev }.

(** [settled]: members that have exited / been killed or are currently
    stopped (since /repo 1687e77; a counter of events before) *)
Fixpoint wait_loop (q : list ev) (s : shell) (gid : Z) (pids : list Z) (pid_last : Z)
         (count_child : nat) (settled : list Z) (status : Z) : wres :=
  match q with
  | [] => mkwres s status true []
  | e :: q' =>
      let pid := ev_pid e in
      let is_fg := memZ pid pids in
      let settled := if is_fg then (if is_cont e then hs_remove pid settled else hs_add pid settled)
                     else settled in
      match e with
      | Continued _ =>
          let s := if is_fg then mksh (fst (sh_mark_job_member_continued (tab s) pid gid)) (mp s)
                   else mksh (tab s) (park (mp s) e) in
          wait_loop q' s gid pids pid_last count_child settled status
      | _ =>
          let s :=
            match e with
            | Exited _ _ | Signaled _ _ =>
                if is_fg then mksh (mark_job_as_done (tab s) gid pid) (mp s)
                else mksh (tab s) (park (mp s) e)
            | StoppedE _ _ =>
                if is_fg then mksh (mark_job_member_stopped (tab s) pid gid) (mp s)
                else mksh (mark_job_member_stopped (tab s) pid 0) (park (mp s) e)
            | Continued _ => s
            end in
          let status := if is_fg && (pid =? pid_last) then ev_status e else status in
          if (count_child <=? length settled)%nat then mkwres s status false q'
          else wait_loop q' s gid pids pid_last count_child settled status
      end
  end.

Definition wait_fg_job (s : shell) (gid : Z) (pids : list Z) (q : list ev) : wres :=
  match pids with
  | [] => mkwres s 0 false q
  | _ => wait_loop q s gid pids (last pids 0) (length pids) [] 0
  end.

(** ---------- jobc.rs: try_wait_bg_jobs (sig_handler_enabled = false)
    the loops run over a clone of the table taken after handle_sigchld *)
Definition poll_pid (gid : Z) (s : shell) (pid : Z) : shell :=
  let m := mp s in
  match map_get pid (m_reap m) with
  | Some _ =>
      mksh (mark_job_as_done (tab s) gid pid)
           (mkmaps (map_del pid (m_reap m)) (m_stop m) (m_cont m) (m_kill m))
  | None =>
      match map_get pid (m_kill m) with
      | Some _ =>
          mksh (mark_job_as_done (tab s) gid pid)
               (mkmaps (m_reap m) (m_stop m) (m_cont m) (map_del pid (m_kill m)))
      | None =>
          if memZ pid (m_stop m) then
            mksh (mark_job_member_stopped (tab s) pid gid)
                 (mkmaps (m_reap m) (hs_remove pid (m_stop m)) (m_cont m) (m_kill m))
          else if memZ pid (m_cont m) then
            mksh (mark_job_member_continued (tab s) pid gid)
                 (mkmaps (m_reap m) (m_stop m) (hs_remove pid (m_cont m)) (m_kill m))
          else s
      end
  end.

Definition poll_job (s : shell) (j : job) : shell := fold_left (poll_pid (jgid j)) (jpids j) s.

(** returns the new shell and the statuses left unconsumed (all of them when
    the table is empty: the function returns before waiting) *)
Definition try_wait_bg_jobs (s : shell) (q : list ev) : shell * list ev :=
  match tab s with
  | [] => (s, q)
  | _ =>
      let s1 := mksh (tab s) (handle_sigchld (mp s) q) in
      (fold_left poll_job (tab s1) s1, [])
  end.

(** ---------- histories: the operations the correspondence check drives *)
Inductive op :=
| Launch (gid : Z) (pids : list Z) (bg : bool)      (* insert_job per pid *)
| Wait (gid : Z) (pids : list Z) (evs : list ev)    (* wait_fg_job; evs become pending first *)
| Poll (evs : list ev).                             (* try_wait_bg_jobs; evs become pending first *)

(** run state: shell, pending (not yet consumed) statuses, result of the last wait *)
Record rst := mkrst { r_sh : shell; r_pend : list ev; r_status : Z; r_blocked : bool }.

Definition init_rst := mkrst empty_shell [] 0 false.

Definition launch (t : table) (gid : Z) (pids : list Z) (bg : bool) : table :=
  fold_left (fun t p => insert_job t gid p bg) pids t.

Definition step (r : rst) (o : op) : rst :=
  match o with
  | Launch gid pids bg =>
      mkrst (mksh (launch (tab (r_sh r)) gid pids bg) (mp (r_sh r))) (r_pend r) (r_status r) false
  | Wait gid pids evs =>
      let w := wait_fg_job (r_sh r) gid pids (r_pend r ++ evs) in
      mkrst (w_sh w) (w_left w) (w_status w) (w_blocked w)
  | Poll evs =>
      let '(s, lft) := try_wait_bg_jobs (r_sh r) (r_pend r ++ evs) in
      mkrst s lft (r_status r) false
  end.

Definition run (h : list op) : rst := fold_left step h init_rst.

(** all intermediate states, for the snapshot-by-snapshot comparison *)
Fixpoint trace (r : rst) (h : list op) : list rst :=
  match h with [] => [] | o :: h' => let r' := step r o in r' :: trace r' h' end.
