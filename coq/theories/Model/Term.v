(** C07 -- who owns the terminal: a bookkeeping model of cicada's job control.

    Shell side (transcribed):
      src/core.rs     run_pipeline / run_single_program: child [setpgid(0, pid)]
                      for stage 0 and [setpgid(0, *pgid)] for later stages;
                      parent [*pgid = pid] for stage 0, [give_terminal_to(pid)]
                      iff [sh.has_terminal && options.isatty && !cl.background],
                      [insert_job] iff [options.isatty && !capture] (capture is
                      false for typed lines), [wait_fg_job] on the foreground pids
      src/execute.rs  run_proc: hands the terminal back iff [term_given]
      src/jobc.rs     wait_fg_job (one loop iteration = [wait_body]),
                      try_wait_bg_jobs, mark_job_as_done, mark_job_member_stopped /
                      _continued (with the lines they print)
      src/shell.rs, src/signals.rs, the job-table part of src/jobc.rs:
                      NOT transcribed here; every change of the job table and
                      of the parked maps is made by the functions of
                      Model/Jobs.v (C06's model, which follows the repaired code)
      src/builtins    fg.rs, bg.rs, jobs.rs
      src/main.rs     the read loop: an empty line polls, every other line ends
                      with a poll ([end_of_line])
    Kernel side (ASSUMPTIONS, not transcribed from anything):
      K1 a signal sent to a process group reaches every member;
      K2 SIGSTOP/SIGTSTP stop a running process, SIGCONT resumes a stopped one,
         SIGKILL ends a process in any state, any other fatal signal (and the
         helper's exit request) ends a running process and stays pending on a
         stopped one until it is continued (the first pending one wins);
      K3 waitpid(-1, WUNTRACED|WCONTINUED) reports, for the first child in fork
         order that has something to report: its end (and reaps it), else its
         unreported stop, else its unreported continuation; a continuation
         replaces an unreported stop;
      K4 waitpid fails with ECHILD when every child has been reaped;
      K5 [setpgid(p, g)] succeeds when [g = p] or some unreaped process has
         group [g]. Since /repo b465168 the parent calls [setpgid(pid, *pgid)]
         after every fork and the child calls the same: whichever runs first,
         stage 0 leads its own group before the next stage is forked, and a
         later stage is in that group as soon as either call has run (stage 0
         is not reaped during the launch). So every stage is in group [pid0];
         the launch has no schedule oracle any more. (Until b465168 only the
         child called setpgid and a later stage could lose the race against
         stage 0: finding stage_outside_group, now fixed.)
      K6 [tcsetpgrp(g)] succeeds iff some unreaped process has group [g]
         (at launch: stage 0 itself, by K5; in [fg]: a member that has not
         been reaped); handing the terminal back to the shell's own group
         always succeeds.
    Pids are supplied by the launch action (the environment chooses them).
      K8 the signal mask is inherited over fork and exec; a blocked SIGTSTP is
         not delivered (it stays pending), so Ctrl-Z does not stop a process
         that started with the mask of [give_terminal_to] (SIGTSTP, SIGTTIN,
         SIGTTOU, SIGCHLD) still blocked;
      K7 Ctrl-C / Ctrl-Z / Ctrl-\ typed while the terminal is in cooked mode send
         SIGINT / SIGTSTP / SIGQUIT to the terminal's foreground group. The shell
         ignores all three (main.rs; SIGINT since /repo 4ca5f35, children restore
         the defaults after fork in core.rs), so the shell itself never dies or
         stops of a key, whichever group is in the foreground; see [key].
    A typed line while the shell is waiting is ignored (the shell is not
    reading). Keys at the prompt are read by lineread in raw mode: no signal.
    No proofs in this file. *)
From Coq Require Import ZArith List Bool Arith.
From Cicada Require Import Model.Jobs.
Import ListNotations.
Local Open Scope Z_scope.

(** ---------- kernel side *)
Inductive pstate := PRun | PStop | PZomb (signaled : bool) (code : Z) | PGone.
Inductive note := NNone | NStop (sig : Z) | NCont.
Inductive pend := PdSig (sig : Z) | PdExit (code : Z).

(** [pblk]: SIGTSTP / SIGTTIN / SIGTTOU / SIGCHLD are blocked in the process: the
    signal mask is inherited over fork and exec, so a child starts with the
    mask the shell had when it forked (K8) *)
Record proc := mkproc { ppid : Z; ppgid : Z; pst : pstate; pnote : note; ppend : option pend; pblk : bool }.

Definition SIGINT := 2.
Definition SIGKILL := 9.
Definition SIGTERM := 15.
Definition SIGCONT := 18.
Definition SIGSTOP := 19.
Definition SIGTSTP := 20.

Definition is_stop_sig (s : Z) : bool := (s =? SIGSTOP) || (s =? SIGTSTP).

Definition end_of (d : pend) : pstate :=
  match d with PdSig s => PZomb true s | PdExit n => PZomb false n end.

(** K2 *)
Definition deliver (sig : Z) (p : proc) : proc :=
  if pblk p && (sig =? SIGTSTP) then p   (* K8: blocked, stays pending: Ctrl-Z does nothing *)
  else
  match pst p with
  | PRun =>
      if is_stop_sig sig then mkproc (ppid p) (ppgid p) PStop (NStop sig) (ppend p) (pblk p)
      else if sig =? SIGCONT then p
      else mkproc (ppid p) (ppgid p) (PZomb true sig) NNone None (pblk p)
  | PStop =>
      if sig =? SIGKILL then mkproc (ppid p) (ppgid p) (PZomb true sig) NNone None (pblk p)
      else if sig =? SIGCONT then
        match ppend p with
        | Some d => mkproc (ppid p) (ppgid p) (end_of d) NNone None (pblk p)
        | None => mkproc (ppid p) (ppgid p) PRun NCont None (pblk p)
        end
      else if is_stop_sig sig then p
      else match ppend p with
           | Some _ => p
           | None => mkproc (ppid p) (ppgid p) PStop (pnote p) (Some (PdSig sig)) (pblk p)
           end
  | _ => p
  end.

Definition do_exit (code : Z) (p : proc) : proc :=
  match pst p with
  | PRun => mkproc (ppid p) (ppgid p) (PZomb false code) NNone None (pblk p)
  | PStop => match ppend p with
             | Some _ => p
             | None => mkproc (ppid p) (ppgid p) PStop (pnote p) (Some (PdExit code)) (pblk p)
             end
  | _ => p
  end.

Definition on_pid (f : proc -> proc) (pid : Z) (ps : list proc) : list proc :=
  map (fun p => if ppid p =? pid then f p else p) ps.

(** K1 *)
Definition on_group (f : proc -> proc) (g : Z) (ps : list proc) : list proc :=
  map (fun p => if ppgid p =? g then f p else p) ps.

Definition gone (p : proc) : bool := match pst p with PGone => true | _ => false end.
Definition all_gone (ps : list proc) : bool := forallb gone ps.
Definition group_exists (g : Z) (ps : list proc) : bool :=
  existsb (fun p => (ppgid p =? g) && negb (gone p)) ps.

(** K3 *)
Fixpoint next_status (ps : list proc) : option (ev * list proc) :=
  match ps with
  | [] => None
  | p :: r =>
      let skip := match next_status r with Some (e, r') => Some (e, p :: r') | None => None end in
      match pst p with
      | PZomb sg c =>
          Some (if sg then Signaled (ppid p) c else Exited (ppid p) c,
                mkproc (ppid p) (ppgid p) PGone NNone None (pblk p) :: r)
      | PStop => match pnote p with
                 | NStop s => Some (StoppedE (ppid p) s, mkproc (ppid p) (ppgid p) PStop NNone (ppend p) (pblk p) :: r)
                 | _ => skip
                 end
      | PRun => match pnote p with
                | NCont => Some (Continued (ppid p), mkproc (ppid p) (ppgid p) PRun NNone (ppend p) (pblk p) :: r)
                | _ => skip
                end
      | PGone => skip
      end
  end.

(** ---------- what the shell prints about jobs *)
Inductive out :=
| ODone (id gid reason : Z)      (* reason: -1 Done, -2 Killed (foreground wait), n >= 0 the signal *)
| OStopped (id gid : Z)
| OBgLaunch (id gid : Z)         (* [id] gid *)
| OFgCmd (id : Z)
| OBgCmd (id : Z)
| OAlreadyBg (id : Z)
| ONoJob
| ONoSuch
| OJobLine (id gid : Z) (st : jstat) (amp : bool).

(** ---------- shell side: the part that never touches the terminal.
    The job table and the parked maps are a [Jobs.shell]; every change of it
    is made by the functions of Model/Jobs.v (C06's model). What the shell
    prints is computed beside, from the shell value before the change. *)
Record core := mkcore { procs : list proc; shl : shell; outs : list out }.

Definition ctab (k : core) : table := tab (shl k).
Definition set_procs (k : core) (ps : list proc) : core := mkcore ps (shl k) (outs k).
Definition say (k : core) (o : list out) : core := mkcore (procs k) (shl k) (outs k ++ o).

(** jobc.rs mark_job_as_done prints the job when remove_pid_from_job dropped it and it was background *)
Definition done_report (t : table) (gid pid reason : Z) : list out :=
  if remove_drops t gid pid then
    match get_job_by_gid t gid with
    | Some j => if jbg j then [ODone (jid j) gid reason] else []
    | None => []
    end
  else [].

(** jobc.rs mark_job_member_stopped prints the job when [report] and the stop made every member stopped *)
Definition stop_report (report : bool) (t : table) (pid gid : Z) : list out :=
  if report then
    match sh_mark_job_member_stopped t pid gid with
    | (t', Some j) =>
        if all_members_stopped j then
          match get_job_by_gid (sh_mark_job_as_stopped t' gid) gid with
          | Some j2 => [OStopped (jid j2) gid]
          | None => []
          end
        else []
    | (_, None) => []
    end
  else [].

(** one iteration of the loop of wait_fg_job for the status [e] (the body of
    [Jobs.wait_loop], see [wait_loop_cons] in Proofs/TermSim.v): new shell,
    new set of settled members *)
Definition wait_one (s : shell) (gid : Z) (pids : list Z) (settled : list Z) (e : ev) : shell * list Z :=
  let pid := ev_pid e in
  let is_fg := memZ pid pids in
  let settled' := if is_fg then (if is_cont e then hs_remove pid settled else hs_add pid settled) else settled in
  let s' :=
    match e with
    | Continued _ =>
        if is_fg then mksh (fst (sh_mark_job_member_continued (tab s) pid gid)) (mp s)
        else mksh (tab s) (park (mp s) e)
    | Exited _ _ | Signaled _ _ =>
        if is_fg then mksh (mark_job_as_done (tab s) gid pid) (mp s)
        else mksh (tab s) (park (mp s) e)
    | StoppedE _ _ =>
        if is_fg then mksh (mark_job_member_stopped (tab s) pid gid) (mp s)
        else mksh (mark_job_member_stopped (tab s) pid 0) (park (mp s) e)
    end in
  (s', settled').

Definition wait_report (s : shell) (gid : Z) (pids : list Z) (e : ev) : list out :=
  let pid := ev_pid e in
  if memZ pid pids then
    match e with
    | Exited _ _ => done_report (tab s) gid pid (-1)
    | Signaled _ _ => done_report (tab s) gid pid (-2)
    | StoppedE _ _ => stop_report true (tab s) pid gid
    | Continued _ => []
    end
  else [].

Definition wait_body (k : core) (gid : Z) (pids : list Z) (settled : list Z) (e : ev) : core * list Z :=
  let '(s', settled') := wait_one (shl k) gid pids settled e in
  (mkcore (procs k) s' (outs k ++ wait_report (shl k) gid pids e), settled').

(** signals.rs handle_sigchld: waitpid(-1, WNOHANG) until nothing is left:
    the statuses in the order the kernel hands them out, and the processes afterwards *)
Fixpoint drain (fuel : nat) (ps : list proc) : list ev * list proc :=
  match fuel with
  | O => ([], ps)
  | S f => match next_status ps with
           | Some (e, ps') => let '(q, ps'') := drain f ps' in (e :: q, ps'')
           | None => ([], ps)
           end
  end.

(** what try_wait_bg_jobs prints for one pid of one job (same tests as [Jobs.poll_pid]) *)
Definition pid_report (report : bool) (gid : Z) (s : shell) (pid : Z) : list out :=
  let m := mp s in
  match map_get pid (m_reap m) with
  | Some _ => done_report (tab s) gid pid (-1)
  | None =>
      match map_get pid (m_kill m) with
      | Some sig => done_report (tab s) gid pid sig
      | None => if memZ pid (m_stop m) then stop_report report (tab s) pid gid else []
      end
  end.

Definition poll_pid_o (report : bool) (gid : Z) (so : shell * list out) (pid : Z) : shell * list out :=
  (poll_pid gid (fst so) pid, snd so ++ pid_report report gid (fst so) pid).
Definition poll_job_o (report : bool) (so : shell * list out) (j : job) : shell * list out :=
  fold_left (poll_pid_o report (jgid j)) (jpids j) so.
Definition poll_reports (report : bool) (s1 : shell) : list out :=
  snd (fold_left (poll_job_o report) (tab s1) (s1, [])).

(** jobc.rs try_wait_bg_jobs: the shell part is [Jobs.try_wait_bg_jobs] on the
    statuses drained from the kernel; nothing is drained when the table is empty *)
Definition poll_evs (k : core) : list ev * list proc :=
  match ctab k with
  | [] => ([], procs k)
  | _ => drain (S (length (procs k))) (procs k)
  end.

Definition poll (report : bool) (k : core) : core :=
  let '(q, ps) := poll_evs k in
  match ctab k with
  | [] => k
  | _ => mkcore ps (fst (try_wait_bg_jobs (shl k) q))
                (outs k ++ poll_reports report (mksh (tab (shl k)) (handle_sigchld (mp (shl k)) q)))
  end.

(** ---------- shell side: the terminal *)
(** the commands of one typed line, separated by [;] (execute.rs run_command_line
    runs them in order; main.rs polls once after the whole line). [&&] / [||] are
    not modelled. *)
Inductive cmd :=
| CLaunch (pids : list Z) (bg : bool)      (* a pipeline of external programs *)
| CFg (arg : option Z) (pick : Z)
| CBg (arg : option Z) (pick : Z)
| CJobs
| CBuiltin.                                (* a builtin that touches neither jobs nor terminal *)

Inductive via := VLaunch (term_given : bool) | VFg.
(** [Between rest]: the shell is between two commands of a line ([rest] still to
    run); never the mode after a whole [step]. [Waiting .. rest]: blocked in
    wait_fg_job, [rest] are the commands of the line after this one. *)
Inductive mode :=
| AtPrompt
| Between (rest : list cmd)
| Waiting (gid : Z) (pids : list Z) (settled : list Z) (v : via) (rest : list cmd).

Definition rest_of (m : mode) : list cmd :=
  match m with AtPrompt => [] | Between r => r | Waiting _ _ _ _ r => r end.

(** [smask]: SIGTSTP / SIGTTIN / SIGTTOU / SIGCHLD are blocked in the shell (false
    initially: nothing of main.rs blocks them while CICADA_ENABLE_SIG_HANDLER is
    unset). [gh] is a ghost: the job-table operations performed so far, as a
    history of C06's model ([Jobs.op]); [wevs] the statuses the current
    foreground wait has consumed so far. Nothing reads the ghosts;
    Proofs/TermSim.v shows that the shell value is [Jobs.run gh]. The mapping:
      launch of a pipeline (isatty)        Launch pid0 pids bg
      a foreground wait, when it returns   Wait gid pids (all statuses it consumed, in order)
      the poll at the end of a line, the
      poll of an empty line, the poll
      inside [jobs]                        Poll (the statuses drained from the kernel; none when the table is empty)
      fg / bg                              no C06 operation (they change the table themselves) *)
Record st := mkst { k : core; md : mode; owner : Z; smask : bool; gh : list op; wevs : list ev }.

Record cfg := mkcfg { c_sh : Z; c_hasterm : bool; c_isatty : bool }.

(** shell.rs give_terminal_to(gid): block the four signals, tcsetpgrp(1, gid)
    (outcome [ok], K6), put the saved mask back -- on both outcomes.
    Returns (given, owner afterwards, mask afterwards). *)
Definition give_terminal_to (ok : bool) (gid ow : Z) (m : bool) : bool * Z * bool :=
  let old_mask := m in
  let blocked := true in                      (* pthread_sigmask(SIG_BLOCK, {TSTP,TTIN,TTOU,CHLD}, &old_mask) *)
  let ow' := if ok then gid else ow in        (* tcsetpgrp(1, gid) *)
  let restored := if blocked then old_mask else old_mask in   (* pthread_sigmask(SIG_SETMASK, &old_mask) *)
  (ok, ow', restored).

(** main.rs: the poll after the whole line, then the prompt *)
Definition end_of_line (k : core) (ow : Z) (m : bool) (g : list op) : st :=
  mkst (poll true k) AtPrompt ow m (g ++ [Poll (fst (poll_evs k))]) [].

(** on to the next command of the line *)
Definition next (k : core) (ow : Z) (m : bool) (g : list op) (rest : list cmd) : st :=
  mkst k (Between rest) ow m g [].

(** after wait_fg_job returned: run_proc hands the terminal back iff term_given,
    fg.rs hands it back always (to the shell's own group: always succeeds, K6) *)
Definition finish (c : cfg) (k : core) (v : via) (ow : Z) (m : bool) (g : list op) (rest : list cmd) : st :=
  let back := match v with VFg => true | VLaunch tg => tg end in
  if back then
    let '(_, ow', m') := give_terminal_to true (c_sh c) ow m in next k ow' m' g rest
  else next k ow m g rest.

Fixpoint settle (c : cfg) (fuel : nat) (s : st) : st :=
  match fuel with
  | O => s
  | S f =>
      match md s with
      | Waiting gid pids w v rest =>
          match next_status (procs (k s)) with
          | Some (e, ps) =>
              let '(k', w') := wait_body (set_procs (k s) ps) gid pids w e in
              if negb (is_cont e) && (length pids <=? length w')%nat
              then finish c k' v (owner s) (smask s) (gh s ++ [Wait gid pids (wevs s ++ [e])]) rest
              else settle c f (mkst k' (Waiting gid pids w' v rest) (owner s) (smask s) (gh s) (wevs s ++ [e]))
          | None =>
              (* K4: waitpid fails with ECHILD, the loop breaks *)
              if all_gone (procs (k s))
              then finish c (k s) v (owner s) (smask s) (gh s ++ [Wait gid pids (wevs s)]) rest
              else s
          end
      | _ => s
      end
  end.

Definition settle_all (c : cfg) (s : st) : st := settle c (S (length (procs (k s)))) s.

Definition enter_wait (c : cfg) (k : core) (gid : Z) (pids : list Z) (v : via) (ow : Z) (m : bool)
           (g : list op) (rest : list cmd) : st :=
  match pids with
  | [] => finish c k v ow m (g ++ [Wait gid [] []]) rest
  | _ => settle_all c (mkst k (Waiting gid pids [] v rest) ow m g [])
  end.

(** the children of one launch: every stage is in the group of stage 0 (K5) and
    starts with the signal mask the shell has at the fork (K8) *)
Definition stages (p0 : Z) (m : bool) (pids : list Z) : list proc :=
  map (fun p => mkproc p p0 PRun NNone None m) pids.

Definition launch (c : cfg) (s : st) (pids : list Z) (bg : bool) (rest : list cmd) : st :=
  match pids with
  | [] => next (k s) (owner s) (smask s) (gh s) rest
  | p0 :: _ =>
      let ps := procs (k s) ++ stages p0 (smask s) pids in
      (* give_terminal_to(pid0) iff has_terminal && isatty && !background; K6 *)
      let '(tg, ow, m) :=
        if c_hasterm c && c_isatty c && negb bg
        then give_terminal_to (group_exists p0 ps) p0 (owner s) (smask s)
        else (false, owner s, smask s) in
      (* insert_job iff isatty (capture is false for typed lines) *)
      let sh' := if c_isatty c then mksh (Jobs.launch (ctab (k s)) p0 pids bg) (mp (shl (k s))) else shl (k s) in
      let g := if c_isatty c then gh s ++ [Launch p0 pids bg] else gh s in
      if bg then
        let o := match get_job_by_gid (tab sh') p0 with Some j => [OBgLaunch (jid j) p0] | None => [] end in
        next (mkcore ps sh' (outs (k s) ++ o)) ow m g rest
      else enter_wait c (mkcore ps sh' (outs (k s))) p0 pids (VLaunch tg) ow m g rest
  end.

Fixpoint get_job_by_id (t : table) (id : Z) : option job :=
  match t with [] => None | j :: r => if jid j =? id then Some j else get_job_by_id r id end.

(** fg.rs / bg.rs: the job named by the argument; without argument
    [jobs.iter().next()], an arbitrary entry of the HashMap: oracle [pick] *)
Definition find_job (t : table) (arg : option Z) (pick : Z) : option job :=
  let id := match arg with Some n => n | None => pick end in
  match get_job_by_id t id with Some j => Some j | None => get_job_by_gid t id end.

Definition quiet (k : core) : core := mkcore (procs k) (shl k) [].

Definition do_fg (c : cfg) (s : st) (arg : option Z) (pick : Z) (rest : list cmd) : st :=
  let k0 := k s in
  match ctab k0 with
  | [] => next (say k0 [ONoJob]) (owner s) (smask s) (gh s) rest
  | _ =>
      match find_job (ctab k0) arg pick with
      | None => next (say k0 [ONoSuch]) (owner s) (smask s) (gh s) rest
      | Some j =>
          let k1 := say k0 [OFgCmd (jid j)] in
          (* give_terminal_to(job.gid): fails when no unreaped process has that group (K6) *)
          let '(given, ow, m) := give_terminal_to (group_exists (jgid j) (procs k1)) (jgid j) (owner s) (smask s) in
          if given then
            let ps := on_group (deliver SIGCONT) (jgid j) (procs k1) in
            let k2 := mkcore ps (mksh (sh_mark_job_as_running (ctab k1) (jgid j) false) (mp (shl k1))) (outs k1) in
            enter_wait c k2 (jgid j) (jpids j) VFg ow m (gh s) rest
          else next k1 ow m (gh s) rest
      end
  end.

Definition do_bg (s : st) (arg : option Z) (pick : Z) (rest : list cmd) : st :=
  let k0 := k s in
  match ctab k0 with
  | [] => next (say k0 [ONoJob]) (owner s) (smask s) (gh s) rest
  | _ =>
      match find_job (ctab k0) arg pick with
      | None => next (say k0 [ONoSuch]) (owner s) (smask s) (gh s) rest
      | Some j =>
          let ps := on_group (deliver SIGCONT) (jgid j) (procs k0) in
          match jst j with
          | Running => next (mkcore ps (shl k0) (outs k0 ++ [OAlreadyBg (jid j)])) (owner s) (smask s) (gh s) rest
          | Stopped =>
              next (mkcore ps (mksh (sh_mark_job_as_running (ctab k0) (jgid j) true) (mp (shl k0))) (outs k0 ++ [OBgCmd (jid j)]))
                   (owner s) (smask s) (gh s) rest
          end
      end
  end.

Definition job_line (j : job) : out :=
  OJobLine (jid j) (jgid j) (jst j) (jbg j && match jst j with Running => true | Stopped => false end).

(** jobs.rs: nothing when the table is empty, else a poll without notices, then the lines *)
Definition do_jobs (s : st) (rest : list cmd) : st :=
  let k0 := k s in
  match ctab k0 with
  | [] => next k0 (owner s) (smask s) (gh s) rest
  | _ => let k1 := poll false k0 in
         next (say k1 (map job_line (ctab k1))) (owner s) (smask s) (gh s ++ [Poll (fst (poll_evs k0))]) rest
  end.

Definition exec (c : cfg) (s : st) (x : cmd) (rest : list cmd) : st :=
  match x with
  | CLaunch pids bg => launch c s pids bg rest
  | CFg arg pick => do_fg c s arg pick rest
  | CBg arg pick => do_bg s arg pick rest
  | CJobs => do_jobs s rest
  | CBuiltin => next (k s) (owner s) (smask s) (gh s) rest
  end.

(** run_command_line: the commands still to run, then the end-of-line poll;
    stops when a command blocks in wait_fg_job *)
Fixpoint drive (c : cfg) (fuel : nat) (s : st) : st :=
  match fuel with
  | O => s
  | S f =>
      match md s with
      | Between [] => end_of_line (k s) (owner s) (smask s) (gh s)
      | Between (x :: r) => drive c f (exec c s x r)
      | _ => s
      end
  end.

Definition drive_all (c : cfg) (s : st) : st := drive c (S (length (rest_of (md s)))) s.

Inductive action :=
| ALine (cmds : list cmd)       (* a typed line [c1 ; c2 ; ..] *)
| ALaunch (pids : list Z) (bg : bool)
| AFg (arg : option Z) (pick : Z)
| ABg (arg : option Z) (pick : Z)
| AJobs
| AEmpty            (* empty line *)
| ABuiltin          (* a builtin that runs in the shell and touches neither jobs nor terminal *)
| ACtrlZ
| ACtrlC
| EExit (pid code : Z)    (* a process ends by itself *)
| ESig (pid sig : Z).     (* a signal sent to one process from outside *)

(** the typed lines as command lists *)
Definition cmds_of (a : action) : option (list cmd) :=
  match a with
  | ALine l => Some l
  | ALaunch pids bg => Some [CLaunch pids bg]
  | AFg arg pick => Some [CFg arg pick]
  | ABg arg pick => Some [CBg arg pick]
  | AJobs => Some [CJobs]
  | AEmpty => Some []
  | ABuiltin => Some [CBuiltin]
  | _ => None
  end.

Definition clear (s : st) : st := mkst (quiet (k s)) (md s) (owner s) (smask s) (gh s) (wevs s).

Definition kernel (c : cfg) (s : st) (f : list proc -> list proc) : st :=
  drive_all c (settle_all c (mkst (mkcore (f (procs (k s))) (shl (k s)) []) (md s) (owner s) (smask s) (gh s) (wevs s))).

(** K7: a key that raises a signal (terminal in cooked mode, that is while the
    shell is not reading a line) sends it to every process of the terminal's
    foreground group (K1). The shell itself is not in [procs]: it ignores
    SIGTSTP and SIGQUIT (main.rs: signal(SIGTSTP, SIG_IGN), signal(SIGQUIT,
    SIG_IGN)) and, since /repo 4ca5f35, SIGINT (main.rs: signal(SIGINT,
    SIG_IGN) once interactive; the children restore the defaults after fork,
    core.rs), so when the foreground group is the shell's own the key changes
    nothing in the shell: it never dies of Ctrl-C / Ctrl-Z / Ctrl-\. At the
    prompt the keys are read by lineread in raw mode: no signal at all. *)
Definition key (c : cfg) (s : st) (sig : Z) : st :=
  match md s with
  | AtPrompt => clear s
  | _ => kernel c s (on_group (deliver sig) (owner s))
  end.

Definition typed_line (c : cfg) (s : st) (l : list cmd) : st :=
  match md s with
  | AtPrompt => drive_all c (mkst (quiet (k s)) (Between l) (owner s) (smask s) (gh s) [])
  | _ => clear s
  end.

Definition step (c : cfg) (s : st) (a : action) : st :=
  match cmds_of a with
  | Some l => typed_line c s l
  | None =>
      match a with
      | ACtrlZ => key c s SIGTSTP
      | ACtrlC => key c s SIGINT
      | EExit pid code => kernel c s (on_pid (do_exit code) pid)
      | ESig pid sig => kernel c s (on_pid (deliver sig) pid)
      | _ => s
      end
  end.

Definition init (c : cfg) : st := mkst (mkcore [] empty_shell []) AtPrompt (c_sh c) false [] [].

Definition run (c : cfg) (acts : list action) : st := fold_left (step c) acts (init c).

Fixpoint trace (c : cfg) (s : st) (acts : list action) : list st :=
  match acts with [] => [] | a :: r => let s' := step c s a in s' :: trace c s' r end.
