(** C07 -- who owns the terminal: a bookkeeping model of cicada's job control.

    Shell side (transcribed):
      src/core.rs     run_pipeline / run_single_program: child [setpgid(0, pid)]
                      for stage 0 and [setpgid(0, *pgid)] for later stages;
                      parent [*pgid = pid] for stage 0, [give_terminal_to(pid)]
                      iff [sh.has_terminal && options.isatty && !cl.background],
                      [insert_job] iff [options.isatty && !capture] (capture is
                      false for typed lines), [wait_fg_job] on the foreground pids
      src/execute.rs  run_proc: hands the terminal back iff [term_given]
      src/jobc.rs     wait_fg_job (one loop iteration = [wait_body]),
                      try_wait_bg_jobs, mark_job_as_done, mark_job_member_stopped /
                      _continued (with the lines they print)
      src/shell.rs    remove_pid_from_job (by position), mark_job_member_continued
                      (sets Running since ac01883); the other job-table methods
                      come from Model/Jobs.v
      src/signals.rs  the parked maps; a parked stop and a parked continue of
                      one pid supersede each other since ac20f13 ([park2])
      src/builtins    fg.rs, bg.rs, jobs.rs
      src/main.rs     the read loop: an empty line polls, every other line ends
                      with a poll ([end_of_line])
    Kernel side (ASSUMPTIONS, not transcribed from anything):
      K1 a signal sent to a process group reaches every member;
      K2 SIGSTOP/SIGTSTP stop a running process, SIGCONT resumes a stopped one,
         SIGKILL ends a process in any state, any other fatal signal (and the
         helper's exit request) ends a running process and stays pending on a
         stopped one until it is continued (the first pending one wins);
      K3 waitpid(-1, WUNTRACED|WCONTINUED) reports, for the first child in fork
         order that has something to report: its end (and reaps it), else its
         unreported stop, else its unreported continuation; a continuation
         replaces an unreported stop;
      K4 waitpid fails with ECHILD when every child has been reaped;
      K5 [setpgid(p, g)] succeeds when [g = p] or some unreaped process has
         group [g]. Since /repo b465168 the parent calls [setpgid(pid, *pgid)]
         after every fork and the child calls the same: whichever runs first,
         stage 0 leads its own group before the next stage is forked, and a
         later stage is in that group as soon as either call has run (stage 0
         is not reaped during the launch). So every stage is in group [pid0];
         the launch has no schedule oracle any more. (Until b465168 only the
         child called setpgid and a later stage could lose the race against
         stage 0: finding stage_outside_group, now fixed.)
      K6 [tcsetpgrp(g)] succeeds iff some unreaped process has group [g]
         (at launch: stage 0 itself, by K5; in [fg]: a member that has not
         been reaped); handing the terminal back to the shell's own group
         always succeeds.
    Pids are supplied by the launch action (the environment chooses them).
    A typed line while the shell is waiting is ignored (the shell is not
    reading). Keys at the prompt are read by lineread in raw mode: no signal.
    No proofs in this file. *)
From Coq Require Import ZArith List Bool Arith.
From Cicada Require Import Model.Jobs.
Import ListNotations.
Local Open Scope Z_scope.

(** ---------- kernel side *)
Inductive pstate := PRun | PStop | PZomb (signaled : bool) (code : Z) | PGone.
Inductive note := NNone | NStop (sig : Z) | NCont.
Inductive pend := PdSig (sig : Z) | PdExit (code : Z).

Record proc := mkproc { ppid : Z; ppgid : Z; pst : pstate; pnote : note; ppend : option pend }.

Definition SIGINT := 2.
Definition SIGKILL := 9.
Definition SIGTERM := 15.
Definition SIGCONT := 18.
Definition SIGSTOP := 19.
Definition SIGTSTP := 20.

Definition is_stop_sig (s : Z) : bool := (s =? SIGSTOP) || (s =? SIGTSTP).

Definition end_of (d : pend) : pstate :=
  match d with PdSig s => PZomb true s | PdExit n => PZomb false n end.

(** K2 *)
Definition deliver (sig : Z) (p : proc) : proc :=
  match pst p with
  | PRun =>
      if is_stop_sig sig then mkproc (ppid p) (ppgid p) PStop (NStop sig) (ppend p)
      else if sig =? SIGCONT then p
      else mkproc (ppid p) (ppgid p) (PZomb true sig) NNone None
  | PStop =>
      if sig =? SIGKILL then mkproc (ppid p) (ppgid p) (PZomb true sig) NNone None
      else if sig =? SIGCONT then
        match ppend p with
        | Some d => mkproc (ppid p) (ppgid p) (end_of d) NNone None
        | None => mkproc (ppid p) (ppgid p) PRun NCont None
        end
      else if is_stop_sig sig then p
      else match ppend p with
           | Some _ => p
           | None => mkproc (ppid p) (ppgid p) PStop (pnote p) (Some (PdSig sig))
           end
  | _ => p
  end.

Definition do_exit (code : Z) (p : proc) : proc :=
  match pst p with
  | PRun => mkproc (ppid p) (ppgid p) (PZomb false code) NNone None
  | PStop => match ppend p with
             | Some _ => p
             | None => mkproc (ppid p) (ppgid p) PStop (pnote p) (Some (PdExit code))
             end
  | _ => p
  end.

Definition on_pid (f : proc -> proc) (pid : Z) (ps : list proc) : list proc :=
  map (fun p => if ppid p =? pid then f p else p) ps.

(** K1 *)
Definition on_group (f : proc -> proc) (g : Z) (ps : list proc) : list proc :=
  map (fun p => if ppgid p =? g then f p else p) ps.

Definition gone (p : proc) : bool := match pst p with PGone => true | _ => false end.
Definition all_gone (ps : list proc) : bool := forallb gone ps.
Definition group_exists (g : Z) (ps : list proc) : bool :=
  existsb (fun p => (ppgid p =? g) && negb (gone p)) ps.

(** K3 *)
Fixpoint next_status (ps : list proc) : option (ev * list proc) :=
  match ps with
  | [] => None
  | p :: r =>
      let skip := match next_status r with Some (e, r') => Some (e, p :: r') | None => None end in
      match pst p with
      | PZomb sg c =>
          Some (if sg then Signaled (ppid p) c else Exited (ppid p) c,
                mkproc (ppid p) (ppgid p) PGone NNone None :: r)
      | PStop => match pnote p with
                 | NStop s => Some (StoppedE (ppid p) s, mkproc (ppid p) (ppgid p) PStop NNone (ppend p) :: r)
                 | _ => skip
                 end
      | PRun => match pnote p with
                | NCont => Some (Continued (ppid p), mkproc (ppid p) (ppgid p) PRun NNone (ppend p) :: r)
                | _ => skip
                end
      | PGone => skip
      end
  end.

(** ---------- what the shell prints about jobs *)
Inductive out :=
| ODone (id gid reason : Z)      (* reason: -1 Done, -2 Killed (foreground wait), n >= 0 the signal *)
| OStopped (id gid : Z)
| OBgLaunch (id gid : Z)         (* [id] gid *)
| OFgCmd (id : Z)
| OBgCmd (id : Z)
| OAlreadyBg (id : Z)
| ONoJob
| ONoSuch
| OJobLine (id gid : Z) (st : jstat) (amp : bool).

(** ---------- shell side: the part that never touches the terminal *)
Record core := mkcore { procs : list proc; tab : table; mps : maps; outs : list out }.

Definition set_procs (k : core) (ps : list proc) : core := mkcore ps (tab k) (mps k) (outs k).
Definition say (k : core) (o : list out) : core := mkcore (procs k) (tab k) (mps k) (outs k ++ o).

(** shell.rs remove_pid_from_job: position of the pid in the job with this gid *)
Fixpoint remove_first (x : Z) (l : list Z) : list Z :=
  match l with [] => [] | y :: r => if y =? x then r else y :: remove_first x r end.

Fixpoint remove_pid (t : table) (gid pid : Z) : table * option job :=
  match t with
  | [] => ([], None)
  | j :: r =>
      if jgid j =? gid then
        match remove_first pid (jpids j) with
        | [] => (r, Some (mkjob (jid j) (jgid j) [] (jstopped j) (jst j) (jbg j)))
        | l => (mkjob (jid j) (jgid j) l (jstopped j) (jst j) (jbg j) :: r, None)
        end
      else let '(r', o) := remove_pid r gid pid in (j :: r', o)
  end.

(** jobc.rs mark_job_as_done *)
Definition job_done (k : core) (gid pid reason : Z) : core :=
  match remove_pid (tab k) gid pid with
  | (t, Some j) => mkcore (procs k) t (mps k) (outs k ++ (if jbg j then [ODone (jid j) gid reason] else []))
  | (t, None) =>
      (* the job lives on: if every remaining member is stopped, so is the job (2503a9b) *)
      let all_stopped := match get_job_by_gid t gid with
                         | Some j => match jst j with Stopped => false | Running => all_members_stopped j end
                         | None => false
                         end in
      mkcore (procs k) (if all_stopped then sh_mark_job_as_stopped t gid else t) (mps k) (outs k)
  end.

(** jobc.rs mark_job_member_stopped (the wrapper looks the job up by [gid] as given) *)
Definition member_stopped (k : core) (pid gid : Z) (report : bool) : core :=
  match sh_mark_job_member_stopped (tab k) pid gid with
  | (t, Some j) =>
      if all_members_stopped j then
        let t2 := sh_mark_job_as_stopped t gid in
        mkcore (procs k) t2 (mps k)
               (outs k ++ (if report then match get_job_by_gid t2 gid with
                                          | Some j2 => [OStopped (jid j2) gid]
                                          | None => [] end
                           else []))
      else mkcore (procs k) t (mps k) (outs k)
  | (t, None) => mkcore (procs k) t (mps k) (outs k)
  end.

(** shell.rs mark_job_member_continued: the pid leaves the stopped set and the job is Running (ac01883) *)
Definition sh_member_continued (t : table) (pid gid : Z) : table * option job :=
  let t' := upd_gid (fun j => mkjob (jid j) (jgid j) (jpids j) (set_remove pid (jstopped j)) Running (jbg j)) gid t in
  (t', get_job_by_gid t' gid).

(** jobc.rs mark_job_member_continued *)
Definition member_continued (k : core) (pid gid : Z) : core :=
  match sh_member_continued (tab k) pid gid with
  | (t, Some j) => mkcore (procs k) (if all_members_running j then sh_mark_job_as_running t gid true else t) (mps k) (outs k)
  | (t, None) => mkcore (procs k) t (mps k) (outs k)
  end.

(** signals.rs insert_*_map: a stop removes a parked continue of the pid and vice versa (ac20f13) *)
Definition park2 (m : maps) (e : ev) : maps :=
  match e with
  | Exited p s => mkmaps (map_put p s (m_reap m)) (m_stop m) (m_cont m) (m_kill m)
  | StoppedE p _ => mkmaps (m_reap m) (set_add p (m_stop m)) (set_remove p (m_cont m)) (m_kill m)
  | Continued p => mkmaps (m_reap m) (set_remove p (m_stop m)) (set_add p (m_cont m)) (m_kill m)
  | Signaled p s => mkmaps (m_reap m) (m_stop m) (m_cont m) (map_put p s (m_kill m))
  end.

Definition park_ev (k : core) (e : ev) : core := mkcore (procs k) (tab k) (park2 (mps k) e) (outs k).

(** one iteration of the loop of wait_fg_job for the status [e]; returns the
    new set of settled members (exited / killed / currently stopped), 1687e77 *)
Definition wait_body (k : core) (gid : Z) (pids : list Z) (waited : list Z) (e : ev) : core * list Z :=
  let pid := ev_pid e in
  let is_fg := memZ pid pids in
  let waited' := if is_fg then (if is_cont e then set_remove pid waited else set_add pid waited) else waited in
  let k' :=
    match e with
    | Exited _ _ => if is_fg then job_done k gid pid (-1) else park_ev k e
    | StoppedE _ _ =>
        if is_fg then member_stopped k pid gid true
        else member_stopped (park_ev k e) pid 0 false
    | Continued _ =>
        if is_fg then mkcore (procs k) (fst (sh_member_continued (tab k) pid gid)) (mps k) (outs k)
        else park_ev k e
    | Signaled _ _ => if is_fg then job_done k gid pid (-2) else park_ev k e
    end in
  (k', waited').

(** signals.rs handle_sigchld: waitpid(-1, WNOHANG) until nothing is left *)
Fixpoint drain (fuel : nat) (k : core) : core :=
  match fuel with
  | O => k
  | S f => match next_status (procs k) with
           | Some (e, ps) => drain f (park_ev (set_procs k ps) e)
           | None => k
           end
  end.

(** jobc.rs try_wait_bg_jobs, the body for one pid of one job of the cloned table *)
Definition poll_pid (report : bool) (gid : Z) (k : core) (pid : Z) : core :=
  let m := mps k in
  match map_get pid (m_reap m) with
  | Some _ =>
      job_done (mkcore (procs k) (tab k) (mkmaps (map_del pid (m_reap m)) (m_stop m) (m_cont m) (m_kill m)) (outs k))
               gid pid (-1)
  | None =>
      match map_get pid (m_kill m) with
      | Some sig =>
          job_done (mkcore (procs k) (tab k) (mkmaps (m_reap m) (m_stop m) (m_cont m) (map_del pid (m_kill m))) (outs k))
                   gid pid sig
      | None =>
          if memZ pid (m_stop m) then
            member_stopped (mkcore (procs k) (tab k) (mkmaps (m_reap m) (set_remove pid (m_stop m)) (m_cont m) (m_kill m)) (outs k))
                           pid gid report
          else if memZ pid (m_cont m) then
            member_continued (mkcore (procs k) (tab k) (mkmaps (m_reap m) (m_stop m) (set_remove pid (m_cont m)) (m_kill m)) (outs k))
                             pid gid
          else k
      end
  end.

Definition poll_job (report : bool) (k : core) (j : job) : core :=
  fold_left (poll_pid report (jgid j)) (jpids j) k.

Definition poll (report : bool) (k : core) : core :=
  match tab k with
  | [] => k
  | _ => let k1 := drain (S (length (procs k))) k in
         fold_left (poll_job report) (tab k1) k1
  end.

(** ---------- shell side: the terminal *)
Inductive via := VLaunch (term_given : bool) | VFg.
Inductive mode := AtPrompt | Waiting (gid : Z) (pids : list Z) (settled : list Z) (v : via).

Record st := mkst { k : core; md : mode; owner : Z }.

Record cfg := mkcfg { c_sh : Z; c_hasterm : bool; c_isatty : bool }.

(** after wait_fg_job returned: run_proc hands the terminal back iff term_given,
    fg.rs hands it back always; then main.rs polls and prompts *)
Definition finish (c : cfg) (k : core) (v : via) (ow : Z) : st :=
  mkst (poll true k) AtPrompt
       (match v with VFg => c_sh c | VLaunch tg => if tg then c_sh c else ow end).

Fixpoint settle (c : cfg) (fuel : nat) (s : st) : st :=
  match fuel with
  | O => s
  | S f =>
      match md s with
      | AtPrompt => s
      | Waiting gid pids w v =>
          match next_status (procs (k s)) with
          | Some (e, ps) =>
              let '(k', w') := wait_body (set_procs (k s) ps) gid pids w e in
              if negb (is_cont e) && (length pids <=? length w')%nat then finish c k' v (owner s)
              else settle c f (mkst k' (Waiting gid pids w' v) (owner s))
          | None => if all_gone (procs (k s)) then finish c (k s) v (owner s) else s
          end
      end
  end.

Definition settle_all (c : cfg) (s : st) : st := settle c (S (length (procs (k s)))) s.

Definition enter_wait (c : cfg) (k : core) (gid : Z) (pids : list Z) (v : via) (ow : Z) : st :=
  match pids with
  | [] => finish c k v ow
  | _ => settle_all c (mkst k (Waiting gid pids [] v) ow)
  end.

Definition end_of_line (k : core) (ow : Z) : st := mkst (poll true k) AtPrompt ow.

(** the children of one launch (K5): every stage is in the group of stage 0 *)
Definition stages (p0 : Z) (pids : list Z) : list proc :=
  map (fun p => mkproc p p0 PRun NNone None) pids.

Definition launch (c : cfg) (s : st) (pids : list Z) (bg : bool) : st :=
  match pids with
  | [] => s
  | p0 :: rest =>
      let ps := procs (k s) ++ stages p0 (p0 :: rest) in
      (* give_terminal_to(pid0) iff has_terminal && isatty && !background; K6 *)
      let tg := c_hasterm c && c_isatty c && negb bg && group_exists p0 ps in
      let ow := if tg then p0 else owner s in
      let t := if c_isatty c then fold_left (fun t p => insert_job t p0 p bg) pids (tab (k s)) else tab (k s) in
      if bg then
        let o := match get_job_by_gid t p0 with Some j => [OBgLaunch (jid j) p0] | None => [] end in
        end_of_line (mkcore ps t (mps (k s)) o) ow
      else enter_wait c (mkcore ps t (mps (k s)) []) p0 pids (VLaunch tg) ow
  end.

Fixpoint get_job_by_id (t : table) (id : Z) : option job :=
  match t with [] => None | j :: r => if jid j =? id then Some j else get_job_by_id r id end.

(** fg.rs / bg.rs: the job named by the argument; without argument
    [jobs.iter().next()], an arbitrary entry of the HashMap: oracle [pick] *)
Definition find_job (t : table) (arg : option Z) (pick : Z) : option job :=
  let id := match arg with Some n => n | None => pick end in
  match get_job_by_id t id with Some j => Some j | None => get_job_by_gid t id end.

Definition do_fg (c : cfg) (s : st) (arg : option Z) (pick : Z) : st :=
  let k0 := mkcore (procs (k s)) (tab (k s)) (mps (k s)) [] in
  match tab (k s) with
  | [] => end_of_line (say k0 [ONoJob]) (owner s)
  | _ =>
      match find_job (tab (k s)) arg pick with
      | None => end_of_line (say k0 [ONoSuch]) (owner s)
      | Some j =>
          let k1 := say k0 [OFgCmd (jid j)] in
          if group_exists (jgid j) (procs k1) then
            let ps := on_group (deliver SIGCONT) (jgid j) (procs k1) in
            let k2 := mkcore ps (sh_mark_job_as_running (tab k1) (jgid j) false) (mps k1) (outs k1) in
            enter_wait c k2 (jgid j) (jpids j) VFg (jgid j)
          else end_of_line k1 (owner s)
      end
  end.

Definition do_bg (s : st) (arg : option Z) (pick : Z) : st :=
  let k0 := mkcore (procs (k s)) (tab (k s)) (mps (k s)) [] in
  match tab (k s) with
  | [] => end_of_line (say k0 [ONoJob]) (owner s)
  | _ =>
      match find_job (tab (k s)) arg pick with
      | None => end_of_line (say k0 [ONoSuch]) (owner s)
      | Some j =>
          let ps := on_group (deliver SIGCONT) (jgid j) (procs k0) in
          match jst j with
          | Running => end_of_line (mkcore ps (tab k0) (mps k0) [OAlreadyBg (jid j)]) (owner s)
          | Stopped =>
              end_of_line (mkcore ps (sh_mark_job_as_running (tab k0) (jgid j) true) (mps k0) [OBgCmd (jid j)]) (owner s)
          end
      end
  end.

Definition job_line (j : job) : out :=
  OJobLine (jid j) (jgid j) (jst j) (jbg j && match jst j with Running => true | Stopped => false end).

Definition do_jobs (s : st) : st :=
  let k0 := mkcore (procs (k s)) (tab (k s)) (mps (k s)) [] in
  match tab k0 with
  | [] => end_of_line k0 (owner s)
  | _ => let k1 := poll false k0 in
         end_of_line (say k1 (map job_line (tab k1))) (owner s)
  end.

Inductive action :=
| ALaunch (pids : list Z) (bg : bool)
| AFg (arg : option Z) (pick : Z)
| ABg (arg : option Z) (pick : Z)
| AJobs
| AEmpty            (* empty line *)
| ABuiltin          (* a builtin that runs in the shell and touches neither jobs nor terminal *)
| ACtrlZ
| ACtrlC
| EExit (pid code : Z)    (* a process ends by itself *)
| ESig (pid sig : Z).     (* a signal sent to one process from outside *)

Definition clear (s : st) : st := mkst (mkcore (procs (k s)) (tab (k s)) (mps (k s)) []) (md s) (owner s).

Definition kernel (c : cfg) (s : st) (f : list proc -> list proc) : st :=
  settle_all c (mkst (mkcore (f (procs (k s))) (tab (k s)) (mps (k s)) []) (md s) (owner s)).

Definition key (c : cfg) (s : st) (sig : Z) : st :=
  match md s with
  | AtPrompt => clear s
  | Waiting _ _ _ _ => kernel c s (on_group (deliver sig) (owner s))
  end.

Definition typed (s : st) (f : st -> st) : st :=
  match md s with
  | AtPrompt => f s
  | Waiting _ _ _ _ => clear s
  end.

Definition step (c : cfg) (s : st) (a : action) : st :=
  match a with
  | ALaunch pids bg => typed s (fun s => launch c s pids bg)
  | AFg arg pick => typed s (fun s => do_fg c s arg pick)
  | ABg arg pick => typed s (fun s => do_bg s arg pick)
  | AJobs => typed s do_jobs
  | AEmpty => typed s (fun s => end_of_line (mkcore (procs (k s)) (tab (k s)) (mps (k s)) []) (owner s))
  | ABuiltin => typed s (fun s => end_of_line (mkcore (procs (k s)) (tab (k s)) (mps (k s)) []) (owner s))
  | ACtrlZ => key c s SIGTSTP
  | ACtrlC => key c s SIGINT
  | EExit pid code => kernel c s (on_pid (do_exit code) pid)
  | ESig pid sig => kernel c s (on_pid (deliver sig) pid)
  end.

Definition init (c : cfg) : st := mkst (mkcore [] [] empty_maps []) AtPrompt (c_sh c).

Definition run (c : cfg) (acts : list action) : st := fold_left (step c) acts (init c).

Fixpoint trace (c : cfg) (s : st) (acts : list action) : list st :=
  match acts with [] => [] | a :: r => let s' := step c s a in s' :: trace c s' r end.
