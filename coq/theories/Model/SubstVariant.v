(** VARIANT model for the proposed repair notes/C11-fix-3.patch (inside double quotes only the trailing
    newlines of the output are removed; not applied).  The model of the code as it IS stays in
    Model/Expand.v.  [strip_nl] is also the trimming the property asks for. *)
From Coq Require Import ZArith.
From Cicada Require Import Base.Chars Base.Tag Model.Expand.
Local Open Scope N_scope.

(** str::trim_end_matches of the newline character *)
Fixpoint drop_nl (s : str) : str :=
  match s with
  | [] => []
  | c :: r => if c =? 10 then drop_nl r else s
  end.
Definition strip_nl (s : str) : str := rev (drop_nl (rev s)).

(** fix-3: a double-quoted token keeps everything but the trailing newlines; other tokens trim as before *)
Definition trim_out (tg : tag) (out : str) : str := if tag_eqb tg TDq then strip_nl out else trim out.

Fixpoint dollar_loop_v (fuel : nat) (W : World) (tg : tag) (line : str) (log : list str)
  : res (option str * list str) :=
  match fuel with
  | O => OutOfFuel
  | S f =>
      if negb (should_do_dollar line) then Ok (Some line, log)
      else match find_dollar line with
           | None => Ok (None, log)
           | Some (before, cmd, tail, post) =>
               let out := match run_capture W cmd with Some o => o | None => [] end in
               dollar_loop_v f W tg (dollar_splice before cmd tail post (trim_out tg out)) (log ++ [cmd])
           end
  end.

