(** C17 -- model of cicada's aliases: the table (shell.rs add_alias / is_alias /
    remove_alias / get_alias_content / get_alias_list), the expansion pass
    (shell.rs expand_alias), the alias and unalias builtins (builtins/alias.rs,
    builtins/unalias.rs).  The tokenizer (parsers::parser_line::parse_line) and
    tools::unquote are FUNCTION PARAMETERS.  No proofs here. *)
From Cicada Require Import Base.Chars Base.Tag.
Local Open Scope N_scope.

Definition token := (tag * str)%type.

(* ------------------------------------------------------------------ the table (HashMap<String,String>) *)
Definition table := list (str * str).

Fixpoint lookup (t : table) (n : str) : option str :=
  match t with
  | [] => None
  | (k, v) :: r => if str_eqb k n then Some v else lookup r n
  end.

Fixpoint remove (t : table) (n : str) : table :=
  match t with
  | [] => []
  | (k, v) :: r => if str_eqb k n then remove r n else (k, v) :: remove r n
  end.

Definition add_alias (t : table) (n v : str) : table := (n, v) :: remove t n.
Definition is_alias (t : table) (n : str) : bool := match lookup t n with Some _ => true | None => false end.
(** remove_alias returns whether the name was present *)
Definition remove_alias (t : table) (n : str) : table * bool := (remove t n, is_alias t n).
(** get_alias_content: None for an absent name AND for an empty value *)
Definition get_alias_content (t : table) (n : str) : option str :=
  match lookup t n with
  | Some v => if is_empty v then None else Some v
  | None => None
  end.

(* ------------------------------------------------------------------ expand_alias *)
Definition s_pipe : str := [124].
Definition s_xargs : str := [120;97;114;103;115].

Section Expand.
  Variable tokenize : str -> list token.

  (** first loop: positions of the heads to replace, with the replacement text *)
  Fixpoint scan (t : table) (toks : list token) (idx : nat) (is_head : bool) : list (nat * str) :=
    match toks with
    | [] => []
    | (sep, text) :: rest =>
      if tag_eqb sep TNone && str_eqb text s_pipe then scan t rest (S idx) true
      else if is_head && str_eqb text s_xargs then scan t rest (S idx) is_head
      else if negb is_head || negb (is_alias t text) then scan t rest (S idx) false
      else match get_alias_content t text with
           | Some v => (idx, v) :: scan t rest (S idx) false
           | None => scan t rest (S idx) false
           end
    end.

  (** tokens.remove(i); then insert the new tokens at i (in reverse, so they end up in order) *)
  Definition replace_at (i : nat) (new : list token) (toks : list token) : list token :=
    firstn i toks ++ new ++ skipn (S i) toks.

  (** second loop: buff.iter().rev() *)
  Definition expand_alias (t : table) (toks : list token) : list token :=
    fold_left (fun acc iv => replace_at (fst iv) (tokenize (snd iv)) acc) (rev (scan t toks O true)) toks.

  (** The specification: ONE structural pass; each token is mapped to its image
      (itself, or the tokenised alias value) and the images are concatenated.
      The tokens of a value are never looked at again. *)
  Fixpoint expand_spec (t : table) (toks : list token) (is_head : bool) : list token :=
    match toks with
    | [] => []
    | (sep, text) :: rest =>
      if tag_eqb sep TNone && str_eqb text s_pipe then (sep, text) :: expand_spec t rest true
      else if is_head && str_eqb text s_xargs then (sep, text) :: expand_spec t rest is_head
      else if is_head then
        match get_alias_content t text with
        | Some v => tokenize v ++ expand_spec t rest false
        | None => (sep, text) :: expand_spec t rest false
        end
      else (sep, text) :: expand_spec t rest false
    end.
End Expand.

(* ------------------------------------------------------------------ the builtins *)
Definition is_name_char (c : char) : bool :=
  is_alpha c || is_digit c || (c =? c_us) || (c =? c_dot) || (c =? c_minus).

(** regex 1: the whole argument is a name (one or more name characters) *)
Definition is_name (s : str) : bool := negb (is_empty s) && forallb is_name_char s.

(** regex 2: name = rest, where rest holds no newline (the dot of the regex) *)
Fixpoint split_def (s : str) (acc : str) : option (str * str) :=
  match s with
  | [] => None
  | c :: r =>
    if is_name_char c then split_def r (acc ++ [c])
    else if (c =? c_eq) && negb (is_empty acc) then
      if existsb (fun x => x =? c_nl) r then None else Some (acc, r)
    else None
  end.

Definition starts_with_quote (s : str) : bool :=
  match s with c :: _ => (c =? c_dq) || (c =? c_sq) | [] => false end.

Inductive alias_out :=
  | OutList (lines : list str)      (* stdout, one line per definition (HashMap order: any permutation) *)
  | OutOne (line : str)
  | ErrNotFound (name : str)
  | ErrSyntax
  | OutNone.

Definition s_alias_sp : str := [97;108;105;97;115;32].          (* alias_ *)
Definition has_sq (s : str) : bool := existsb (fun c => c =? c_sq) s.
(** characters that are special inside double quotes: double quote, dollar, backquote, backslash *)
Definition is_dq_special (c : char) : bool := (c =? c_dq) || (c =? c_dollar) || (c =? c_bq) || (c =? c_bs).
Definition has_special (s : str) : bool := existsb is_dq_special s.
(** format_alias: double quotes when the value holds a single quote and nothing special inside double quotes *)
Definition list_dq (v : str) : bool := has_sq v && negb (has_special v).
Definition listing_line (n v : str) : str :=
  if list_dq v then s_alias_sp ++ n ++ [c_eq; c_dq] ++ v ++ [c_dq]
  else s_alias_sp ++ n ++ [c_eq; c_sq] ++ v ++ [c_sq].

Section Builtin.
  Variable unquote : str -> str.

  (** builtins/alias.rs run: [args] = the command's tokens after the command word *)
  Definition alias_builtin (t : table) (args : list token) : table * alias_out :=
    match args with
    | [] => (t, OutList (map (fun kv => listing_line (fst kv) (snd kv)) t))
    | [(sep, input)] =>
      if is_name input then
        match get_alias_content t input with
        | Some v => (t, OutOne (listing_line input v))
        | None => (t, ErrNotFound input)
        end
      else
        match split_def input [] with
        | Some (name, rest) =>
          (* a tagged token had its quotes removed by the tokenizer: the value is verbatim *)
          let value := if tag_eqb sep TNone && starts_with_quote rest then unquote rest else rest in
          (add_alias t (unquote name) value, OutNone)
        | None => (t, OutNone)
        end
    | _ => (t, ErrSyntax)
    end.

  Definition unalias_builtin (t : table) (args : list str) : table * alias_out :=
    match args with
    | [input] => let (t', was) := remove_alias t input in if was then (t', OutNone) else (t, ErrNotFound input)
    | _ => (t, ErrSyntax)
    end.
End Builtin.

(** Reading a single-quoted word (cicada's tokenizer inside quotes of one kind:
    everything up to the next quote of that kind; no escape inside single quotes):
    used only to state why a listed value with a quote cannot be read back. *)
Fixpoint q_read (q : char) (s : str) : option (str * str) :=
  match s with
  | [] => None
  | c :: r => if c =? q then Some ([], r)
              else match q_read q r with Some (v, rest) => Some (c :: v, rest) | None => None end
  end.
Definition sq_read := q_read c_sq.
