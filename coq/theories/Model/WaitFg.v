(** Transcription of [jobc::wait_fg_job] (src/jobc.rs) together with the
    [types::WaitStatus] accessors it uses (src/types.rs).

    A wait status is the triple [(pid, kind, val)] exactly like
    [WaitStatus(i32, i32, i32)]:
      kind 0 exited (val = exit code), 1 signaled (val = signal),
      2 stopped (val = signal), 3 continued, 9 others, 255 error (val = errno).

    The kernel ([waitpidx(-1, true)]) is the list of statuses it will hand
    out, one per loop iteration. An exhausted list behaves like the injection
    hook [jobc::verif_hooks::next_injected(true)]: it answers an error status
    with errno ECHILD without taking anything from the queue, which makes the
    loop break.

    [mark_job_*] (job table of the shell) and [signals::insert_*] (side maps)
    do not influence the counting / status logic and are no-ops here, except
    that the side-map insertions made for NON-fg pids are recorded in order
    in [r_side].

    Kept faithfully (including what is wrong with it):
      - [count_waited] is incremented for every event of an fg child that is
        not a continued event, so STOPPED events of fg children count as well;
      - a continued event does [continue]: no status update, no count check;
      - an error other than ECHILD sets the status to [err as i32]. That is
        the val field for every errno value nix knows (an unknown raw value
        becomes [UnknownErrno = 0] in Rust; the drivers only use known ones).
    i32 wrap-around of [val + 128] is not modelled. *)
From Coq Require Import List ZArith Bool.
Import ListNotations.
Local Open Scope Z_scope.

Definition ws := (Z * Z * Z)%type.

Definition ws_pid (w : ws) : Z := fst (fst w).
Definition ws_kind (w : ws) : Z := snd (fst w).
Definition ws_val (w : ws) : Z := snd w.

(* impl WaitStatus *)
Definition is_error (w : ws) : bool := Z.eqb (ws_kind w) 255.
Definition is_others (w : ws) : bool := Z.eqb (ws_kind w) 9.
Definition is_signaled (w : ws) : bool := Z.eqb (ws_kind w) 1.
Definition is_exited (w : ws) : bool := negb (Z.eqb (ws_pid w) 0) && Z.eqb (ws_kind w) 0.
Definition is_stopped (w : ws) : bool := Z.eqb (ws_kind w) 2.
Definition is_continued (w : ws) : bool := Z.eqb (ws_kind w) 3.
Definition get_signaled_status (w : ws) : Z := ws_val w + 128.
Definition get_status (w : ws) : Z :=
  if is_exited w then ws_val w else get_signaled_status w.

Definition ECHILD : Z := 10.

(* pids.contains(&pid) *)
Definition contains (pids : list Z) (pid : Z) : bool := existsb (Z.eqb pid) pids.

Inductive side_tag := SReap | SStopped | SCont | SKilled.

Record result := mkr {
  r_status : Z;                      (* cmd_result.status *)
  r_consumed : nat;                  (* statuses taken from the event list *)
  r_left : list ws;                  (* statuses not taken *)
  r_side : list (Z * side_tag)       (* side-map insertions, non-fg pids only *)
}.

(* settled: HashSet<i32> -- members that have exited / been killed, or are currently stopped
   (/repo 1687e77); kept duplicate-free, so len() is the length *)
Definition set_insert (pid : Z) (s : list Z) : list Z := if contains s pid then s else pid :: s.
Definition set_remove (pid : Z) (s : list Z) : list Z := filter (fun x => negb (Z.eqb x pid)) s.

(* The [loop { ... }] of wait_fg_job. State: cmd_result.status,
   settled, and the two bookkeeping fields consumed / side. *)
Fixpoint wait_loop (pids : list Z) (pid_last : Z) (count_child : nat)
         (evs : list ws) (status : Z) (settled : list Z)
         (consumed : nat) (side : list (Z * side_tag)) {struct evs} : result :=
  match evs with
  | [] =>
      (* let ws = waitpidx(-1, true): queue exhausted, ECHILD, not consumed;
         ws.is_error() && err == ECHILD: break *)
      mkr status consumed [] side
  | w :: rest =>
      if is_error w then
        if Z.eqb (ws_val w) ECHILD then
          mkr status (S consumed) rest side
        else
          (* cmd_result = CommandResult::from_status(gid, err as i32); break *)
          mkr (ws_val w) (S consumed) rest side
      else
        let pid := ws_pid w in
        let is_a_fg_child := contains pids pid in
        let settled :=
          if is_a_fg_child then
            (if is_continued w then set_remove pid settled else set_insert pid settled)
          else settled in
        (* if / else if chain; the boolean is true where the branch does [continue] *)
        let '(side, cont) :=
          if is_exited w then
            ((if is_a_fg_child then side else side ++ [(pid, SReap)]), false)
          else if is_stopped w then
            ((if is_a_fg_child then side else side ++ [(pid, SStopped)]), false)
          else if is_continued w then
            ((if is_a_fg_child then side else side ++ [(pid, SCont)]), true)
          else if is_signaled w then
            ((if is_a_fg_child then side else side ++ [(pid, SKilled)]), false)
          else (side, false) in
        if cont then
          wait_loop pids pid_last count_child rest status settled (S consumed) side
        else
          let status :=
            if is_a_fg_child && Z.eqb pid pid_last then get_status w else status in
          if Nat.leb count_child (length settled) then
            mkr status (S consumed) rest side
          else
            wait_loop pids pid_last count_child rest status settled (S consumed) side
  end.

Definition wait_fg_job (pids : list Z) (evs : list ws) : result :=
  (* let mut cmd_result = CommandResult::new(); settled = {} *)
  let count_child := length pids in
  match pids with
  | [] => mkr 0 0 evs []              (* if count_child == 0 { return cmd_result; } *)
  | _ :: _ =>
      let pid_last := last pids 0 in  (* pids.last().unwrap() *)
      wait_loop pids pid_last count_child evs 0 [] 0%nat []
  end.
