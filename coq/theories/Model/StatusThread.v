(** What [$?] reads inside a command line: transcription of the state threading of
    [execute::run_command_line] -- the local [status] that decides && / ||, and the shell's
    [previous_status], assigned after EVERY executed pipeline ([sh.previous_status = status]) and read by the
    expander ([World.status]) when the NEXT segment is run.  One segment's runner is an oracle that receives
    the previous_status the expander sees and returns the segment's exit status.  (Model/ListExec.v is the same
    loop with the shell state kept inside an abstract world; this file makes the assignment explicit and records
    what each executed segment saw.) *)
From Cicada Require Import Base.Chars Model.Cmds Model.ListExec.
From Coq Require Import ZArith.
Local Open Scope Z_scope.

Section Thread.
  Variable run_proc : Z -> str -> Z.      (* previous_status seen by the expansion of the segment -> its status *)

  (** s_prev = sh.previous_status; s_status = the local variable; s_seen = (segment, the $? it saw, its status) *)
  Record sst := mks { s_prev : Z; s_status : Z; s_sep : lop; s_seen : list (str * Z * Z) }.

  Definition run_seg (s : sst) (t : str) : sst :=
    let st := run_proc (s_prev s) t in
    mks st st (s_sep s) (s_seen s ++ [(t, s_prev s, st)]).

  Definition step_token (s : sst) (t : str) : sst :=
    match op_of t with
    | OpNone =>
        match s_sep s with
        | OpAnd => if Z.eqb (s_status s) 0 then run_seg s t else s
        | OpOr => if Z.eqb (s_status s) 0 then s else run_seg s t
        | _ => run_seg s t
        end
    | o => mks (s_prev s) (s_status s) o (s_seen s)
    end.

  (** [prev0] = previous_status when the line starts (the status of the previous line) *)
  Definition thread_tokens (prev0 : Z) (toks : list str) : sst :=
    fold_left step_token toks (mks prev0 0 OpNone []).
  Definition thread_line (prev0 : Z) (line : str) : sst := thread_tokens prev0 (line_to_cmds line).
End Thread.

(** the property: every executed segment sees the status of the segment executed JUST BEFORE it, the first one
    the status the line started with *)
Fixpoint chained (prev : Z) (seen : list (str * Z * Z)) : Prop :=
  match seen with
  | [] => True
  | (_, p, st) :: r => p = prev /\ chained st r
  end.
