(* Transcription of the descriptor handling of core.rs run_pipeline / run_single_program
   (parent and child), of builtins/utils.rs _get_std_fds / print_stdout / print_stderr, and the
   POSIX reference the properties C02 / C04 / C08 compare it with.  No proofs here.

   The model is of the code as it is (/repo d4ac685).  The record [variant] keeps, as switches, the
   five behaviours that were repaired in /repo 8dc92a8, 07e8792, 219c117, 3c1f8de, d4ac685: a flag
   that is OFF gives the code BEFORE that commit (used only for regression examples and so that
   the theorems, which quantify over every variant, also say what each repair bought).
   [v0] (all on) is the code as it is; the registered theorems are about [v0]. *)
From Coq Require Import List Arith Bool.
From Cicada Require Import Model.OsLite.
Import ListNotations.

Inductive sfd := F1 | F2.                               (* item.0 is the string 1 or 2 *)
Inductive rtarget := TFile (path : nat) | TAmp1 | TAmp2.   (* item.2: a name, or the words &1 / &2 *)
Record redir := mkr { r_fd : sfd; r_app : bool; r_to : rtarget }.
Inductive sfrom := FNone | FFile (path : nat) | FHere.
Inductive skind := KExt | KBuiltin | KNotFound.
(* s_prints: for a builtin run in the shell itself, its calls (stream, text is empty) of print_stdout (true) /
   print_stderr (false) in order *)
Record stage := mks { s_from : sfrom; s_redirs : list redir; s_kind : skind; s_prints : list (bool * bool) }.
Record plan := mkplan { p_stages : list stage; p_capture : bool }.

(* paths 0 and 1 stand for files literally named &1 and &2 (what 1>&1 / 2>&2 create) *)
Definition target_path (t : rtarget) : nat :=
  match t with TFile p => p | TAmp1 => 0 | TAmp2 => 1 end.
Definition wmode (app : bool) : fmode := if app then MAppend else MTrunc.

Inductive outcome := OExec | OExit (code : nat).
Record kid := mkkid { k_idx : nat; k_proc : proc; k_out : outcome }.

Definition close_pair (fds : nat * nat) (p : proc) : proc := p_close (snd fds) (p_close (fst fds) p).
Definition close_pairs (l : list (nat * nat)) (p : proc) : proc :=
  fold_left (fun q fds => close_pair fds q) l p.
Definition opt_close_pair (o : option (nat * nat)) (p : proc) : proc :=
  match o with Some fds => close_pair fds p | None => p end.

Record variant := mkv {
  v_dupclose : bool;   (* 8dc92a8: close the dup()ed descriptor after dup2 in the 2>&1 / 1>&2 branches *)
  v_bcap : bool;       (* 07e8792: the single-builtin path closes the capture pipes *)
  v_capclose : bool;   (* 219c117: a captured last stage with a redirected stream still closes the capture ends *)
  v_capfail : bool;    (* 3c1f8de: a failing capture pipe() releases the stage pipes *)
  v_bunop : bool;      (* d4ac685: a builtin whose target cannot be opened fails with status 1 *)
  v_bfold : bool;      (* c05c052: _get_std_fds as a plain left-to-right fold *)
  v_capfirst : bool    (* 65131df: a captured last stage gets the capture pipes BEFORE its redirections *)
}.
Definition v0 : variant := mkv true true true true true true true.

Section Run.
Variable v : variant.
Variable fail_at : nat -> bool.        (* the k-th pipe() call of run_pipeline fails (EMFILE) *)
Variable openable : nat -> bool.       (* can this path be opened / created *)

(* ---------------- the up-front loop, core.rs:146-157 ---------------- *)
Fixpoint mk_pipes (m k : nat) (p : proc) : proc * list (nat * nat) * bool :=
  match m with
  | 0 => (p, [], false)
  | S m' =>
    if fail_at k then (p_pipefail p, [], true)
    else let '(p1, fds) := p_pipe (PStage k) p in
         let '(p2, rest, e) := mk_pipes m' (S k) p1 in (p2, fds :: rest, e)
  end.

(* ---------------- child: the redirects_to loop, core.rs:375-430 ---------------- *)
Definition dup_done (fd : nat) (p : proc) : proc := if v_dupclose v then p_close fd p else p.
(* result: inr = the child exited (status 1); inl (p, stdout_redirected, stderr_redirected) *)
Fixpoint child_redirs (notlast capture : bool) (rs : list redir) (so se : bool) (p : proc)
  : (proc * bool * bool) + proc :=
  match rs with
  | [] => inl (p, so, se)
  | r :: rest =>
    match r_fd r, r_to r with
    | F2, TAmp1 =>
      if notlast then child_redirs notlast capture rest so se (p_dup2 1 2 p)
      else if negb capture then
        match p_dup 1 p with
        | (p1, Some fd) => child_redirs notlast capture rest so se (dup_done fd (p_dup2 fd 2 p1))
        | (p1, None) => inr (p_ev (EExit 1) p1)
        end
      else child_redirs notlast capture rest so se p
    | F1, TAmp2 =>
      if notlast || negb capture then
        match p_dup 2 p with
        | (p1, Some fd) => child_redirs notlast capture rest so se (dup_done fd (p_dup2 fd 1 p1))
        | (p1, None) => inr (p_ev (EExit 1) p1)
        end
      else child_redirs notlast capture rest so se p
    | fd, to =>
      let path := target_path to in
      if openable path then
        let '(p1, n) := p_open path (wmode (r_app r)) p in
        match fd with
        | F1 => child_redirs notlast capture rest true se (p_dup2 n 1 p1)
        | F2 => child_redirs notlast capture rest so true (p_dup2 n 2 p1)
        end
      else inr (p_ev (EExit 1) (p_openfail path (wmode (r_app r)) p))
    end
  end.

(* ---------------- child of stage idx, core.rs:296-508 ---------------- *)
(* close the pipes on the right, the capture pipes unless last, dup2 the adjacent ends onto 0 / 1 *)
Definition child_prologue (pipes : list (nat * nat)) (capo cape : option (nat * nat)) (idx : nat) (p : proc) : proc :=
  let pc := length pipes in
  let notlast := idx <? pc in
  (* right side: for i in idx+1..pipes_count *)
  let p := close_pairs (skipn (idx + 1) pipes) p in
  let p := if notlast then opt_close_pair cape (opt_close_pair capo p) else p in
  let p := if 0 <? idx then
             let fds := nth (idx - 1) pipes (0, 0) in
             p_close (fst fds) (p_dup2 (fst fds) 0 p)
           else p in
  if notlast then
    let fds := nth idx pipes (0, 0) in
    p_close (fst fds) (p_close (snd fds) (p_dup2 (snd fds) 1 p))
  else p.

(* `<` file and here-string; inr = the child exited with status 1 *)
Definition child_from (st : stage) (hs : option (nat * nat)) (p : proc) : proc + proc :=
  match s_from st with
  | FFile path =>
    if openable path then
      let '(p1, n) := p_open path MRead p in inl (p_close n (p_dup2 n 0 p1))
    else inr (p_ev (EExit 1) (p_openfail path MRead p))
  | FHere =>
    match hs with
    | Some fds => inl (p_close (fst fds) (p_dup2 (fst fds) 0 (p_close (snd fds) p)))
    | None => inl p
    end
  | FNone => inl p
  end.

(* capture output of the last process, core.rs:432-448 *)
Definition child_capture (capo cape : option (nat * nat)) (so se : bool) (p : proc) : proc :=
  let p := match capo with
           | Some fds =>
             if so then (if v_capclose v then close_pair fds p else p)
             else p_close (snd fds) (p_dup2 (snd fds) 1 (p_close (fst fds) p))
           | None => p end in
  match cape with
  | Some fds =>
    if se then (if v_capclose v then close_pair fds p else p)
    else p_close (snd fds) (p_dup2 (snd fds) 2 (p_close (fst fds) p))
  | None => p end.

Definition child_finish (idx : nat) (st : stage) (p : proc) : kid :=
  match s_kind st with
  | KBuiltin => mkkid idx (p_ev (EExit 0) p) (OExit 0)     (* status of the builtin: not modelled *)
  | KNotFound => mkkid idx (p_ev (EExit 127) p) (OExit 127)
  | KExt => mkkid idx (p_exec p) OExec
  end.

Definition child_run (pipes : list (nat * nat)) (capo cape : option (nat * nat))
           (capture : bool) (idx : nat) (st : stage) (hs : option (nat * nat)) (p : proc) : kid :=
  let pc := length pipes in
  let p := child_prologue pipes capo cape idx p in
  match child_from st hs p with
  | inr q => mkkid idx q (OExit 1)
  | inl p =>
    (* /repo 65131df (v_capfirst): the capture pipes become 1 / 2 BEFORE the redirection loop, and the
       loop has no special case for a captured stage any more *)
    let cap := (idx =? pc) && capture in
    let p := if cap && v_capfirst v then child_capture capo cape false false p else p in
    match child_redirs (idx <? pc) (capture && negb (v_capfirst v)) (s_redirs st) false false p with
    | inr q => mkkid idx q (OExit 1)
    | inl (p, so, se) =>
      let p := if cap && negb (v_capfirst v) then child_capture capo cape so se p else p in
      child_finish idx st p
    end
  end.

(* ---------------- run_single_program, parent side, core.rs:285-295, 509-607 ---------------- *)
Definition run_stage (pipes : list (nat * nat)) (capo cape : option (nat * nat))
           (capture : bool) (idx : nat) (st : stage) (sh : proc) : proc * kid :=
  let pc := length pipes in
  let '(sh, hs) := match s_from st with
                   | FHere => let '(q, fds) := p_pipe (PHere idx) sh in (q, Some fds)
                   | _ => (sh, None)
                   end in
  let k := child_run pipes capo cape capture idx st hs (mkp (tab sh) []) in
  let sh := p_ev (EFork idx) sh in
  let sh := match hs with
            | Some fds => p_close (snd fds) (p_ev (EWrite (snd fds)) (p_close (fst fds) sh))
            | None => sh end in
  let sh := if idx <? pc then p_close (snd (nth idx pipes (0, 0))) sh else sh in
  let sh := if 0 <? idx then p_close (fst (nth (idx - 1) pipes (0, 0))) sh else sh in
  let sh := if (idx =? pc) && capture then
              let sh := match capo with
                        | Some fds => p_close (fst fds) (p_ev (ERead (fst fds)) (p_close (snd fds) sh))
                        | None => sh end in
              match cape with
              | Some fds => p_close (fst fds) (p_ev (ERead (fst fds)) (p_close (snd fds) sh))
              | None => sh end
            else sh in
  (sh, k).

Fixpoint run_stages (pipes : list (nat * nat)) (capo cape : option (nat * nat)) (capture : bool)
         (idx : nat) (sts : list stage) (sh : proc) : proc * list kid :=
  match sts with
  | [] => (sh, [])
  | st :: rest =>
    let '(sh1, k) := run_stage pipes capo cape capture idx st sh in
    let '(sh2, ks) := run_stages pipes capo cape capture (S idx) rest sh1 in
    (sh2, k :: ks)
  end.

(* ---------------- builtins run in the shell: builtins/utils.rs ---------------- *)
(* _get_std_fds: (fd_out, fd_err); the recursive call for 1>&2 looks at the REST of the list *)
(* `1> foo.log` / `2> foo.log`: create_raw_fd_from_file; Err leaves the candidate None *)
Definition open_cand (r : redir) (p : proc) : proc * option nat :=
  let path := target_path (r_to r) in
  if openable path then let '(p1, n) := p_open path (wmode (r_app r)) p in (p1, Some n)
  else (p_openfail path (wmode (r_app r)) p, None).
(* the candidate for descriptor 1; la = the look-ahead call _get_std_fds(&redirects[i+1..]) *)
Definition gsf_cand1 (la : proc * option nat * option nat) (r : redir) (p : proc) : proc * option nat :=
  match r_to r with
  | TAmp2 =>
    let '(p1, _o, e) := la in
    match e with
    | Some fd => (p1, Some fd)
    | None => p_dup 2 p1
    end
  | _ => open_cand r p
  end.
(* the candidate for descriptor 2 *)
Definition gsf_cand2 (out : option nat) (r : redir) (p : proc) : proc * option nat :=
  match r_to r with
  | TAmp1 =>
    match out with
    | Some fd => p_dup fd p
    | None => (p, None)
    end
  | _ => open_cand r p
  end.
Definition oclose (o : option nat) (p : proc) : proc :=
  match o with Some fd => p_close fd p | None => p end.

Fixpoint get_std_fds (rs : list redir) (out err : option nat) (p : proc) : proc * option nat * option nat :=
  match rs with
  | [] => (p, out, err)
  | r :: rest =>
    match r_fd r with
    | F1 =>
      let '(p, cand) := gsf_cand1 (get_std_fds rest None None p) r p in
      get_std_fds rest cand err (oclose out p)
    | F2 =>
      let '(p, cand) := gsf_cand2 out r p in
      get_std_fds rest out cand (oclose err p)
    end
  end.

(* c05c052: the function as a left-to-right fold (off: the recursive look-ahead version before it).  None = still the shell's own
   descriptor; 2>&1 dups the CURRENT stdout target, 1>&2 the CURRENT stderr target *)
Fixpoint get_std_fds_fold (rs : list redir) (out err : option nat) (p : proc) : proc * option nat * option nat :=
  match rs with
  | [] => (p, out, err)
  | r :: rest =>
    match r_fd r with
    | F1 =>
      let '(p, cand) := match r_to r with
                        | TAmp2 => p_dup (match err with Some fd => fd | None => 2 end) p
                        | _ => open_cand r p
                        end in
      get_std_fds_fold rest cand err (oclose out p)
    | F2 =>
      let '(p, cand) := match r_to r with
                        | TAmp1 => p_dup (match out with Some fd => fd | None => 1 end) p
                        | _ => open_cand r p
                        end in
      get_std_fds_fold rest out cand (oclose err p)
    end
  end.
Definition std_fds (rs : list redir) (p : proc) : proc * option nat * option nat :=
  if v_bfold v then get_std_fds_fold rs None None p else get_std_fds rs None None p.

(* print_stdout (is_out = true) / print_stderr (false) of a builtin that is alone on its line:
   returns the shell after the call and the object the text was written to *)
(* the descriptor is OWNED from _get_dupped_std*_fd on and closed on EVERY path (File::from_raw_fd ... drop), whatever the
   text: an empty text only skips the second write (the newline) *)
Definition builtin_print (rs : list redir) (is_out empty : bool) (p : proc) : proc * option obj :=
  let '(p, o, e) := std_fds rs p in
  let '(mine, other) := if is_out then (o, e) else (e, o) in
  let p := match other with Some fd => p_close fd p | None => p end in
  let '(p, fd) := match mine with
                  | Some fd => (p, Some fd)
                  | None => p_dup (if is_out then 1 else 2) p
                  end in
  match fd with
  | Some fd =>
    let pw := p_ev (EWrite fd) p in
    let pw := if empty then pw else p_ev (EWrite fd) pw in
    (p_close fd pw, option_map fst (lookup (tab p) fd))
  | None => (p, None)
  end.

Fixpoint builtin_prints (rs : list redir) (prints : list (bool * bool)) (p : proc) : proc * list (option obj) :=
  match prints with
  | [] => (p, [])
  | b :: rest => let '(p1, o) := builtin_print rs (fst b) (snd b) p in
                 let '(p2, os) := builtin_prints rs rest p1 in (p2, o :: os)
  end.

Fixpoint builtin_preopen (rs : list redir) (p : proc) : proc * bool :=
  match rs with
  | [] => (p, true)
  | r :: rest =>
    match r_fd r, r_to r with
    | F2, TAmp1 => builtin_preopen rest p
    | F1, TAmp2 => builtin_preopen rest p
    | _, to =>
      let path := target_path to in
      if openable path then
        let '(p1, n) := p_open path (wmode (r_app r)) p in builtin_preopen rest (p_close n p1)
      else (p_openfail path (wmode (r_app r)) p, false)
    end
  end.

(* ---------------- run_pipeline, core.rs:114-251 ---------------- *)
Record result := mkres { res_shell : proc; res_kids : list kid; res_error : bool;
                         res_sinks : list (option obj) }.

Definition is_single_builtin (pl : plan) : bool :=
  match p_stages pl with
  | [st] => match s_kind st with KBuiltin => true | _ => false end
  | _ => false
  end.

(* /repo 9dba15b CommandLine::runs_in_shell: a builtin alone on its line runs in the shell itself -- except when its output is
   captured AND it carries redirections: then it is a one-stage pipeline whose stage is a builtin in a forked child *)
Definition runs_in_shell (pl : plan) : bool :=
  is_single_builtin pl &&
  negb (p_capture pl && match p_stages pl with [st] => match s_redirs st with [] => false | _ => true end | _ => false end).

(* capture pipes, core.rs:188-209; their pipe() calls are number m and m+1 (m = stage pipes).
   NOTE the pipeline2 / pipeline3 error returns do not release the stage pipes. *)
Definition cap_release (pipes : list (nat * nat)) (sh : proc) : proc :=
  if v_capfail v then close_pairs pipes sh else sh.
Definition mk_capture (capture : bool) (m : nat) (pipes : list (nat * nat)) (sh : proc)
  : proc * option (nat * nat) * option (nat * nat) * bool :=
  if capture then
    if fail_at m then (cap_release pipes (p_pipefail sh), None, None, true)
    else let '(sh1, o) := p_pipe PCapOut sh in
         if fail_at (S m) then (cap_release pipes (close_pair o (p_pipefail sh1)), None, None, true)
         else let '(sh2, e) := p_pipe PCapErr sh1 in (sh2, Some o, Some e, false)
  else (sh, None, None, false).

Definition run_pipeline (pl : plan) (sh : proc) : result :=
  match p_stages pl with
  | [] => mkres sh [] true []
  | st0 :: more =>
    let m := length more in
    let '(sh, pipes, errored) := mk_pipes m 0 sh in
    if errored then mkres (close_pairs pipes sh) [] true []
    else
      let '(sh, capo, cape, failed) := mk_capture (p_capture pl) m pipes sh in
      if failed then mkres sh [] true []
      else if runs_in_shell pl then
        (* try_run_builtin in the shell itself; the capture pipes are NOT closed on this path;
           with capture the text goes into the CommandResult, no descriptor is touched *)
        let done (q : proc) : proc :=
          if v_bcap v then opt_close_pair cape (opt_close_pair capo q) else q in
        (* C04-fix-2: open every file target first (POSIX creates / truncates them anyway); fail if one cannot be opened *)
        let '(sh, okb) := if v_bunop v then builtin_preopen (s_redirs st0) sh else (sh, true) in
        if negb okb then mkres (done sh) [] true []
        else if p_capture pl then mkres (done sh) [] false []
        else let '(sh1, sinks) := builtin_prints (s_redirs st0) (s_prints st0) sh in
             mkres (done sh1) [] false sinks
      else
        let '(sh1, ks) := run_stages pipes capo cape (p_capture pl) 0 (p_stages pl) sh in
        mkres sh1 ks false []
  end.
End Run.

(* ---------------- the reference: POSIX left-to-right redirection ---------------- *)
Definition posix_redirect (s : obj * obj) (r : redir) : obj * obj :=
  match r_fd r, r_to r with
  | F2, TAmp1 => (fst s, fst s)
  | F1, TAmp2 => (snd s, snd s)
  | F1, to => (OFile (target_path to) (wmode (r_app r)), snd s)
  | F2, to => (fst s, OFile (target_path to) (wmode (r_app r)))
  end.
Definition posix_sinks (rs : list redir) (s : obj * obj) : obj * obj := fold_left posix_redirect rs s.

Definition is_file_redir (r : redir) : bool :=
  match r_fd r, r_to r with F2, TAmp1 => false | F1, TAmp2 => false | _, _ => true end.
(* files a POSIX shell opens, in order, up to and including the first that cannot be opened *)
Fixpoint posix_opens (openable : nat -> bool) (rs : list redir) : list (nat * fmode) * bool :=
  match rs with
  | [] => ([], true)
  | r :: rest =>
    if is_file_redir r then
      let path := target_path (r_to r) in
      if openable path then let '(l, ok) := posix_opens openable rest in ((path, wmode (r_app r)) :: l, ok)
      else ([(path, wmode (r_app r))], false)
    else posix_opens openable rest
  end.

(* what stage idx of n must see before its own redirections (i0 o0 e0: the shell's 0 1 2) *)
Definition std_in (i0 : obj) (idx : nat) (st : stage) : obj :=
  match s_from st with
  | FFile p => OFile p MRead
  | FHere => OPipeR (PHere idx)
  | FNone => match idx with 0 => i0 | S j => OPipeR (PStage j) end
  end.
Definition std_out (o0 : obj) (n : nat) (capture : bool) (idx : nat) : obj :=
  if S idx <? n then OPipeW (PStage idx) else if capture then OPipeW PCapOut else o0.
Definition std_err (e0 : obj) (n : nat) (capture : bool) (idx : nat) : obj :=
  if (S idx =? n) && capture then OPipeW PCapErr else e0.

(* 1>&2 followed later by another redirection of descriptor 1, on a builtin that runs in the shell:
   the look-ahead call of _get_std_fds opens / dups for that later redirection and drops the result *)
Definition is_fd1 (r : redir) : bool := match r_fd r with F1 => true | F2 => false end.
Fixpoint lookahead_leak (rs : list redir) : bool :=
  match rs with
  | [] => false
  | r :: rest =>
    (match r_fd r, r_to r with F1, TAmp2 => existsb is_fd1 rest | _, _ => false end) || lookahead_leak rest
  end.

(* ---------------- the known-finding classes, as decidable predicates on the plan ---------------- *)
Definition is_dup21 (r : redir) : bool := match r_fd r, r_to r with F2, TAmp1 => true | _, _ => false end.
Definition is_dup12 (r : redir) : bool := match r_fd r, r_to r with F1, TAmp2 => true | _, _ => false end.
(* spellings outside the property's list: 1>&1 and 2>&2 (they create files named &1 / &2) *)
Definition out_of_scope (r : redir) : bool :=
  match r_fd r, r_to r with F1, TAmp1 => true | F2, TAmp2 => true | _, _ => false end.

(* the dup()ed descriptor of 2>&1 / 1>&2 is never closed *)
Definition known_dupleak (v : variant) (last capture : bool) (st : stage) : bool :=
  negb (v_dupclose v) &&
  ((existsb is_dup21 (s_redirs st) && last && negb capture)
   || (existsb is_dup12 (s_redirs st) && (negb last || negb capture))).
(* a captured last stage with a redirection to a file keeps the capture ends (C08) *)
Definition known_capredir (v : variant) (last capture : bool) (st : stage) : bool :=
  negb (v_capclose v) && last && capture && existsb is_file_redir (s_redirs st).
(* a captured last stage ignores 2>&1 / 1>&2 (C04) *)
Definition known_capdup (last capture : bool) (st : stage) : bool :=
  last && capture && (existsb is_dup21 (s_redirs st) || existsb is_dup12 (s_redirs st)).

Definition t_std : table := [Some (OInh 0, false); Some (OInh 1, false); Some (OInh 2, false)].

(* Where the text of a builtin that runs in a CHILD (a stage of a pipeline) goes: print_stdout / print_stderr write to
   the child's descriptors 1 / 2 -- except when the builtin is the last stage of a CAPTURED pipeline: then
   try_run_builtin_in_subprocess passes capture = true, the text is stored in the child's own CommandResult and is
   lost when the child exits (None).  bcfix = /repo a7a8308 (capture := false in the child): true is the code as it is,
   false the code before it (regression example only). *)
Definition builtin_child_text (bcfix capture last : bool) (k : kid) : option (option obj * option obj) :=
  if capture && last && negb bcfix then None
  else Some (option_map fst (lookup (tab (k_proc k)) 1), option_map fst (lookup (tab (k_proc k)) 2)).

(* the files a process opened, oldest first, with the mode (r / truncate / append), from its trace *)
Fixpoint ev_opens (l : list ev) : list (nat * fmode) :=
  match l with
  | [] => []
  | EOpen path m _ :: r => ev_opens r ++ [(path, m)]
  | _ :: r => ev_opens r
  end.


(* ---------------- signal dispositions of the stages (core.rs run_single_program, main.rs) ----------------
   A disposition map says which signals are IGNORED (ignored dispositions are copied by fork and survive execve; caught ones are
   reset by execve).  Program order per stage: [here-string pipe]; fork -- the child copies the shell's map and resets SIGTSTP,
   SIGQUIT, SIGINT to default (core.rs:333-336); the parent, ONLY around the write of the here-string, AFTER the fork:
   signal(SIGPIPE, SIG_IGN); write; signal(SIGPIPE, SIG_DFL) (1ce9d84). *)
Inductive sg := SgPipe | SgTstp | SgQuit | SgInt | SgOther (n : nat).
Definition sg_eqb (a b : sg) : bool :=
  match a, b with
  | SgPipe, SgPipe | SgTstp, SgTstp | SgQuit, SgQuit | SgInt, SgInt => true
  | SgOther x, SgOther y => Nat.eqb x y
  | _, _ => false
  end.
Definition disp := sg -> bool.                      (* true = ignored *)
Definition sig_set (s : sg) (ign : bool) (D : disp) : disp := fun x => if sg_eqb x s then ign else D x.
Definition child_disp (D : disp) : disp := sig_set SgInt false (sig_set SgQuit false (sig_set SgTstp false D)).
Definition stage_is_here (st : stage) : bool := match s_from st with FHere => true | _ => false end.
Definition parent_disp_after (st : stage) (D : disp) : disp :=
  if stage_is_here st then sig_set SgPipe false (sig_set SgPipe true D) else D.
(* dispositions every stage's child has at its exec, in stage order, and the shell's afterwards *)
Fixpoint stages_disp (sts : list stage) (D : disp) : list disp * disp :=
  match sts with
  | [] => ([], D)
  | st :: rest => let '(cs, D') := stages_disp rest (parent_disp_after st D) in (child_disp D :: cs, D')
  end.

(* what the parent writes into the here-string pipe (core.rs): `let mut data = word.into_bytes(); data.push(b'\n'); write_all(&data)` --
   the word followed by a newline, unconditionally (bytes as numbers) *)
Definition herestring_payload (word : list nat) : list nat := word ++ [10].
