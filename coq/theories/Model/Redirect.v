(** Transcription of [parser_line::tokens_to_redirections], [parser_line::unquote],
    [Command::from_tokens], [types::split_tokens_by_pipes], [types::drain_env_tokens]
    and [CommandLine::from_line] (src/parsers/parser_line.rs:475-582, src/types.rs:166-387).
    The regex tests are hand-written matchers of the exact literals used there;
    [\d] is Unicode Nd (table generated from the vendored regex-syntax). *)
From Cicada Require Import Base.Chars Base.Tag Gen.UnicodeNd.
Local Open Scope N_scope.

Definition token := (tag * str)%type.
Definition redirection := (str * str * str)%type.

Inductive rerr := EBadNearAmp | EBadFd1 | EBadFd2 | EBadFd3 | ESyntax.

(** one or more Unicode decimal digits *)
Definition all_nd (s : str) : bool := negb (is_empty s) && forallb is_nd s.

Definition starts_with_c (c : char) (s : str) : bool :=
  match s with x :: _ => x =? c | [] => false end.

Fixpoint has_char (c : char) (s : str) : bool :=
  match s with [] => false | x :: r => (x =? c) || has_char c r end.

(** split at the first [>]: (prefix without [>], rest starting at the [>]) *)
Fixpoint split_gt (s : str) : str * str :=
  match s with
  | [] => ([], [])
  | x :: r => if x =? c_gt then ([], s) else let '(a, b) := split_gt r in (x :: a, b)
  end.

Inductive gtmatch :=
| GtFull (s1 s2 s3 : str)   (* ptn1: prefix, one or two gt, non-empty gt-free rest *)
| GtOpen (s1 s2 : str)      (* ptn2: prefix, one or two gt, end *)
| GtNone.

Definition match_gt (w : str) : gtmatch :=
  let '(s1, r) := split_gt w in
  match r with
  | [] => GtNone
  | _ :: r1 =>   (* r1 follows the first > *)
    match r1 with
    | [] => GtOpen s1 [c_gt]
    | y :: r2 =>
      if y =? c_gt then
        match r2 with
        | [] => GtOpen s1 [c_gt; c_gt]
        | _ => if has_char c_gt r2 then GtNone else GtFull s1 [c_gt; c_gt] r2
        end
      else if has_char c_gt r1 then GtNone else GtFull s1 [c_gt] r1
    end
  end.

Definition s_one : str := [49]. Definition s_two : str := [50].
Definition s_amp1 : str := [c_amp; 49]. Definition s_amp2 : str := [c_amp; 50].

Record rst := mkr {
  r_new : list token; r_red : list redirection;
  r_tbc : bool; r_s1 : str; r_s2 : str }.

Definition redir_step (s : rst) (t : token) : rst + rerr :=
  let '(sep, word) := t in
  if negb (tag_eqb sep TNone) && negb (r_tbc s) then
    inl (mkr (r_new s ++ [t]) (r_red s) (r_tbc s) (r_s1 s) (r_s2 s))
  else if r_tbc s then
    if tag_eqb sep TNone && starts_with_c c_amp word then inr EBadNearAmp
    else if all_nd (r_s1 s) then
      if negb (str_eqb (r_s1 s) s_one) && negb (str_eqb (r_s1 s) s_two) then inr EBadFd3
      else inl (mkr (r_new s) (r_red s ++ [(r_s1 s, r_s2 s, word)]) false (r_s1 s) (r_s2 s))
    else
      let nw := if is_empty (r_s1 s) then r_new s else r_new s ++ [(sep, r_s1 s)] in
      inl (mkr nw (r_red s ++ [(s_one, r_s2 s, word)]) false (r_s1 s) (r_s2 s))
  else if negb (has_char c_gt word) then
    inl (mkr (r_new s ++ [t]) (r_red s) (r_tbc s) (r_s1 s) (r_s2 s))
  else match match_gt word with
  | GtFull s1 s2 s3 =>
      if starts_with_c c_amp s3 && negb (str_eqb s3 s_amp1) && negb (str_eqb s3 s_amp2) then inr EBadFd1
      else if all_nd s1 then
        if negb (str_eqb s1 s_one) && negb (str_eqb s1 s_two) then inr EBadFd2
        else inl (mkr (r_new s) (r_red s ++ [(s1, s2, s3)]) (r_tbc s) (r_s1 s) (r_s2 s))
      else
        let nw := if is_empty s1 then r_new s else r_new s ++ [(sep, s1)] in
        inl (mkr nw (r_red s ++ [(s_one, s2, s3)]) (r_tbc s) (r_s1 s) (r_s2 s))
  | GtOpen s1 s2 => inl (mkr (r_new s) (r_red s) true s1 s2)
  | GtNone => inl s    (* the token is silently dropped *)
  end.

Fixpoint redir_loop (s : rst) (l : list token) : rst + rerr :=
  match l with
  | [] => inl s
  | t :: r => match redir_step s t with inl s' => redir_loop s' r | inr e => inr e end
  end.

Definition tokens_to_redirections (l : list token) : (list token * list redirection) + rerr :=
  match redir_loop (mkr [] [] false [] []) l with
  | inl s => if r_tbc s then inr ESyntax else inl (r_new s, r_red s)
  | inr e => inr e
  end.

(** [parser_line::unquote] *)
Definition last_is (c : char) (s : str) : bool :=
  match rev s with x :: _ => x =? c | [] => false end.
Definition unquote (s : str) : str :=
  if starts_with_c c_dq s && last_is c_dq s then removelast (tl s)
  else if starts_with_c c_sq s && last_is c_sq s then removelast (tl s)
  else s.

(** * Command::from_tokens *)
Definition s_lt : str := [c_lt]. Definition s_lt3 : str := [c_lt; c_lt; c_lt].

Fixpoint position (w : str) (l : list token) : option nat :=
  match l with
  | [] => None
  | (tg, x) :: r => if tag_eqb tg TNone && str_eqb x w then Some 0%nat
                   else match position w r with Some n => Some (S n) | None => None end
  end.

Fixpoint remove_at {A} (n : nat) (l : list A) : list A :=
  match n, l with
  | _, [] => []
  | O, _ :: r => r
  | S n', x :: r => x :: remove_at n' r
  end.

Definition has_from (l : list token) : bool :=
  existsb (fun t => tag_eqb (fst t) TNone && (str_eqb (snd t) s_lt || str_eqb (snd t) s_lt3)) l.

(** one pass of the [while has_redirect_from] body for operator [w] *)
Definition take_from (w : str) (st : list token * str * str) : list token * str * str :=
  let '(l, ty, va) := st in
  match position w l with
  | None => st
  | Some idx =>
      let l1 := remove_at idx l in
      match nth_error l1 idx with
      | Some (_, v) => (remove_at idx l1, w, v)
      | None => (l1, w, va)
      end
  end.

Fixpoint from_loop (fuel : nat) (st : list token * str * str) : option (list token * str * str) :=
  let '(l, _, _) := st in
  if has_from l then
    match fuel with
    | O => None
    | S f => from_loop f (take_from s_lt3 (take_from s_lt st))
    end
  else Some st.

Record command := mkc {
  c_tokens : list token; c_redirs : list redirection; c_from : option (str * str) }.

(** [PEmpty]: "syntax error: empty command" -- [CommandLine::from_line] rejects a stage
    that is left without words after redirection extraction (types.rs, fix baff407). *)
Inductive perr := PRedir (e : rerr) | PFuel | PEmpty.

(** The function from the extraction loop on (the whole of it before /repo 543507e). *)
Definition from_tokens_core (l : list token) : command + perr :=
  match from_loop (S (length l)) (l, [], []) with
  | None => inr PFuel
  | Some (l', ty, va) =>
      match tokens_to_redirections l' with
      | inl (tk, rd) => inl (mkc tk rd (if is_empty ty then None else Some (ty, va)))
      | inr e => inr (PRedir e)
      end
  end.

(** /repo 543507e: [cmd <file] written without a blank.  Before the loop, an untagged word of more than
    one character that starts with one [<] (not [<<]) is split into [<] and the rest. *)
Definition att_lt (t : token) : bool :=
  match t with
  | (TNone, c :: c2 :: _) => (c =? c_lt) && negb (c2 =? c_lt)
  | _ => false
  end.
Definition split_lt (t : token) : list token :=
  if att_lt t then [(TNone, s_lt); (TNone, tl (snd t))] else [t].
Definition split_lts (l : list token) : list token := flat_map split_lt l.

Definition from_tokens (l : list token) : command + perr := from_tokens_core (split_lts l).

(** * split_tokens_by_pipes *)
Fixpoint split_pipes (l : list token) (cur : list token) (acc : list (list token))
  : list (list token) :=
  match l with
  | [] => if is_empty cur then [] else acc ++ [cur]
  | (sep, v) :: r =>
      if tag_eqb sep TNone && str_eqb v [c_pipe] then
        if is_empty cur then [] else split_pipes r [] (acc ++ [cur])
      else split_pipes r (cur ++ [(sep, v)]) acc
  end.

(** * drain_env_tokens (types.rs): name of alnum/underscore chars, =, then any rest (the pattern carries the s flag, so the rest may hold newlines) *)
Fixpoint split_env_aux (seen : bool) (name : str) (s : str) : option (str * str) :=
  match s with
  | [] => None
  | c :: r => if is_alnum_us c then split_env_aux true (name ++ [c]) r
              else if (c =? c_eq) && seen then Some (name, r)
              else None
  end.
Definition split_env (s : str) : option (str * str) := split_env_aux false [] s.

Fixpoint drain_envs (l : list token) (envs : list (str * str)) : list (str * str) * list token :=
  match l with
  | (TNone, text) :: r =>
      match split_env text with
      | Some (n, v) => drain_envs r (envs ++ [(n, unquote v)])
      | None => (envs, l)
      end
  | _ => (envs, l)
  end.

(** * CommandLine::from_line, given the tokens after expansion *)
Record cmdline := mkcl { cl_cmds : list command; cl_envs : list (str * str); cl_bg : bool }.

Fixpoint map_cmds (l : list (list token)) : list command + perr :=
  match l with
  | [] => inl []
  | t :: r => match from_tokens t with
              | inr e => inr e
              | inl c => if is_empty (c_tokens c) then inr PEmpty
                         else match map_cmds r with inl cs => inl (c :: cs) | inr e => inr e end
              end
  end.

Definition plan_tokens (toks : list token) : cmdline + perr :=
  let '(envs, toks) := drain_envs toks [] in
  let n := length toks in
  let is_bg := (Nat.ltb 1 n) && match rev toks with (tg, w) :: _ => tag_eqb tg TNone && str_eqb w [c_amp] | [] => false end in
  let toks := if is_bg then removelast toks else toks in
  match map_cmds (split_pipes toks [] []) with
  | inl cs => inl (mkcl cs envs is_bg)
  | inr e => inr e
  end.
