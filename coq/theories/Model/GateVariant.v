(** VARIANT model for the proposed repair notes/C10-fix-2.patch (not applied): the gate learns whether the token was
    written inside double quotes; there the alias-definition exemption (an equals sign, a single-quoted text holding a
    reference, at the end of the token) does not apply, because a single quote is an ordinary character. *)
From Coq Require Import ZArith.
From Cicada Require Import Base.Chars Base.Tag Base.Regex Gen.ShellRegexes Model.Expand.
Local Open Scope N_scope.

Definition env_in_tagged_token (t : str) (quoted : bool) : bool :=
  if rx_search rx_env_special t then true
  else if negb (rx_search rx_env_name t) then false
  else if rx_search rx_env_sub1 t || rx_search rx_env_sub2 t || rx_search rx_env_sub3 t then false
  else if quoted then true
  else negb (rx_search rx_env_alias t).

Definition env_sel_v (W : World) (t : token) : option str :=
  match fst t with
  | TBq | TSq => None
  | _ => if env_in_tagged_token (snd t) (tag_eqb (fst t) TDq) then Some (expand_env_once W (snd t)) else None
  end.
Definition expand_env_tok_v (W : World) (t : token) : token :=
  match fst t with
  | TBq | TSq => t
  | _ => if env_in_tagged_token (snd t) (tag_eqb (fst t) TDq) then (fst t, expand_env_once W (snd t)) else t
  end.
Definition expand_env_v (W : World) (toks : tokens) : tokens := text_pass (env_sel_v W) toks.
