(** scripting.rs: the interpreter over the pest pair tree.
    Transcription of run_lines / run_exp / run_exp_if / run_exp_test_br /
    run_exp_for / run_exp_while / get_for_var_name / get_for_result_list /
    get_for_result_from_init (scripting.rs:119-137, 223-451).

    The pair tree is read through [ttree]: rule, as_str().trim(), children --
    every use of as_str in these functions is trimmed first.

    Oracles (Section variables): the world [W] is the shell plus everything
    outside; [run_line] is expand_args followed by execute::run_command_line on
    one line and returns the statuses of the pipelines it ran (the CommandResult
    list); [for_words] is expand_line_to_toknes plus the word splitting of
    get_for_result_from_init for one TEST text; [set_var] is sh.set_env;
    [exit_on_error] reads sh.exit_on_error.

    Recursion: [d] bounds the nesting depth of the tree (every call into a
    child decrements it), [n] bounds the iterations of any single while loop
    (the Rust loop has no bound). No proofs here. *)
From Cicada Require Import Base.Chars Base.Peg Gen.LocustGrammar.
From Coq Require Import ZArith.
Local Open Scope N_scope.

(** parser_line::trim_cmd (since d2f4d24 run_exp and run_exp_test_br trim the pair text with it):
    trim, but a white-space character escaped by an odd number of trailing backslashes is kept.
    On texts whose trimmed form does not end in a backslash it is [trim]
    (Proofs/ScriptProofs.v, trim_cmd_is_trim); the pair tree [ttree] carries trim(as_str). *)
Fixpoint count_bs (r : str) : nat :=
  match r with
  | c :: r' => if c =? c_bs then S (count_bs r') else O
  | [] => O
  end.
Definition trim_cmd (s : str) : str :=
  let t := trim_start s in
  let trimmed := trim_end t in
  if Nat.ltb (length trimmed) (length t) then
    if Nat.odd (count_bs (rev trimmed)) then
      match skipn (length trimmed) t with
      | c :: _ => trimmed ++ [c]
      | [] => trimmed
      end
    else trimmed
  else trimmed.

Inductive outcome (W : Type) :=
| Done (w : W) (crs : list Z) (cont brk : bool)
| Panic
| OutOfFuel.
Arguments Done {W}. Arguments Panic {W}. Arguments OutOfFuel {W}.

(* result of run_exp_test_br: (cr_list, passed, cont, brk) *)
Inductive outcome_br (W : Type) :=
| DoneBr (w : W) (crs : list Z) (passed cont brk : bool)
| PanicBr
| OutOfFuelBr.
Arguments DoneBr {W}. Arguments PanicBr {W}. Arguments OutOfFuelBr {W}.

Definition kw_continue : str := [99; 111; 110; 116; 105; 110; 117; 101].
Definition kw_break : str := [98; 114; 101; 97; 107].

Fixpoint last_status (l : list Z) : option Z :=
  match l with
  | [] => None
  | [x] => Some x
  | _ :: l' => last_status l'
  end.

(** `if let Some(last) = list.last() { if last.status == 0 {...} }` *)
Definition last_is_zero (l : list Z) : bool :=
  match last_status l with Some z => Z.eqb z 0 | None => false end.
Definition last_is_nonzero (l : list Z) : bool :=
  match last_status l with Some z => negb (Z.eqb z 0) | None => false end.

Section Run.
Variable W : Type.
Variable run_line : W -> str -> W * list Z.
Variable for_words : W -> str -> W * list str.
Variable set_var : W -> str -> str -> W.
Variable exit_on_error : W -> bool.
Variable n : nat.   (* bound on the iterations of one while loop *)

(** get_for_var_name: first FOR_VAR inside the first FOR_INIT of the head that has one *)
Fixpoint find_for_var (inits : list ttree) : option str :=
  match inits with
  | [] => None
  | p :: r => if t_rule p =? L_FOR_VAR then Some (t_txt p) else find_for_var r
  end.

Fixpoint get_for_var_name_kids (kids : list ttree) : str :=
  match kids with
  | [] => []
  | p :: r =>
      if t_rule p =? L_FOR_INIT then
        match find_for_var (t_kids p) with
        | Some v => v
        | None => get_for_var_name_kids r
        end
      else get_for_var_name_kids r
  end.

(** get_for_result_from_init: every TEST child contributes its words *)
Fixpoint get_for_result_from_init (w : W) (kids : list ttree) (acc : list str) : W * list str :=
  match kids with
  | [] => (w, acc)
  | p :: r =>
      if t_rule p =? L_TEST then
        let '(w1, ws) := for_words w (t_txt p) in
        get_for_result_from_init w1 r (acc ++ ws)
      else get_for_result_from_init w r acc
  end.

(** get_for_result_list: the first FOR_INIT decides *)
Fixpoint get_for_result_list_kids (w : W) (kids : list ttree) : W * list str :=
  match kids with
  | [] => (w, [])
  | p :: r =>
      if t_rule p =? L_FOR_INIT then get_for_result_from_init w (t_kids p) []
      else get_for_result_list_kids w r
  end.

(** exit_requested (since 05253ef): exit-on-error is on and the last result so far failed *)
Definition exit_requested (w : W) (cr_list : list Z) : bool := exit_on_error w && last_is_nonzero cr_list.

(** The loop bodies, with the recursive calls into children abstracted
    (they are instantiated at depth d-1 below). *)
Section Loops.
Variable rec_exp : ttree -> bool -> W -> outcome W.
Variable rec_if : ttree -> bool -> W -> outcome W.
Variable rec_for : ttree -> W -> outcome W.
Variable rec_while : ttree -> W -> outcome W.
Variable rec_br : ttree -> bool -> W -> outcome_br W.

(* run_exp: `for pair in pairs` *)
Fixpoint exp_loop (in_loop : bool) (pairs : list ttree) (w : W) (cr_list : list Z) {struct pairs} : outcome W :=
  match pairs with
  | [] => Done w cr_list false false
  | pr :: rest =>
      let line := t_txt pr in
      if is_empty line then exp_loop in_loop rest w cr_list
      else
        let rule := t_rule pr in
        if rule =? L_CMD then
          if str_eqb line kw_continue then
            if in_loop then Done w cr_list true false else exp_loop in_loop rest w cr_list
          else if str_eqb line kw_break then
            if in_loop then Done w cr_list false true else exp_loop in_loop rest w cr_list
          else
            let '(w1, crs) := run_line w line in
            let cr_list1 := cr_list ++ crs in
            if last_is_nonzero cr_list1 && exit_on_error w1 then Done w1 cr_list1 false false   (* status != 0 && sh.exit_on_error *)
            else exp_loop in_loop rest w1 cr_list1
        else if rule =? L_EXP_IF then
          match rec_if pr in_loop w with
          | Done w1 crs c b =>
              let cr_list1 := cr_list ++ crs in
              if exit_requested w1 cr_list1 then Done w1 cr_list1 false false
              else if c then Done w1 cr_list1 true false
              else if b then Done w1 cr_list1 false true
              else exp_loop in_loop rest w1 cr_list1
          | x => x
          end
        else if rule =? L_EXP_FOR then
          match rec_for pr w with
          | Done w1 crs _ _ =>
              if exit_requested w1 (cr_list ++ crs) then Done w1 (cr_list ++ crs) false false
              else exp_loop in_loop rest w1 (cr_list ++ crs)
          | x => x
          end
        else if rule =? L_EXP_WHILE then
          match rec_while pr w with
          | Done w1 crs _ _ =>
              if exit_requested w1 (cr_list ++ crs) then Done w1 (cr_list ++ crs) false false
              else exp_loop in_loop rest w1 (cr_list ++ crs)
          | x => x
          end
        else exp_loop in_loop rest w cr_list
  end.

(* run_exp_test_br: `for pair in pairs` *)
Fixpoint br_loop (in_loop : bool) (pairs : list ttree) (w : W) (test_pass : bool) {struct pairs} : outcome_br W :=
  match pairs with
  | [] => DoneBr w [] test_pass false false
  | pr :: rest =>
      let rule := t_rule pr in
      if (rule =? L_IF_HEAD) || (rule =? L_IF_ELSEIF_HEAD) || (rule =? L_WHILE_HEAD) then
        match t_kids pr with
        | [] => PanicBr                       (* pairs_test[0] *)
        | pair_test :: _ =>
            let '(w1, crs) := run_line w (t_txt pair_test) in
            br_loop in_loop rest w1 (if last_is_zero crs then true else test_pass)
        end
      else if rule =? L_KW_ELSE then br_loop in_loop rest w true
      else if rule =? L_EXP_BODY then
        if negb test_pass then DoneBr w [] false false false
        else
          match rec_exp pr in_loop w with
          | Done w1 crs c b => DoneBr w1 crs true c b
          | Panic => PanicBr
          | OutOfFuel => OutOfFuelBr
          end
      else PanicBr                              (* unreachable!() *)
  end.

(* run_exp_if: `for pair in pairs` *)
Fixpoint if_loop (in_loop : bool) (pairs : list ttree) (w : W) (cr_list : list Z) (met_continue met_break : bool)
    {struct pairs} : outcome W :=
  match pairs with
  | [] => Done w cr_list met_continue met_break
  | pr :: rest =>
      match rec_br pr in_loop w with
      | DoneBr w1 crs passed c b =>
          if passed then Done w1 (cr_list ++ crs) c b
          else if_loop in_loop rest w1 (cr_list ++ crs) c b
      | PanicBr => Panic
      | OutOfFuelBr => OutOfFuel
      end
  end.

(* run_exp_for: `for value in &result_list` *)
Fixpoint for_values (body : ttree) (var_name : str) (vs : list str) (w : W) (cr_list : list Z) {struct vs} : outcome W :=
  match vs with
  | [] => Done w cr_list false false
  | value :: vs' =>
      match rec_exp body true (set_var w var_name value) with
      | Done w1 crs _ b =>
          if b || exit_requested w1 (cr_list ++ crs) then Done w1 (cr_list ++ crs) false false
          else for_values body var_name vs' w1 (cr_list ++ crs)
      | x => x
      end
  end.

(* run_exp_for: `for pair in pairs` *)
Fixpoint for_loop (pairs : list ttree) (w : W) (cr_list : list Z) (var_name : str) (result_list : list str)
    {struct pairs} : outcome W :=
  match pairs with
  | [] => Done w cr_list false false
  | pr :: rest =>
      let rule := t_rule pr in
      if rule =? L_FOR_HEAD then
        let var_name1 := get_for_var_name_kids (t_kids pr) in
        let '(w1, result_list1) := get_for_result_list_kids w (t_kids pr) in
        for_loop rest w1 cr_list var_name1 result_list1
      else if rule =? L_EXP_BODY then
        match for_values pr var_name result_list w cr_list with
        | Done w1 cr_list1 _ _ => for_loop rest w1 cr_list1 var_name result_list
        | x => x
        end
      else for_loop rest w cr_list var_name result_list
  end.

(* run_exp_while: `loop { ... }`, at most k iterations *)
Fixpoint while_iter (pair_while : ttree) (k : nat) (w : W) (cr_list : list Z) {struct k} : outcome W :=
  match k with
  | O => OutOfFuel
  | S k' =>
      match rec_br pair_while true w with
      | DoneBr w1 crs passed _ b =>
          if negb passed || b || exit_requested w1 (cr_list ++ crs) then Done w1 (cr_list ++ crs) false false
          else while_iter pair_while k' w1 (cr_list ++ crs)
      | PanicBr => Panic
      | OutOfFuelBr => OutOfFuel
      end
  end.
End Loops.

Fixpoint run_exp (d : nat) (pair_in : ttree) (in_loop : bool) (w : W) {struct d} : outcome W :=
  match d with
  | O => OutOfFuel
  | S d' => exp_loop (run_exp_if d') (run_exp_for d') (run_exp_while d') in_loop (t_kids pair_in) w []
  end
with run_exp_test_br (d : nat) (pair_br : ttree) (in_loop : bool) (w : W) {struct d} : outcome_br W :=
  match d with
  | O => OutOfFuelBr
  | S d' => br_loop (run_exp d') in_loop (t_kids pair_br) w false
  end
with run_exp_if (d : nat) (pair_if : ttree) (in_loop : bool) (w : W) {struct d} : outcome W :=
  match d with
  | O => OutOfFuel
  | S d' => if_loop (run_exp_test_br d') in_loop (t_kids pair_if) w [] false false
  end
with run_exp_for (d : nat) (pair_for : ttree) (w : W) {struct d} : outcome W :=
  match d with
  | O => OutOfFuel
  | S d' => for_loop (run_exp d') (t_kids pair_for) w [] [] []
  end
with run_exp_while (d : nat) (pair_while : ttree) (w : W) {struct d} : outcome W :=
  match d with
  | O => OutOfFuel
  | S d' => while_iter (run_exp_test_br d') pair_while n w []
  end.

(** run_lines on an already parsed text: one run_exp per top-level pair *)
Fixpoint run_pairs (d : nat) (pairs : list ttree) (w : W) (cr_list : list Z) : outcome W :=
  match pairs with
  | [] => Done w cr_list false false
  | p :: r =>
      match run_exp d p false w with
      | Done w1 crs _ _ => run_pairs d r w1 (cr_list ++ crs)
      | x => x
      end
  end.

(** run_lines: parse with the generated grammar; a parse error prints a
    diagnostic and yields the empty list. [None] = syntax error. *)
Definition run_lines (text : str) (w : W) : option (outcome W) :=
  match parse_from l_grammar L_EXP text with
  | POk _ _ pairs => Some (run_pairs (S (length text)) (map (annotate text) pairs) w [])
  | PFail => None
  | PFuel => Some OutOfFuel
  end.

End Run.
