(** Transcription of the calculator path of cicada:
    - [tools::is_arithmetic] (src/tools.rs): three regex searches;
    - the shortcut at the top of [parse_line] (src/parsers/parser_line.rs);
    - the pest grammar src/calculator/grammar.pest (hand-written tokenizer + PEG
      parser following pest's semantics: ordered choice, greedy repetition with
      roll-back of a failed iteration, implicit WHITESPACE* between the elements
      of sequences and repetitions of non-atomic rules, [num] atomic);
    - pest 2.8.0 [PrattParserMap::{parse,expr,nud,led,lbp}] (pratt_parser.rs), with
      the precedence table generated from the [.op(...)] chain (Gen/CalcTables.v);
    - [calculator::eval_int] on [Z] with explicit wrap to i64;
    - [core::run_calculator].
    No proofs here. *)
From Coq Require Import ZArith.
From Coq Require String.
From Cicada Require Import Base.Chars Gen.CalcTables.
Local Open Scope N_scope.

(* ------------------------------------------------------------------ *)
(** * is_arithmetic *)

Definition is_op_char (c : char) : bool :=
  (c =? 43) || (c =? 45) || (c =? 42) || (c =? 47) || (c =? 94).

(** the class opening the third regex: blank, digit, dot, parentheses, operators *)
Definition in_set_a (c : char) : bool :=
  (c =? 32) || is_digit c || (c =? 46) || (c =? 40) || (c =? 41) || is_op_char c.

(** the class of the last character: dot, digit, blank, closing parenthesis *)
Definition in_set_b (c : char) : bool :=
  (c =? 46) || is_digit c || (c =? 32) || (c =? 41).

(** unanchored search for one-or-more digits: some position starts a match *)
Fixpoint re1_search (l : str) : bool :=
  match l with
  | [] => false
  | c :: r => if is_digit c then true else re1_search r
  end.

(** unanchored search for the alternation of the five operator characters *)
Fixpoint re2_search (l : str) : bool :=
  match l with
  | [] => false
  | c :: r => if is_op_char c then true else re2_search r
  end.

(** anchored: start, class A one or more times, class B once, end of text.
    [re3_tail] is entered after at least one A; it either ends the match with a
    final B or takes one more A (back-tracking matcher). *)
Fixpoint re3_tail (l : str) : bool :=
  match l with
  | [] => false
  | c :: r => (in_set_b c && is_empty r) || (in_set_a c && re3_tail r)
  end.

Definition re3_match (l : str) : bool :=
  match l with
  | [] => false
  | c :: r => in_set_a c && re3_tail r
  end.

Definition is_arithmetic (l : str) : bool :=
  if negb (re1_search l) then false
  else if negb (re2_search l) then false
  else re3_match l.

(** [line.split(' ')]: pieces between blanks, empty pieces kept *)
Fixpoint split_sp_aux (cur : str) (l : str) : list str :=
  match l with
  | [] => [cur]
  | c :: r => if c =? 32 then cur :: split_sp_aux [] r else split_sp_aux (cur ++ [c]) r
  end.
Definition split_sp (l : str) : list str := split_sp_aux [] l.

(** the shortcut of [parse_line]: [Some tokens] when the line is arithmetic
    (every token has an empty separator), [None] = the ordinary tokenizer runs *)
Definition parse_line_arith (l : str) : option (list str) :=
  if is_arithmetic l then Some (split_sp l) else None.

(* ------------------------------------------------------------------ *)
(** * The grammar *)

Inductive op := Add | Sub | Mul | Div | Pow.

Definition op_eqb (a b : op) : bool :=
  match a, b with
  | Add, Add | Sub, Sub | Mul, Mul | Div, Div | Pow, Pow => true
  | _, _ => false
  end.

(** what pest hands to the Pratt parser: the children of an [expr] pair *)
Inductive pair (L : Type) :=
| PNum (l : L)
| PExpr (inner : list (pair L))
| POp (o : op).
Arguments PNum {L} l.
Arguments PExpr {L} inner.
Arguments POp {L} o.

Inductive pres (A : Type) := POk (a : A) | PFail | PFuel.
Arguments POk {A} a.
Arguments PFail {A}.
Arguments PFuel {A}.

Definition pbind {A B} (r : pres A) (k : A -> pres B) : pres B :=
  match r with POk a => k a | PFail => PFail | PFuel => PFuel end.

(** WHITESPACE = blank or tab, zero or more *)
Fixpoint skip_ws (s : str) : str :=
  match s with
  | c :: r => if (c =? 32) || (c =? 9) then skip_ws r else s
  | [] => []
  end.

(** ASCII_DIGIT* (greedy) *)
Fixpoint take_digits (s : str) : str * str :=
  match s with
  | c :: r => if is_digit c then let '(d, r') := take_digits r in (c :: d, r') else ([], s)
  | [] => ([], [])
  end.

(** int = optional sign, one or more digits *)
Definition p_int (s : str) : option (str * str) :=
  let '(sg, s1) := match s with
                   | c :: r => if (c =? 43) || (c =? 45) then ([c], r) else ([], s)
                   | [] => ([], s)
                   end in
  let '(ds, s2) := take_digits s1 in
  match ds with
  | [] => None
  | _ => Some (sg ++ ds, s2)
  end.

(** num (atomic): int, optional fraction (dot then digits), optional exponent
    (case-insensitive e, int); a failing optional part consumes nothing *)
Definition p_num (s : str) : option (str * str) :=
  match p_int s with
  | None => None
  | Some (t1, s1) =>
    let '(t2, s2) := match s1 with
                     | c :: r => if c =? 46 then let '(ds, r') := take_digits r in (c :: ds, r')
                                 else ([], s1)
                     | [] => ([], s1)
                     end in
    let '(t3, s3) := match s2 with
                     | c :: r => if (c =? 101) || (c =? 69) then
                                   match p_int r with
                                   | Some (ti, r') => (c :: ti, r')
                                   | None => ([], s2)
                                   end
                                 else ([], s2)
                     | [] => ([], s2)
                     end in
    Some (t1 ++ t2 ++ t3, s3)
  end.

(** operation = add | subtract | multiply | divide | power *)
Definition p_op (s : str) : option (op * str) :=
  match s with
  | c :: r => if c =? 43 then Some (Add, r) else if c =? 45 then Some (Sub, r)
              else if c =? 42 then Some (Mul, r) else if c =? 47 then Some (Div, r)
              else if c =? 94 then Some (Pow, r) else None
  | [] => None
  end.

(** expr = term ~ (operation ~ term)*   and   term = num | LPAREN ~ expr ~ RPAREN
    with the implicit skips. [p_rep] is pest's [repeat(sequence(skip, iteration))]:
    an iteration that fails leaves the position before its skip. *)
Fixpoint p_expr (fuel : nat) (s : str) : pres (list (pair str) * str) :=
  match fuel with
  | O => PFuel
  | S f =>
    pbind (p_term f s) (fun '(t, s1) =>
      let s2 := skip_ws s1 in
      match p_iter f s2 with
      | PFuel => PFuel
      | PFail => POk ([t], s2)
      | POk (o, t', s3) => p_rep f [t; POp o; t'] s3
      end)
  end
with p_rep (fuel : nat) (acc : list (pair str)) (s : str) : pres (list (pair str) * str) :=
  match fuel with
  | O => PFuel
  | S f =>
    match p_iter f (skip_ws s) with
    | PFuel => PFuel
    | PFail => POk (acc, s)
    | POk (o, t', s') => p_rep f (acc ++ [POp o; t']) s'
    end
  end
with p_iter (fuel : nat) (s : str) : pres (op * pair str * str) :=
  match fuel with
  | O => PFuel
  | S f =>
    match p_op s with
    | None => PFail
    | Some (o, s1) => pbind (p_term f (skip_ws s1)) (fun '(t, s2) => POk (o, t, s2))
    end
  end
with p_term (fuel : nat) (s : str) : pres (pair str * str) :=
  match fuel with
  | O => PFuel
  | S f =>
    match p_num s with
    | Some (n, r) => POk (PNum n, r)
    | None =>
      match s with
      | c :: r =>
        if c =? 40 then
          pbind (p_expr f (skip_ws r)) (fun '(inner, s1) =>
            match skip_ws s1 with
            | c' :: r' => if c' =? 41 then POk (PExpr inner, r') else PFail
            | [] => PFail
            end)
        else PFail
      | [] => PFail
      end
    end
  end.

Definition parse_fuel (s : str) : nat := 4 * length s + 8.

(** calculation = SOI ~ expr ~ EOI; the result is the list of children of the
    outer [expr] pair ([calc.next().unwrap().into_inner()]) *)
Definition parse_calc (s : str) : pres (list (pair str)) :=
  pbind (p_expr (parse_fuel s) (skip_ws s)) (fun '(ps, s1) =>
    match skip_ws s1 with
    | [] => POk ps
    | _ :: _ => PFail
    end).

(* ------------------------------------------------------------------ *)
(** * The Pratt parser of pest 2.8.0 *)

Inductive site :=
| SStruct.      (* the panics of nud / led / lbp on an ill-formed pair sequence, unreachable!() *)

Inductive res (A : Type) := Ok (a : A) | Panic (s : site) | OutOfFuel.
Arguments Ok {A} a.
Arguments Panic {A} s.
Arguments OutOfFuel {A}.

Definition bind {A B} (r : res A) (k : A -> res B) : res B :=
  match r with Ok a => k a | Panic s => Panic s | OutOfFuel => OutOfFuel end.

Module RuleNames.
  Import String.
  Local Open Scope string_scope.
  Definition rule_name (o : op) : string :=
    match o with
    | Add => "add" | Sub => "subtract" | Mul => "multiply" | Div => "divide" | Pow => "power"
    end.
End RuleNames.
Definition rule_name := RuleNames.rule_name.

(** [PrattParser::new()] starts at PREC_STEP = 10 and every [.op] adds 10 before inserting *)
Fixpoint lookup_row (n : String.string) (row : list (String.string * bool)) : option bool :=
  match row with
  | [] => None
  | (m, l) :: r => if String.eqb n m then Some l else lookup_row n r
  end.
Fixpoint lookup_ops (n : String.string) (prec : N) (rows : list (list (String.string * bool)))
  : option (N * bool) :=
  match rows with
  | [] => None
  | row :: rest =>
    let here := match lookup_row n row with Some l => Some (prec + 10, l) | None => None end in
    (* a later insertion of the same rule overrides an earlier one (BTreeMap::insert) *)
    match lookup_ops n (prec + 10) rest with
    | Some x => Some x
    | None => here
    end
  end.
Definition op_entry (o : op) : option (N * bool) := lookup_ops (rule_name o) 10 pratt_ops.
Definition prec_of (o : op) : N := match op_entry o with Some (p, _) => p | None => 0 end.
Definition is_left (o : op) : bool := match op_entry o with Some (_, l) => l | None => true end.

Section Pratt.
  Variable L T : Type.
  Variable prec : op -> N.
  Variable left : op -> bool.
  Variable prim_num : L -> res T.
  Variable infix : T -> op -> T -> res T.

  (** the right binding power handed to [expr] for the right operand *)
  Definition rb (o : op) : N := if left o then prec o else prec o - 1.

  (** [expr] = nud, then the while loop ([loop]); [primary] is the closure given
      to map_primary: a num is converted, a nested expr is parsed recursively
      from rbp 0 ([parse]). *)
  Fixpoint expr (fuel : nat) (ps : list (pair L)) (rbp : N) : res (T * list (pair L)) :=
    match fuel with
    | O => OutOfFuel
    | S f =>
      match ps with
      | [] => Panic SStruct                       (* Pratt parsing expects non-empty Pairs *)
      | POp _ :: _ => Panic SStruct               (* Expected prefix or primary expression *)
      | PNum l :: ps1 => bind (prim_num l) (fun lhs => loop f lhs ps1 rbp)
      | PExpr inner :: ps1 =>
        bind (bind (expr f inner 0) (fun '(v, _) => Ok v)) (fun lhs => loop f lhs ps1 rbp)
      end
    end
  with loop (fuel : nat) (lhs : T) (ps : list (pair L)) (rbp : N) : res (T * list (pair L)) :=
    match fuel with
    | O => OutOfFuel
    | S f =>
      match ps with
      | [] => Ok (lhs, [])                        (* lbp = 0, and rbp < 0 is false *)
      | POp o :: ps1 =>
        if rbp <? prec o then
          bind (expr f ps1 (rb o)) (fun '(rhs, ps2) =>
          bind (infix lhs o rhs) (fun v => loop f v ps2 rbp))
        else Ok (lhs, ps)
      | _ :: _ => Panic SStruct                   (* Expected operator *)
      end
    end.

  Definition pratt (fuel : nat) (ps : list (pair L)) : res T :=
    bind (expr fuel ps 0) (fun '(v, _) => Ok v).
End Pratt.
Arguments rb prec left o : assert.
Arguments expr {L T} prec left prim_num infix fuel ps rbp.
Arguments loop {L T} prec left prim_num infix fuel lhs ps rbp.
Arguments pratt {L T} prec left prim_num infix fuel ps.

(** number of pairs, nested ones included *)
Fixpoint psize {L} (p : pair L) : nat :=
  match p with
  | PExpr inner =>
    S ((fix go (l : list (pair L)) : nat :=
          match l with [] => O | x :: r => (psize x + go r)%nat end) inner)
  | _ => 1%nat
  end.
Fixpoint tot {L} (ps : list (pair L)) : nat :=
  match ps with
  | [] => O
  | p :: r => (psize p + tot r)%nat
  end.

Inductive tree (L : Type) := Leaf (l : L) | Node (o : op) (a b : tree L).
Arguments Leaf {L} l.
Arguments Node {L} o a b.

(** the Pratt parser instantiated to build the tree *)
Definition pratt_tree {L} (fuel : nat) (ps : list (pair L)) : res (tree L) :=
  pratt prec_of is_left (fun l => Ok (Leaf l)) (fun a o b => Ok (Node o a b)) fuel ps.

(* ------------------------------------------------------------------ *)
(** * eval_int *)
Local Open Scope Z_scope.

Definition i64_min : Z := - 2 ^ 63.
Definition i64_max : Z := 2 ^ 63 - 1.
Definition in_i64 (z : Z) : bool := (i64_min <=? z) && (z <=? i64_max).
Definition wrap64 (z : Z) : Z := (z + 2 ^ 63) mod 2 ^ 64 - 2 ^ 63.

(** decimal digits to a number *)
Fixpoint digits_val (acc : Z) (s : str) : option Z :=
  match s with
  | [] => Some acc
  | c :: r => if is_digit c then digits_val (10 * acc + (Z.of_N c - 48)) r else None
  end.

(** [str::parse::<i64>]: optional sign, one or more digits, in range *)
Definition parse_i64 (s : str) : option Z :=
  let '(neg, ds) := match s with
                    | c :: r => if (c =? 45)%N then (true, r) else if (c =? 43)%N then (false, r) else (false, s)
                    | [] => (false, s)
                    end in
  match ds with
  | [] => None
  | _ => match digits_val 0 ds with
         | None => None
         | Some v => let z := if neg then - v else v in
                     if in_i64 z then Some z else None
         end
  end.

(** [wrapping_pow(base, exp: u64)]: square and multiply with wrapping_mul; the
    loop runs while exp > 0 (at most 64 times) *)
Fixpoint wpow_loop (fuel : nat) (base exp acc : Z) : res Z :=
  match fuel with
  | O => OutOfFuel
  | S f =>
    if 0 <? exp then
      let acc' := if Z.odd exp then wrap64 (acc * base) else acc in
      wpow_loop f (wrap64 (base * base)) (exp / 2) acc'
    else Ok acc
  end.

Definition wrapping_pow (base exp : Z) : res Z := wpow_loop 65 base exp 1.

(** the value type of the closures: [Result<i64, &'static str>] *)
Inductive diag :=
| DRange       (* number out of range *)
| DNegExp.     (* negative exponent *)
Inductive ires := IVal (z : Z) | IDiag (d : diag).

(** the closure given to map_infix: [(lhs?, rhs?)] reports the left error first *)
Definition int_infix (lhs : ires) (o : op) (rhs : ires) : res ires :=
  match lhs with
  | IDiag d => Ok (IDiag d)
  | IVal x =>
    match rhs with
    | IDiag d => Ok (IDiag d)
    | IVal y =>
      match o with
      | Add => Ok (IVal (wrap64 (x + y)))
      | Sub => Ok (IVal (wrap64 (x - y)))
      | Mul => Ok (IVal (wrap64 (x * y)))
      | Div =>
        if y =? 0 then
          (* (lhs as f64 / 0.0) as i64 : inf, -inf or NaN, cast saturating *)
          Ok (IVal (if 0 <? x then i64_max else if x <? 0 then i64_min else 0))
        else Ok (IVal (wrap64 (Z.quot x y)))
      | Pow =>
        if y <? 0 then Ok (IDiag DNegExp)
        else bind (wrapping_pow x y) (fun v => Ok (IVal v))       (* rhs as u64 *)
      end
    end
  end.

(** the closure given to map_primary, for a num: parse::<i64>().map_err(..) *)
Definition int_prim (s : str) : res ires :=
  Ok (match parse_i64 s with Some z => IVal z | None => IDiag DRange end).

Definition eval_int (fuel : nat) (ps : list (pair str)) : res ires :=
  pratt prec_of is_left int_prim int_infix fuel ps.

(* ------------------------------------------------------------------ *)
(** * run_calculator *)

Inductive calc_result :=
| RSyntax                                (* Err("syntax error") *)
| RInt (r : res ires)                    (* eval_int(expr).map(format) : a value or a diagnostic *)
| RFloat (r : res (tree str))            (* float mode: the tree eval_float folds; values not modelled *)
| RFuel.

Definition has_dot (s : str) : bool := existsb (fun c => (c =? 46)%N) s.

Definition run_calculator (line : str) : calc_result :=
  match parse_calc line with
  | PFuel => RFuel
  | PFail => RSyntax
  | POk ps =>
    if has_dot line then RFloat (pratt_tree (2 * tot ps + 1) ps)
    else RInt (eval_int (2 * tot ps + 1) ps)
  end.

(** [try_run_calculator]: [None] = not an arithmetic line *)
Definition try_run_calculator (line : str) : option calc_result :=
  if is_arithmetic line then Some (run_calculator line) else None.
