(** The calculator grammar run through the generic pest interpreter
    (Base/Peg.v) on the grammar GENERATED from calculator/grammar.pest
    (Gen/CalcGrammar.v, tools/pest2coq.py), converted to the pair lists of
    Model/Calc.v. Used to tie the hand-written PEG model [parse_calc] (the one
    the theorems are about) to the grammar text: the two are compared on every
    string of the correspondence layer. No proofs here. *)
From Cicada Require Import Base.Chars Base.Peg Gen.CalcGrammar Model.Calc.
Local Open Scope N_scope.

Fixpoint name_of (r : N) (l : list (N * str)) : str :=
  match l with
  | [] => []
  | (k, n) :: l' => if k =? r then n else name_of r l'
  end.
Fixpoint id_of (n : str) (l : list (N * str)) : option N :=
  match l with
  | [] => None
  | (k, m) :: l' => if str_eqb n m then Some k else id_of n l'
  end.

Definition n_num : str := [110; 117; 109].
Definition n_expr : str := [101; 120; 112; 114].
Definition n_add : str := [97; 100; 100].
Definition n_subtract : str := [115; 117; 98; 116; 114; 97; 99; 116].
Definition n_multiply : str := [109; 117; 108; 116; 105; 112; 108; 121].
Definition n_divide : str := [100; 105; 118; 105; 100; 101].
Definition n_power : str := [112; 111; 119; 101; 114].
Definition n_calculation : str := [99; 97; 108; 99; 117; 108; 97; 116; 105; 111; 110].

(** a pest pair to a pair of Model/Calc.v; [None] for a rule the calculator does not expect *)
Fixpoint conv (src : str) (t : Peg.tree) : option (pair str) :=
  match t with
  | Peg.Node r s e kids =>
    let n := name_of r k_names in
    if str_eqb n n_num then Some (PNum (sub src s e))
    else if str_eqb n n_add then Some (POp Add)
    else if str_eqb n n_subtract then Some (POp Sub)
    else if str_eqb n n_multiply then Some (POp Mul)
    else if str_eqb n n_divide then Some (POp Div)
    else if str_eqb n n_power then Some (POp Pow)
    else if str_eqb n n_expr then
      match (fix go (l : list Peg.tree) : option (list (pair str)) :=
               match l with
               | [] => Some []
               | k :: l' => match conv src k, go l' with
                            | Some p, Some ps => Some (p :: ps)
                            | _, _ => None
                            end
               end) kids with
      | Some ps => Some (PExpr ps)
      | None => None
      end
    else None
  end.

Inductive peg_result := GOk (ps : list (pair str)) | GFail | GFuel | GBad.

(** [calculate(line)] then [calc.next().unwrap().into_inner()] *)
Definition peg_pairs (line : str) : peg_result :=
  match id_of n_calculation k_names with
  | None => GBad
  | Some start =>
    match parse_from k_grammar start line with
    | Peg.PFail => GFail
    | Peg.PFuel => GFuel
    | Peg.POk _ _ kids =>
      match kids with
      | first :: _ =>
        match conv line first with
        | Some (PExpr ps) => GOk ps
        | _ => GBad
        end
      | [] => GBad
      end
    end
  end.
