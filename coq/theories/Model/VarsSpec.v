(** C09 -- the abstract store of the property (reference semantics), the rendering of an
    abstract operation as the token list the shell sees.  Definitions only. *)
From Cicada Require Import Base.Chars Model.Vars.
Local Open Scope N_scope.

(* ------------------------------------------------------------------ operations *)
Inductive qstyle := QSq | QDq | QBare.
Record asg := mkasg { a_name : str; a_val : str; a_q : qstyle }.

Definition quote_val (q : qstyle) (v : str) : str :=
  match q with
  | QSq => c_sq :: v ++ [c_sq]
  | QDq => c_dq :: v ++ [c_dq]
  | QBare => v
  end.

(** how the tokenizer leaves  NAME='value' : one untagged token, quotes still inside *)
Definition asg_token (a : asg) : token :=
  (TNone, a_name a ++ c_eq :: quote_val (a_q a) (a_val a)).
Definition asg_pair (a : asg) : str * str := (a_name a, a_val a).

Inductive op :=
| Assign (ps : list asg)                                   (* NAME=v ... alone on the line *)
| Prefixed (ps : list asg) (prog : str) (args : list token)  (* NAME=v ... prog args *)
| Export (ps : list asg)                                   (* export NAME=v ... *)
| Unset (n : str)
| Read (ps : list asg) (names : list str) (line : str)     (* [IFS=..] read names <<< line *)
| Cd (arg : option str)
| Ref (n : str).                                           (* what does a reference to n expand to *)

Definition plain (s : str) : token := (TNone, s).

Definition render (o : op) : cmd :=
  match o with
  | Assign ps => CRun (map asg_token ps) None
  | Prefixed ps prog args => CRun (map asg_token ps ++ plain prog :: args) None
  | Export ps => CRun (plain s_export :: map asg_token ps) None
  | Unset n => CRun [plain s_unset; plain n] None
  | Read ps names line => CRun (map asg_token ps ++ plain s_read :: map plain names) (Some line)
  | Cd None => CRun [plain s_cd] None
  | Cd (Some a) => CRun [plain s_cd; plain a] None
  | Ref n => CProbe n
  end.

(* ------------------------------------------------------------------ the abstract store *)
(** name -> (value, exported?), cwd, the directory before the last change.  [ghost] is
    bookkeeping for the classifier only (the shell-local value that an export left behind);
    no specified observation reads it. *)
Record ast := mkast {
  vars : list (str * (str * bool));
  ghost : alist;
  acwd : str;
  aold : str
}.

Definition vget (a : ast) (n : str) : option (str * bool) := aget (vars a) n.

Definition is_exported (a : ast) (n : str) : bool :=
  match vget a n with Some (_, true) => true | _ => false end.

Definition spec_assign1 (a : ast) (n v : str) : ast :=
  mkast (aset (vars a) n (v, is_exported a n)) (ghost a) (acwd a) (aold a).

(** putting a name into the environment (what cd does with PWD, and export before the repair) *)
Definition spec_setenv1 (a : ast) (n v : str) : ast :=
  mkast (aset (vars a) n (v, true))
        (match vget a n with
         | Some (lv, false) => aset (ghost a) n lv
         | Some (_, true) => ghost a
         | None => adel (ghost a) n
         end) (acwd a) (aold a).

Definition spec_export1 (a : ast) (n v : str) : ast :=
  mkast (aset (vars a) n (v, true)) (adel (ghost a) n) (acwd a) (aold a).

Definition spec_unset1 (a : ast) (n : str) : ast :=
  mkast (adel (vars a) n) (adel (ghost a) n) (acwd a) (aold a).

Fixpoint spec_assign (a : ast) (ps : list (str * str)) : ast :=
  match ps with [] => a | (n, v) :: r => spec_assign (spec_assign1 a n v) r end.
Fixpoint spec_export (a : ast) (ps : list (str * str)) : ast :=
  match ps with [] => a | (n, v) :: r => spec_export (spec_export1 a n v) r end.

(** what a child started with the per-command pairs [ps] finds under the name m *)
Definition spec_child (a : ast) (ps : alist) (m : str) : option str :=
  match aget ps m with
  | Some v => Some v
  | None => match vget a m with Some (v, true) => Some v | _ => None end
  end.

(* ---- read: cut the line at every separator; the last name gets the rest verbatim *)
(** the value of IFS in effect: per-command, else the store; empty or unset = default *)
Definition spec_ifs (a : ast) (ps : alist) : str :=
  match aget ps s_IFS with
  | Some x => x
  | None => match vget a s_IFS with Some (x, _) => x | None => [] end
  end.
Definition spec_seps (a : ast) (ps : alist) : str :=
  if is_empty (spec_ifs a ps) then default_seps else spec_ifs a ps.

(** POSIX reading (what bash does for these separators): with the default IFS a RUN of blanks
    separates two fields and blanks at the ends of the line are dropped; with a custom IFS every
    separator character cuts.  The last of k names gets the rest of the line verbatim (default IFS:
    without the blanks at its ends). *)
Fixpoint cut_runs (dflt : bool) (seps : str) (k : nat) (s : option str) : list str :=
  match k with
  | O => []
  | S k' =>
      match k' with
      | O => [match s with Some x => if dflt then trim_seps seps x else x | None => [] end]
      | S _ => match s with
               | None => [] :: cut_runs dflt seps k' None
               | Some x => let x1 := if dflt then drop_seps seps x else x in
                           let (f, o) := break_sep seps x1 in f :: cut_runs dflt seps k' o
               end
      end
  end.

Definition read_names (names : list str) : list str :=
  match names with [] => [s_REPLY] | _ => names end.

Definition input_line (line : str) : str := trim (line ++ [c_nl]).

Definition spec_read (a : ast) (ps : alist) (names : list str) (line : str) : ast :=
  let ns := read_names names in
  spec_assign a (combine ns
    (cut_runs (is_empty (spec_ifs a ps)) (spec_seps a ps) (length ns) (Some (input_line line)))).

(* ---- cd *)
Definition join_path (cur p : str) : str :=
  if starts_with c_slash p then p else cur ++ c_slash :: p.

(** the directory an absolute path denotes, if it denotes one that can be entered *)
Definition resolve (w : world) (full : str) : option str :=
  if w_exists w full then
    match w_canon w full with
    | Some d => if w_chdir w d then Some d else None
    | None => None
    end
  else None.

Definition cd_target (a : ast) (arg : option str) : option str :=
  let t := match arg with
           | Some x => Some x
           | None => match vget a s_HOME with Some (h, _) => Some h | None => None end
           end in
  match t with
  | None => None
  | Some x => if str_eqb x s_dash then (if is_empty (aold a) then None else Some (aold a))
              else Some (join_path (acwd a) x)
  end.

Definition spec_cd (w : world) (a : ast) (arg : option str) : ast * bool :=
  match cd_target a arg with
  | None => (a, false)
  | Some full =>
      match resolve w full with
      | None => (a, false)
      | Some d =>
          if str_eqb (acwd a) d then (a, true)
          else let a1 := spec_setenv1 a s_PWD d in
               (mkast (vars a1) (ghost a1) d (acwd a), true)
      end
  end.

(* ---- observations of the specification *)
Inductive sout :=
| SStatus (ok : bool)
| SChild (argv : list str) (view : str -> option str) (dir : str)
| SVal (v : option str).

Definition spec_step (w : world) (a : ast) (o : op) : ast * sout :=
  match o with
  | Assign ps => (spec_assign a (map asg_pair ps), SStatus true)
  | Prefixed ps prog args =>
      (a, SChild (prog :: map snd args) (spec_child a (map asg_pair ps)) (acwd a))
  | Export ps => (spec_export a (map asg_pair ps), SStatus true)
  | Unset n => (spec_unset1 a n, SStatus true)
  | Read ps names line => (spec_read a (map asg_pair ps) names line, SStatus true)
  | Cd arg => let (a', ok) := spec_cd w a arg in (a', SStatus ok)
  | Ref n => (a, SVal (match vget a n with Some (v, _) => Some v | None => None end))
  end.

(* ------------------------------------------------------------------ well-formed operations *)
Definition nodupb (l : list str) : bool :=
  (fix go (l : list str) : bool :=
     match l with
     | [] => true
     | x :: r => negb (existsb (str_eqb x) r) && go r
     end) l.

Definition wf_asg (a : asg) : bool :=
  valid_ident (a_name a) && negb (has_nl (a_val a)) && negb (memb c_tilde (a_val a)) &&
  match a_q a with QBare => str_eqb (unquote (a_val a)) (a_val a) | _ => true end.

Definition is_modelled_builtin (p : str) : bool :=
  str_eqb p s_cd || str_eqb p s_export || str_eqb p s_read || str_eqb p s_unset.

Definition wf_prefix (ps : list asg) : bool :=
  forallb wf_asg ps && nodupb (map a_name ps).

Definition wf_op (o : op) : bool :=
  match o with
  | Assign ps => wf_prefix ps && negb (is_empty ps)
  | Prefixed ps prog args =>
      wf_prefix ps && negb (is_modelled_builtin prog) &&
      match split_env_loose prog with None => true | Some _ => false end
  | Export ps => forallb wf_asg ps
  | Unset n => valid_ident n
  | Read ps names line => wf_prefix ps && forallb valid_ident names
  | Cd _ => true
  | Ref _ => true
  end.

(* ------------------------------------------------------------------ histories *)
Fixpoint spec_hist (w : world) (a : ast) (ops : list op) : ast * list sout :=
  match ops with
  | [] => (a, [])
  | o :: r => let (a1, so) := spec_step w a o in
              let (a2, sos) := spec_hist w a1 r in (a2, so :: sos)
  end.

(** State invariant of the repaired shell: an exported IFS has no stale shell-local IFS behind
    it (export removes the local binding, 217a8a1).  [ghost] is the bookkeeping of such leftovers;
    a fresh shell has none. *)
Definition shadow_free (a : ast) : Prop := is_exported a s_IFS = true -> aget (ghost a) s_IFS = None.

(** the abstraction function *)
Definition abs (c : st) : ast :=
  mkast (map (fun p => (fst p, (snd p, true))) (envp c) ++
         map (fun p => (fst p, (snd p, false))) (locals c))
        (locals c) (cwd c) (prev c).

(** does the operation assign, export, unset or read into the name? *)
Definition touches (n : str) (o : op) : bool :=
  match o with
  | Assign ps | Export ps => existsb (fun p => str_eqb (a_name p) n) ps
  | Unset m => str_eqb m n
  | Read _ names _ => existsb (fun m => str_eqb m n) (read_names names)
  | _ => false
  end.
