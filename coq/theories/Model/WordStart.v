(** Transcription of [completers::escaped_word_start] (src/completers/mod.rs:113-152).
    The function walks the CHARS of the text before the cursor and returns a
    BYTE offset, which lineread then uses as [&buffer[start..end]] (and
    panics itself if [start > end]): the result must be a char boundary of
    the text, not past its end.  [extra_bytes] is the running difference
    between byte and char position. *)
From Cicada Require Import Base.Chars Model.Highlight.
Local Open Scope N_scope.

Record wst := mkw {
  w_start : nat; w_bs : bool; w_space : bool; w_quote : bool; w_ch : char; w_extra : nat }.

Definition wst0 := mkw 0 false false false 0 0.

(** one iteration of [for (i, c) in line.chars().enumerate()] *)
Definition ws_step (s : wst) (i : nat) (c : char) : wst :=
  let start := if w_space s then (i + w_extra s)%nat else w_start s in
  (* found_space is cleared at the top of the iteration *)
  if c =? c_bs then mkw start true false (w_quote s) (w_ch s) (w_extra s)
  else if (c =? c_space) && negb (w_bs s) && negb (w_quote s)
  then mkw start (w_bs s) true (w_quote s) (w_ch s) (w_extra s)
  else
    let '(q, ch) :=
      if negb (w_quote s) && negb (w_bs s) && ((c =? c_dq) || (c =? c_sq)) then (true, c)
      else if w_quote s && negb (w_bs s) && (w_ch s =? c) then (false, w_ch s)
      else (w_quote s, w_ch s) in
    let extra := if Nat.ltb 1 (utf8_len c) then (w_extra s + (utf8_len c - 1))%nat else w_extra s in
    mkw start false false q ch extra.

Fixpoint ws_loop (s : wst) (i : nat) (l : str) : wst :=
  match l with
  | [] => s
  | c :: r => ws_loop (ws_step s i c) (S i) r
  end.

Definition escaped_word_start (l : str) : nat :=
  let s := ws_loop wst0 0 l in
  if w_space s then blen l else w_start s.
