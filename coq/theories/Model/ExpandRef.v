(** Reference semantics the properties C10 / C11 / C12 are stated against
    (definitions only; they are also extracted and used as oracles by the drivers). *)
From Coq Require Import ZArith.
From Cicada Require Import Base.Chars Base.Tag Model.Expand.
Local Open Scope N_scope.

(* ------------------------------------------------------------------ C10: words as segment lists *)
(** a word of the quantifier: literal characters and references [$KEY] / [${KEY}] *)
Inductive piece := PLit (c : char) | PRef (braced : bool) (key : str).

Definition render_piece (p : piece) : str :=
  match p with
  | PLit c => [c]
  | PRef false k => 36 :: k
  | PRef true k => 36 :: 123 :: k ++ [125]
  end.
Definition render_pieces (ps : list piece) : str := flat_map render_piece ps.

(** one left-to-right pass; the inserted value is never looked at again *)
Definition den_piece (W : World) (p : piece) : str :=
  match p with
  | PLit c => [c]
  | PRef _ k => key_value W k
  end.
Definition den_pieces (W : World) (ps : list piece) : str := flat_map (den_piece W) ps.

Definition is_name (k : str) : bool :=
  match k with
  | c :: r => is_name_start c && forallb is_alnum_us r
  | [] => false
  end.
Definition wf_key (k : str) : bool := is_name k || str_eqb k [36] || str_eqb k [63].

(** literals are not dollars (a dollar that starts no reference is outside the domain);
    an unbraced name is maximal: the next literal is not a name character *)
Fixpoint wf_pieces (ps : list piece) : bool :=
  match ps with
  | [] => true
  | PLit c :: r => negb (c =? 36) && wf_pieces r
  | PRef b k :: r =>
      wf_key k
      && (b || negb (is_name k) || match r with PLit c :: _ => negb (is_alnum_us c) | _ => true end)
      && wf_pieces r
  end.

Definition is_ref (p : piece) : bool := match p with PRef _ _ => true | PLit _ => false end.
Definition count_refs (ps : list piece) : nat := length (filter is_ref ps).

(* ------------------------------------------------------------------ C12: brace terms *)
(** term ::= empty | char term | { alt , ... , alt } term *)
Inductive term :=
| TEnd
| TChr (c : char) (k : term)
| TGrp (a : alts) (k : term)
with alts :=
| AOne (t : term)
| ACons (t : term) (a : alts).

Fixpoint render_term (t : term) : str :=
  match t with
  | TEnd => []
  | TChr c k => c :: render_term k
  | TGrp a k => 123 :: render_alts a ++ 125 :: render_term k
  end
with render_alts (a : alts) : str :=
  match a with
  | AOne t => render_term t
  | ACons t a' => render_term t ++ 44 :: render_alts a'
  end.

(** left-to-right cartesian product *)
Fixpoint den_term (t : term) : list str :=
  match t with
  | TEnd => [[]]
  | TChr c k => map (cons c) (den_term k)
  | TGrp a k => product (den_alts a) (den_term k)
  end
with den_alts (a : alts) : list str :=
  match a with
  | AOne t => den_term t
  | ACons t a' => den_term t ++ den_alts a'
  end.

Definition brace_plain (c : char) : bool :=
  negb ((c =? 123) || (c =? 125) || (c =? 44) || (c =? 92)).

(** plain characters are none of the four brace-syntax characters; every group has
    at least two alternatives (a group with one is not a brace expansion) *)
Fixpoint wf_term (t : term) : bool :=
  match t with
  | TEnd => true
  | TChr c k => brace_plain c && wf_term k
  | TGrp a k => (match a with AOne _ => false | ACons _ _ => true end) && wf_alts a && wf_term k
  end
with wf_alts (a : alts) : bool :=
  match a with
  | AOne t => wf_term t
  | ACons t a' => wf_term t && wf_alts a'
  end.

(* ------------------------------------------------------------------ C12: ranges *)
(** inclusive arithmetic sequence from [a] toward [b] with step [max 1 s] *)
Definition range_ref (a b s : Z) : list Z :=
  let st := Z.max 1 s in
  if (a <=? b)%Z
  then map (fun k => (a + Z.of_nat k * st)%Z) (seq 0 (S (Z.to_nat ((b - a) / st))))
  else map (fun k => (a - Z.of_nat k * st)%Z) (seq 0 (S (Z.to_nat ((a - b) / st)))).

(* ------------------------------------------------------------------ C10: words the gate lets through *)
(** env_in_token (the gate in front of the scan, unchanged by e586def) exempts tokens shaped like
    NAME=`..`, NAME=$(..), $(..) and ..='..$NAME..': each of these needs an open paren, or an equals
    sign together with a backquote or a single quote.  A word none of whose LITERAL characters can
    take part in such a shape is always expanded; [noeq] selects which of the two ways it avoids
    the equals-and-quote shapes.  Values are not restricted in any way. *)
Definition okg (noeq : bool) (c : char) : bool :=
  negb (c =? 40) && (if noeq then negb (c =? 61) else negb (c =? 96) && negb (c =? 39)).
Definition lits_okg (noeq : bool) (ps : list piece) : bool :=
  forallb (fun p => match p with PLit c => okg noeq c | PRef _ _ => true end) ps.
Definition gate_ok (ps : list piece) : bool := lits_okg true ps || lits_okg false ps.

(** ... for a DOUBLE-quoted word (since 8dc686a the alias-definition exemption does not apply there) a single quote is
    harmless: only an open paren, or an equals sign together with a backquote, can make an exemption shape. *)
Definition okq (noeq : bool) (c : char) : bool := negb (c =? 40) && (if noeq then negb (c =? 61) else negb (c =? 96)).
Definition lits_okq (noeq : bool) (ps : list piece) : bool :=
  forallb (fun p => match p with PLit c => okq noeq c | PRef _ _ => true end) ps.
Definition gate_ok_dq (ps : list piece) : bool := lits_okq true ps || lits_okq false ps.
