(** Transcription of [parsers::parser_line::parse_line] (src/parsers/parser_line.rs:164-473)
    and of [tools::is_arithmetic]. One step per character, one-character
    look-ahead passed as [next]. [tok] and [res] are kept REVERSED (cons = push).
    The step function tests the character only through [classify] (13 classes),
    so proofs do one [destruct (classify c)].
    Validated against the Rust function on all 2,000,719 strings of length <= 5
    over an 18-symbol alphabet (round 0) and on every run by drive/c01.py. *)
From Cicada Require Import Base.Chars Base.Tag.
Local Open Scope N_scope.

Definition quote_tag (c : char) : option tag :=
  if c =? c_sq then Some TSq else if c =? c_dq then Some TDq
  else if c =? c_bq then Some TBq else None.

Inductive cls := KSpace | KDq | KHash | KDollar | KSq | KLp | KRp | KLt | KGt | KBs | KBq | KPipe | KOther.
Definition classify (c : char) : cls :=
  if c =? 32 then KSpace else if c =? 34 then KDq else if c =? 35 then KHash
  else if c =? 36 then KDollar else if c =? 39 then KSq else if c =? 40 then KLp
  else if c =? 41 then KRp else if c =? 60 then KLt else if c =? 62 then KGt
  else if c =? 92 then KBs else if c =? 96 then KBq else if c =? 124 then KPipe else KOther.
Definition cls_eqb (a b : cls) : bool :=
  match a, b with
  | KSpace, KSpace | KDq, KDq | KHash, KHash | KDollar, KDollar | KSq, KSq | KLp, KLp
  | KRp, KRp | KLt, KLt | KGt, KGt | KBs, KBs | KBq, KBq | KPipe, KPipe | KOther, KOther => true
  | _, _ => false
  end.
Definition quote_tag_k (k : cls) : option tag :=
  match k with KSq => Some TSq | KDq => Some TDq | KBq => Some TBq | _ => None end.


(* ^[a-zA-Z0-9_]+=.*$   ('.' does not match \n) *)
Fixpoint no_nl (s : str) : bool :=
  match s with [] => true | c :: r => negb (c =? 10) && no_nl r end.
Fixpoint is_an_env_aux (seen : bool) (s : str) : bool :=
  match s with
  | [] => false
  | c :: r => if is_alnum_us c then is_an_env_aux true r
              else if c =? c_eq then seen && no_nl r else false
  end.
Definition is_an_env (s : str) := is_an_env_aux false s.

Record st := mk {
  res : list (tag * str);      (* reversed *)
  sep : tag; sep2 : tag; tok : str (* reversed *);
  has_bs : bool; met_paren : bool; new_round : bool; skip_next : bool;
  has_dollar : bool; pli : bool; sep_made : tag; semi_ok : bool }.

Definition st0 := mk [] TNone TNone [] false false true false false false TNone false.

Definition push_c (s : st) (c : char) : st :=
  mk (res s) (sep s) (sep2 s) (c :: tok s) (has_bs s) (met_paren s) (new_round s)
     (skip_next s) (has_dollar s) (pli s) (sep_made s) (semi_ok s).

(* the recurring "result.push((sep_made or X, token))" idiom *)
Definition emit (s : st) (dflt : tag) : st :=
  if tag_eqb (sep s) TNone && negb (tag_eqb (sep_made s) TNone)
  then mk ((sep_made s, rev (tok s)) :: res s) (sep s) (sep2 s) (tok s) (has_bs s)
          (met_paren s) (new_round s) (skip_next s) (has_dollar s) (pli s) TNone (semi_ok s)
  else mk ((dflt, rev (tok s)) :: res s) (sep s) (sep2 s) (tok s) (has_bs s)
          (met_paren s) (new_round s) (skip_next s) (has_dollar s) (pli s) (sep_made s) (semi_ok s).

Definition push_tok (s : st) (t : tag * str) : st :=
  mk (t :: res s) (sep s) (sep2 s) (tok s) (has_bs s) (met_paren s) (new_round s)
     (skip_next s) (has_dollar s) (pli s) (sep_made s) (semi_ok s).

Definition reset_round (s : st) (clear_semi : bool) : st :=
  mk (res s) TNone TNone [] (has_bs s) (met_paren s) true (skip_next s) (has_dollar s)
     (pli s) (sep_made s) (if clear_semi then false else semi_ok s).

Inductive outcome := Cont (s : st) | Break (s : st).

Definition step (s : st) (c : char) (next : option char) : outcome :=
  let k := classify c in
  if skip_next s then
    Cont (mk (res s) (sep s) (sep2 s) (tok s) (has_bs s) (met_paren s) (new_round s) false
             (has_dollar s) (pli s) (sep_made s) (semi_ok s))
  else if has_bs s && tag_eqb (sep s) TNone && ((cls_eqb k KGt) || (cls_eqb k KLt)) then
    Cont (mk (res s) (sep s) (sep2 s) (c :: tok s) false (met_paren s) false false
             (has_dollar s) (pli s) TSq (semi_ok s))
  else if has_bs s && tag_eqb (sep s) TDq && negb (cls_eqb k KDq) then
    Cont (mk (res s) (sep s) (sep2 s) (c :: c_bs :: tok s) false (met_paren s) (new_round s) false
             (has_dollar s) (pli s) (sep_made s) (semi_ok s))
  else if has_bs s then
    if new_round s && tag_eqb (sep s) TNone && ((cls_eqb k KPipe) || (cls_eqb k KDollar)) &&
       match tok s with [] => true | _ => false end
    then Cont (mk (res s) TBs (sep2 s) [c] false (met_paren s) false false
                  (has_dollar s) (pli s) (sep_made s) (semi_ok s))
    else Cont (mk (res s) (sep s) (sep2 s) (c :: tok s) false (met_paren s) false false
                  (has_dollar s) (pli s) (sep_made s) (semi_ok s))
  else
  let s := if cls_eqb k KDollar
           then mk (res s) (sep s) (sep2 s) (tok s) (has_bs s) (met_paren s) (new_round s)
                   (skip_next s) true (pli s) (sep_made s) (semi_ok s)
           else s in
  (* '(' *)
  let lp_ignored := (cls_eqb k KLp) && tag_eqb (sep s) TNone && negb (has_dollar s) &&
                    match tok s with [] => true | _ => false end in
  if lp_ignored then
    Cont (mk (res s) (sep s) (sep2 s) (tok s) (has_bs s) (met_paren s) (new_round s)
             (skip_next s) (has_dollar s) true (sep_made s) (semi_ok s))
  else
  let s := if (cls_eqb k KLp) && tag_eqb (sep s) TNone
           then mk (res s) (sep s) (sep2 s) (tok s) (has_bs s) true (new_round s)
                   (skip_next s) (has_dollar s) (pli s) (sep_made s) (semi_ok s)
           else s in
  (* ')' *)
  let rp_ignored := (cls_eqb k KRp) && pli s && negb (has_dollar s) &&
                    match next with None => true | Some n => cls_eqb (classify n) KSpace end in
  if rp_ignored then Cont s else
  let s := if (cls_eqb k KRp) && tag_eqb (sep s) TNone
           then mk (res s) (sep s) (sep2 s) (tok s) (has_bs s) false (new_round s)
                   (skip_next s) (has_dollar s) (pli s) (sep_made s) (semi_ok s)
           else s in
  if cls_eqb k KBs then
    if tag_eqb (sep s) TSq || negb (tag_eqb (sep2 s) TNone)
    then Cont (push_c s c)
    else Cont (mk (res s) (sep s) (sep2 s) (tok s) true (met_paren s) (new_round s)
                  (skip_next s) (has_dollar s) (pli s) (sep_made s) (semi_ok s))
  else if new_round s then
    if cls_eqb k KSpace then Cont s
    else match quote_tag_k k with
    | Some q => Cont (mk (res s) q (sep2 s) (tok s) (has_bs s) (met_paren s) false
                         (skip_next s) (has_dollar s) (pli s) (sep_made s) (semi_ok s))
    | None =>
      let s := mk (res s) TNone (sep2 s) (tok s) (has_bs s) (met_paren s) (new_round s)
                  (skip_next s) (has_dollar s) (pli s) (sep_made s) (semi_ok s) in
      if cls_eqb k KHash then Break s
      else if cls_eqb k KPipe then
        match next with
        | Some n => if cls_eqb (classify n) KPipe
                    then Cont (let s' := push_tok s (TNone, [c_pipe; c_pipe]) in
                               mk (res s') (sep s') (sep2 s') (tok s') (has_bs s') (met_paren s')
                                  true true (has_dollar s') (pli s') (sep_made s') (semi_ok s'))
                    else Cont (push_tok s (TNone, [c_pipe]))
        | None => Cont (push_tok s (TNone, [c_pipe]))
        end
      else Cont (mk (res s) (sep s) (sep2 s) (c :: tok s) (has_bs s) (met_paren s) false
                    (skip_next s) (has_dollar s) (pli s) (sep_made s) (semi_ok s))
    end
  else
  let pipe_split :=
    if cls_eqb k KPipe then
      if semi_ok s then Some (reset_round (push_tok (emit s (sep s)) (TNone, [c_pipe])) true)
      else if negb (met_paren s) && tag_eqb (sep2 s) TNone && tag_eqb (sep s) TNone
      then Some (reset_round (push_tok (emit s TNone) (TNone, [c_pipe])) false)
      else None
    else None in
  match pipe_split with
  | Some s' => Cont s'
  | None =>
  if cls_eqb k KSpace then
    if semi_ok s then Cont (reset_round (emit s (sep s)) true)
    else if met_paren s then Cont (push_c s c)
    else if tag_eqb (sep s) TBs then
      Cont (let s' := push_tok s (TBs, rev (tok s)) in
            mk (res s') (sep s') (sep2 s') [] (has_bs s') (met_paren s') true (skip_next s')
               (has_dollar s') (pli s') (sep_made s') (semi_ok s'))
    else if tag_eqb (sep s) TNone then
      if tag_eqb (sep2 s) TNone then
        Cont (let s' := emit s TNone in
              mk (res s') (sep s') (sep2 s') [] (has_bs s') (met_paren s') true (skip_next s')
                 (has_dollar s') (pli s') (sep_made s') (semi_ok s'))
      else Cont (push_c s c)
    else Cont (push_c s c)
  else match quote_tag_k k with
  | Some q =>
    let s := if negb (tag_eqb (sep s) q) && semi_ok s
             then reset_round (emit s (sep s)) true else s in
    if negb (tag_eqb (sep s) q) && met_paren s then Cont (push_c s c)
    else if tag_eqb (sep s) TNone && negb (tag_eqb (sep2 s) TNone) && negb (tag_eqb (sep2 s) q)
    then Cont (push_c s c)
    else if tag_eqb (sep s) TNone then
      if negb (is_an_env (rev (tok s))) && ((cls_eqb k KSq) || (cls_eqb k KDq))
      then Cont (mk (res s) q (sep2 s) (tok s) (has_bs s) (met_paren s) (new_round s)
                    (skip_next s) (has_dollar s) (pli s) (sep_made s) (semi_ok s))
      else
        let s' := push_c s c in
        let n2 := if tag_eqb (sep2 s) TNone then q
                  else if tag_eqb (sep2 s) q then TNone else sep2 s in
        Cont (mk (res s') (sep s') n2 (tok s') (has_bs s') (met_paren s') (new_round s')
                 (skip_next s') (has_dollar s') (pli s') (sep_made s') (semi_ok s'))
    else if tag_eqb (sep s) q then
      Cont (mk (res s) (sep s) (sep2 s) (tok s) (has_bs s) (met_paren s) (new_round s)
               (skip_next s) (has_dollar s) (pli s) (sep_made s) true)
    else Cont (push_c s c)
  | None => Cont (push_c s c)
  end
  end.

Fixpoint loop (s : st) (l : str) : st :=
  match l with
  | [] => s
  | c :: r => match step s c (match r with [] => None | n :: _ => Some n end) with
              | Cont s' => loop s' r
              | Break s' => s'
              end
  end.

Definition finish (s : st) : list (tag * str) :=
  let s' := if match tok s with [] => false | _ => true end || semi_ok s
            then emit s (sep s) else s in
  rev (res s').

(* is_arithmetic *)
Definition is_arith_op (c : char) := (c =? 43) || (c =? 45) || (c =? 42) || (c =? 47) || (c =? 94).
Definition arith_body (c : char) :=
  (c =? 32) || is_digit c || (c =? 46) || (c =? 40) || (c =? 41) || is_arith_op c.
Definition arith_last (c : char) := (c =? 46) || is_digit c || (c =? 32) || (c =? 41).
Definition is_arithmetic (l : str) : bool :=
  existsb is_digit l && existsb is_arith_op l &&
  match rev l with
  | lst :: (_ :: _) as body => arith_last lst && forallb arith_body body
  | _ => false
  end.

Fixpoint split_sp (l : str) (cur : str) : list str :=
  match l with
  | [] => [rev cur]
  | c :: r => if c =? 32 then rev cur :: split_sp r [] else split_sp r (c :: cur)
  end.

Definition parse_line (l : str) : list (tag * str) :=
  if is_arithmetic l then map (fun w => (TNone, w)) (split_sp l [])
  else finish (loop st0 l).






(** [LineInfo.is_complete] *)
Definition is_complete (l : str) : bool :=
  if is_arithmetic l then true else
  let s := loop st0 l in
  let toks := finish s in
  let c1 := match rev toks with
            | (TNone, w) :: _ => negb (str_eqb w [c_pipe])
            | _ => true end in
  let c2 := if tag_eqb (sep s) TNone then c1 else semi_ok s in
  if has_bs s then false else c2.
