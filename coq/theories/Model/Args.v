(** scripting.rs: positional parameters ($0 $1 ... ${n} $@) and the function
    table of a script. Transcription of is_args_in_token,
    expand_args_for_single_token, expand_args_in_tokens (scripting.rs:156-221),
    of the function extraction loop of run_script (scripting.rs:76-102) and of
    the status rules of run_script / try_run_func / source. No proofs here.

    The splitter regex (lazy head, dollar, optional open brace, digits or at-sign,
    optional close brace, rest; anchored at both ends) is modelled by
    [find_ref] (capture use, first match = leftmost dollar that starts a
    reference; the dot does not match a newline, so a token holding a newline
    never matches); the test regex (dollar, optional open brace, one or more of
    digit / at-sign) by [is_args_in_token]. *)
From Cicada Require Import Base.Chars.
From Coq Require Import ZArith.
Local Open Scope N_scope.

Inductive res (A : Type) := Ok (a : A) | Panic | OutOfFuel.
Arguments Ok {A}. Arguments Panic {A}. Arguments OutOfFuel {A}.

Inductive key := KAt | KNum (n : N).

Definition c_lbrace := 123. Definition c_rbrace := 125.

(** greedy run of ASCII digits; value as usize (arbitrary precision here: an index that
    overflows usize is out of range either way) *)
Fixpoint take_digits (s : str) (acc : N) : N * str :=
  match s with
  | c :: r => if is_digit c then take_digits r (acc * 10 + (c - 48)) else (acc, s)
  | [] => (acc, [])
  end.

(** optional close brace *)
Definition drop_rb (s : str) : str :=
  match s with
  | c :: r => if c =? c_rbrace then r else s
  | [] => []
  end.

(** digits or at-sign, then an optional close brace, at the head of s: the key and what follows *)
Definition ref_body (s : str) : option (key * str) :=
  match s with
  | c :: r =>
      if c =? c_at then Some (KAt, drop_rb r)
      else if is_digit c then let '(n, r') := take_digits s 0 in Some (KNum n, drop_rb r')
      else None
  | [] => None
  end.

(** optional open brace, then the above (s = what follows a dollar) *)
Definition ref_at (s : str) : option (key * str) :=
  match s with
  | c :: r => if c =? c_lbrace then ref_body r else ref_body s
  | [] => None
  end.

(** first match of the splitter: (head, key, tail) *)
Fixpoint find_ref (s : str) : option (str * key * str) :=
  match s with
  | [] => None
  | c :: r =>
      match (if c =? c_dollar then ref_at r else None) with
      | Some (k, tail) => Some ([], k, tail)
      | None =>
          match find_ref r with
          | Some (h, k, t) => Some (c :: h, k, t)
          | None => None
          end
      end
  end.

Definition has_nl (s : str) : bool := existsb (fun c => c =? c_nl) s.

Fixpoint join_sp (l : list str) : str :=
  match l with
  | [] => []
  | [x] => x
  | x :: r => x ++ c_space :: join_sp r
  end.

Fixpoint nth_str (l : list str) (n : nat) : option str :=
  match l, n with
  | [], _ => None
  | x :: _, O => Some x
  | _ :: r, S n' => nth_str r n'
  end.

(** the text a key stands for; None = panic (args[1..] on an empty slice) *)
Definition key_value (args : list str) (k : key) : option str :=
  match k with
  | KAt => match args with [] => None | _ :: r => Some (join_sp r) end
  | KNum n =>
      if n <? N.of_nat (length args)
      then Some (match nth_str args (N.to_nat n) with Some x => x | None => [] end)
      else Some []
  end.

(** the `loop` of expand_args_for_single_token *)
Fixpoint expand_loop (fuel : nat) (args : list str) (tok : str) (result : str) : res str :=
  match fuel with
  | O => OutOfFuel
  | S f =>
      if has_nl tok then Ok (result ++ tok)
      else
        match find_ref tok with
        | None => Ok (result ++ tok)
        | Some (head, k, tail) =>
            match key_value args k with
            | None => Panic
            | Some v =>
                let result1 := result ++ head ++ v in
                if is_empty tail then Ok result1 else expand_loop f args tail result1
            end
        end
  end.

Definition expand_args_for_single_token (token : str) (args : list str) : res str :=
  expand_loop (S (length token)) args token [].

(** the test regex matches somewhere in the token *)
Fixpoint is_args_in_token (s : str) : bool :=
  match s with
  | [] => false
  | c :: r =>
      ((c =? c_dollar) &&
       match r with
       | d :: r' =>
           if d =? c_lbrace then match r' with e :: _ => is_digit e || (e =? c_at) | [] => false end
           else is_digit d || (d =? c_at)
       | [] => false
       end)
      || is_args_in_token r
  end.

(** expand_args_in_tokens: tokens are (sep, text); backquoted and
    single-quoted tokens are left alone *)
Definition c_bq_ := 96. Definition c_sq_ := 39.
Fixpoint expand_args_in_tokens (tokens : list (str * str)) (args : list str) : res (list (str * str)) :=
  match tokens with
  | [] => Ok []
  | (sep, tok) :: r =>
      match expand_args_in_tokens r args with
      | Ok r' =>
          if str_eqb sep [c_bq_] || str_eqb sep [c_sq_] || negb (is_args_in_token tok) then Ok ((sep, tok) :: r')
          else match expand_args_for_single_token tok args with
               | Ok t => Ok ((sep, t) :: r')
               | Panic => Panic
               | OutOfFuel => OutOfFuel
               end
      | x => x
      end
  end.

(** ---- the function table (run_script) ----
    re_func_head: the word function, one space, a name (letter / underscore / minus, then
    letters digits underscore minus), spaces, optionally an empty pair of parentheses, spaces,
    an open brace, end -- on the trimmed line; re_func_tail: a lone close brace, trimmed line *)
Definition s_function : str := [102; 117; 110; 99; 116; 105; 111; 110; 32].
Definition is_name_start (c : char) : bool := is_alpha c || (c =? 95) || (c =? 45).
Definition is_name_char (c : char) : bool := is_alnum_us c || (c =? 45).

Fixpoint span_name (s : str) : str * str :=
  match s with
  | c :: r => if is_name_char c then let '(a, b) := span_name r in (c :: a, b) else ([], s)
  | [] => ([], [])
  end.
Fixpoint drop_spaces (s : str) : str :=
  match s with
  | c :: r => if c =? c_space then drop_spaces r else s
  | [] => []
  end.
Fixpoint strip_pre (p s : str) : option str :=
  match p, s with
  | [], _ => Some s
  | x :: p', y :: s' => if x =? y then strip_pre p' s' else None
  | _ :: _, [] => None
  end.

(** the name captured by re_func_head on an (already trimmed) line. The greedy
    name and space runs need no backtracking: a name character is never a
    space, `(`, or `{`. *)
Definition func_head (line : str) : option str :=
  match strip_pre s_function line with
  | None => None
  | Some r =>
      match r with
      | c :: _ =>
          if is_name_start c then
            let '(name, r1) := span_name r in
            let r2 := drop_spaces r1 in
            let r3 := match strip_pre [c_lp; c_rp] r2 with Some x => drop_spaces x | None => r2 end in
            if str_eqb r3 [c_lbrace] then Some name else None
          else None
      | [] => None
      end
  end.

Definition func_tail (line : str) : bool := str_eqb line [c_rbrace].

(** the `for line in text.lines()` loop: (functions defined, in order; text_new) *)
Fixpoint extract_funcs (lines : list str) (enter : bool) (name body : str)
                       (funcs : list (str * str)) (text_new : str) : list (str * str) * str :=
  match lines with
  | [] => (funcs, text_new)
  | line :: r =>
      match func_head (trim line) with
      | Some nm => extract_funcs r true nm [] funcs text_new
      | None =>
          if func_tail (trim line) then extract_funcs r false name body (funcs ++ [(name, body)]) text_new
          else if enter then extract_funcs r enter name (body ++ line ++ [c_nl]) funcs text_new
          else extract_funcs r enter name body funcs (text_new ++ line ++ [c_nl])
      end
  end.

(** ---- status rules, as coded ----
    run_script / source: status of the last CommandResult of run_lines, 0 if none;
    try_run_func (since ec16ecd): cr_list.last().map_or(0, status) of the body's run_lines. *)
Fixpoint last_or_zero (crs : list Z) : Z :=
  match crs with
  | [] => 0%Z
  | [x] => x
  | _ :: r => last_or_zero r
  end.
Definition script_status (crs : list Z) : Z := last_or_zero crs.
Definition func_call_status (body_crs : list Z) : Z := last_or_zero body_crs.

(** str::lines(): split at LF, a trailing CR of a line is dropped, no final empty line *)
Fixpoint split_nl (s : str) (cur : str) : list str :=
  match s with
  | [] => match cur with [] => [] | _ => [cur] end
  | c :: r => if c =? c_nl then cur :: split_nl r [] else split_nl r (cur ++ [c])
  end.
Definition strip_cr (l : str) : str :=
  match rev l with
  | c :: r => if c =? 13 then rev r else l
  | [] => []
  end.
Definition lines_of (text : str) : list str := map strip_cr (split_nl text []).

Definition function_table (text : str) : list (str * str) * str :=
  extract_funcs (lines_of text) false [] [] [] [].
