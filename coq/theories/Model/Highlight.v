(** Transcription of [highlight::find_token_range_heuristic] and of the loop of
    [<CicadaHighlighter as Highlighter>::highlight] (src/highlight.rs:98-216).

    This code indexes the line by BYTE offsets while the tokens hold chars.
    A Rust [&s[a..]] panics when [a] is past the end or falls inside a
    multi-byte character; that is modelled by [slice_from] returning [None],
    which the callers turn into [Panic site].  Strings are lists of Unicode
    scalar values; [utf8_len] gives the encoded length, [blen] the [str::len].

    Not modelled: the style attached to a range ([is_command]: two hash-set
    lookups and a constant array, no panic site), only the ranges.
    [usize] additions are not checked for overflow: every operand is bounded
    by the byte length of the line, which fits in memory. *)
From Cicada Require Import Base.Chars Base.Tag Model.Tokenizer.
Local Open Scope N_scope.

Definition utf8_len (c : char) : nat :=
  if c <? 128 then 1%nat else if c <? 2048 then 2%nat else if c <? 65536 then 3%nat else 4%nat.

Fixpoint blen (s : str) : nat :=
  match s with [] => 0%nat | c :: r => (utf8_len c + blen r)%nat end.

(** [&l[b..]]: [None] = the slice panics *)
Fixpoint slice_from (l : str) (b : nat) : option str :=
  match l with
  | [] => if Nat.eqb b 0 then Some [] else None
  | c :: r => if Nat.eqb b 0 then Some l
              else if Nat.leb (utf8_len c) b then slice_from r (b - utf8_len c) else None
  end.

(** [s.find(|c| !c.is_whitespace())]: byte offset of the first such char *)
Fixpoint find_non_ws (s : str) (off : nat) : option nat :=
  match s with
  | [] => None
  | c :: r => if is_ws c then find_non_ws r (off + utf8_len c) else Some off
  end.

(** [s.char_indices().nth(k).map_or(0, |(idx, _)| idx)] -- the code passes a
    BYTE offset as [k]; transcribed as written *)
Fixpoint char_index_nth (s : str) (k : nat) (off : nat) : nat :=
  match s with
  | [] => 0%nat
  | c :: r => match k with O => off | S k' => char_index_nth r k' (off + utf8_len c) end
  end.

Fixpoint starts_with (s p : str) : bool :=
  match p with
  | [] => true
  | x :: p' => match s with y :: s' => (x =? y) && starts_with s' p' | [] => false end
  end.

Definition sep_str (t : tag) : str :=
  match t with TNone => [] | TSq => [c_sq] | TDq => [c_dq] | TBq => [c_bq] | TBs => [c_bs] end.

Inductive res (A : Type) := Ok (a : A) | Panic (site : nat).
Arguments Ok {A} a. Arguments Panic {A} site.

(** sites: 1 = line 102 [&line[start_byte..]]; 2 = line 110; 3 = line 124;
    4 = line 129; 5 = line 135 *)
Definition find_token_range (line : str) (start : nat) (tok : tag * str) : res (option (nat * nat)) :=
  let '(tg, word) := tok in
  let sep := sep_str tg in
  match slice_from line start with
  | None => Panic 1
  | Some area0 =>
    match find_non_ws area0 0 with
    | None => Ok None
    | Some off =>
      let tsb := (start + char_index_nth area0 off 0)%nat in
      match slice_from line tsb with
      | None => Panic 2
      | Some area =>
        let has_sep := negb (is_empty sep) in
        let off1 := if has_sep && starts_with area sep then blen sep else 0%nat in
        match slice_from area off1 with
        | None => Panic 3
        | Some a1 =>
          if starts_with a1 word then
            let off2 := (off1 + blen word)%nat in
            if has_sep then
              match slice_from area off2 with
              | None => Panic 4
              | Some a2 =>
                  let len := if starts_with a2 sep then (off2 + blen sep)%nat else off2 in
                  Ok (Some (tsb, (tsb + len)%nat))
              end
            else Ok (Some (tsb, (tsb + off2)%nat))
          else if is_empty word && has_sep && starts_with area sep then
            match slice_from area (blen sep) with
            | None => Panic 5
            | Some a3 =>
                if starts_with a3 sep then Ok (Some (tsb, (tsb + (off1 + blen sep * 2))%nat))
                else if starts_with area word then Ok (Some (tsb, (tsb + blen word)%nat)) else Ok None
            end
          else if starts_with area word then Ok (Some (tsb, (tsb + blen word)%nat))
          else Ok None
        end
      end
    end
  end.

(** the [for token in &line_info.tokens] loop; [acc] = styles so far (ranges
    only, in push order); the result also carries the final
    [current_byte_idx] *)
Fixpoint hl_loop (line : str) (toks : list (tag * str)) (cur : nat) (acc : list (nat * nat))
  : res (list (nat * nat) * nat) :=
  match toks with
  | [] => Ok (acc, cur)
  | t :: r =>
    match find_token_range line cur t with
    | Panic s => Panic s
    | Ok (Some (a, b)) =>
        let acc1 := if Nat.ltb cur a then acc ++ [(cur, a)] else acc in
        hl_loop line r b (acc1 ++ [(a, b)])
    | Ok None =>
        let n := blen line in
        Ok (if Nat.ltb cur n then acc ++ [(cur, n)] else acc, n)
    end
  end.

Definition highlight_tokens (line : str) (toks : list (tag * str)) : res (list (nat * nat)) :=
  if is_empty line then Ok []
  else if is_empty toks then Ok [(0%nat, blen line)]
  else match hl_loop line toks 0 [] with
       | Panic s => Panic s
       | Ok (acc, cur) => Ok (if Nat.ltb cur (blen line) then acc ++ [(cur, blen line)] else acc)
       end.

Definition highlight (line : str) : res (list (nat * nat)) :=
  highlight_tokens line (parse_line line).
