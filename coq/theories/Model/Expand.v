(** Executable model of the expansion passes of src/shell.rs (do_expansion and
    everything it calls), transcribed statement by statement.

    Interface for composition (Model/Plan.v):
      tokens      = list (tag * str)             (Base/Tag.v)
      World       = record of oracles (below)
      do_expansion tokenize W fuel tokens : res tokens
    [tokenize] is parse_line's token list (needed by expand_alias only).

    Regex uses: yes/no tests go through [rx_search] on the ASTs GENERATED from the
    source literals (Gen/ShellRegexes.v).  Capture / replace uses are the hand-written
    first-match functions of the section first-match functions; the text of their
    source literals is pinned in Proofs/ExpandPins.v and their behaviour is tied to
    the regex crate by the correspondence check.  No proofs in this file. *)
From Coq Require Import ZArith.
From Coq Require String Ascii.
From Cicada Require Import Base.Chars Base.Tag Base.Regex Gen.ShellRegexes.
Local Open Scope N_scope.

(* ------------------------------------------------------------------ basics *)
Inductive res (A : Type) := Ok (a : A) | Panic (site : N) | OutOfFuel.
Arguments Ok {A} a. Arguments Panic {A} site. Arguments OutOfFuel {A}.

Definition bind {A B} (r : res A) (f : A -> res B) : res B :=
  match r with Ok a => f a | Panic s => Panic s | OutOfFuel => OutOfFuel end.
Definition res_map {A B} (f : A -> B) (r : res A) : res B :=
  match r with Ok a => Ok (f a) | Panic s => Panic s | OutOfFuel => OutOfFuel end.

(* panic sites *)
Definition site_range_unwrap : N := 2.     (* re.captures(token).unwrap() *)

Definition token := (tag * str)%type.
Definition tokens := list token.

Fixpoint s2l (s : String.string) : str :=
  match s with
  | String.EmptyString => []
  | String.String a r => Ascii.N_of_ascii a :: s2l r
  end.

Import String.StringSyntax.
Delimit Scope string_scope with string.
Arguments s2l s%string.

Record World := mkWorld {
  env_var : str -> option str;        (* process environment (std::env::var) *)
  sh_var : str -> option str;         (* shell-local variables (sh.envs) *)
  status : Z;                         (* sh.previous_status *)
  pid : Z;                            (* getpid() *)
  home : str;                         (* tools::get_user_home() *)
  glob : str -> option (list str);    (* glob::glob(pattern): None = pattern error; Some = the Ok entries in order *)
  run_capture : str -> option str;    (* CommandLine::from_line + run_pipeline(capture): None = the line fails to plan *)
  aliases : str -> option str         (* sh.aliases *)
}.

Fixpoint starts_with (p s : str) : bool :=
  match p, s with
  | [], _ => true
  | a :: p', b :: s' => (a =? b) && starts_with p' s'
  | _, [] => false
  end.

(** [s.strip_prefix(p)] *)
Fixpoint strip_prefix (p s : str) : option str :=
  match p, s with
  | [], _ => Some s
  | a :: p', b :: s' => if a =? b then strip_prefix p' s' else None
  | _, [] => None
  end.

Definition contains_char (c : char) (s : str) : bool := existsb (fun x => x =? c) s.

Fixpoint span (p : char -> bool) (s : str) : str * str :=
  match s with
  | [] => ([], [])
  | c :: r => if p c then let (a, b) := span p r in (c :: a, b) else ([], s)
  end.

(** split at the LAST occurrence of [c0] *)
Fixpoint split_last (c0 : char) (s : str) : option (str * str) :=
  match s with
  | [] => None
  | c :: r =>
      match split_last c0 r with
      | Some (a, b) => Some (c :: a, b)
      | None => if c =? c0 then Some ([], r) else None
      end
  end.

(** split at the FIRST occurrence of [c0] *)
Fixpoint split_first (c0 : char) (s : str) : option (str * str) :=
  match s with
  | [] => None
  | c :: r =>
      if c =? c0 then Some ([], r)
      else match split_first c0 r with Some (a, b) => Some (c :: a, b) | None => None end
  end.

Definition not_nl (c : char) : bool := negb (c =? 10).
Definition split_nl (s : str) : str * str := span not_nl s.

(* decimal printing / parsing *)
Fixpoint n_digits (fuel : nat) (n : N) (acc : str) : str :=
  match fuel with
  | O => acc
  | S f => let d := 48 + n mod 10 in
           let q := n / 10 in
           if q =? 0 then d :: acc else n_digits f q (d :: acc)
  end.
Definition n_to_dec (n : N) : str := n_digits (S (N.size_nat n)) n [].
Definition z_to_dec (z : Z) : str :=
  match z with
  | Z0 => [48]
  | Zpos p => n_to_dec (Npos p)
  | Zneg p => 45 :: n_to_dec (Npos p)
  end.
Definition dec_value (s : str) : N := fold_left (fun a c => a * 10 + (c - 48)) s 0.

Definition i32_max : Z := 2147483647.
Definition i32_min : Z := (-2147483648)%Z.
(** str::parse::<i32> restricted to what the range pattern lets through: optional '-', digits+ *)
Definition parse_i32 (s : str) : option Z :=
  let (neg, d) := match strip_prefix [45] s with Some r => (true, r) | None => (false, s) end in
  if is_empty d || negb (forallb is_digit d) then None else
  let v := Z.of_N (dec_value d) in
  let z := if neg then (- v)%Z else v in
  if ((i32_min <=? z) && (z <=? i32_max))%Z then Some z else None.

(* ------------------------------------------------------------------ index buffers *)
(** [tokens.remove(i); for (j, t) in items { tokens.insert(i + j, t) }] *)
Definition splice {A} (i : nat) (items : list A) (l : list A) : list A :=
  firstn i l ++ items ++ skipn (S i) l.

(** [for (i, items) in buff.iter().rev() { ... }] *)
Definition apply_buff {A} (buff : list (nat * list A)) (l : list A) : list A :=
  fold_left (fun acc e => splice (fst e) (snd e) acc) (rev buff) l.

Inductive selr := Skip | Abort | Repl (l : tokens).

(** first loop of expand_brace / expand_brace_range / expand_glob: one decision per token;
    [Abort] is the early [return] that leaves the token list untouched *)
Fixpoint collect (sel : token -> res selr) (toks : tokens) (idx : nat) : res (option (list (nat * tokens))) :=
  match toks with
  | [] => Ok (Some [])
  | t :: r =>
      bind (sel t) (fun d =>
      match d with
      | Skip => collect sel r (S idx)
      | Abort => Ok None
      | Repl l => res_map (option_map (cons (idx, l))) (collect sel r (S idx))
      end)
  end.

Definition run_pass (sel : token -> res selr) (toks : tokens) : res tokens :=
  res_map (fun b => match b with None => toks | Some buff => apply_buff buff toks end) (collect sel toks 0).

(** a produced word that contains a blank gets the double-quote separator, else the empty one *)
Definition retag (s : str) : token := (if contains_char 32 s then TDq else TNone, s).

Fixpoint set_text (i : nat) (text : str) (toks : tokens) : tokens :=
  match toks, i with
  | [], _ => []
  | (tg, _) :: r, O => (tg, text) :: r
  | t :: r, S k => t :: set_text k text r
  end.

(** the idiom of expand_home / expand_env: a first loop keeps a hand-counted [idx] over ALL tokens
    (skipped tokens are counted too) and pushes (idx, new text); a second loop writes back
    [tokens[i].1 = text] over the buffer in reverse *)
Fixpoint text_collect (sel : token -> option str) (toks : tokens) (idx : nat) : list (nat * str) :=
  match toks with
  | [] => []
  | t :: r =>
      match sel t with
      | None => text_collect sel r (S idx)
      | Some s => (idx, s) :: text_collect sel r (S idx)
      end
  end.
Definition apply_texts (buff : list (nat * str)) (toks : tokens) : tokens :=
  fold_left (fun acc e => set_text (fst e) (snd e) acc) (rev buff) toks.
Definition text_pass (sel : token -> option str) (toks : tokens) : tokens :=
  apply_texts (text_collect sel toks 0) toks.
(** what the pass does to one token *)
Definition text_tok (sel : token -> option str) (t : token) : token :=
  match sel t with Some s => (fst t, s) | None => t end.

(* ------------------------------------------------------------------ expand_alias *)
Fixpoint alias_collect (W : World) (toks : tokens) (idx : nat) (is_head : bool) : list (nat * str) :=
  match toks with
  | [] => []
  | (sep, text) :: r =>
      if tag_is_empty sep && str_eqb text [124] then alias_collect W r (S idx) true
      else if is_head && str_eqb text (s2l "xargs") then alias_collect W r (S idx) is_head
      else match (if is_head then aliases W text else None) with
           | None => alias_collect W r (S idx) false
           | Some v => if is_empty v then alias_collect W r (S idx) false
                       else (idx, v) :: alias_collect W r (S idx) false
           end
  end.

Definition expand_alias (tokenize : str -> tokens) (W : World) (toks : tokens) : tokens :=
  apply_buff (map (fun e => (fst e, tokenize (snd e))) (alias_collect W toks 0 true)) toks.

(* ------------------------------------------------------------------ expand_home *)
(** re.replace_all(text, |caps| home + caps[tail]) with re = src_home (since 1c7eddf the home directory is
    text, not a replacement template); [rest] = text after the ~ ; the tail group stops at a newline *)
Definition home_replace (W : World) (rest : str) : str :=
  let (tl, post) := split_nl rest in (home W ++ tl) ++ post.

Definition home_sel (W : World) (t : token) : option str :=
  if tag_is_empty (fst t) then
    match strip_prefix [126] (snd t) with
    | Some rest => Some (home_replace W rest)
    | None => None
    end
  else None.
(** the same per token, spelled out *)
Definition expand_home_tok (W : World) (t : token) : token :=
  if tag_is_empty (fst t) then
    match strip_prefix [126] (snd t) with
    | Some rest => (fst t, home_replace W rest)
    | None => t
    end
  else t.
Definition expand_home (W : World) (toks : tokens) : tokens := text_pass (home_sel W) toks.

(* ------------------------------------------------------------------ expand_env *)
(** the gate in front of the scan.  Since 8dc686a it is told whether the token was written inside double quotes:
    there the alias-definition exemption (last test) does not apply -- a single quote is an ordinary character *)
Definition env_in_tagged_token (t : str) (quoted : bool) : bool :=
  if rx_search rx_env_special t then true
  else if negb (rx_search rx_env_name t) then false
  else if rx_search rx_env_sub1 t || rx_search rx_env_sub2 t || rx_search rx_env_sub3 t then false
  else if quoted then true
  else negb (rx_search rx_env_alias t).
(** [fn env_in_token(token) { env_in_tagged_token(token, false) }], written out *)
Definition env_in_token (t : str) : bool :=
  if rx_search rx_env_special t then true
  else if negb (rx_search rx_env_name t) then false
  else if rx_search rx_env_sub1 t || rx_search rx_env_sub2 t || rx_search rx_env_sub3 t then false
  else negb (rx_search rx_env_alias t).

(** since e586def parameter expansion is ONE left-to-right scan: the value of a reference is
    appended and never looked at again (no fuel: the scan is structural).  The former loop
    [while env_in_token { expand_one_env }] and its regex first-match functions live in
    Historical/ExpandLoop.v. *)
Definition is_name_start (c : char) : bool := is_alpha c || (c =? 95).

Definition lookup_var (W : World) (key : str) : option str :=
  match env_var W key with
  | Some v => Some v
  | None => sh_var W key
  end.

Definition key_value (W : World) (key : str) : str :=
  if str_eqb key [63] then z_to_dec (status W)
  else if str_eqb key [36] then z_to_dec (pid W)
  else match lookup_var W key with Some v => v | None => [] end.

(** the reference at the start of [s], which follows a dollar: key and number of chars spanned *)
Definition env_ref_at (s : str) : option (str * nat) :=
  match s with
  | [] => None
  | c :: r =>
      if (c =? 63) || (c =? 36) then Some ([c], 1%nat)
      else if is_name_start c then
        let n := fst (span is_alnum_us s) in Some (n, length n)
      else if c =? 123 then
        match r with
        | [] => None
        | d :: r' =>
            if ((d =? 63) || (d =? 36)) && starts_with [125] r' then Some ([d], 3%nat)
            else if is_name_start d then
              let n := fst (span is_alnum_us r) in
              if starts_with [125] (snd (span is_alnum_us r)) then Some (n, (length n + 2)%nat) else None
            else None
        end
      else None
  end.

(** the [while i < chars.len()] loop; [skip] = how many chars the last reference still covers *)
Fixpoint once_go (W : World) (skip : nat) (t : str) : str :=
  match t with
  | [] => []
  | c :: r =>
      match skip with
      | S k => once_go W k r
      | O =>
          if c =? 36 then
            match env_ref_at r with
            | Some (key, n) => key_value W key ++ once_go W n r
            | None => 36 :: once_go W 0 r
            end
          else c :: once_go W 0 r
      end
  end.
Definition expand_env_once (W : World) (t : str) : str := once_go W 0 t.

Definition env_sel (W : World) (t : token) : option str :=
  match fst t with
  | TBq | TSq => None
  | _ => if env_in_tagged_token (snd t) (tag_eqb (fst t) TDq) then Some (expand_env_once W (snd t)) else None
  end.
(** the same per token, spelled out *)
Definition expand_env_tok (W : World) (t : token) : token :=
  match fst t with
  | TBq | TSq => t
  | _ => if env_in_tagged_token (snd t) (tag_eqb (fst t) TDq) then (fst t, expand_env_once W (snd t)) else t
  end.
(** expand_env: the index buffer, transcribed (the counter runs over quoted tokens too) *)
Definition expand_env (W : World) (toks : tokens) : tokens := text_pass (env_sel W) toks.

(* ------------------------------------------------------------------ expand_brace *)
Definition need_expand_brace (s : str) : bool := rx_search rx_need_brace s.

(** [for x in out { for y in g { x + y } }] *)
Definition product (xs ys : list str) : list str :=
  flat_map (fun x => map (fun y => x ++ y) ys) xs.

Definition depth_stop (depth : nat) (c : char) : bool :=
  match depth with O => false | S _ => (c =? 44) || (c =? 125) end.

(** brace_getitem / brace_getgroup: mutual recursion; every call and every loop
    iteration spends one unit of fuel.  [out] is the loop state of brace_getitem,
    ([out], [comma]) that of brace_getgroup. *)
Fixpoint brace_getitem_f (fuel : nat) (s : str) (depth : nat) (out : list str) : res (list str * str) :=
  match fuel with
  | O => OutOfFuel
  | S f =>
      match s with
      | [] => Ok (out, [])
      | c :: r =>
          if depth_stop depth c then Ok (out, s)
          else
            let literal :=
              match (if c =? 92 then r else []) with
              | c2 :: r2 => brace_getitem_f f r2 depth (map (fun x => x ++ [92; c2]) out)
              | [] => brace_getitem_f f r depth (map (fun x => x ++ [c]) out)
              end in
            if c =? 123 then
              match brace_getgroup_f f r (S depth) [] false with
              | Ok (Some (og, sg)) => brace_getitem_f f sg depth (product out og)
              | Ok None => literal
              | Panic st => Panic st
              | OutOfFuel => OutOfFuel
              end
            else literal
      end
  end
with brace_getgroup_f (fuel : nat) (s : str) (depth : nat) (out : list str) (comma : bool)
  : res (option (list str * str)) :=
  match fuel with
  | O => OutOfFuel
  | S f =>
      match s with
      | [] => Ok None
      | _ =>
          match brace_getitem_f f s depth [[]] with
          | Ok (g, ss) =>
              match ss with
              | [] => Ok None
              | c :: r =>
                  let out' := out ++ g in
                  if c =? 125 then
                    if comma then Ok (Some (out', r))
                    else Ok (Some (map (fun x => [123] ++ x ++ [125]) out', r))
                  else if c =? 44 then brace_getgroup_f f r depth out' true
                  else brace_getgroup_f f ss depth out' comma
              end
          | Panic st => Panic st
          | OutOfFuel => OutOfFuel
          end
      end
  end.

Definition brace_fuel (s : str) : nat := 2 * length s + 2.
Definition brace_getitem (s : str) (depth : nat) : res (list str * str) :=
  brace_getitem_f (brace_fuel s) s depth [[]].
Definition brace_getgroup (s : str) (depth : nat) : res (option (list str * str)) :=
  brace_getgroup_f (brace_fuel s) s depth [] false.

Definition brace_sel (t : token) : res selr :=
  if negb (tag_is_empty (fst t)) || negb (need_expand_brace (snd t)) then Ok Skip
  else res_map (fun r => Repl (map retag (fst r))) (brace_getitem (snd t) 0).

Definition expand_brace (toks : tokens) : res tokens := run_pass brace_sel toks.

(* ------------------------------------------------------------------ expand_brace_range *)
(** -?[0-9]+ at the head of [s] *)
Definition int_at (s : str) : option (str * str) :=
  let (sign, r) := match strip_prefix [45] s with Some r => ([45], r) | None => ([], s) end in
  let (d, r') := span is_digit r in
  if is_empty d then None else Some (sign ++ d, r').

(** the range pattern after its opening brace, also returning what follows the closing brace *)
Definition range_at (s : str) : option ((str * str * option str) * str) :=
  match int_at s with
  | None => None
  | Some (g1, r1) =>
      match strip_prefix [46; 46] r1 with
      | None => None
      | Some r2 =>
          match int_at r2 with
          | None => None
          | Some (g2, r3) =>
              match strip_prefix [125] r3 with
              | Some rest => Some ((g1, g2, None), rest)
              | None =>
                  match strip_prefix [46; 46] r3 with
                  | None => None
                  | Some r4 =>
                      let (d, r5) := span is_digit r4 in
                      match strip_prefix [125] r5 with
                      | Some rest => Some ((g1, g2, if is_empty d then None else Some d), rest)
                      | None => None
                      end
                  end
              end
          end
      end
  end.

(** leftmost match with its context: (text before the match, captures, text after the match) *)
Fixpoint find_range (s : str) : option (str * (str * str * option str) * str) :=
  match s with
  | [] => None
  | c :: r =>
      match (if c =? 123 then range_at r else None) with
      | Some (caps, post) => Some ([], caps, post)
      | None =>
          match find_range r with
          | Some (pre, caps, post) => Some (c :: pre, caps, post)
          | None => None
          end
      end
  end.

Fixpoint range_up (fuel : nat) (n e incr : Z) : res (list str) :=
  match fuel with
  | O => OutOfFuel
  | S f => if (n <=? e)%Z
           then (if (n + incr <=? i32_max)%Z
                 then res_map (cons (z_to_dec n)) (range_up f (n + incr)%Z e incr)
                 else Ok [z_to_dec n])
           else Ok []
  end.

Fixpoint range_down (fuel : nat) (n e incr : Z) : res (list str) :=
  match fuel with
  | O => OutOfFuel
  | S f => if (n >=? e)%Z
           then (if (i32_min <=? n - incr)%Z
                 then res_map (cons (z_to_dec n)) (range_down f (n - incr)%Z e incr)
                 else Ok [z_to_dec n])
           else Ok []
  end.

Definition range_fuel (a b incr : Z) : nat := Z.to_nat (Z.abs (b - a) / incr) + 2.

Definition range_list (a b incr : Z) : res (list str) :=
  if (a >? b)%Z then range_down (range_fuel a b incr) a b incr
  else range_up (range_fuel a b incr) a b incr.

(** since f69a693 the text around the braces is kept; since 9bedc7c an operand that does not parse skips this token *)
Definition range_sel (t : token) : res selr :=
  if negb (tag_is_empty (fst t)) || negb (rx_search rx_brace_range (snd t)) then Ok Skip
  else match find_range (snd t) with
       | None => Panic site_range_unwrap
       | Some (pre, (g1, g2, g4), post) =>
           match parse_i32 g1, parse_i32 g2 with
           | Some a, Some b =>
               match (match g4 with None => Some 1%Z | Some d => parse_i32 d end) with
               | None => Ok Skip                                   (* idx += 1; continue (9bedc7c) *)
               | Some i0 =>
                   let incr := if (i0 <=? 1)%Z then 1%Z else i0 in
                   res_map (fun l => Repl (map (fun x => retag (pre ++ x ++ post)) l)) (range_list a b incr)   (* f69a693: affixes kept *)
               end
           | _, _ => Ok Skip                                       (* idx += 1; continue *)
           end
       end.
Definition expand_brace_range (toks : tokens) : res tokens := run_pass range_sel toks.

(* ------------------------------------------------------------------ expand_glob *)
Definition needs_globbing (s : str) : bool := rx_search rx_needs_glob s.

(** libs::path::basename: [path.rsplit('/').next()] *)
Definition basename (p : str) : str :=
  match split_last 47 p with Some (_, b) => b | None => p end.

(** since 7572cd1: a path is also dropped when a DIRECTORY component begins with a dot while the pattern
    component at the same distance from the end does not (a star never matches a leading dot) *)
Fixpoint split_on (c0 : char) (s : str) : list str :=
  match s with
  | [] => [[]]
  | c :: r =>
      if c =? c0 then [] :: split_on c0 r
      else match split_on c0 r with
           | x :: l => (c :: x) :: l
           | [] => [[c]]
           end
  end.

(** directory components from the last one outwards: [path.rsplit('/').skip(1)] *)
Definition dirs_rev (p : str) : list str := tl (rev (split_on 47 p)).

Fixpoint hidden_zip (pc pp : list str) : bool :=
  match pc with
  | [] => false
  | comp :: r =>
      (starts_with [46] comp && negb (str_eqb comp [46]) && negb (str_eqb comp [46; 46])
       && negb (starts_with [46] (hd [] pp)))
      || hidden_zip r (tl pp)
  end.
Definition hidden_dir_matched (pattern path : str) : bool := hidden_zip (dirs_rev path) (dirs_rev pattern).

(** the tests on the last component: dot, dot-dot, and hidden names unless the pattern's last component starts with dot-star *)
Definition glob_keep_last (show_hidden : bool) (p : str) : bool :=
  let b := basename p in
  if str_eqb b [46; 46] || str_eqb b [46] then false
  else if starts_with [46] b && negb show_hidden then false
  else true.
Definition glob_keep (pattern : str) (show_hidden : bool) (p : str) : bool :=
  glob_keep_last show_hidden p && negb (hidden_dir_matched pattern p).

Definition glob_one (W : World) (item : str) : option (list str) :=
  if negb (contains_char 42 item) || starts_with [39] (trim item) || starts_with [34] (trim item)
  then Some [item]
  else
    let show_hidden := starts_with [46; 42] (basename item) in
    match glob W item with
    | None => None
    | Some paths =>
        let r := filter (glob_keep item show_hidden) paths in
        Some (if is_empty r then [item] else r)
    end.

Definition glob_sel (W : World) (t : token) : res selr :=
  if negb (tag_is_empty (fst t)) || negb (needs_globbing (snd t)) then Ok Skip
  else match glob_one W (snd t) with
       | None => Ok Abort
       | Some l => Ok (Repl (map retag l))
       end.

Definition expand_glob (W : World) (toks : tokens) : res tokens := run_pass (glob_sel W) toks.

(* ------------------------------------------------------------------ command substitution *)
Definition should_do_dollar (s : str) : bool :=
  rx_search rx_dollar_cmd s && negb (rx_search rx_dollar_cmd_alias s).

(** [r] = text after dollar-paren : the greedy (.+) stays on the line (no newline) and gives back
    to the LAST closing paren that leaves it non-empty *)
Definition dollar_at (r : str) : option (str * str * str) :=
  let (seg, post) := split_nl r in
  match split_last 41 seg with
  | Some (cmd, tail) => if is_empty cmd then None else Some (cmd, tail, post)
  | None => None
  end.

(** leftmost dollar-paren at which src_dollar_find matches: (text before, cmd, rest of that line, following lines) *)
Fixpoint find_dollar (s : str) : option (str * str * str * str) :=
  match s with
  | [] => None
  | c :: r =>
      match (if c =? 36 then match strip_prefix [40] r with Some r' => dollar_at r' | None => None end else None) with
      | Some (cmd, tail, post) => Some ([], cmd, tail, post)
      | None =>
          match find_dollar r with
          | Some (b, cmd, tail, post) => Some (c :: b, cmd, tail, post)
          | None => None
          end
      end
  end.

(** the head group (no dollar inside) in front of that dollar-paren : back to the previous dollar (exclusive); what is
    before it is outside the match and kept as is *)
Definition head_of (before : str) : str * str :=
  match split_last 36 before with
  | Some (a, b) => (a ++ [36], b)
  | None => ([], before)
  end.

(** since 5e2d7b7 the replacer is a closure that concatenates the head group, the output and the tail
    group: the output is text *)
Definition dollar_splice (before cmd tail post out : str) : str :=
  let (pre, head) := head_of before in
  pre ++ (head ++ out ++ tail) ++ post.

(** the [loop] of do_command_substitution_for_dollar on one token; the log lists the
    lines handed to CommandLine::from_line (run when they plan), in order.
    [Ok (None, _)] = the early [return] (no first group). *)
Fixpoint dollar_loop (fuel : nat) (W : World) (line : str) (log : list str) : res (option str * list str) :=
  match fuel with
  | O => OutOfFuel
  | S f =>
      if negb (should_do_dollar line) then Ok (Some line, log)
      else match find_dollar line with
           | None => Ok (None, log)
           | Some (before, cmd, tail, post) =>
               let out := match run_capture W cmd with Some o => o | None => [] end in
               dollar_loop f W (dollar_splice before cmd tail post (trim out)) (log ++ [cmd])
           end
  end.

Fixpoint dollar_pass (fuel : nat) (W : World) (toks : tokens) (log : list str)
  : res (option tokens * list str) :=
  match toks with
  | [] => Ok (Some [], log)
  | (tg, text) :: r =>
      if tag_eqb tg TSq || tag_eqb tg TBs || negb (should_do_dollar text)
      then bind (dollar_pass fuel W r log) (fun x => Ok (option_map (cons (tg, text)) (fst x), snd x))
      else bind (dollar_loop fuel W text log) (fun y =>
           match fst y with
           | None => Ok (None, snd y)
           | Some line => bind (dollar_pass fuel W r (snd y)) (fun x =>
                          Ok (option_map (cons (tg, line)) (fst x), snd x))
           end)
  end.

(** do_command_substitution_for_dollar as it is written: a hand-counted [idx] over ALL tokens (skipped ones are
    counted), [buff.insert(idx, line)], then [tokens[i].1 = text] for every entry (a HashMap: the keys are
    distinct, so the iteration order does not matter; modelled in reverse like the other buffers); the early
    [return] (no first group) leaves the token list untouched.  [dollar_pass] above is the same per token. *)
Fixpoint dollar_collect (fuel : nat) (W : World) (toks : tokens) (idx : nat) (log : list str)
  : res (option (list (nat * str)) * list str) :=
  match toks with
  | [] => Ok (Some [], log)
  | (tg, text) :: r =>
      if tag_eqb tg TSq || tag_eqb tg TBs || negb (should_do_dollar text)
      then dollar_collect fuel W r (S idx) log
      else bind (dollar_loop fuel W text log) (fun y =>
           match fst y with
           | None => Ok (None, snd y)
           | Some line => bind (dollar_collect fuel W r (S idx) (snd y)) (fun x =>
                          Ok (option_map (cons (idx, line)) (fst x), snd x))
           end)
  end.

Definition subst_dollar (fuel : nat) (W : World) (toks : tokens) (log : list str) : res (tokens * list str) :=
  res_map (fun x => (match fst x with Some b => apply_texts b toks | None => toks end, snd x))
          (dollar_collect fuel W toks 0 log).

(** src_dot_split: anchored; no-backquote head, backquote, non-empty no-backquote body, backquote, rest of line *)
Definition not_bq (c : char) : bool := negb (c =? 96).
Definition dot_split (s : str) : option (str * str * str) :=
  let (h, r1) := span not_bq s in
  match strip_prefix [96] r1 with
  | Some r2 =>
      let (c, r3) := span not_bq r2 in
      match strip_prefix [96] r3 with
      | Some t => if is_empty c || contains_char 10 t then None else Some (h, c, t)
      | None => None
      end
  | None => None
  end.

(** the output of an inner line; a line that does not plan gives the empty string (85ca576, 8a189aa) *)
Definition oracle_text (W : World) (cmd : str) : str := match run_capture W cmd with Some o => o | None => [] end.

(** the inner [loop] for an unquoted / double-quoted token with embedded backquotes, and the first loop of
    do_command_substitution_for_dot *)
Fixpoint dot_loop (fuel : nat) (W : World) (tok item : str) (log : list str) : res (str * list str) :=
  match fuel with
  | O => OutOfFuel
  | S f =>
      match dot_split tok with
      | None => Ok (if is_empty tok then item else item ++ tok, log)
      | Some (h, c, t) =>
          let item' := item ++ h ++ trim (oracle_text W c) in
          if is_empty t then Ok (item', log ++ [c]) else dot_loop f W t item' (log ++ [c])
      end
  end.

Fixpoint dot_collect (W : World) (toks : tokens) (idx : nat) (log : list str)
  : res (list (nat * str) * list str) :=
  match toks with
  | [] => Ok ([], log)
  | (tg, text) :: r =>
      match tg with
      | TBq => res_map (fun x => ((idx, trim (oracle_text W text)) :: fst x, snd x))
                       (dot_collect W r (S idx) (log ++ [text]))
      | TDq | TNone =>
          match dot_split text with
          | None => dot_collect W r (S idx) log
          | Some _ =>
              bind (dot_loop (S (length text)) W text [] log) (fun y =>
              res_map (fun x => ((idx, fst y) :: fst x, snd x)) (dot_collect W r (S idx) (snd y)))
          end
      | _ => dot_collect W r (S idx) log
      end
  end.

Definition subst_dot (W : World) (toks : tokens) (log : list str) : res (tokens * list str) :=
  res_map (fun x => (fold_left (fun acc e => set_text (fst e) (snd e) acc) (fst x) toks, snd x))
          (dot_collect W toks 0 log).

Definition do_command_substitution (fuel : nat) (W : World) (toks : tokens) : res (tokens * list str) :=
  bind (subst_dot W toks []) (fun x => subst_dollar fuel W (fst x) (snd x)).

(* ------------------------------------------------------------------ do_expansion *)
(** tools::wrap_sep_string for a non-empty separator (the only way tokens_to_line calls it) *)
Definition wrap_sep_string (sep : tag) (s : str) : str :=
  let q := tag_str sep in
  q ++ flat_map (fun c => if str_eqb [c] q then [92; c] else [c]) s ++ q.

Fixpoint tokens_to_line_go (toks : tokens) : str :=
  match toks with
  | [] => []
  | (tg, text) :: r =>
      (if tag_is_empty tg then text else wrap_sep_string tg text) ++ [32] ++ tokens_to_line_go r
  end.
(** ... followed by dropping the one trailing blank *)
Definition tokens_to_line (toks : tokens) : str :=
  match rev (tokens_to_line_go toks) with
  | c :: r => if c =? 32 then rev r else tokens_to_line_go toks
  | [] => []
  end.

Definition is_arithmetic (line : str) : bool :=
  if negb (rx_search rx_arith_digit line) then false
  else if negb (rx_search rx_arith_op line) then false
  else rx_search rx_arith_all line.

Definition is_export_prompt (toks : tokens) : bool :=
  match toks with
  | (_, a) :: (_, b) :: _ => str_eqb a (s2l "export") && starts_with (s2l "PROMPT=") b
  | _ => false
  end.

(** the passes in the order of shell.rs do_expansion; also returns the command-substitution log *)
Definition do_expansion_log (tokenize : str -> tokens) (W : World) (fuel : nat) (toks : tokens)
  : res (tokens * list str) :=
  if is_arithmetic (tokens_to_line toks) then Ok (toks, [])
  else if is_export_prompt toks then Ok (toks, [])
  else
    let t1 := expand_alias tokenize W toks in
    let t2 := expand_home W t1 in
    let t3 := expand_env W t2 in
    bind (expand_brace t3) (fun t4 =>
    bind (expand_glob W t4) (fun t5 =>
    bind (do_command_substitution fuel W t5) (fun x =>
    res_map (fun t7 => (t7, snd x)) (expand_brace_range (fst x))))).

Definition do_expansion (tokenize : str -> tokens) (W : World) (fuel : nat) (toks : tokens)
  : res tokens :=
  res_map fst (do_expansion_log tokenize W fuel toks).
