(** C18 -- model of cicada's history storage (src/history.rs, src/builtins/history.rs,
    the recording rule of src/main.rs), as repaired by b952f8c: every statement is a
    TEMPLATE (assembled from fixed fragments, the table name, option flags and a
    numeral) plus a vector of BOUND PARAMETERS (line text, session id, directory
    record, search pattern).

    The model is: (1) the statement templates and parameter vectors as functions;
    (2) a recogniser of the INSERT template that says which rows the statement
    stores, given the meaning of parameter binding -- sqlite stores / compares a
    bound value verbatim, it is never lexed as SQL (trusted; compared with sqlite
    on every case); (3) the table as a list of rows with sqlite's rowid
    allocation, LIKE matching, ORDER BY tsb / LIMIT; (4) the main loop's decision
    whether a line is recorded.  No proofs here. *)
From Coq Require Import ZArith.
From Cicada Require Import Base.Chars Base.Tag.
Local Open Scope N_scope.

(* ------------------------------------------------------------------ statements *)
(* fixed fragments of the format strings (code points; the text is in the comment) *)
Definition s_insert_into : str := [73;78;83;69;82;84;32;73;78;84;79;32].            (* INSERT INTO_ *)
Definition s_cols_values : str :=                                                    (* _(inp, rtn, tsb, tse, sessionid, info) VALUES *)
  [32;40;105;110;112;44;32;114;116;110;44;32;116;115;98;44;32;116;115;101;44;32;115;101;115;115;105;111;110;105;100;44;32;105;110;102;111;41;32;86;65;76;85;69;83].
Definition s_placeholders : str :=                                                   (* (?1, ?2, ?3, ?4, ?5, ?6); *)
  [40;63;49;44;32;63;50;44;32;63;51;44;32;63;52;44;32;63;53;44;32;63;54;41;59].
Definition s_dir : str := [100;105;114;58].                                          (* dir: *)
Definition s_bar : str := [124].                                                     (* | *)
Definition c_pct := 37.
Definition c_qm := 63.

(** a bound parameter: text, or a number (i32 / f64; identified by its numeral, number
    formatting plays no role any more since numbers are bound, not printed) *)
Inductive value := VStr (s : str) | VNum (s : str).

(** history.rs add_raw: the INSERT template (a function of the table name only) ... *)
Definition insert_template (table : str) : str := s_insert_into ++ table ++ s_cols_values ++ s_placeholders.
(** ... and the parameter vector params![line.trim(), status, tsb, tse, session_id, info] *)
Definition intended_row (line status tsb tse session dir : str) : list value :=
  [VStr (trim line); VNum status; VNum tsb; VNum tse; VStr session; VStr (s_dir ++ dir ++ s_bar)].
Definition insert_stmt (table line status tsb tse session dir : str) : str * list value :=
  (insert_template table, intended_row line status tsb tse session dir).

Definition s_select : str := [83;69;76;69;67;84;32;82;79;87;73;68;44;32;105;110;112;44;32;116;115;98;32;70;82;79;77;32]. (* SELECT ROWID, inp, tsb FROM_ *)
Definition s_where : str := [32;87;72;69;82;69;32;82;79;87;73;68;32;62;32;48].      (* _WHERE ROWID > 0 *)
Definition s_and_inp_like : str := [32;65;78;68;32;105;110;112;32;76;73;75;69;32;63].   (* _AND inp LIKE ? *)
Definition s_and_session : str := [32;65;78;68;32;115;101;115;115;105;111;110;105;100;32;61;32;63]. (* _AND sessionid = ? *)
Definition s_and_info_like : str := [32;65;78;68;32;105;110;102;111;32;108;105;107;101;32;63]. (* _AND info like ? *)
Definition s_order_asc : str := [32;79;82;68;69;82;32;66;89;32;116;115;98;44;32;114;111;119;105;100].   (* _ORDER BY tsb, rowid *)
Definition s_order_desc : str :=                                                     (* _order by tsb desc, rowid desc *)
  [32;111;114;100;101;114;32;98;121;32;116;115;98;32;100;101;115;99;44;32;114;111;119;105;100;32;100;101;115;99].
Definition s_limit : str := [32;108;105;109;105;116;32].                             (* _limit_ *)

Record lopts := mko { o_session : bool; o_asc : bool; o_pwd : bool; o_limit : Z }.

Definition wrap_pct (s : str) : str := [c_pct] ++ s ++ [c_pct].
Definition pwd_inner (dir : str) : str := s_dir ++ dir ++ s_bar.

(** One optional WHERE clause = a fixed fragment with one placeholder + the value bound to it. *)
Inductive clause := CInpLike (p : str) | CSessionEq (s : str) | CInfoLike (p : str).
Definition clause_sql (c : clause) : str :=
  match c with CInpLike _ => s_and_inp_like | CSessionEq _ => s_and_session | CInfoLike _ => s_and_info_like end.
Definition clause_param (c : clause) : str :=
  match c with CInpLike p => p | CSessionEq s => s | CInfoLike p => p end.

(** builtins/history.rs list_current_history: the clauses in the order the code appends them *)
Definition select_clauses (pattern session dir : str) (o : lopts) : list clause :=
  (if is_empty pattern then [] else [CInpLike (wrap_pct pattern)]) ++
  (if o_session o then [CSessionEq session] else []) ++
  (if o_pwd o then [CInfoLike (wrap_pct (pwd_inner dir))] else []).

(** template ([limit] = Display of the i32) and parameter vector *)
Definition select_stmt (table pattern session dir : str) (o : lopts) (limit : str) : str * list str :=
  let cs := select_clauses pattern session dir o in
  (s_select ++ table ++ s_where ++ concat (map clause_sql cs) ++
   (if o_asc o then s_order_asc else s_order_desc) ++ s_limit ++ limit ++ [c_space],
   map clause_param cs).

Definition s_delete : str := [68;69;76;69;84;69;32;102;114;111;109;32].             (* DELETE from_ *)
Definition s_where_rowid : str := [32;119;104;101;114;101;32;114;111;119;105;100;32;61;32]. (* _where rowid =_ *)
(** delete_history_item: the only value pasted is a usize *)
Definition delete_sql (table n : str) : str := s_delete ++ table ++ s_where_rowid ++ n.

Definition has_char (k : char) (s : str) : bool := existsb (fun c => c =? k) s.
Fixpoint count_char (k : char) (s : str) : nat :=
  match s with [] => O | c :: r => if c =? k then S (count_char k r) else count_char k r end.

(* ------------------------------------------------------------------ sqlite: the INSERT template and binding *)
Fixpoint skip_sp (s : str) : str := match s with c :: r => if c =? c_space then skip_sp r else s | [] => [] end.

Fixpoint strip_prefix (p s : str) : option str :=
  match p, s with
  | [], _ => Some s
  | a :: p', b :: s' => if a =? b then strip_prefix p' s' else None
  | _ :: _, [] => None
  end.

(** ?NNN -> (NNN, rest) *)
Fixpoint take_digits (s : str) (acc : nat) (seen : bool) : option (nat * str) :=
  match s with
  | c :: r => if is_digit c then take_digits r (10 * acc + N.to_nat (c - 48)) true
              else if seen then Some (acc, s) else None
  | [] => if seen then Some (acc, []) else None
  end.

Definition parse_placeholder (s : str) : option (nat * str) :=
  match s with
  | c :: r => if c =? c_qm then take_digits r O false else None
  | [] => None
  end.

(** ?i {, ?j} )   -- after the opening parenthesis *)
Fixpoint parse_phs (fuel : nat) (s : str) : option (list nat * str) :=
  match fuel with
  | O => None
  | S f =>
    match parse_placeholder (skip_sp s) with
    | None => None
    | Some (i, r) =>
      match skip_sp r with
      | c :: r' =>
        if c =? c_comma then
          match parse_phs f r' with Some (is, r'') => Some (i :: is, r'') | None => None end
        else if c =? c_rp then Some ([i], r')
        else None
      | [] => None
      end
    end
  end.

Definition bind {A B} (o : option A) (f : A -> option B) : option B :=
  match o with Some a => f a | None => None end.

Fixpoint all_some {A} (l : list (option A)) : option (list A) :=
  match l with
  | [] => Some []
  | Some a :: r => match all_some r with Some t => Some (a :: t) | None => None end
  | None :: _ => None
  end.

(** The rows an (INSERT template, parameters) pair stores: the template must be
    INSERT INTO table (the six columns) VALUES( placeholders ) ; and each
    placeholder ?i stands for the i-th bound value, verbatim (parameter binding).
    None = not of that shape / a placeholder without a value. *)
Definition insert_rows (table : str) (stmt : str * list value) : option (list (list value)) :=
  let (sql, params) := stmt in
  bind (strip_prefix s_insert_into sql) (fun s1 =>
  bind (strip_prefix table s1) (fun s2 =>
  bind (strip_prefix s_cols_values s2) (fun s3 =>
  match skip_sp s3 with
  | c :: r =>
    if c =? c_lp then
      bind (parse_phs (length r) r) (fun ir =>
      match skip_sp (snd ir) with
      | d :: _ =>
        if d =? c_semi then
          if Nat.eqb (length (fst ir)) 6 then
            bind (all_some (map (fun i => nth_error params (pred i)) (fst ir))) (fun row =>
            if existsb (Nat.eqb 0) (fst ir) then None else Some [row])
          else None
        else None
      | [] => None
      end)
    else None
  | [] => None
  end))).

(* ------------------------------------------------------------------ the table *)
Record row := mkrow { r_id : N; r_inp : str; r_tsb : Z; r_session : str; r_info : str }.

Definition next_id (rows : list row) : N := 1 + fold_right (fun r m => N.max (r_id r) m) 0 rows.

Definition db_insert (rows : list row) (inp : str) (tsb : Z) (session info : str) : list row :=
  rows ++ [mkrow (next_id rows) inp tsb session info].

Definition db_delete (rows : list row) (n : N) : list row :=
  filter (fun r => negb (r_id r =? n)) rows.

(** sqlite LIKE without ESCAPE: percent = any sequence, underscore = any one
    character, ASCII letters compare case-insensitively. *)
Definition fold_case (c : char) : char := if (65 <=? c) && (c <=? 90) then c + 32 else c.

Fixpoint like (p : str) : str -> bool :=
  match p with
  | [] => fun t => is_empty t
  | c :: p' =>
    if c =? c_pct then
      fix star (t : str) : bool :=
        like p' t || match t with [] => false | _ :: t' => star t' end
    else fun t =>
      match t with
      | [] => false
      | d :: t' => ((c =? c_us) || (fold_case c =? fold_case d)) && like p' t'
      end
  end.

(** a clause holds of a row: the bound value is compared verbatim *)
Definition clause_holds (r : row) (c : clause) : bool :=
  match c with
  | CInpLike p => like p (r_inp r)
  | CSessionEq s => str_eqb (r_session r) s
  | CInfoLike p => like p (r_info r)
  end.

Definition row_matches (pattern session dir : str) (o : lopts) (r : row) : bool :=
  forallb (clause_holds r) (select_clauses pattern session dir o).

(** ORDER BY tsb, rowid (6b3083d): the sort key is the pair, compared lexicographically;
    rowids are unique, so the order is total and no tie is left to sqlite's sorter. *)
Definition lt_key (x y : row) : bool :=
  (r_tsb x <? r_tsb y)%Z || ((r_tsb x =? r_tsb y)%Z && (r_id x <? r_id y)).

Fixpoint ins_asc (x : row) (l : list row) : list row :=
  match l with
  | [] => [x]
  | y :: l' => if lt_key x y then x :: l else y :: ins_asc x l'
  end.
Definition sort_asc (l : list row) : list row := fold_right ins_asc [] (rev l).

(** order by tsb desc, rowid desc *)
Fixpoint ins_desc (x : row) (l : list row) : list row :=
  match l with
  | [] => [x]
  | y :: l' => if lt_key y x then x :: l else y :: ins_desc x l'
  end.
Definition sort_desc (l : list row) : list row := fold_right ins_desc [] (rev l).

Definition take_limit (lim : Z) (l : list row) : list row :=
  if (lim <? 0)%Z then l else firstn (Z.to_nat lim) l.

(** list_current_history: rows in the order printed.  Without -a the newest
    [limit] rows are selected (ORDER BY tsb DESC LIMIT n) and printed oldest first. *)
Definition db_list (rows : list row) (pattern session dir : str) (o : lopts) : list row :=
  let m := filter (row_matches pattern session dir o) rows in
  if o_asc o then take_limit (o_limit o) (sort_asc m) else rev (take_limit (o_limit o) (sort_desc m)).

(** The table is kept in rowid = submission order.  The hypothesis under which listing by
    (time, rowid) is listing by submission: along the table the rowids increase (sqlite's
    allocation, see db_insert) and tsb never decreases.  [incrb] is the same thing said on
    the sort key. *)
Fixpoint incrb (l : list row) : bool :=
  match l with
  | [] => true
  | a :: t => forallb (fun b => lt_key a b) t && incrb t
  end.
Fixpoint ids_incr (l : list row) : bool :=
  match l with
  | [] => true
  | a :: t => forallb (fun b => r_id a <? r_id b) t && ids_incr t
  end.
Fixpoint tsb_nondecr (l : list row) : bool :=
  match l with
  | [] => true
  | a :: t => forallb (fun b => (r_tsb a <=? r_tsb b)%Z) t && tsb_nondecr t
  end.

(* ------------------------------------------------------------------ main loop: what is recorded *)
(** tools::extend_bangbang (the !! expansion of the interactive loop), with the tokenizer
    (parse_line) as a parameter.  A line without the two-character text !! and any line
    while previous_cmd is empty are returned unchanged; otherwise the line is REBUILT from
    its tokens: each token between its quote marks, !! replaced by previous_cmd in every
    token that is not single-quoted, tokens joined by one blank, trailing blanks trimmed.
    So the rebuilt line has its blanks normalised and, in particular, no leading blank.
    (Regex::replace_all takes previous_cmd as a replacement TEMPLATE: a dollar sign in it
    is read as a group reference -- not modelled, the checks use no dollar sign.) *)
Definition c_excl := 33.
Fixpoint has_bb (s : str) : bool :=
  match s with
  | a :: ((b :: _) as r) => ((a =? c_excl) && (b =? c_excl)) || has_bb r
  | _ => false
  end.
Fixpoint replace_bb (prev s : str) : str :=
  match s with
  | a :: r =>
    match r with
    | b :: r' => if (a =? c_excl) && (b =? c_excl) then prev ++ replace_bb prev r' else a :: replace_bb prev r
    | [] => [a]
    end
  | [] => []
  end.
Definition sep_str (t : tag) : str :=
  match t with TNone => [] | TSq => [c_sq] | TDq => [c_dq] | TBq => [c_bq] | TBs => [c_bs] end.
Definition rebuild_token (prev : str) (tk : tag * str) : str :=
  let (sep, tok) := tk in
  sep_str sep ++ (if has_bb tok && negb (tag_eqb sep TSq) then replace_bb prev tok else tok) ++ sep_str sep ++ [c_space].
Definition extend_bangbang (tokenize : str -> list (tag * str)) (prev line : str) : str :=
  if negb (has_bb line) then line
  else if is_empty prev then line
  else trim_end (concat (map (rebuild_token prev) (tokenize line))).

Definition starts_with_space (s : str) : bool := match s with c :: _ => c =? c_space | [] => false end.

(** One iteration of the read loop (main.rs): [typed] is the line read (after
    trim_multiline_prompts), kept in sh.cmd; [bang prev typed] is tools::extend_bangbang
    applied to a copy.  The leading-blank guard looks at the TYPED text (sh.cmd), the
    repeat test and the text handed to history::add are the EXPANDED line.
    Result: the line handed to history::add (if any) and the new previous_cmd. *)
Definition session_step (bang : str -> str -> str) (prev typed : str) : option str * str :=
  if is_empty (trim typed) then (None, prev) else
  let line := bang prev typed in
  if negb (starts_with_space typed) && negb (str_eqb line prev) then (Some line, line) else (None, prev).

Fixpoint session_run (bang : str -> str -> str) (prev : str) (typed : list str) : list str :=
  match typed with
  | [] => []
  | t :: rest =>
    match session_step bang prev t with
    | (Some l, p) => l :: session_run bang p rest
    | (None, p) => session_run bang p rest
    end
  end.

(* ------------------------------------------------------------------ several shell processes, one database *)
(** A shell process is either interactive (the lines typed at its prompt) or a
    [-c history add LINE] process.  What a process appends to the table does NOT
    depend on the rows already stored: Shell::new sets previous_cmd to the empty
    string and history::init (which loads the stored lines into the line editor)
    does not touch it, so the repeat rule only ever compares with a line recorded
    by the SAME process.  [stored] is an argument precisely so that this
    independence is a statement about the model. *)
Inductive proc := Interactive (typed : list str) | AddCmd (line : str).

Definition initial_previous_cmd (stored : list str) : str := [].

Definition proc_records (bang : str -> str -> str) (stored : list str) (p : proc) : list str :=
  match p with
  | Interactive typed => session_run bang (initial_previous_cmd stored) typed
  | AddCmd line => [trim line]
  end.

Fixpoint db_procs (bang : str -> str -> str) (stored : list str) (ps : list proc) : list str :=
  match ps with
  | [] => stored
  | p :: r => db_procs bang (stored ++ proc_records bang stored p) r
  end.
