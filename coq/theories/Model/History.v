(** C18 -- model of cicada's history storage (src/history.rs, src/builtins/history.rs,
    the recording rule of src/main.rs).

    What the property turns on is the TEXT of the SQL statements that cicada
    assembles with format!, and how sqlite reads a string literal inside that
    text.  So the model is: (1) the three statement texts as functions over
    [str]; (2) sqlite's string-literal lexing (quote ... quote with the doubled
    quote as escape; code point 0 ends the input); (3) a recogniser for the
    shape of the INSERT statement (tuples of literals / numerals) that says which
    rows a statement text inserts; (4) the table as a list of rows with sqlite's
    rowid allocation, LIKE matching, ORDER BY tsb / LIMIT; (5) the main loop's
    decision whether a line is recorded.  No proofs here. *)
From Coq Require Import ZArith.
From Cicada Require Import Base.Chars.
Local Open Scope N_scope.

(* ------------------------------------------------------------------ text *)
(** str::replace(line, quote, quote quote) *)
Fixpoint quote_body (s : str) : str :=
  match s with
  | [] => []
  | c :: r => if c =? c_sq then c_sq :: c_sq :: quote_body r else c :: quote_body r
  end.

(* fixed fragments of the format strings (code points; the text is in the comment) *)
Definition s_insert_into : str := [73;78;83;69;82;84;32;73;78;84;79;32].            (* INSERT INTO_ *)
Definition s_cols_values : str :=                                                    (* _(inp, rtn, tsb, tse, sessionid, info) VALUES *)
  [32;40;105;110;112;44;32;114;116;110;44;32;116;115;98;44;32;116;115;101;44;32;115;101;115;115;105;111;110;105;100;44;32;105;110;102;111;41;32;86;65;76;85;69;83].
Definition s_comma_sp : str := [44;32].                                              (* ,_ *)
Definition s_dir : str := [100;105;114;58].                                          (* dir: *)
Definition s_bar : str := [124].                                                     (* | *)

(** history.rs add_raw: the INSERT text. [status], [tsb], [tse] are the Display
    renderings of the i32 / f64 values (number formatting is not modelled). *)
Definition insert_sql (table line status tsb tse session dir : str) : str :=
  s_insert_into ++ table ++ s_cols_values ++ [c_lp; c_sq] ++ quote_body (trim line) ++ [c_sq] ++
  s_comma_sp ++ status ++ s_comma_sp ++ tsb ++ s_comma_sp ++ tse ++ s_comma_sp ++
  [c_sq] ++ session ++ [c_sq] ++ s_comma_sp ++ [c_sq] ++ s_dir ++ dir ++ s_bar ++ [c_sq; c_rp; c_semi].

(** The row the caller of add_raw means to store. *)
Inductive value := VStr (s : str) | VNum (s : str).
Definition intended_row (line status tsb tse session dir : str) : list value :=
  [VStr (trim line); VNum status; VNum tsb; VNum tse; VStr session; VStr (s_dir ++ dir ++ s_bar)].

Definition s_select : str := [83;69;76;69;67;84;32;82;79;87;73;68;44;32;105;110;112;44;32;116;115;98;32;70;82;79;77;32]. (* SELECT ROWID, inp, tsb FROM_ *)
Definition s_where : str := [32;87;72;69;82;69;32;82;79;87;73;68;32;62;32;48].      (* _WHERE ROWID > 0 *)
Definition s_and_inp_like : str := [32;65;78;68;32;105;110;112;32;76;73;75;69;32].   (* _AND inp LIKE_ *)
Definition s_and_session : str := [32;65;78;68;32;115;101;115;115;105;111;110;105;100;32;61;32]. (* _AND sessionid =_ *)
Definition s_and_info_like : str := [32;65;78;68;32;105;110;102;111;32;108;105;107;101;32]. (* _AND info like_ *)
Definition s_order_asc : str := [32;79;82;68;69;82;32;66;89;32;116;115;98].          (* _ORDER BY tsb *)
Definition s_order_desc : str := [32;111;114;100;101;114;32;98;121;32;116;115;98;32;100;101;115;99]. (* _order by tsb desc *)
Definition s_limit : str := [32;108;105;109;105;116;32].                             (* _limit_ *)
Definition c_pct := 37.

Record lopts := mko { o_session : bool; o_asc : bool; o_pwd : bool; o_limit : Z }.

(** The literal that is meant to hold the LIKE pattern:  quote % pattern % quote  *)
Definition like_lit (inner : str) : str := [c_sq; c_pct] ++ inner ++ [c_pct; c_sq].
Definition pwd_inner (dir : str) : str := s_dir ++ dir ++ s_bar.

(** builtins/history.rs list_current_history: the SELECT text ([limit] = Display of the i32). *)
Definition select_sql (table pattern session dir : str) (o : lopts) (limit : str) : str :=
  let sql := s_select ++ table ++ s_where in
  let sql := if is_empty pattern then sql else sql ++ s_and_inp_like ++ like_lit pattern in
  let sql := if o_session o then sql ++ s_and_session ++ [c_sq] ++ session ++ [c_sq] else sql in
  let sql := if o_pwd o then sql ++ s_and_info_like ++ like_lit (pwd_inner dir) else sql in
  let sql := if o_asc o then sql ++ s_order_asc else sql ++ s_order_desc in
  sql ++ s_limit ++ limit ++ [c_space].

Definition s_delete : str := [68;69;76;69;84;69;32;102;114;111;109;32].             (* DELETE from_ *)
Definition s_where_rowid : str := [32;119;104;101;114;101;32;114;111;119;105;100;32;61;32]. (* _where rowid =_ *)
Definition delete_sql (table n : str) : str := s_delete ++ table ++ s_where_rowid ++ n.

(* ------------------------------------------------------------------ sqlite: string literal *)
(** sqlite3GetToken, case CC_QUOTE with delimiter quote: scan to the next quote
    that is not followed by a quote; a doubled quote stands for one; the end of
    the input (or code point 0, which ends the C string) before that = TK_ILLEGAL.
    [lex_body] is run after the opening quote; result = (value, rest of input). *)
Fixpoint lex_body (s : str) : option (str * str) :=
  match s with
  | [] => None
  | c :: r =>
    if c =? 0 then None else
    if c =? c_sq then
      match r with
      | c2 :: r2 =>
        if c2 =? c_sq then
          match lex_body r2 with Some (v, rest) => Some (c_sq :: v, rest) | None => None end
        else Some ([], r)
      | [] => Some ([], [])
      end
    else match lex_body r with Some (v, rest) => Some (c :: v, rest) | None => None end
  end.

Definition lex_literal (s : str) : option (str * str) :=
  match s with
  | c :: r => if c =? c_sq then lex_body r else None
  | [] => None
  end.

Definition has_sq (s : str) : bool := existsb (fun c => c =? c_sq) s.
Definition has_nul (s : str) : bool := existsb (fun c => c =? 0) s.
Fixpoint count_sq (s : str) : nat :=
  match s with [] => O | c :: r => if c =? c_sq then S (count_sq r) else count_sq r end.

(* ------------------------------------------------------------------ sqlite: shape of the INSERT *)
Fixpoint skip_sp (s : str) : str := match s with c :: r => if c =? c_space then skip_sp r else s | [] => [] end.

Fixpoint strip_prefix (p s : str) : option str :=
  match p, s with
  | [], _ => Some s
  | a :: p', b :: s' => if a =? b then strip_prefix p' s' else None
  | _ :: _, [] => None
  end.

Definition is_numch (c : char) : bool :=
  is_digit c || (c =? c_dot) || (c =? c_minus) || (c =? c_plus) || (c =? 101) || (c =? 69).

Fixpoint take_num (s : str) : str * str :=
  match s with
  | c :: r => if is_numch c then let (a, b) := take_num r in (c :: a, b) else ([], s)
  | [] => ([], [])
  end.

Definition parse_value (s : str) : option (value * str) :=
  match s with
  | [] => None
  | c :: r =>
    if c =? c_sq then
      match lex_body r with Some (v, rest) => Some (VStr v, rest) | None => None end
    else
      let (n, rest) := take_num s in
      if is_empty n then None else Some (VNum n, rest)
  end.

(** value {, value} )   -- after the opening parenthesis *)
Fixpoint parse_values (fuel : nat) (s : str) : option (list value * str) :=
  match fuel with
  | O => None
  | S f =>
    match parse_value (skip_sp s) with
    | None => None
    | Some (v, r) =>
      match skip_sp r with
      | c :: r' =>
        if c =? c_comma then
          match parse_values f r' with Some (vs, r'') => Some (v :: vs, r'') | None => None end
        else if c =? c_rp then Some ([v], r')
        else None
      | [] => None
      end
    end
  end.

(** (tuple) {, (tuple)} then ; or the end of the text.  What follows the first ;
    is not read: rusqlite's execute (no extra_check feature) prepares and runs
    the first statement only. *)
Fixpoint parse_tuples (fuel : nat) (s : str) : option (list (list value)) :=
  match fuel with
  | O => None
  | S f =>
    match skip_sp s with
    | c :: r =>
      if c =? c_lp then
        match parse_values (length r) r with
        | None => None
        | Some (vs, r') =>
          match skip_sp r' with
          | [] => Some [vs]
          | d :: r'' =>
            if d =? c_semi then Some [vs]
            else if d =? c_comma then
              match parse_tuples f r'' with Some ts => Some (vs :: ts) | None => None end
            else None
          end
        end
      else None
    | [] => None
    end
  end.

Definition bind {A B} (o : option A) (f : A -> option B) : option B :=
  match o with Some a => f a | None => None end.

(** Some rows = the text is an INSERT of the canonical shape that stores exactly
    these rows (6 values each); None = not of that shape. *)
Definition parse_insert (table s : str) : option (list (list value)) :=
  bind (strip_prefix s_insert_into s) (fun s1 =>
  bind (strip_prefix table s1) (fun s2 =>
  bind (strip_prefix s_cols_values s2) (fun s3 =>
  bind (parse_tuples (S (S (length s3))) s3) (fun ts =>
  if forallb (fun t => Nat.eqb (length t) 6) ts then Some ts else None)))).

(* ------------------------------------------------------------------ the table *)
Record row := mkrow { r_id : N; r_inp : str; r_tsb : Z; r_session : str; r_info : str }.

Definition next_id (rows : list row) : N := 1 + fold_right (fun r m => N.max (r_id r) m) 0 rows.

Definition db_insert (rows : list row) (inp : str) (tsb : Z) (session info : str) : list row :=
  rows ++ [mkrow (next_id rows) inp tsb session info].

Definition db_delete (rows : list row) (n : N) : list row :=
  filter (fun r => negb (r_id r =? n)) rows.

(** sqlite LIKE without ESCAPE: percent = any sequence, underscore = any one
    character, ASCII letters compare case-insensitively. *)
Definition fold_case (c : char) : char := if (65 <=? c) && (c <=? 90) then c + 32 else c.

Fixpoint like (p : str) : str -> bool :=
  match p with
  | [] => fun t => is_empty t
  | c :: p' =>
    if c =? c_pct then
      fix star (t : str) : bool :=
        like p' t || match t with [] => false | _ :: t' => star t' end
    else fun t =>
      match t with
      | [] => false
      | d :: t' => ((c =? c_us) || (fold_case c =? fold_case d)) && like p' t'
      end
  end.

Definition wrap_pct (s : str) : str := [c_pct] ++ s ++ [c_pct].

Definition row_matches (pattern session dir : str) (o : lopts) (r : row) : bool :=
  (is_empty pattern || like (wrap_pct pattern) (r_inp r)) &&
  (negb (o_session o) || str_eqb (r_session r) session) &&
  (negb (o_pwd o) || like (wrap_pct (pwd_inner dir)) (r_info r)).

(** stable insertion sort by tsb (ties keep rowid order; sqlite leaves ties unspecified) *)
Fixpoint ins_asc (x : row) (l : list row) : list row :=
  match l with
  | [] => [x]
  | y :: l' => if (r_tsb x <? r_tsb y)%Z then x :: l else y :: ins_asc x l'
  end.
Definition sort_asc (l : list row) : list row := fold_right ins_asc [] (rev l).
(* rev + strict test: equal keys end up in the original order *)

Definition take_limit (lim : Z) (l : list row) : list row :=
  if (lim <? 0)%Z then l else firstn (Z.to_nat lim) l.

(** list_current_history: rows in the order printed.  Without -a the newest
    [limit] rows are selected (ORDER BY tsb DESC LIMIT n) and printed oldest first. *)
Definition db_list (rows : list row) (pattern session dir : str) (o : lopts) : list row :=
  let m := filter (row_matches pattern session dir o) rows in
  let s := sort_asc m in
  if o_asc o then take_limit (o_limit o) s else rev (take_limit (o_limit o) (rev s)).

(* ------------------------------------------------------------------ main loop: what is recorded *)
Definition starts_with_space (s : str) : bool := match s with c :: _ => c =? c_space | [] => false end.

(** One iteration of the read loop (main.rs): [typed] is the line read (after
    trim_multiline_prompts); [bang prev typed] is tools::extend_bangbang.
    Result: the line handed to history::add (if any) and the new previous_cmd. *)
Definition session_step (bang : str -> str -> str) (prev typed : str) : option str * str :=
  if is_empty (trim typed) then (None, prev) else
  let line := bang prev typed in
  if negb (starts_with_space typed) && negb (str_eqb line prev) then (Some line, line) else (None, prev).

Fixpoint session_run (bang : str -> str -> str) (prev : str) (typed : list str) : list str :=
  match typed with
  | [] => []
  | t :: rest =>
    match session_step bang prev t with
    | (Some l, p) => l :: session_run bang p rest
    | (None, p) => session_run bang p rest
    end
  end.
