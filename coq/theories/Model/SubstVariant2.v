(** VARIANT models for two proposed repairs in C11 (not applied):
    notes/C11-fix-4.patch  a backquote command that does not plan yields the empty string (whole-token form: the
                           index is advanced; embedded form: no stale output);
    notes/C11-fix-5.patch  the substitution to run is the first dollar-paren with BALANCED parentheses, and the word is
                           rebuilt by slicing (text before the dollar, output, text after the closing paren). *)
From Coq Require Import ZArith.
From Cicada Require Import Base.Chars Base.Tag Model.Expand.
Local Open Scope N_scope.

Definition out_of (W : World) (cmd : str) : str := match run_capture W cmd with Some o => o | None => [] end.

(* ------------------------------------------------------------------ fix-4 *)
Fixpoint dot_loop_v (fuel : nat) (W : World) (tok item : str) (log : list str) : res (str * list str) :=
  match fuel with
  | O => OutOfFuel
  | S f =>
      match dot_split tok with
      | None => Ok (if is_empty tok then item else item ++ tok, log)
      | Some (h, c, t) =>
          let item' := item ++ h ++ trim (out_of W c) in
          if is_empty t then Ok (item', log ++ [c]) else dot_loop_v f W t item' (log ++ [c])
      end
  end.

Fixpoint dot_collect_v (W : World) (toks : tokens) (idx : nat) (log : list str)
  : res (list (nat * str) * list str) :=
  match toks with
  | [] => Ok ([], log)
  | (tg, text) :: r =>
      match tg with
      | TBq => res_map (fun x => ((idx, trim (out_of W text)) :: fst x, snd x))
                       (dot_collect_v W r (S idx) (log ++ [text]))
      | TDq | TNone =>
          match dot_split text with
          | None => dot_collect_v W r (S idx) log
          | Some _ =>
              bind (dot_loop_v (S (length text)) W text [] log) (fun y =>
              res_map (fun x => ((idx, fst y) :: fst x, snd x)) (dot_collect_v W r (S idx) (snd y)))
          end
      | _ => dot_collect_v W r (S idx) log
      end
  end.

(* ------------------------------------------------------------------ fix-5 *)
(** [s] = text after an opening paren at nesting [depth] >= 1: up to the paren that closes depth 1 *)
Fixpoint scan_close (depth : nat) (s : str) : option (str * str) :=
  match s with
  | [] => None
  | c :: r =>
      if c =? 40 then
        match scan_close (S depth) r with Some (a, b) => Some (c :: a, b) | None => None end
      else if c =? 41 then
        match depth with
        | S O => Some ([], r)
        | S d => match scan_close d r with Some (a, b) => Some (c :: a, b) | None => None end
        | O => None
        end
      else match scan_close depth r with Some (a, b) => Some (c :: a, b) | None => None end
  end.

(** [line.find("$(")] then the balanced scan: (text before the dollar, inner line, text after the closing paren);
    no retry at a later position when the first one is unbalanced *)
Fixpoint find_dollar_paren (s : str) : option (str * str * str) :=
  match s with
  | [] => None
  | c :: r =>
      if (c =? 36) && starts_with [40] r then
        match scan_close 1 (tl r) with Some (cmd, after) => Some ([], cmd, after) | None => None end
      else match find_dollar_paren r with
           | Some (b, cmd, after) => Some (c :: b, cmd, after)
           | None => None
           end
  end.

Fixpoint dollar_loop_b (fuel : nat) (W : World) (line : str) (log : list str) : res (option str * list str) :=
  match fuel with
  | O => OutOfFuel
  | S f =>
      if negb (should_do_dollar line) then Ok (Some line, log)
      else match find_dollar_paren line with
           | None => Ok (None, log)
           | Some (before, cmd, after) =>
               dollar_loop_b f W (before ++ trim (out_of W cmd) ++ after) (log ++ [cmd])
           end
  end.
