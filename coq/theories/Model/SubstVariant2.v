(** VARIANT model for a proposed repair in C11 (NOT applied: the scan is not quote-aware):
    notes/C11-fix-5.patch  the substitution to run is the first dollar-paren with BALANCED parentheses, and the word is
                           rebuilt by slicing (text before the dollar, output, text after the closing paren). *)
From Coq Require Import ZArith.
From Cicada Require Import Base.Chars Base.Tag Model.Expand.
Local Open Scope N_scope.

Definition out_of (W : World) (cmd : str) : str := match run_capture W cmd with Some o => o | None => [] end.

(* ------------------------------------------------------------------ fix-5 *)
(** [s] = text after an opening paren at nesting [depth] >= 1: up to the paren that closes depth 1 *)
Fixpoint scan_close (depth : nat) (s : str) : option (str * str) :=
  match s with
  | [] => None
  | c :: r =>
      if c =? 40 then
        match scan_close (S depth) r with Some (a, b) => Some (c :: a, b) | None => None end
      else if c =? 41 then
        match depth with
        | S O => Some ([], r)
        | S d => match scan_close d r with Some (a, b) => Some (c :: a, b) | None => None end
        | O => None
        end
      else match scan_close depth r with Some (a, b) => Some (c :: a, b) | None => None end
  end.

(** [line.find("$(")] then the balanced scan: (text before the dollar, inner line, text after the closing paren);
    no retry at a later position when the first one is unbalanced *)
Fixpoint find_dollar_paren (s : str) : option (str * str * str) :=
  match s with
  | [] => None
  | c :: r =>
      if (c =? 36) && starts_with [40] r then
        match scan_close 1 (tl r) with Some (cmd, after) => Some ([], cmd, after) | None => None end
      else match find_dollar_paren r with
           | Some (b, cmd, after) => Some (c :: b, cmd, after)
           | None => None
           end
  end.

Fixpoint dollar_loop_b (fuel : nat) (W : World) (line : str) (log : list str) : res (option str * list str) :=
  match fuel with
  | O => OutOfFuel
  | S f =>
      if negb (should_do_dollar line) then Ok (Some line, log)
      else match find_dollar_paren line with
           | None => Ok (None, log)
           | Some (before, cmd, after) =>
               dollar_loop_b f W (before ++ trim (out_of W cmd) ++ after) (log ++ [cmd])
           end
  end.
