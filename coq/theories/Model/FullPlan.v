(** [CommandLine::from_line] as a whole (src/types.rs:356-387): tokenize, run the
    expansion passes on the token list, THEN look for assignments, the background
    marker, pipes, input and output redirections in the rewritten tokens.
    Composition of Model/Tokenizer.v, Model/Expand.v and Model/Redirect.v; nothing
    is re-transcribed here.  No proofs in this file. *)
From Cicada Require Import Base.Chars Base.Tag.
From Cicada Require Model.Tokenizer Model.Expand Model.Redirect.

Definition plan_result := (Redirect.cmdline + Redirect.perr)%type.

(** text in -> planned command line out *)
Definition plan (W : Expand.World) (fuel : nat) (l : str) : Expand.res plan_result :=
  Expand.bind (Expand.do_expansion Tokenizer.parse_line W fuel (Tokenizer.parse_line l))
              (fun toks => Expand.Ok (Redirect.plan_tokens toks)).

(** the same, also returning the tokens after expansion and the inner command lines that
    command substitution handed to the shell (in order) *)
Definition plan_log (W : Expand.World) (fuel : nat) (l : str)
  : Expand.res (Expand.tokens * list str * plan_result) :=
  Expand.bind (Expand.do_expansion_log Tokenizer.parse_line W fuel (Tokenizer.parse_line l))
              (fun x => Expand.Ok (fst x, snd x, Redirect.plan_tokens (fst x))).

(** [plan] from the token list on (what from_line does after [parse_line]) *)
Definition plan_toks (W : Expand.World) (fuel : nat) (toks : Expand.tokens) : Expand.res plan_result :=
  Expand.bind (Expand.do_expansion Tokenizer.parse_line W fuel toks)
              (fun toks' => Expand.Ok (Redirect.plan_tokens toks')).
