(** VARIANT model for the proposed repair notes/C10-fix-1.patch (one-pass parameter
    expansion): transcription of the patched functions env_ref_at / expand_env_once and of
    expand_env as it reads with the patch.  The model of the code as it IS stays in
    Model/Expand.v; this file becomes the model once the patch is committed. *)
From Coq Require Import ZArith.
From Cicada Require Import Base.Chars Base.Tag Model.Expand Model.ExpandRef.
Local Open Scope N_scope.

(** the reference at the start of [s], which follows a dollar: key and number of chars spanned *)
Definition env_ref_at (s : str) : option (str * nat) :=
  match s with
  | [] => None
  | c :: r =>
      if (c =? 63) || (c =? 36) then Some ([c], 1%nat)
      else if is_name_start c then
        let n := fst (span is_alnum_us s) in Some (n, length n)
      else if c =? 123 then
        match r with
        | [] => None
        | d :: r' =>
            if ((d =? 63) || (d =? 36)) && starts_with [125] r' then Some ([d], 3%nat)
            else if is_name_start d then
              let n := fst (span is_alnum_us r) in
              if starts_with [125] (snd (span is_alnum_us r)) then Some (n, (length n + 2)%nat) else None
            else None
        end
      else None
  end.

(** the [while i < chars.len()] loop; [skip] = how many chars the last reference still covers *)
Fixpoint once_go (W : World) (skip : nat) (t : str) : str :=
  match t with
  | [] => []
  | c :: r =>
      match skip with
      | S k => once_go W k r
      | O =>
          if c =? 36 then
            match env_ref_at r with
            | Some (key, n) => key_value W key ++ once_go W n r
            | None => 36 :: once_go W 0 r
            end
          else c :: once_go W 0 r
      end
  end.
Definition expand_env_once (W : World) (t : str) : str := once_go W 0 t.

Definition expand_env_tok1 (W : World) (t : token) : token :=
  match fst t with
  | TBq | TSq => t
  | _ => if env_in_token (snd t) then (fst t, expand_env_once W (snd t)) else t
  end.
Definition expand_env1 (W : World) (toks : tokens) : tokens := map (expand_env_tok1 W) toks.
