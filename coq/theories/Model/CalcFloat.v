(** Float mode of the calculator: the STRUCTURE of [calculator::eval_float]
    (src/calculator/mod.rs) and of the float arm of [core::run_calculator].

    The f64 operations themselves are not defined in Coq. They are oracle
    functions, the fields of a record [fops F] over an abstract carrier [F]:
      Rule::add      -> lhs + rhs        [f_add]
      Rule::subtract -> lhs - rhs        [f_sub]
      Rule::multiply -> lhs * rhs        [f_mul]
      Rule::divide   -> lhs / rhs        [f_div]
      Rule::power    -> lhs.powf(rhs)    [f_pow]
      Rule::num      -> primary.as_str().parse::<f64>().unwrap()   [f_lit]
    What IS modelled: which rule maps to which operation, the argument order
    (lhs first), the order of evaluation (the closures run inside the same
    PrattParserMap as eval_int, so the same [pratt]), the recursion into a
    nested expr, the [unwrap] of the literal parse, and the int-vs-float
    decision [line.contains('.')] ([has_dot]).

    About the [unwrap]: [f_lit] returns an option, [None] = Err(ParseFloatError),
    on which the closure panics. [res] has a single panic site (SStruct), so the
    panic is carried as the value [None] through the remaining closures (which
    have no effect besides their value, and the shape of the Pratt run does not
    depend on values), and surfaces as [FFloat (Ok None)] = panic at the unwrap.
    In practice the unwrap cannot fail: core's dec2flt accepts
      [+-]? ( digit+ | digit+ . digit* | digit* . digit+ ) ( [eE] [+-]? digit+ )?
    and the atomic rule num = int ~ (. ~ digit* )? ~ (^e ~ int)? with
    int = [+-]? digit+ produces exactly texts of the first two shapes with an
    optional exponent; out-of-range magnitudes parse to inf / 0, not to Err.
    [f64_syntax] below transcribes that accepted syntax (the inf / nan spellings
    are left out: a num token has no letter other than e), and
    Proofs/CalcFloatProofs.v proves that every num token satisfies it.

    No proofs here. *)
From Coq Require Import ZArith.
From Cicada Require Import Base.Chars Model.Calc.
Local Open Scope N_scope.

Record fops (F : Type) := mk_fops {
  f_add : F -> F -> F;
  f_sub : F -> F -> F;
  f_mul : F -> F -> F;
  f_div : F -> F -> F;
  f_pow : F -> F -> F;          (* f64::powf *)
  f_lit : str -> option F       (* str::parse::<f64>, None = Err *)
}.
Arguments f_add {F} f _ _.
Arguments f_sub {F} f _ _.
Arguments f_mul {F} f _ _.
Arguments f_div {F} f _ _.
Arguments f_pow {F} f _ _.
Arguments f_lit {F} f _.

(** the syntax accepted by [<f64 as FromStr>::from_str] (core::num::dec2flt),
    without the inf / infinity / nan spellings *)
Definition strip_sign (s : str) : str :=
  match s with
  | c :: r => if (c =? 43) || (c =? 45) then r else s
  | [] => s
  end.

Definition f64_syntax (s : str) : bool :=
  let s0 := strip_sign s in
  let '(d1, s1) := take_digits s0 in
  let '(d2, s2) := match s1 with
                   | c :: r => if c =? 46 then take_digits r else ([], s1)
                   | [] => ([], s1)
                   end in
  if is_empty d1 && is_empty d2 then false
  else
    match s2 with
    | [] => true
    | c :: r =>
      if (c =? 101) || (c =? 69) then
        let '(d3, s3) := take_digits (strip_sign r) in
        negb (is_empty d3) && is_empty s3
      else false
    end.

Section Float.
  Variable F : Type.
  Variable ops : fops F.

  (** the match on [op.as_rule()] of the closure given to map_infix *)
  Definition f_op (o : op) (lhs rhs : F) : F :=
    match o with
    | Add => f_add ops lhs rhs
    | Sub => f_sub ops lhs rhs
    | Mul => f_mul ops lhs rhs
    | Div => f_div ops lhs rhs
    | Pow => f_pow ops lhs rhs
    end.

  (** the closure given to map_primary, for a num ([None] = the unwrap panics) *)
  Definition float_prim (l : str) : res (option F) := Ok (f_lit ops l).

  (** the closure given to map_infix *)
  Definition float_infix (lhs : option F) (o : op) (rhs : option F) : res (option F) :=
    Ok (match lhs, rhs with
        | Some x, Some y => Some (f_op o x y)
        | _, _ => None
        end).

  Definition eval_float (fuel : nat) (ps : list (pair str)) : res (option F) :=
    pratt prec_of is_left float_prim float_infix fuel ps.

  (** the oracle folded over an expression tree: post-order, left operand first *)
  Fixpoint fold_float (t : tree str) : option F :=
    match t with
    | Leaf l => f_lit ops l
    | Node o a b =>
      match fold_float a, fold_float b with
      | Some x, Some y => Some (f_op o x y)
      | _, _ => None
      end
    end.

  Inductive calc_result_f :=
  | FSyntax                                (* Err("syntax error") *)
  | FInt (r : res ires)                    (* eval_int(expr).map(format) *)
  | FFloat (r : res (option F))            (* Ok(format!("{}", eval_float(expr))); Ok None = unwrap panic *)
  | FFuel.

  (** [core::run_calculator] with the float arm evaluated *)
  Definition run_calculator_f (line : str) : calc_result_f :=
    match parse_calc line with
    | PFuel => FFuel
    | PFail => FSyntax
    | POk ps =>
      if has_dot line then FFloat (eval_float (2 * tot ps + 1) ps)
      else FInt (eval_int (2 * tot ps + 1) ps)
    end.
End Float.
Arguments f_op {F} ops o lhs rhs.
Arguments float_prim {F} ops l.
Arguments float_infix {F} ops lhs o rhs.
Arguments eval_float {F} ops fuel ps.
Arguments fold_float {F} ops t.
Arguments FSyntax {F}.
Arguments FInt {F} r.
Arguments FFloat {F} r.
Arguments FFuel {F}.
Arguments run_calculator_f {F} ops line.
