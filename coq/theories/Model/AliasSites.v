(** C05 -- the second loop of [shell::expand_alias] (src/shell.rs) with the
    partial operations of the Rust code made explicit: [Vec::remove(i)]
    panics when [i >= len], [Vec::insert(i, x)] when [i > len].  The first
    loop ([scan]) and the total reference ([Alias.expand_alias], proved in C17
    to be a single structural pass) are C17's model, imported, not copied.
    The tokenizer is a function parameter: the value of an alias may tokenize
    to ANY number of words, zero included (only blanks, a comment). *)
From Coq Require Import Arith.
From Cicada Require Import Base.Chars Base.Tag Model.Highlight Model.Alias.

Definition vec_remove {A} (i : nat) (l : list A) : res (list A) :=
  if Nat.ltb i (length l) then Ok (firstn i l ++ skipn (S i) l) else Panic 835.

Definition vec_insert {A} (i : nat) (x : A) (l : list A) : res (list A) :=
  if Nat.leb i (length l) then Ok (firstn i l ++ x :: skipn i l) else Panic 837.

(** the inner loop: every token of the value, last first, is inserted at index i; [news_rev] = the value's tokens reversed *)
Fixpoint insert_all {A} (i : nat) (news_rev : list A) (l : list A) : res (list A) :=
  match news_rev with
  | [] => Ok l
  | x :: r => match vec_insert i x l with Ok l' => insert_all i r l' | Panic s => Panic s end
  end.

Definition replace_at_sites {A} (i : nat) (news : list A) (l : list A) : res (list A) :=
  match vec_remove i l with
  | Ok l' => insert_all i (rev news) l'
  | Panic s => Panic s
  end.

Section Expand.
  Variable tokenize : str -> list token.

  (** the outer loop walks the collected (index, value) pairs from the last to the first *)
  Fixpoint second_loop (buff_rev : list (nat * str)) (toks : list token) : res (list token) :=
    match buff_rev with
    | [] => Ok toks
    | (i, v) :: r => match replace_at_sites i (tokenize v) toks with
                     | Ok toks' => second_loop r toks'
                     | Panic s => Panic s
                     end
    end.

  Definition expand_alias_sites (t : table) (toks : list token) : res (list token) :=
    second_loop (rev (scan t toks O true)) toks.
End Expand.
