(** C09 -- variables, exported environment, working directory.
    Statement-by-statement transcription of
      shell.rs      set_env / get_env / remove_env, the lookup order inside expand_one_env
      types.rs      drain_env_tokens (loose name class), execute.rs run_proc / set_shell_vars
      core.rs       child environment = env::vars() minus the per-command names, followed by the per-command pairs
      builtins      export.rs, unset.rs, read.rs (+ tools.rs split_into_fields), cd.rs
      parser_line   unquote;  tools.rs is_env
    The process environment is an ORDERED association list (glibc setenv replaces in
    place or appends, unsetenv removes every match; execve passes the list verbatim,
    getenv returns the first match).  The file system and tilde expansion are oracles
    (record [world]).  No proofs here. *)
From Cicada Require Import Base.Chars.
Local Open Scope N_scope.

(* ------------------------------------------------------------------ maps *)
Definition alist := list (str * str).

Fixpoint aget {V : Type} (m : list (str * V)) (k : str) : option V :=
  match m with
  | [] => None
  | (k', v) :: r => if str_eqb k' k then Some v else aget r k
  end.

(** HashMap::insert / setenv(overwrite): replace the first binding in place, else append. *)
Fixpoint aset {V : Type} (m : list (str * V)) (k : str) (v : V) : list (str * V) :=
  match m with
  | [] => [(k, v)]
  | (k', v') :: r => if str_eqb k' k then (k, v) :: r else (k', v') :: aset r k v
  end.

(** HashMap::remove / unsetenv: every binding of the name goes. *)
Fixpoint adel {V : Type} (m : list (str * V)) (k : str) : list (str * V) :=
  match m with
  | [] => []
  | (k', v') :: r => if str_eqb k' k then adel r k else (k', v') :: adel r k
  end.

(** all values bound to the name, in list order (what a child finds in its environ) *)
Fixpoint avalues (m : alist) (k : str) : list str :=
  match m with
  | [] => []
  | (k', v) :: r => if str_eqb k' k then v :: avalues r k else avalues r k
  end.

Definition memb (c : char) (s : str) : bool := existsb (fun d => d =? c) s.

(* ------------------------------------------------------------------ names, regexes *)
Definition s_IFS : str := [73; 70; 83].
Definition s_HOME : str := [72; 79; 77; 69].
Definition s_PWD : str := [80; 87; 68].
Definition s_REPLY : str := [82; 69; 80; 76; 89].
Definition s_export : str := [101; 120; 112; 111; 114; 116].
Definition s_unset : str := [117; 110; 115; 101; 116].
Definition s_read : str := [114; 101; 97; 100].
Definition s_cd : str := [99; 100].
Definition s_dash : str := [45].

(** maximal prefix of [a-zA-Z0-9_] *)
Fixpoint span_name (s : str) : str * str :=
  match s with
  | c :: r => if is_alnum_us c then let (a, b) := span_name r in (c :: a, b) else ([], s)
  | [] => ([], [])
  end.

Definition has_nl (s : str) : bool := memb c_nl s.

(** the pattern of types.rs drain_env_tokens: one or more of [a-zA-Z0-9_], an equals sign,
    then dot-star to the end (the pattern carries the s flag: the rest may hold newlines).  First match = the name is
    everything before the first equals sign. *)
Definition split_env_loose (s : str) : option (str * str) :=
  let (n, r) := span_name s in
  match n, r with
  | _ :: _, c :: v => if (c =? c_eq) then Some (n, v) else None
  | _, _ => None
  end.

(** the pattern of export.rs / tools.rs is_env / execute.rs: the name must not start with a digit *)
Definition split_env_strict (s : str) : option (str * str) :=
  match s with
  | c :: _ => if is_digit c then None else split_env_loose s
  | [] => None
  end.

Definition is_env (s : str) : bool :=
  match split_env_strict s with Some _ => true | None => false end.

(** read.rs: identifier = letter or underscore, then [a-zA-Z0-9_]*, anchored at both ends *)
Definition valid_ident (s : str) : bool :=
  match s with
  | c :: r => negb (is_digit c) && is_alnum_us c && forallb is_alnum_us r
  | [] => false
  end.

(** shell.rs remove_env: as above but a minus sign is allowed after the first character *)
Definition unset_name_ok (s : str) : bool :=
  match s with
  | c :: r => negb (is_digit c) && is_alnum_us c && forallb (fun d => is_alnum_us d || (d =? c_minus)) r
  | [] => false
  end.

(** parser_line::unquote: for c in [dq, sq]: if the text starts and ends with c, drop the
    first character, pop the last (a no-op on the empty string), stop. *)
Definition starts_with (c : char) (s : str) : bool :=
  match s with d :: _ => d =? c | [] => false end.
Definition ends_with (c : char) (s : str) : bool :=
  match rev s with d :: _ => d =? c | [] => false end.
Definition strip_ends (s : str) : str := removelast (tl s).
Definition unquote (s : str) : str :=
  if starts_with c_dq s && ends_with c_dq s then strip_ends s
  else if starts_with c_sq s && ends_with c_sq s then strip_ends s
  else s.

(* ------------------------------------------------------------------ tokens *)
Inductive tag := TNone | TSq | TDq | TBq | TBs.
Definition token := (tag * str)%type.
Definition tag_none (t : tag) : bool := match t with TNone => true | _ => false end.

(** types.rs drain_env_tokens.  [acc] is the HashMap built so far. *)
Fixpoint drain (toks : list token) (acc : alist) : alist * list token :=
  match toks with
  | (t, text) :: r =>
      if tag_none t then
        match split_env_loose text with
        | Some (n, v) => drain r (aset acc n (unquote v))
        | None => (acc, toks)
        end
      else (acc, toks)
  | [] => (acc, [])
  end.

(* ------------------------------------------------------------------ oracles, state *)
Record world := mkworld {
  w_exists : str -> bool;          (* Path::exists of an absolute path *)
  w_canon : str -> option str;     (* Path::canonicalize *)
  w_chdir : str -> bool;           (* set_current_dir of a canonical path succeeds *)
  w_tilde : str -> str             (* libs::path::expand_home on a text that contains a tilde *)
}.

Record st := mkst {
  locals : alist;     (* Shell.envs *)
  envp : alist;       (* the process environment, in environ order *)
  cwd : str;          (* the kernel's cwd = Shell.current_dir *)
  prev : str          (* Shell.previous_dir *)
}.

(** shell.rs set_env *)
Definition set_env (s : st) (n v : str) : st :=
  match aget (envp s) n with
  | Some _ => mkst (locals s) (aset (envp s) n v) (cwd s) (prev s)
  | None => mkst (aset (locals s) n v) (envp s) (cwd s) (prev s)
  end.

(** shell.rs get_env: shell-local first *)
Definition get_env (s : st) (n : str) : option str :=
  match aget (locals s) n with
  | Some x => Some x
  | None => aget (envp s) n
  end.

(** shell.rs remove_env *)
Definition remove_env (s : st) (n : str) : st * bool :=
  if unset_name_ok n then (mkst (adel (locals s) n) (adel (envp s) n) (cwd s) (prev s), true)
  else (s, false).

(** the lookup of a name inside expand_one_env: the ENVIRONMENT first, then get_env *)
Definition expand_lookup (s : st) (n : str) : option str :=
  match aget (envp s) n with
  | Some v => Some v
  | None => get_env s n
  end.

Definition env_set (s : st) (n v : str) : st :=
  mkst (locals s) (aset (envp s) n v) (cwd s) (prev s).

(** execute.rs set_shell_vars (HashMap iteration: any order; the pairs have distinct names) *)
Fixpoint set_shell_vars (s : st) (ps : alist) : st :=
  match ps with
  | [] => s
  | (n, v) :: r => set_shell_vars (set_env s n v) r
  end.

(* ------------------------------------------------------------------ outcomes *)
Inductive outcome :=
| OStatus (ok : bool)                                      (* a builtin / assignment finished; ok = status 0 *)
| OChild (argv : list str) (environ : alist) (dir : str)   (* an external program was started with this *)
| OVal (v : option str)                                    (* what the reference to a name expands to *)
| OPanic.                                                  (* the shell process dies (no modelled path produces it any more) *)

(* ------------------------------------------------------------------ export.rs *)
Definition expand_home (w : world) (v : str) : str :=
  if memb c_tilde v then w_tilde w v else v.

(** export.rs (217a8a1): set the environment variable and remove the shell-local one *)
Definition export_set (s : st) (n v : str) : st :=
  mkst (adel (locals s) n) (aset (envp s) n v) (cwd s) (prev s).

Fixpoint export_loop (w : world) (s : st) (toks : list token) : st * bool :=
  match toks with
  | [] => (s, true)
  | (_, text) :: r =>
      if str_eqb text s_export then export_loop w s r
      else if negb (is_env text) then (s, false)
      else match split_env_strict text with
           | None => (s, false)
           | Some (n, v) => export_loop w (export_set s n (expand_home w (unquote v))) r
           end
  end.

(* ------------------------------------------------------------------ read.rs, tools.rs split_into_fields *)
(** str::split on a set of characters: every occurrence cuts, empty fields are kept *)
Fixpoint split_on (seps : str) (s : str) : list str :=
  match s with
  | [] => [[]]
  | c :: r =>
      if memb c seps then [] :: split_on seps r
      else match split_on seps r with
           | f :: fs => (c :: f) :: fs
           | [] => [[c]]
           end
  end.

Definition default_seps : str := [c_space; c_tab; c_nl].

Definition ifs_chars (s : st) (envs : alist) : str :=
  match aget envs s_IFS with
  | Some x => x
  | None => match get_env s s_IFS with
            | Some x => x
            | None => match aget (envp s) s_IFS with Some x => x | None => [] end
            end
  end.

Definition split_into_fields (s : st) (line : str) (envs : alist) : list str :=
  let ic := ifs_chars s envs in
  if is_empty ic then split_on default_seps line else split_on ic line.

(** the text before the first separator, and what follows it (None: no separator) *)
Fixpoint break_sep (seps : str) (s : str) : str * option str :=
  match s with
  | [] => ([], None)
  | c :: r => if memb c seps then ([], Some r)
              else let (f, o) := break_sep seps r in (c :: f, o)
  end.

(** trim_start_matches / trim_matches with the separator predicate *)
Fixpoint drop_seps (seps : str) (s : str) : str :=
  match s with
  | c :: r => if memb c seps then drop_seps seps r else s
  | [] => []
  end.
Definition trim_seps (seps : str) (s : str) : str := rev (drop_seps seps (rev (drop_seps seps s))).

(** tools.rs split_into_fields_n (6cce60d): one walk over the line.
      while fields.len() + 1 < n { if default { skip the separator run };
                                   find the next separator: push the text before it, continue after it;
                                   none: break }
      if default { trim separators at both ends of the rest }; push the rest
    k = n - fields.len() *)
Fixpoint fields_loop (dflt : bool) (seps : str) (k : nat) (rest : str) : list str :=
  match k with
  | O => []
  | S k' =>
      match k' with
      | O => [if dflt then trim_seps seps rest else rest]
      | S _ =>
          let rest1 := if dflt then drop_seps seps rest else rest in
          match break_sep seps rest1 with
          | (f, Some r) => f :: fields_loop dflt seps k' r
          | (_, None) => [if dflt then trim_seps seps rest1 else rest1]
          end
      end
  end.

Definition split_into_fields_n (s : st) (line : str) (envs : alist) (k : nat) : list str :=
  let ic := ifs_chars s envs in
  if is_empty ic then fields_loop true default_seps k line else fields_loop false ic k line.

Fixpoint join_sp (l : list str) : str :=
  match l with
  | [] => []
  | [x] => x
  | x :: r => x ++ c_space :: join_sp r
  end.

(** the loop over all names but the last, then the last *)
Fixpoint read_assign (s : st) (names : list str) (vals : list str) : st :=
  match names with
  | [] => s
  | [last] => set_env s last (join_sp vals)
  | n :: r => read_assign (set_env s n (match vals with v :: _ => v | [] => [] end)) r (tl vals)
  end.

Definition read_run (s : st) (envs : alist) (toks : list token) (here : option str) : st * outcome :=
  let names := match tl toks with
               | [] => [s_REPLY]
               | r => map snd r
               end in
  if negb (forallb valid_ident names) then (s, OStatus false)
  else
    (* buffer = here-string + newline (or one line of stdin), then trim() *)
    let line := trim (match here with Some h => h ++ [c_nl] | None => [] end) in
    (read_assign s names (split_into_fields_n s line envs (length names)), OStatus true).

(* ------------------------------------------------------------------ cd.rs *)
Definition concat_strs (l : list str) : str := fold_right (fun a b => a ++ b) [] l.

Definition cd_run (w : world) (s : st) (toks : list token) : st * outcome :=
  let args := map snd toks in
  if (2 <? N.of_nat (length args)) then (s, OStatus false)
  else
    let cur := cwd s in
    let noarg := Nat.eqb (length args) 1 in
    let dir0o : option str :=
      if noarg then
        expand_lookup s s_HOME   (* 5a6a746: the environment, then a shell variable; none: error *)
      else Some (concat_strs (tl args)) in
    match dir0o with
    | None => (s, OStatus false)
    | Some dir0 =>
      let r1 : option str :=
        if str_eqb dir0 s_dash then (if is_empty (prev s) then None else Some (prev s))
        else if starts_with c_slash dir0 then Some dir0
        else Some (cur ++ c_slash :: dir0) in
      match r1 with
      | None => (s, OStatus false)
      | Some dir1 =>
          if negb (w_exists w dir1) then (s, OStatus false)
          else match w_canon w dir1 with
               | None => (s, OStatus false)
               | Some d =>
                   if w_chdir w d then
                     (if str_eqb cur d then (mkst (locals s) (envp s) d (prev s), OStatus true)
                      else (mkst (locals s) (aset (envp s) s_PWD d) d cur, OStatus true))
                   else (s, OStatus false)
               end
      end
    end.

(* ------------------------------------------------------------------ unset.rs *)
Definition unset_run (s : st) (toks : list token) : st * outcome :=
  match toks with
  | [_; (_, n)] => let (s', ok) := remove_env s n in (s', OStatus ok)
  | _ => (s, OStatus false)
  end.

(* ------------------------------------------------------------------ execute.rs run_proc + core.rs *)
(** [toks] = the tokens of one simple command after parse_line and do_expansion (no pipe, no
    redirection, not backgrounded); [here] = the text of a here-string if one was given. *)
Definition ahas (m : alist) (k : str) : bool := match aget m k with Some _ => true | None => false end.

(** core.rs: the inherited entries whose name is not a per-command name, then the per-command pairs *)
Definition child_env (inherited envs : alist) : alist :=
  filter (fun p => negb (ahas envs (fst p))) inherited ++ envs.

Definition run_proc (w : world) (s : st) (toks : list token) (here : option str) : st * outcome :=
  let (envs, rest) := drain toks [] in
  match rest with
  | [] => (set_shell_vars s envs, OStatus true)
  | (_, c0) :: _ =>
      if str_eqb c0 s_cd then cd_run w s rest
      else if str_eqb c0 s_export then
        let (s', ok) := export_loop w s rest in (s', OStatus ok)
      else if str_eqb c0 s_read then read_run s envs rest here
      else if str_eqb c0 s_unset then unset_run s rest
      else (s, OChild (map snd rest) (child_env (envp s) envs) (cwd s))
  end.

(** one step of a history: a command, or a probe of what a reference to a name yields *)
Inductive cmd :=
| CRun (toks : list token) (here : option str)
| CProbe (n : str).

Definition step (w : world) (s : st) (c : cmd) : st * outcome :=
  match c with
  | CRun toks here => run_proc w s toks here
  | CProbe n => (s, OVal (expand_lookup s n))
  end.

(** a history; nothing runs after the shell died *)
Fixpoint run_hist (w : world) (s : st) (cs : list cmd) : st * list outcome :=
  match cs with
  | [] => (s, [])
  | c :: r =>
      let (s1, o) := step w s c in
      match o with
      | OPanic => (s1, [OPanic])
      | _ => let (s2, os) := run_hist w s1 r in (s2, o :: os)
      end
  end.
