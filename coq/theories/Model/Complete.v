(** Transcription of the file-name completion path:
    [tools::escape_path] (src/tools.rs, class generated into Gen/EscapeClass.v),
    [tools::wrap_sep_string], [completers::escaped_word_start]
    (src/completers/mod.rs), [completers::path::{is_env_prefix, is_pipelined,
    needs_expand_home, split_pathname, complete_path}] (src/completers/path.rs),
    [completers::utils::expand_env_string], the regex [for_cd], and lineread's
    [complete_word] / [substitute_completion] for the cursor at the end of the
    line (prompter.rs:985-1027, util.rs longest_common_prefix).
    Strings are lists of code points; where the Rust code counts BYTES
    ([escaped_word_start] returns a byte index that lineread uses to slice the
    buffer) the model computes with [utf8_len] and the slice is [split_bytes],
    which is [None] exactly when Rust would panic (index inside a character).
    The directory tree and the environment are oracles ([fs], [getenv]). *)
From Cicada Require Import Base.Chars Base.Tag Base.Regex Gen.EscapeClass Gen.CompleterRegexes Model.Tokenizer Model.Redirect Model.Cmds.
Local Open Scope N_scope.

(** * tools::escape_path: every character of the class gets a backslash *)
Definition escape_char (c : char) : str := if in_escape_class c then [c_bs; c] else [c].
Definition escape_path (s : str) : str := flat_map escape_char s.

(** * tools::wrap_sep_string *)
Definition tag_char (t : tag) : option char :=
  match t with TNone => None | TSq => Some c_sq | TDq => Some c_dq | TBq => Some c_bq | TBs => Some c_bs end.
Definition tag_str (t : tag) : str := match tag_char t with Some c => [c] | None => [] end.
Definition is_tag_char (t : tag) (c : char) : bool :=
  match tag_char t with Some q => c =? q | None => false end.

Fixpoint wrap_loop (sep : tag) (met : bool) (prev : char) (s : str) : str :=
  match s with
  | [] => []
  | c :: r =>
    let upd := tag_eqb sep TNone && ((c =? c_bq) || (c =? c_dq)) in
    let met' := if upd then (if negb met then true else if c =? prev then false else met) else met in
    let prev' := if upd then (if negb met then c else if c =? prev then 78 else prev) else prev in
    (if is_tag_char sep c then [c_bs] else []) ++
    (if (c =? c_space) && tag_eqb sep TNone && negb met' then [c_bs] else []) ++
    c :: wrap_loop sep met' prev' r
  end.
Definition wrap_sep_string (sep : tag) (s : str) : str := tag_str sep ++ wrap_loop sep false 78 s ++ tag_str sep.

(** * escaped_word_start: byte index where the word under the cursor starts *)
Definition utf8_len (c : char) : N :=
  if c <? 128 then 1 else if c <? 2048 then 2 else if c <? 65536 then 3 else 4.
Fixpoint byte_len (s : str) : N := match s with [] => 0 | c :: r => utf8_len c + byte_len r end.

Record ews := mkews { e_start : N; e_bs : bool; e_space : bool; e_wq : bool; e_q : char; e_extra : N }.
Definition ews0 := mkews 0 false false false 0 0.

Definition ews_step (s : ews) (i : N) (c : char) : ews :=
  let start := if e_space s then i + e_extra s else e_start s in
  if c =? c_bs then mkews start true false (e_wq s) (e_q s) (e_extra s)
  else if (c =? c_space) && negb (e_bs s) && negb (e_wq s) then
    mkews start (e_bs s) true (e_wq s) (e_q s) (e_extra s)
  else
    let opening := negb (e_wq s) && negb (e_bs s) && ((c =? c_dq) || (c =? c_sq)) in
    let closing := e_wq s && negb (e_bs s) && (e_q s =? c) in
    let wq := if opening then true else if closing then false else e_wq s in
    let q := if opening then c else e_q s in
    mkews start false false wq q (e_extra s + (utf8_len c - 1)).

Fixpoint ews_loop (s : ews) (i : N) (l : str) : ews :=
  match l with [] => s | c :: r => ews_loop (ews_step s i c) (i + 1) r end.

Definition escaped_word_start (line : str) : N :=
  let s := ews_loop ews0 0 line in
  if e_space s then byte_len line else e_start s.

(** [&buffer[..n]] / [&buffer[n..]]: [None] = slicing inside a character (panic) or past the end *)
Fixpoint split_bytes (n : N) (l : str) : option (str * str) :=
  if n =? 0 then Some ([], l) else
  match l with
  | [] => None
  | c :: r => if utf8_len c <=? n
              then match split_bytes (n - utf8_len c) r with
                   | Some (a, b) => Some (c :: a, b) | None => None end
              else None
  end.

(** * small regex tests of completers/path.rs and completers/mod.rs *)
Definition is_name_start (c : char) : bool := is_alpha c || (c =? c_us).
(* is_env_prefix: spaces, a dollar, a letter or underscore -- anywhere in the word *)
Fixpoint is_env_prefix (s : str) : bool :=
  match s with
  | [] => false
  | c :: r => ((c =? c_dollar) && match r with n :: _ => is_name_start n | [] => false end) || is_env_prefix r
  end.

Definition is_pipelined (p : str) : bool :=
  has_char c_pipe p && negb (starts_with_c c_dq p) && negb (starts_with_c c_sq p).

(* needs_expand_home: the four alternatives  +~ + |  +~/ | ^ *~/ |  +~ *$  *)
Definition all_spaces (s : str) : bool := forallb (fun c => c =? c_space) s.
Fixpoint neh_scan (prev_sp : bool) (only_sp : bool) (s : str) : bool :=
  match s with
  | [] => false
  | c :: r =>
    ((c =? c_tilde) &&
      ((prev_sp && (starts_with_c c_space r || starts_with_c c_slash r || all_spaces r))
       || (only_sp && starts_with_c c_slash r)))
    || neh_scan (c =? c_space) (only_sp && (c =? c_space)) r
  end.
Definition needs_expand_home (s : str) : bool := neh_scan false true s.

(** * Which completer handles the line: the cascade of CicadaCompleter::complete
    (src/completers/mod.rs). The five regex predicates are GENERATED from the source
    (Gen/CompleterRegexes.v, tools/regex2coq.py); for_dots (a yaml file named after the
    command exists in the user's completer directory) is an oracle. *)
Definition for_make (l : str) : bool := rx_search rx_for_make l.
Definition for_env (l : str) : bool := rx_search rx_for_env l.
Definition for_ssh (l : str) : bool := rx_search rx_for_ssh l.
Definition for_cd (l : str) : bool := rx_search rx_for_cd l.
Definition for_bin (l : str) : bool := rx_search rx_for_bin1 l || rx_search rx_for_bin2 l.

Inductive disp := DDots | DSsh | DMake | DBin | DEnv | DCd | DPath.
(* the order of the tests in the source: dots, ssh, make, bin, env, cd (last, so that
   cd $SOME_ENV<TAB> completes the variable), else the path completer *)
Definition dispatch (dots : bool) (line : str) : disp :=
  if dots then DDots else if for_ssh line then DSsh else if for_make line then DMake
  else if for_bin line then DBin else if for_env line then DEnv else if for_cd line then DCd else DPath.

(** * split_pathname (directory part up to and including the last slash, file part);
    a word holding a bar and not starting with a quote is first cut after its last bar *)
Fixpoint after_last (c : char) (s : str) : str :=
  match s with
  | [] => []
  | x :: r => if has_char c r then after_last c r else if x =? c then r else s
  end.
Fixpoint upto_last (c : char) (s : str) : str :=
  match s with
  | [] => []
  | x :: r => if has_char c r then x :: upto_last c r else if x =? c then [x] else []
  end.
Definition split_dir_file (p : str) : str * str :=
  if has_char c_slash p then (upto_last c_slash p, after_last c_slash p) else ([], p).
Definition split_pathname (p : str) : str * str :=
  if is_pipelined p then split_dir_file (after_last c_pipe p) else split_dir_file p.

(** * utils::expand_env_string: a leading dollar-name is replaced by its (non-empty) value *)
Fixpoint take_name (s : str) : str * str :=
  match s with
  | c :: r => if is_alnum_us c then let '(a, b) := take_name r in (c :: a, b) else ([], s)
  | [] => ([], [])
  end.
Inductive envres := EnvText (s : str) | EnvUnmodelled.
Definition expand_env_string (getenv : str -> option str) (s : str) : envres :=
  match s with
  | d :: ((n :: _) as r) =>
      if (d =? c_dollar) && is_name_start n then
        let '(name, rest) := take_name r in
        match getenv name with
        | Some ((_ :: _) as v) => if has_char c_dollar v then EnvUnmodelled else EnvText (v ++ rest)
        | _ => EnvText s
        end
      else EnvText s
  | _ => EnvText s
  end.

(** * complete_path *)
Fixpoint starts_with (s pre : str) : bool :=
  match pre, s with
  | [], _ => true
  | p :: pr, c :: r => (c =? p) && starts_with r pr
  | _ :: _, [] => false
  end.

(* str::replace of two slashes by one, left to right, non-overlapping *)
Fixpoint squeeze_slashes (s : str) : str :=
  match s with
  | a :: t => match t with
              | b :: r => if (a =? c_slash) && (b =? c_slash) then c_slash :: squeeze_slashes r
                          else a :: squeeze_slashes t
              | [] => s
              end
  | [] => []
  end.

Record completion := mkcomp { cp_text : str; cp_display : option str; cp_dir : bool }.

(* String::cmp = lexicographic on bytes = lexicographic on code points for UTF-8 *)
Fixpoint str_leb (a b : str) : bool :=
  match a, b with
  | [], _ => true
  | _ :: _, [] => false
  | x :: a', y :: b' => if x <? y then true else if y <? x then false else str_leb a' b'
  end.
Fixpoint insert_comp (c : completion) (l : list completion) : list completion :=
  match l with
  | [] => [c]
  | x :: r => if str_leb (cp_text c) (cp_text x) then c :: l else x :: insert_comp c r
  end.
(* stable insertion sort (sort_by is stable) *)
Definition sort_comps (l : list completion) : list completion := fold_right insert_comp [] l.

(** what a directory entry is. complete_path asks [entry.path().is_dir()], i.e. Path::is_dir,
    which FOLLOWS symbolic links (stat, not lstat): a link to a directory counts as a directory,
    a link to a file or a dangling link does not. *)
Inductive ekind := EDir | EFile | ELinkDir | ELinkFile | ELinkDangling.
Definition kind_is_dir (k : ekind) : bool :=
  match k with EDir | ELinkDir => true | EFile | ELinkFile | ELinkDangling => false end.
Definition entry := (str * ekind)%type.     (* name, kind *)
Definition entry_is_dir (e : entry) : bool := kind_is_dir (snd e).

Definition last_token (toks : list token) : tag * str :=
  match rev toks with t :: _ => t | [] => (TNone, []) end.

(* the text offered for one directory entry *)
Definition comp_of (dir_orig : str) (path_sep : tag) (is_env : bool) (e : str * bool) : completion :=
  let '(nm, is_dir) := e in
  let name0 := if is_empty dir_orig then nm else dir_orig ++ c_slash :: nm in
  let display := if is_empty dir_orig then None else Some nm in
  let name1 := squeeze_slashes name0 in
  let name2 := if tag_eqb path_sep TNone && negb is_env then escape_path name1 else name1 in
  let quoted := negb (tag_eqb path_sep TNone) in
  let name3 := if quoted then wrap_sep_string path_sep name2 else name2 in
  let name4 := if is_dir && quoted then removelast name3 else name3 in
  mkcomp name4 display is_dir.

Inductive cres := CUnmodelled | COk (l : list completion).

Section Oracles.
  Variable fs : str -> option (list entry).      (* read_dir + is_dir; None = cannot be read *)
  Variable getenv : str -> option str.
  Variable dots : str -> bool.                   (* for_dots: a completion file exists for the line's command *)

  Definition complete_path (word : str) (for_dir : bool) : cres :=
    let is_env := is_env_prefix word in
    let '(path_sep, path) := last_token (parse_line word) in
    let '(dir_orig, _) := split_pathname path in
    if needs_expand_home path then CUnmodelled else
    match expand_env_string getenv path with
    | EnvUnmodelled => CUnmodelled
    | EnvText path_extended =>
      let '(dir_l, file_name) := split_pathname path_extended in
      let dir_lookup := if is_empty dir_l then [c_dot] else dir_l in
      match fs dir_lookup with
      | None => COk []
      | Some entries =>
        (* is_dir = pathbuf.is_dir() : through the link *)
        COk (sort_comps (map (fun e => comp_of dir_orig path_sep is_env (fst e, entry_is_dir e))
              (filter (fun e => (negb for_dir || entry_is_dir e) && starts_with (fst e) file_name) entries)))
      end
    end.

  (** * TAB with the cursor at the end of the line (path / cd completer selected) *)
  Fixpoint common_prefix (a b : str) : str :=
    match a, b with
    | x :: a', y :: b' => if x =? y then x :: common_prefix a' b' else []
    | _, _ => []
    end.
  Definition lcp (l : list str) : str :=
    match l with [] => [] | x :: r => fold_left common_prefix r x end.

  Inductive tabres :=
  | TPanic                      (* word_start inside a character: the slice panics *)
  | TUnmodelled
  | TOther                      (* another completer (dots / ssh / make / bin / env) claims the line: not modelled *)
  | TSame                       (* no candidate: line unchanged *)
  | TOne (line : str) (c : completion)            (* one candidate: substituted, suffix appended *)
  | TMany (line : str) (cs : list completion).    (* several: longest common prefix substituted *)

  Definition tab_line (line : str) : tabres :=
    match split_bytes (escaped_word_start line) line with
    | None => TPanic
    | Some (pre, word) =>
      match (match dispatch (dots line) line with
             | DCd => Some (complete_path word true)       (* CdCompleter, no fall-back *)
             | DPath => Some (complete_path word false)
             | _ => None
             end) with
      | None => TOther
      | Some CUnmodelled => TUnmodelled
      | Some (COk []) => TSame
      | Some (COk [c]) => TOne (pre ++ cp_text c ++ [if cp_dir c then c_slash else c_space]) c
      | Some (COk cs) => TMany (pre ++ lcp (map cp_text cs)) cs
      end
    end.
End Oracles.

(** * What happens to the line after Enter: list splitting, tokenizing, the
    expansion passes (a parameter here), planning. [Some argv] iff the line is
    one foreground command without redirections or assignments. *)
Definition argv_of_plan (p : cmdline + perr) : option (list str) :=
  match p with
  | inl (mkcl [mkc toks [] None] [] false) => Some (map snd toks)
  | _ => None
  end.
Definition run_line (expand : list token -> list token) (line : str) : option (list str) :=
  match line_to_cmds line with
  | [seg] => argv_of_plan (plan_tokens (expand (parse_line seg)))
  | _ => None
  end.

(** * Entry guards of the expansion passes (src/shell.rs:695-1009): a token for
    which this holds is skipped by every pass -- expand_home (untagged, leading
    tilde), expand_env (not single-quoted, a dollar), expand_brace and
    expand_brace_range (untagged, an opening brace), expand_glob (untagged, a
    star), command substitution (backquotes in untagged or double-quoted
    tokens, dollar-parenthesis except in single-quoted / backslash-tagged). *)
Definition lacks (c : char) (s : str) : bool := negb (has_char c s).
Definition literal_token (t : token) : bool :=
  let '(tg, w) := t in
  match tg with
  | TSq => true
  | TDq => lacks c_dollar w && lacks c_bq w
  | TBs => lacks c_dollar w
  | TNone => lacks c_dollar w && lacks c_bq w && lacks c_star w && lacks c_lb w && negb (starts_with_c c_tilde w)
  | TBq => false
  end.
