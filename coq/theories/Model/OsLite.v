(* OsLite: the kernel as far as file descriptors go.
   Open file descriptions are objects; a process is a table fd-number -> (object, close-on-exec);
   pipe / dup / open allocate the LOWEST FREE NUMBER; close of a number that is not held is a
   no-op (EBADF); dup2 replaces and clears close-on-exec; fork copies the table; exec drops the
   close-on-exec entries.  Numbers are modelled because the defects of run_pipeline are stale
   numbers closed after reuse.  Assumed (checked by the syscall-trace layer): Linux behaves so;
   libc::pipe / dup do not set O_CLOEXEC; Rust's OpenOptions / File::open do. *)
From Coq Require Import List Arith Bool.
Import ListNotations.

Inductive pipeid := PStage (i : nat) | PCapOut | PCapErr | PHere (i : nat).
Inductive fmode := MRead | MTrunc | MAppend.
Inductive obj :=
| OInh (i : nat)                      (* whatever the shell had at number i when the line started *)
| OPipeR (p : pipeid) | OPipeW (p : pipeid)
| OFile (path : nat) (m : fmode).
Definition entry := (obj * bool)%type.          (* object, close-on-exec *)
Definition table := list (option entry).        (* position n = descriptor n *)

Fixpoint lookup (t : table) (fd : nat) : option entry :=
  match t, fd with
  | [], _ => None
  | x :: _, 0 => x
  | _ :: r, S n => lookup r n
  end.

Fixpoint set (t : table) (fd : nat) (v : option entry) : table :=
  match t, fd with
  | [], 0 => [v]
  | [], S n => None :: set [] n v
  | _ :: r, 0 => v :: r
  | x :: r, S n => x :: set r n v
  end.

Fixpoint lowest_free (t : table) : nat :=
  match t with
  | [] => 0
  | None :: _ => 0
  | Some _ :: r => S (lowest_free r)
  end.

Definition held (t : table) (fd : nat) : bool :=
  match lookup t fd with Some _ => true | None => false end.
Definition close (t : table) (fd : nat) : table :=
  if held t fd then set t fd None else t.
Definition dup2 (t : table) (src dst : nat) : table :=
  match lookup t src with
  | Some (o, _) => if Nat.eqb src dst then t else set t dst (Some (o, false))
  | None => t                      (* EBADF: nothing happens *)
  end.
Definition alloc (t : table) (e : entry) : table * nat :=
  let fd := lowest_free t in (set t fd (Some e), fd).
Definition drop_cx (e : option entry) : option entry :=
  match e with Some (_, true) => None | x => x end.
Definition exec_drop (t : table) : table := map drop_cx t.

(* ---- processes with a syscall trace (newest event first) ---- *)
Inductive ev :=
| EPipe (r w : nat) | EPipeFail
| EClose (fd : nat) (ok : bool)
| EDup2 (s d : nat) (ok : bool)
| EDup (s : nat) (r : option nat)
| EOpen (path : nat) (m : fmode) (r : option nat)
| EFork (idx : nat)
| EWrite (fd : nat)
| ERead (fd : nat)
| EExec | EExit (code : nat).

Record proc := mkp { tab : table; tr : list ev }.

Definition p_close (fd : nat) (p : proc) : proc :=
  mkp (close (tab p) fd) (EClose fd (held (tab p) fd) :: tr p).
Definition p_dup2 (s d : nat) (p : proc) : proc :=
  mkp (dup2 (tab p) s d) (EDup2 s d (held (tab p) s) :: tr p).
Definition p_dup (s : nat) (p : proc) : proc * option nat :=
  match lookup (tab p) s with
  | Some (o, _) => let '(t, fd) := alloc (tab p) (o, false) in (mkp t (EDup s (Some fd) :: tr p), Some fd)
  | None => (mkp (tab p) (EDup s None :: tr p), None)
  end.
Definition p_pipe (id : pipeid) (p : proc) : proc * (nat * nat) :=
  let '(t1, r) := alloc (tab p) (OPipeR id, false) in
  let '(t2, w) := alloc t1 (OPipeW id, false) in
  (mkp t2 (EPipe r w :: tr p), (r, w)).
Definition p_pipefail (p : proc) : proc := mkp (tab p) (EPipeFail :: tr p).
Definition p_open (path : nat) (m : fmode) (p : proc) : proc * nat :=
  let '(t, fd) := alloc (tab p) (OFile path m, true) in
  (mkp t (EOpen path m (Some fd) :: tr p), fd).
Definition p_openfail (path : nat) (m : fmode) (p : proc) : proc :=
  mkp (tab p) (EOpen path m None :: tr p).
Definition p_ev (e : ev) (p : proc) : proc := mkp (tab p) (e :: tr p).
Definition p_exec (p : proc) : proc := mkp (exec_drop (tab p)) (EExec :: tr p).
