(** Regular expressions for the yes/no uses of the regex crate (is_match /
    re_contains): AST with ranged / negated classes, derivative matcher,
    [matchb_spec] against the denotational [Matches], and syntactic analyses
    proved sound once ([requires_char]).  From the round-0 prototype Rx.v. *)
From Coq Require Import List NArith Bool Lia.
From Cicada Require Import Base.Chars.
Import ListNotations.
Local Open Scope N_scope.

Inductive re :=
| Empty | Eps
| Chr (neg : bool) (rs : list (N * N))
| Cat (a b : re) | Alt (a b : re) | Star (a : re).

Definition in_cs (neg : bool) (rs : list (N * N)) (c : char) : bool :=
  xorb neg (existsb (fun p => (fst p <=? c) && (c <=? snd p)) rs).

Fixpoint nullable (r : re) : bool :=
  match r with
  | Empty => false | Eps => true | Chr _ _ => false
  | Cat a b => nullable a && nullable b
  | Alt a b => nullable a || nullable b
  | Star _ => true
  end.

(* smart constructors keep derivatives small *)
Definition cat (a b : re) : re :=
  match a, b with
  | Empty, _ => Empty | _, Empty => Empty
  | Eps, _ => b | _, Eps => a
  | _, _ => Cat a b
  end.
Definition alt (a b : re) : re :=
  match a, b with
  | Empty, _ => b | _, Empty => a
  | _, _ => Alt a b
  end.

Fixpoint deriv (c : char) (r : re) : re :=
  match r with
  | Empty | Eps => Empty
  | Chr n rs => if in_cs n rs c then Eps else Empty
  | Cat a b => if nullable a then alt (cat (deriv c a) b) (deriv c b) else cat (deriv c a) b
  | Alt a b => alt (deriv c a) (deriv c b)
  | Star a => cat (deriv c a) (Star a)
  end.

Fixpoint matchb (r : re) (s : str) : bool :=
  match s with [] => nullable r | c :: t => matchb (deriv c r) t end.

Inductive Matches : re -> str -> Prop :=
| MEps : Matches Eps []
| MChr n rs c : in_cs n rs c = true -> Matches (Chr n rs) [c]
| MCat a b s1 s2 : Matches a s1 -> Matches b s2 -> Matches (Cat a b) (s1 ++ s2)
| MAltL a b s : Matches a s -> Matches (Alt a b) s
| MAltR a b s : Matches b s -> Matches (Alt a b) s
| MStar0 a : Matches (Star a) []
| MStarS a s1 s2 : Matches a s1 -> Matches (Star a) s2 -> Matches (Star a) (s1 ++ s2).


Lemma cat_inv a b s : Matches (Cat a b) s -> exists s1 s2, s = s1 ++ s2 /\ Matches a s1 /\ Matches b s2.
Proof. intros H; inversion H; subst; eauto. Qed.
Lemma alt_inv a b s : Matches (Alt a b) s -> Matches a s \/ Matches b s.
Proof. intros H; inversion H; subst; auto. Qed.
Lemma empty_inv s : Matches Empty s -> False.
Proof. intros H; inversion H. Qed.
Lemma eps_inv s : Matches Eps s -> s = [].
Proof. intros H; inversion H; reflexivity. Qed.

Lemma nullable_spec r : nullable r = true <-> Matches r [].
Proof.
  induction r as [| |n rs|a IHa b IHb|a IHa b IHb|a IHa]; cbn.
  - split; [discriminate | intros H; inversion H].
  - split; [intros _; constructor | reflexivity].
  - split; [discriminate | intros H; inversion H].
  - rewrite andb_true_iff, IHa, IHb. split.
    + intros [Ha Hb]. change (@nil char) with (@nil char ++ []). constructor; assumption.
    + intros H. apply cat_inv in H as (s1 & s2 & E & H1 & H2). symmetry in E.
      apply app_eq_nil in E as [-> ->]. split; assumption.
  - rewrite orb_true_iff, IHa, IHb. split.
    + intros [H|H]; [apply MAltL | apply MAltR]; assumption.
    + intros H. apply alt_inv in H. exact H.
  - split; [intros _; constructor | reflexivity].
Qed.

Lemma cat_spec a b s : Matches (cat a b) s <-> Matches (Cat a b) s.
Proof.
  split.
  - intros H.
    assert (Hl : forall x, Matches x s -> Matches (Cat Eps x) s)
      by (intros x Hx; rewrite <- (app_nil_l s); constructor; [constructor | exact Hx]).
    assert (Hr : forall x, Matches x s -> Matches (Cat x Eps) s)
      by (intros x Hx; rewrite <- (app_nil_r s); constructor; [exact Hx | constructor]).
    destruct a, b; cbn in H; try exact H; try (exfalso; exact (empty_inv _ H)); auto.
  - intros H. apply cat_inv in H as (s1 & s2 & -> & H1 & H2).
    destruct a, b; cbn;
      try (exfalso; exact (empty_inv _ H1)); try (exfalso; exact (empty_inv _ H2));
      try (apply eps_inv in H1; subst; cbn; exact H2);
      try (apply eps_inv in H2; subst; rewrite app_nil_r; exact H1);
      try (constructor; assumption).
Qed.

Lemma alt_spec a b s : Matches (alt a b) s <-> Matches (Alt a b) s.
Proof.
  split.
  - intros H. destruct a, b; cbn in H; try exact H;
      try (exfalso; exact (empty_inv _ H)); try (apply MAltR; exact H); try (apply MAltL; exact H).
  - intros H. apply alt_inv in H as [H|H]; destruct a, b; cbn;
      try exact H; try (exfalso; exact (empty_inv _ H));
      try (apply MAltL; exact H); try (apply MAltR; exact H).
Qed.

Lemma star_cons a c s :
  Matches (Star a) (c :: s) ->
  exists s1 s2, s = s1 ++ s2 /\ Matches a (c :: s1) /\ Matches (Star a) s2.
Proof.
  intros H. remember (Star a) as r eqn:Er. remember (c :: s) as w eqn:Ew.
  revert c s Er Ew.
  induction H as [|n0 rs0 c0 Hc0|a0 b0 x1 x2 Ha _ Hb _|a0 b0 x Hx _|a0 b0 x Hx _|a0|a' s1 s2 H1 _ H2 IH2]; intros c s Er Ew; try discriminate.
  injection Er as ->.
  destruct s1 as [|c1 s1].
  - cbn in Ew. apply (IH2 c s eq_refl Ew).
  - cbn in Ew. injection Ew as -> <-. exists s1, s2. repeat split; assumption.
Qed.

Lemma deriv_spec r : forall c s, Matches (deriv c r) s <-> Matches r (c :: s).
Proof.
  induction r as [| |n rs|a IHa b IHb|a IHa b IHb|a IHa]; intros c s; cbn.
  - split; intros H; inversion H.
  - split; intros H; inversion H.
  - destruct (in_cs n rs c) eqn:E; split; intros H.
    + apply eps_inv in H; subst. constructor; exact E.
    + inversion H; subst. constructor.
    + inversion H.
    + inversion H; subst. congruence.
  - destruct (nullable a) eqn:Na.
    + rewrite alt_spec. split.
      * intros H. apply alt_inv in H as [H|H].
        -- apply cat_spec in H. apply cat_inv in H as (s1 & s2 & -> & H1 & H2).
           apply IHa in H1. change (c :: s1 ++ s2) with ((c :: s1) ++ s2). constructor; assumption.
        -- apply IHb in H. change (c :: s) with ([] ++ c :: s). constructor; [|exact H].
           apply nullable_spec; exact Na.
      * intros H. apply cat_inv in H as (s1 & s2 & E & H1 & H2).
        destruct s1 as [|c1 s1]; cbn in E.
        -- subst. apply MAltR. apply IHb. exact H2.
        -- injection E as -> ->. apply MAltL. apply cat_spec. constructor; [apply IHa; exact H1 | exact H2].
    + rewrite cat_spec. split.
      * intros H. apply cat_inv in H as (s1 & s2 & -> & H1 & H2).
        apply IHa in H1. change (c :: s1 ++ s2) with ((c :: s1) ++ s2). constructor; assumption.
      * intros H. apply cat_inv in H as (s1 & s2 & E & H1 & H2).
        destruct s1 as [|c1 s1]; cbn in E.
        -- apply nullable_spec in H1. congruence.
        -- injection E as -> ->. constructor; [apply IHa; exact H1 | exact H2].
  - rewrite alt_spec. split.
    + intros H. apply alt_inv in H as [H|H]; [apply MAltL; apply IHa | apply MAltR; apply IHb]; exact H.
    + intros H. apply alt_inv in H as [H|H]; [apply MAltL; apply IHa | apply MAltR; apply IHb]; exact H.
  - rewrite cat_spec. split.
    + intros H. apply cat_inv in H as (s1 & s2 & -> & H1 & H2).
      apply IHa in H1. change (c :: s1 ++ s2) with ((c :: s1) ++ s2). apply MStarS; assumption.
    + intros H. apply star_cons in H as (s1 & s2 & -> & H1 & H2).
      constructor; [apply IHa; exact H1 | exact H2].
Qed.

Theorem matchb_spec r s : matchb r s = true <-> Matches r s.
Proof.
  revert r; induction s as [|c s IH]; intros r; cbn.
  - apply nullable_spec.
  - rewrite IH. apply deriv_spec.
Qed.

(* ---- reflection: a syntactic analysis proved sound once ---- *)
Definition cs_is (n : bool) (rs : list (N * N)) (c : char) : bool :=
  negb n && match rs with [(lo, hi)] => (lo =? c) && (hi =? c) | _ => false end.
Fixpoint requires_char (c : char) (r : re) : bool :=
  match r with
  | Empty => true | Eps => false
  | Chr n rs => cs_is n rs c
  | Cat a b => requires_char c a || requires_char c b
  | Alt a b => requires_char c a && requires_char c b
  | Star _ => false
  end.

Lemma requires_char_sound c r s : requires_char c r = true -> Matches r s -> In c s.
Proof.
  intros Hr Hm. induction Hm as [|n rs c' Hin|a b s1 s2 H1 IH1 H2 IH2|a b s H IH|a b s H IH|a|a s1 s2 H1 IH1 H2 IH2];
    cbn in Hr; try discriminate.
  - unfold cs_is in Hr. destruct n; [discriminate|]. cbn in Hr.
    destruct rs as [|[lo hi] [|? ?]]; try discriminate.
    apply andb_true_iff in Hr as [Hlo Hhi]. apply N.eqb_eq in Hlo, Hhi. subst.
    unfold in_cs in Hin. cbn in Hin.
    destruct (c <=? c') eqn:Ha; [|discriminate]. destruct (c' <=? c) eqn:Hb; [|discriminate].
    apply N.leb_le in Ha, Hb.
    left. lia.
  - apply in_or_app. apply orb_true_iff in Hr as [Hr|Hr]; [left; apply IH1 | right; apply IH2]; exact Hr.
  - apply andb_true_iff in Hr as [Hr _]. apply IH; exact Hr.
  - apply andb_true_iff in Hr as [_ Hr]. apply IH; exact Hr.
Qed.


(* ---- search: what Regex::is_match does. [^] / [$] only at the two ends. ---- *)
Definition any := Chr true [].
Record rx := mkrx { rx_ab : bool; rx_re : re; rx_ae : bool }.
Definition rx_full (p : rx) : re :=
  Cat (if rx_ab p then Eps else Star any) (Cat (rx_re p) (if rx_ae p then Eps else Star any)).
Definition rx_search (p : rx) (s : str) : bool := matchb (rx_full p) s.

Lemma any_star s : Matches (Star any) s.
Proof.
  induction s as [|c s IH]; [constructor|].
  change (c :: s) with ([c] ++ s). apply MStarS; [|exact IH]. constructor. reflexivity.
Qed.

Lemma rx_search_requires c p s : requires_char c (rx_re p) = true -> rx_search p s = true -> In c s.
Proof.
  intros Hr Hs. unfold rx_search in Hs. apply matchb_spec in Hs. unfold rx_full in Hs.
  apply cat_inv in Hs as (s1 & s2 & -> & _ & H2).
  apply cat_inv in H2 as (s3 & s4 & -> & H3 & _).
  apply in_or_app. right. apply in_or_app. left.
  eapply requires_char_sound; eassumption.
Qed.

Lemma rx_search_intro p a b c :
  rx_ab p = false -> rx_ae p = false -> Matches (rx_re p) b -> rx_search p (a ++ b ++ c) = true.
Proof.
  intros Hb He Hm. unfold rx_search. apply matchb_spec. unfold rx_full. rewrite Hb, He.
  constructor; [apply any_star|]. constructor; [exact Hm | apply any_star].
Qed.
