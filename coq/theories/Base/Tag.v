(** The five values a token's separator can take (types.rs: Tokens = Vec<(String, String)>,
    first component): empty, single quote, double quote, backquote, backslash. *)
From Cicada Require Import Base.Chars.
Local Open Scope N_scope.

Inductive tag := TNone | TSq | TDq | TBq | TBs.

Definition tag_eqb (a b : tag) : bool :=
  match a, b with
  | TNone, TNone | TSq, TSq | TDq, TDq | TBq, TBq | TBs, TBs => true
  | _, _ => false
  end.

Lemma tag_eqb_eq a b : tag_eqb a b = true <-> a = b.
Proof. destruct a, b; cbn; split; intro H; try reflexivity; try discriminate. Qed.

Lemma tag_eqb_refl a : tag_eqb a a = true.
Proof. destruct a; reflexivity. Qed.

Lemma tag_eqb_neq a b : tag_eqb a b = false <-> a <> b.
Proof. destruct a, b; cbn; split; intro H; try reflexivity; try discriminate; try congruence. Qed.

(** The separator as the string the Rust code holds. *)
Definition tag_str (t : tag) : str :=
  match t with TNone => [] | TSq => [39] | TDq => [34] | TBq => [96] | TBs => [92] end.

Definition tag_is_empty (t : tag) : bool := tag_eqb t TNone.
