(** The quoting tag of a token: cicada's [sep] field is only ever the empty
    string, a single quote, a double quote, a backquote or a backslash. *)
Inductive tag := TNone | TSq | TDq | TBq | TBs.

Definition tag_eqb (a b : tag) : bool :=
  match a, b with
  | TNone, TNone | TSq, TSq | TDq, TDq | TBq, TBq | TBs, TBs => true
  | _, _ => false
  end.

Lemma tag_eqb_eq a b : tag_eqb a b = true <-> a = b.
Proof. destruct a, b; cbn; split; congruence. Qed.

Lemma tag_eqb_refl a : tag_eqb a a = true.
Proof. now destruct a. Qed.
