(** A pest-faithful PEG: abstract syntax of pest grammars and a fuelled
    interpreter that produces the tree of (rule, start, end, children) pairs
    which pest exposes through into_inner / as_rule / as_str.

    Written from pest_generator-2.8.0/src/generator.rs and
    pest-2.8.0/src/parser_state.rs:
    - ordered choice, greedy repetition without backtracking into a repetition,
      positive / negative predicates (no tokens survive a predicate);
    - a run-time atomicity flag: NonAtomic (tokens, implicit white space),
      CompoundAtomic (tokens, no implicit white space), Atomic (no tokens of
      inner rules, no implicit white space);
    - rule modifiers: normal, silent, atomic, compound-atomic, non-atomic;
    - implicit skip = WHITESPACE* between the elements of a sequence and between
      the iterations of a repetition, only when the flag is NonAtomic; a skip
      followed by a failing element is rolled back with the element;
    - the rule WHITESPACE itself runs under Atomic;
    - EOI is a rule: it emits a pair unless the flag is Atomic; SOI does not.
    Positions count characters (the harness converts pest's byte offsets).
    COMMENT is not supported (the translator refuses a grammar defining it).
    No proofs here. *)
From Cicada Require Import Base.Chars.
From Coq Require Import Arith.
Local Open Scope N_scope.

Inductive modif := MNormal | MSilent | MAtomic | MCompound | MNonAtomic.
Inductive atomicity := AtAtomic | AtCompound | AtNon.

Inductive pexp :=
| PStr (s : str)
| PIns (s : str)
| PRange (lo hi : char)
| PAny
| PSoi
| PEoi
| PRef (r : N)
| PSeq (a b : pexp)
| PAlt (a b : pexp)
| POpt (a : pexp)
| PRep (a : pexp)
| PRep1 (a : pexp)
| PNot (a : pexp)
| PAnd (a : pexp)
(* internal: the implicit skip, and the tail loop of a repetition *)
| PSkip
| PRepTail (a : pexp).

Record grammar := mkGrammar {
  g_rules : list (N * (modif * pexp));
  g_ws : option N;      (* id of the rule WHITESPACE, if defined *)
  g_eoi : N             (* id under which EOI pairs are reported *)
}.

Inductive tree := Node (rule : N) (s e : nat) (kids : list tree).

Inductive pres :=
| PFail
| PFuel
| POk (pos : nat) (rest : str) (kids : list tree).

Fixpoint lookup (r : N) (l : list (N * (modif * pexp))) : option (modif * pexp) :=
  match l with
  | [] => None
  | (k, v) :: l' => if k =? r then Some v else lookup r l'
  end.

Fixpoint strip_prefix (p s : str) : option str :=
  match p, s with
  | [], _ => Some s
  | x :: p', y :: s' => if x =? y then strip_prefix p' s' else None
  | _ :: _, [] => None
  end.

Definition ascii_lower (c : char) : char :=
  if (65 <=? c) && (c <=? 90) then c + 32 else c.

Fixpoint strip_prefix_ci (p s : str) : option str :=
  match p, s with
  | [], _ => Some s
  | x :: p', y :: s' => if ascii_lower x =? ascii_lower y then strip_prefix_ci p' s' else None
  | _ :: _, [] => None
  end.

Definition is_atomic (a : atomicity) : bool := match a with AtAtomic => true | _ => false end.
Definition is_non (a : atomicity) : bool := match a with AtNon => true | _ => false end.
Definition opt_eqb (o : option N) (r : N) : bool := match o with Some w => w =? r | None => false end.

Section Interp.
Variable g : grammar.

Fixpoint ev (fuel : nat) (e : pexp) (at_ : atomicity) (pos : nat) (rest : str) {struct fuel} : pres :=
  match fuel with
  | O => PFuel
  | S f =>
    match e with
    | PStr s =>
        match strip_prefix s rest with
        | Some r' => POk (pos + length s) r' []
        | None => PFail
        end
    | PIns s =>
        match strip_prefix_ci s rest with
        | Some r' => POk (pos + length s) r' []
        | None => PFail
        end
    | PRange lo hi =>
        match rest with
        | c :: r' => if (lo <=? c) && (c <=? hi) then POk (S pos) r' [] else PFail
        | [] => PFail
        end
    | PAny =>
        match rest with
        | _ :: r' => POk (S pos) r' []
        | [] => PFail
        end
    | PSoi => match pos with O => POk pos rest [] | _ => PFail end
    | PEoi =>
        match rest with
        | [] => POk pos rest (if is_atomic at_ then [] else [Node (g_eoi g) pos pos []])
        | _ => PFail
        end
    | PRef r =>
        match lookup r (g_rules g) with
        | None => PFail
        | Some (m, body) =>
            let inner :=
              match m with
              | MAtomic => AtAtomic
              | MCompound => AtCompound
              | MNonAtomic => AtNon
              | _ => if opt_eqb (g_ws g) r then AtAtomic else at_
              end in
            match ev f body inner pos rest with
            | POk p r' kids =>
                match m with
                | MSilent => POk p r' kids
                | MNormal | MAtomic =>
                    POk p r' (if is_atomic at_ then [] else [Node r pos p (if is_atomic inner then [] else kids)])
                | MCompound | MNonAtomic => POk p r' [Node r pos p kids]
                end
            | x => x
            end
        end
    | PSeq a b =>
        match ev f a at_ pos rest with
        | POk p1 r1 k1 =>
            match ev f PSkip at_ p1 r1 with
            | POk p2 r2 k2 =>
                match ev f b at_ p2 r2 with
                | POk p3 r3 k3 => POk p3 r3 (k1 ++ k2 ++ k3)
                | x => x
                end
            | x => x
            end
        | x => x
        end
    | PAlt a b =>
        match ev f a at_ pos rest with
        | PFail => ev f b at_ pos rest
        | x => x
        end
    | POpt a =>
        match ev f a at_ pos rest with
        | PFail => POk pos rest []
        | x => x
        end
    | PRep a =>
        match ev f a at_ pos rest with
        | POk p1 r1 k1 =>
            match ev f (PRepTail a) at_ p1 r1 with
            | POk p2 r2 k2 => POk p2 r2 (k1 ++ k2)
            | x => x
            end
        | PFail => POk pos rest []
        | PFuel => PFuel
        end
    | PRep1 a =>
        match ev f a at_ pos rest with
        | POk p1 r1 k1 =>
            match ev f (PRepTail a) at_ p1 r1 with
            | POk p2 r2 k2 => POk p2 r2 (k1 ++ k2)
            | x => x
            end
        | x => x
        end
    | PNot a =>
        match ev f a at_ pos rest with
        | POk _ _ _ => PFail
        | PFail => POk pos rest []
        | PFuel => PFuel
        end
    | PAnd a =>
        match ev f a at_ pos rest with
        | POk _ _ _ => POk pos rest []
        | x => x
        end
    | PSkip =>
        if is_non at_ then
          match g_ws g with
          | None => POk pos rest []
          | Some w =>
              match ev f (PRef w) at_ pos rest with
              | POk p1 r1 k1 =>
                  if Nat.eqb p1 pos then PFuel (* a zero-width WHITESPACE repeats for ever *)
                  else match ev f PSkip at_ p1 r1 with
                       | POk p2 r2 k2 => POk p2 r2 (k1 ++ k2)
                       | x => x
                       end
              | PFail => POk pos rest []
              | PFuel => PFuel
              end
          end
        else POk pos rest []
    | PRepTail a =>
        (* repeat (sequence (skip ; a)) *)
        match ev f PSkip at_ pos rest with
        | POk p1 r1 k1 =>
            match ev f a at_ p1 r1 with
            | POk p2 r2 k2 =>
                if Nat.eqb p2 pos then PFuel (* a zero-width iteration repeats for ever *)
                else match ev f (PRepTail a) at_ p2 r2 with
                     | POk p3 r3 k3 => POk p3 r3 (k1 ++ k2 ++ k3)
                     | x => x
                     end
            | PFail => POk pos rest []
            | PFuel => PFuel
            end
        | PFail => POk pos rest []
        | PFuel => PFuel
        end
    end
  end.

(** Fuel: the recursion depth is bounded by (iterations so far) + (nesting);
    every iteration and every nesting level consumes input. *)
(** pest itself has no fuel; the constants lie above the generic bound [PegFuel.peg_bound] of both
    regenerated grammars (Proofs/PegFuelInst.v [l_peg_fuel_above_bound], PegFuelCalc.v), so PFuel is never
    the answer of [parse_from] (C14_parse_never_fuel). Round 9: raised from 64 + 24 * length; by
    [ev_mono_le] every non-PFuel answer is unchanged. *)
Definition peg_fuel (input : str) : nat := 128 + 96 * length input.

(** [Parser::parse(rule, input)]: the top rule from position 0, NonAtomic.
    Success does NOT require the input to be consumed. *)
Definition parse_from (start : N) (input : str) : pres :=
  ev (peg_fuel input) (PRef start) AtNon 0 input.

End Interp.

(** as_str of a pair. *)
Definition sub (src : str) (s e : nat) : str := firstn (e - s) (skipn s src).

(** What the consumers of a pest tree read: rule, trimmed text, children. *)
Inductive ttree := TNode (rule : N) (txt : str) (kids : list ttree).

Fixpoint annotate (src : str) (t : tree) : ttree :=
  match t with
  | Node r s e kids => TNode r (trim (sub src s e)) (map (annotate src) kids)
  end.

Definition t_rule (t : ttree) : N := match t with TNode r _ _ => r end.
Definition t_txt (t : ttree) : str := match t with TNode _ x _ => x end.
Definition t_kids (t : ttree) : list ttree := match t with TNode _ _ k => k end.

(** EOI pairs carry no text; every consumer in scripting.rs skips them. *)
Fixpoint strip_eoi (eoi : N) (t : ttree) : ttree :=
  match t with
  | TNode r x kids =>
      TNode r x (filter (fun k => negb (t_rule k =? eoi)) (map (strip_eoi eoi) kids))
  end.

(** A rule body of the shape  e1 ~ ... ~ EOI  : success consumes the input. *)
Fixpoint ends_with_eoi (e : pexp) : bool :=
  match e with
  | PEoi => true
  | PSeq _ b => ends_with_eoi b
  | _ => false
  end.

Definition top_anchored (g : grammar) (start : N) : bool :=
  match lookup start (g_rules g) with
  | Some (_, body) => ends_with_eoi body
  | None => false
  end.
