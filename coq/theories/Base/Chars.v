(** Characters are Unicode scalar values (N); strings are lists of them. *)
From Coq Require Export List NArith Bool.
Export ListNotations.
Local Open Scope N_scope.

Definition char := N.
Definition str := list char.

Definition c_tab := 9.   Definition c_nl := 10.  Definition c_space := 32.
Definition c_bang := 33. Definition c_dq := 34.  Definition c_hash := 35.
Definition c_dollar := 36. Definition c_amp := 38. Definition c_sq := 39.
Definition c_lp := 40.   Definition c_rp := 41.  Definition c_star := 42.
Definition c_plus := 43. Definition c_comma := 44. Definition c_minus := 45.
Definition c_dot := 46.  Definition c_slash := 47. Definition c_semi := 59.
Definition c_lt := 60.   Definition c_eq := 61.  Definition c_gt := 62.
Definition c_quest := 63. Definition c_at := 64. Definition c_bs := 92.
Definition c_caret := 94. Definition c_us := 95. Definition c_bq := 96.
Definition c_lb := 123.  Definition c_pipe := 124. Definition c_rb := 125.
Definition c_tilde := 126.

Fixpoint str_eqb (a b : str) : bool :=
  match a, b with
  | [], [] => true
  | x :: a', y :: b' => (x =? y) && str_eqb a' b'
  | _, _ => false
  end.

Lemma str_eqb_refl a : str_eqb a a = true.
Proof. induction a as [|x a IH]; cbn; [reflexivity|]. rewrite N.eqb_refl. exact IH. Qed.

Lemma str_eqb_eq a b : str_eqb a b = true <-> a = b.
Proof.
  revert b; induction a as [|x a IH]; intros [|y b]; cbn; split; intro H; try congruence.
  - apply andb_true_iff in H as [H1 H2]. apply N.eqb_eq in H1. apply IH in H2. congruence.
  - injection H as -> ->. rewrite N.eqb_refl. now apply IH.
Qed.

Lemma str_eqb_neq a b : str_eqb a b = false <-> a <> b.
Proof.
  split; intro H.
  - intro E. apply str_eqb_eq in E. congruence.
  - destruct (str_eqb a b) eqn:E; [|reflexivity]. apply str_eqb_eq in E. contradiction.
Qed.

(** Rust's [char::is_whitespace] = Unicode White_Space. *)
Definition is_ws (c : char) : bool :=
  ((9 <=? c) && (c <=? 13)) || (c =? 32) || (c =? 133) || (c =? 160) || (c =? 5760)
  || ((8192 <=? c) && (c <=? 8202)) || (c =? 8232) || (c =? 8233) || (c =? 8239)
  || (c =? 8287) || (c =? 12288).

Fixpoint trim_start (s : str) : str :=
  match s with
  | [] => []
  | c :: r => if is_ws c then trim_start r else s
  end.

Definition trim_end (s : str) : str := rev (trim_start (rev s)).
Definition trim (s : str) : str := trim_end (trim_start s).

Definition is_empty {A} (l : list A) : bool := match l with [] => true | _ => false end.

Definition is_digit (c : char) : bool := (48 <=? c) && (c <=? 57).
Definition is_alpha (c : char) : bool :=
  ((65 <=? c) && (c <=? 90)) || ((97 <=? c) && (c <=? 122)).
Definition is_alnum_us (c : char) : bool := is_digit c || is_alpha c || (c =? 95).
