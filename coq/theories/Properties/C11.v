(** C11 -- command substitution splices the command's output in literally, exactly once.
    Statements only; proofs are in Proofs/. *)
From Coq Require Import List NArith ZArith.
From Cicada Require Import Base.Chars Base.Tag Model.Expand Model.ExpandRef
  Proofs.ExpandBasics Proofs.SubstProofs Proofs.SubstWitness Model.SubstVariant Proofs.SubstVariantProofs.
Import ListNotations.
Local Open Scope N_scope.

(** Full statement (false of the faithful model): for a word  head $( cmd ) tail  the result
    is head, the output without its trailing newlines, tail; the runner is consulted once;
    an inner line that does not plan gives the empty replacement within bounded fuel. *)
Definition C11_full : Prop :=
  forall W head cmd tail, word_ok head cmd tail ->
  (forall out, run_capture W cmd = Some out ->
     exists f, dollar_loop f W (head ++ [36; 40] ++ cmd ++ [41] ++ tail) []
               = Ok (Some (head ++ strip_nl out ++ tail), [cmd]))
  /\ (run_capture W cmd = None ->
     exists f, dollar_loop f W (head ++ [36; 40] ++ cmd ++ [41] ++ tail) [] = Ok (Some (head ++ tail), [cmd])).

Theorem C11_refuted : ~ C11_full.
Proof. exact full_refuted. Qed.

(** Repaired (85ca576), now a theorem: an inner line that does not plan gives the empty
    replacement after exactly one consultation of the runner, with fuel 2 -- never a hang. *)
Theorem C11_unplannable : forall W head cmd tail f,
  word_ok head cmd tail -> run_capture W cmd = None ->
  dollar_loop (S (S f)) W (head ++ [36; 40] ++ cmd ++ [41] ++ tail) [] = Ok (Some (head ++ tail), [cmd]).
Proof. exact unplannable_empty. Qed.

(** Termination for EVERY word (any number of substitutions, any nesting, inner lines that plan or
    not): if no output of the runner carries a dollar after trimming, the loop ends within
    (number of dollars in the word) + 1 iterations. *)
Theorem C11_terminates : forall W,
  (forall c o, run_capture W c = Some o -> ~ In 36 (trim o)) ->
  forall line log, exists r, dollar_loop (S (count_occ N.eq_dec line 36)) W line log = Ok r.
Proof. exact dollar_loop_terminates. Qed.

(** The embedded backquote spelling, one substitution: head, trimmed output, tail; one call. *)
Theorem C11_backquote : forall W h c t item output log f,
  ~ In 96 h -> ~ In 96 c -> c <> [] -> ~ In 96 t -> ~ In 10 t ->
  dot_loop (S (S f)) W (h ++ 96 :: c ++ 96 :: t) item output log
  = Ok (item ++ h ++ (match run_capture W c with Some o => trim o | None => output end) ++ t, log ++ [c]).
Proof. exact dot_loop_one. Qed.

(** The two recorded classes of the dollar spelling. *)
(** (1) the output is a replacement template: a$1b becomes a. *)
Theorem C11_refuted_template : forall f, (2 <= f)%nat ->
  dollar_loop f W_tpl [36; 40; 120; 41] [] = Ok (Some [97], [[120]]).
Proof. exact template_witness. Qed.
(** (2) all surrounding white space is trimmed, not only trailing newlines. *)
Theorem C11_refuted_whitespace : forall f, (2 <= f)%nat ->
  dollar_loop f W_ws [112; 36; 40; 120; 41; 113] [] = Ok (Some [112; 118; 113], [[120]])
  /\ strip_nl [32; 118; 32; 10] = [32; 118; 32].
Proof. exact whitespace_witness. Qed.

(** Partial statement: outside those classes (decidable on the runner's answer) the word
    becomes head ++ output-without-trailing-newlines ++ tail after exactly one call of the runner
    (the log is [cmd]), with fuel 2, for every world. *)
Definition Known_C11 (W : World) (cmd : str) : Prop :=
  match run_capture W cmd with
  | None => False
  | Some out => In 36 (trim out) \/ trim out <> strip_nl out
  end.
Theorem C11_partial : forall W head cmd tail out f,
  word_ok head cmd tail -> run_capture W cmd = Some out ->
  ~ In 36 (trim out) -> trim out = strip_nl out ->
  dollar_loop (S (S f)) W (head ++ [36; 40] ++ cmd ++ [41] ++ tail) []
  = Ok (Some (head ++ strip_nl out ++ tail), [cmd]).
Proof. exact splice_partial. Qed.

(** About the PROPOSED repairs notes/C11-fix-2.patch (closure replacer: the output is text) and
    notes/C11-fix-3.patch (inside double quotes only trailing newlines are removed); Model/SubstVariant.v
    transcribes the patched loop.  The output may then contain dollars ($1, ${x}, $name stay as they are);
    the only output still excluded is one that brings a dollar directly followed by an open paren into the
    word, because the loop would run it (class output_rescanned). *)
Theorem C11_variant : forall W tg head cmd tail f,
  ~ In 36 head -> ~ In 10 tail -> ~ In 41 tail -> cmd <> [] -> ~ In 41 cmd -> ~ In 10 cmd ->
  (~ In 61 (head ++ [36; 40] ++ cmd ++ [41] ++ tail) \/ ~ In 39 (head ++ [36; 40] ++ cmd ++ [41] ++ tail)) ->
  has_dollar_paren (head ++ trim_out tg (oracle_out W cmd) ++ tail) = false ->
  dollar_loop_v (S (S f)) W tg (head ++ [36; 40] ++ cmd ++ [41] ++ tail) []
  = Ok (Some (head ++ trim_out tg (oracle_out W cmd) ++ tail), [cmd]).
Proof. exact dollar_loop_v_splices. Qed.
Example C11_variant_examples :
  dollar_loop_v 2 W_tpl_v TNone [36; 40; 120; 41] [] = Ok (Some [97; 36; 49; 98], [[120]]) /\
  dollar_loop_v 2 W_ws_v TDq [112; 36; 40; 120; 41; 113] [] = Ok (Some [112; 32; 118; 32; 113], [[120]]) /\
  dollar_loop_v 2 W_ws_v TNone [112; 36; 40; 120; 41; 113] [] = Ok (Some [112; 118; 113], [[120]]).
Proof. repeat split; [exact variant_template_kept | exact variant_dq_keeps_blanks | exact variant_unquoted_trims]. Qed.

Check C11_refuted : ~ C11_full.
Check C11_partial : forall W head cmd tail out f,
  word_ok head cmd tail -> run_capture W cmd = Some out ->
  ~ In 36 (trim out) -> trim out = strip_nl out ->
  dollar_loop (S (S f)) W (head ++ [36; 40] ++ cmd ++ [41] ++ tail) []
  = Ok (Some (head ++ strip_nl out ++ tail), [cmd]).

(** Non-vacuity: word_ok [] "x" [] holds and, with a runner answering "x" by "l1<nl>l2<nl><nl>",
    the token a$(x)b becomes "al1<nl>l2b" after one call. *)
Example C11_nonvacuous :
  word_ok [] [120] [] /\
  dollar_loop 2 (world_of [] [([120], Some [108; 49; 10; 108; 50; 10; 10])]) [97; 36; 40; 120; 41; 98] []
  = Ok (Some [97; 108; 49; 10; 108; 50; 98], [[120]]).
Proof. split; [exact word_ok_x | vm_compute; reflexivity]. Qed.

Print Assumptions C11_refuted.
Print Assumptions C11_unplannable.
Print Assumptions C11_terminates.
Print Assumptions C11_backquote.
Print Assumptions C11_refuted_template.
Print Assumptions C11_refuted_whitespace.
Print Assumptions C11_partial.
Print Assumptions C11_variant.
