(** C11 -- command substitution splices the command's output in literally, exactly once.
    Statements only; proofs are in Proofs/.  The model follows 85ca576 (an inner line that does not plan
    yields the empty string) and 5e2d7b7 (the output is spliced as text, not as a replacement template). *)
From Coq Require Import List NArith ZArith.
From Cicada Require Import Base.Chars Base.Tag Model.Expand Model.ExpandRef Model.SubstVariant
  Proofs.ExpandBasics Proofs.SubstProofs Proofs.SubstWitness Proofs.SubstVariantProofs Proofs.ExpandInert Proofs.SubstOrder Model.SubstVariant2 Proofs.SubstVariant2Proofs.
From Cicada Require Model.Tokenizer.
Import ListNotations.
Local Open Scope N_scope.

(** Full statement: for a word  head $( cmd ) tail  the result is head, the output without its trailing
    newlines, tail; the runner is consulted once; an inner line that does not plan gives the empty
    replacement within bounded fuel. *)
Definition C11_full : Prop :=
  forall W head cmd tail, word_ok head cmd tail ->
  (forall out, run_capture W cmd = Some out ->
     exists f, dollar_loop f W (head ++ [36; 40] ++ cmd ++ [41] ++ tail) []
               = Ok (Some (head ++ strip_nl out ++ tail), [cmd]))
  /\ (run_capture W cmd = None ->
     exists f, dollar_loop f W (head ++ [36; 40] ++ cmd ++ [41] ++ tail) [] = Ok (Some (head ++ tail), [cmd])).

(** Still false, for one recorded reason: ALL surrounding white space of the output is trimmed, not only
    the trailing newlines (cicada has no word splitting; notes/C11-fix-3.patch proposes the repair for
    double-quoted words). *)
Theorem C11_refuted : ~ C11_full.
Proof. exact full_refuted. Qed.
Theorem C11_refuted_whitespace : forall f, (2 <= f)%nat ->
  dollar_loop f W_ws [112; 36; 40; 120; 41; 113] [] = Ok (Some [112; 118; 113], [[120]])
  /\ strip_nl [32; 118; 32; 10] = [32; 118; 32].
Proof. exact whitespace_witness. Qed.

(** The main theorem (every world, every word of the shape, every output): the word becomes
    head ++ trimmed output ++ tail after exactly one consultation of the runner (log = [cmd]), fuel 2.
    The output is TEXT: dollars, $1, ${x}, $name, backslashes, braces, stars in it stay as they are.  The only
    outputs excluded are those that bring a dollar directly followed by an open paren into the word: the loop
    would run that again (recorded class output_rescanned). *)
Theorem C11_splices : forall W head cmd tail f,
  ~ In 36 head -> ~ In 10 tail -> ~ In 41 tail -> cmd <> [] -> ~ In 41 cmd -> ~ In 10 cmd ->
  (~ In 61 (head ++ [36; 40] ++ cmd ++ [41] ++ tail) \/ ~ In 39 (head ++ [36; 40] ++ cmd ++ [41] ++ tail)) ->
  has_dollar_paren (head ++ trim (oracle_out W cmd) ++ tail) = false ->
  dollar_loop (S (S f)) W (head ++ [36; 40] ++ cmd ++ [41] ++ tail) []
  = Ok (Some (head ++ trim (oracle_out W cmd) ++ tail), [cmd]).
Proof. exact dollar_loop_splices. Qed.

(** The same for the WHOLE word: the text before the substitution may hold dollars (none directly followed by
    an open paren), the text after it may go on over further lines.  The splice is the leftmost-match REPLACE of
    an unanchored pattern whose head group cannot hold a dollar and whose tail group stops at a newline: what lies
    outside the match is kept -- before ++ output ++ tail ++ post, nothing dropped. *)
Theorem C11_splices_whole_word : forall W (before cmd tail post : str) f,
  has_dollar_paren before = false ->
  cmd <> [] -> ~ In 41 cmd -> ~ In 10 cmd -> ~ In 10 tail -> ~ In 41 tail -> (post = [] \/ exists r, post = 10 :: r) ->
  (~ In 61 (before ++ [36; 40] ++ cmd ++ [41] ++ tail ++ post) \/ ~ In 39 (before ++ [36; 40] ++ cmd ++ [41] ++ tail ++ post)) ->
  has_dollar_paren (before ++ trim (oracle_out W cmd) ++ tail ++ post) = false ->
  dollar_loop (S (S f)) W (before ++ [36; 40] ++ cmd ++ [41] ++ tail ++ post) []
  = Ok (Some (before ++ trim (oracle_out W cmd) ++ tail ++ post), [cmd]).
Proof. exact dollar_loop_splices_gen. Qed.
(** non-vacuity:  US$$(x)<nl>rest  with the runner answering 5 *)
Example C11_whole_word_example :
  dollar_loop 2 (world_of [] [([120], Some [53; 10])]) [85; 83; 36; 36; 40; 120; 41; 33; 10; 114] []
  = Ok (Some [85; 83; 36; 53; 33; 10; 114], [[120]]).
Proof. vm_compute. reflexivity. Qed.

(** The token loop of the dollar pass is modelled as written (hand-counted index over ALL tokens, write-back by
    index) and proved equal to the per-token recursion. *)
Theorem C11_index_buffer : forall fuel W toks log,
  subst_dollar fuel W toks log
  = res_map (fun x => (match fst x with Some t => t | None => toks end, snd x)) (dollar_pass fuel W toks log).
Proof. exact subst_dollar_eq. Qed.

(** ... in the property's words (trailing newlines only) whenever trimming and stripping coincide. *)
Definition Known_C11 (W : World) (head cmd tail : str) : Prop :=
  match run_capture W cmd with
  | None => False
  | Some out => has_dollar_paren (head ++ trim out ++ tail) = true \/ trim out <> strip_nl out
  end.
Theorem C11_partial : forall W head cmd tail out f,
  word_ok head cmd tail -> run_capture W cmd = Some out ->
  has_dollar_paren (head ++ trim out ++ tail) = false -> trim out = strip_nl out ->
  dollar_loop (S (S f)) W (head ++ [36; 40] ++ cmd ++ [41] ++ tail) []
  = Ok (Some (head ++ strip_nl out ++ tail), [cmd]).
Proof. exact splice_partial. Qed.

(** An inner line that does not plan gives the empty replacement after one consultation -- never a hang. *)
Theorem C11_unplannable : forall W head cmd tail f,
  word_ok head cmd tail -> run_capture W cmd = None ->
  dollar_loop (S (S f)) W (head ++ [36; 40] ++ cmd ++ [41] ++ tail) [] = Ok (Some (head ++ tail), [cmd]).
Proof. exact unplannable_empty. Qed.

(** Termination for EVERY word: if no output of the runner carries a dollar after trimming, the loop ends
    within (number of dollars in the word) + 1 iterations. *)
Theorem C11_terminates : forall W,
  (forall c o, run_capture W c = Some o -> ~ In 36 (trim o)) ->
  forall line log, exists r, dollar_loop (S (count_occ N.eq_dec line 36)) W line log = Ok r.
Proof. exact dollar_loop_terminates. Qed.

(** The embedded backquote spelling: one and two substitutions; since 8a189aa a command that does not plan
    contributes the empty string (no stale output), each command is consulted once, in order. *)
Theorem C11_backquote : forall W h c t item log f,
  ~ In 96 h -> ~ In 96 c -> c <> [] -> ~ In 96 t -> ~ In 10 t ->
  dot_loop (S (S f)) W (h ++ 96 :: c ++ 96 :: t) item log = Ok (item ++ h ++ trim (oracle_text W c) ++ t, log ++ [c]).
Proof. exact dot_loop_one. Qed.
Theorem C11_backquote_two : forall W h1 c1 h2 c2 t f,
  ~ In 96 h1 -> ~ In 96 c1 -> c1 <> [] -> ~ In 96 h2 -> ~ In 10 h2 -> ~ In 96 c2 -> c2 <> [] -> ~ In 10 c2 -> ~ In 96 t -> ~ In 10 t ->
  dot_loop (S (S (S f))) W (h1 ++ 96 :: c1 ++ 96 :: h2 ++ 96 :: c2 ++ 96 :: t) [] []
  = Ok (h1 ++ trim (oracle_text W c1) ++ h2 ++ trim (oracle_text W c2) ++ t, [c1; c2]).
Proof. exact dot_loop_two. Qed.

(** Pass ORDER of do_expansion (composed with the real tokenizer): filename expansion runs BEFORE command
    substitution, so the output of an unquoted $(c) is inserted literally -- for every world, in particular
    for EVERY glob oracle -- even when it holds a star that would match files. *)
Theorem C11_output_not_globbed : forall W f cmd0 c,
  cmd_ok W cmd0 ->
  c <> [] -> ~ In 36 c -> ~ In 123 c -> ~ In 42 c -> ~ In 96 c -> ~ In 41 c -> ~ In 10 c -> ~ In 126 c ->
  (~ In 61 c \/ ~ In 39 c) ->
  has_dollar_paren (trim (oracle_out W c)) = false -> ~ In 123 (trim (oracle_out W c)) ->
  do_expansion Tokenizer.parse_line W (S (S f)) [(TNone, cmd0); (TNone, [36; 40] ++ c ++ [41])]
  = Ok [(TNone, cmd0); (TNone, trim (oracle_out W c))].
Proof. exact output_not_globbed. Qed.
(** non-vacuity: the runner prints *.txt, the glob oracle would match a.txt b.txt for anything *)
Example C11_output_star_stays : forall f,
  do_expansion Tokenizer.parse_line W_star (S (S f)) [(TNone, [101; 99; 104; 111]); (TNone, [36; 40; 120; 41])]
  = Ok [(TNone, [101; 99; 104; 111]); (TNone, [42; 46; 116; 120; 116])].
Proof. exact output_star_by_theorem. Qed.

(** "cmd runs exactly once", at the level this model has it -- the log of inner lines handed to the runner by
    do_expansion_log: for the assignment word NAME=$(c), alone on the line, the log is [c] and the word becomes
    NAME=output.  What is OUTSIDE Model/Expand.v: the caller.  execute::run_proc's assignment-only branch takes the
    assignments of the planned line (cl.envs) and must not expand the line a second time; that is execute.rs glue,
    tied to the code by the process-level layer L2a only (counter files: exactly one run per substitution written). *)
Theorem C11_assignment_once : forall W f name c,
  is_name name = true -> aliases W (aword name c) = None ->
  c <> [] -> ~ In 36 c -> ~ In 123 c -> ~ In 42 c -> ~ In 96 c -> ~ In 41 c -> ~ In 10 c -> ~ In 126 c -> ~ In 39 c ->
  has_dollar_paren (trim (oracle_out W c)) = false -> ~ In 123 (trim (oracle_out W c)) ->
  do_expansion_log Tokenizer.parse_line W (S (S f)) [(TNone, aword name c)]
  = Ok ([(TNone, name ++ 61 :: trim (oracle_out W c))], [c]).
Proof. exact assignment_substituted_once. Qed.

(** Regression for 5e2d7b7: the output a$1b is kept (it used to become a). *)
Example C11_template_kept : forall f, (2 <= f)%nat ->
  dollar_loop f W_tpl [36; 40; 120; 41] [] = Ok (Some [97; 36; 49; 98], [[120]]).
Proof. exact template_kept. Qed.

(** About the PROPOSED repair notes/C11-fix-3.patch (Model/SubstVariant.v): inside double quotes only the
    trailing newlines go -- then the double-quoted word is exactly what the property asks for. *)
Theorem C11_variant_dq : forall W head cmd tail f,
  ~ In 36 head -> ~ In 10 tail -> ~ In 41 tail -> cmd <> [] -> ~ In 41 cmd -> ~ In 10 cmd ->
  (~ In 61 (head ++ [36; 40] ++ cmd ++ [41] ++ tail) \/ ~ In 39 (head ++ [36; 40] ++ cmd ++ [41] ++ tail)) ->
  has_dollar_paren (head ++ strip_nl (oracle_out W cmd) ++ tail) = false ->
  dollar_loop_v (S (S f)) W TDq (head ++ [36; 40] ++ cmd ++ [41] ++ tail) []
  = Ok (Some (head ++ strip_nl (oracle_out W cmd) ++ tail), [cmd]).
Proof. exact dollar_loop_v_dq. Qed.

(** About the PROPOSED repair notes/C11-fix-5.patch (Model/SubstVariant2.v; NOT applied: the scan is not quote-aware).
fix-5 (balanced-parenthesis scan): two substitutions in one word are two runs, spliced in place. *)
Theorem C11_two_substitutions : forall W (pre a mid b post : str) f,
  ~ In 36 pre -> ~ In 36 mid -> a <> [] -> b <> [] -> ~ In 40 a -> ~ In 41 a -> ~ In 40 b -> ~ In 41 b ->
  ~ In 36 (trim (out_of W a)) ->
  ((~ In 61 (pre ++ 36 :: 40 :: a ++ 41 :: mid ++ 36 :: 40 :: b ++ 41 :: post) /\ ~ In 61 (trim (out_of W a))) \/
   (~ In 39 (pre ++ 36 :: 40 :: a ++ 41 :: mid ++ 36 :: 40 :: b ++ 41 :: post) /\ ~ In 39 (trim (out_of W a)))) ->
  has_dollar_paren (pre ++ trim (out_of W a) ++ mid ++ trim (out_of W b) ++ post) = false ->
  dollar_loop_b (S (S (S f))) W (pre ++ 36 :: 40 :: a ++ 41 :: mid ++ 36 :: 40 :: b ++ 41 :: post) []
  = Ok (Some (pre ++ trim (out_of W a) ++ mid ++ trim (out_of W b) ++ post), [a; b]).
Proof. exact two_substitutions. Qed.

Check C11_refuted : ~ C11_full.
Check C11_splices : forall W head cmd tail f,
  ~ In 36 head -> ~ In 10 tail -> ~ In 41 tail -> cmd <> [] -> ~ In 41 cmd -> ~ In 10 cmd ->
  (~ In 61 (head ++ [36; 40] ++ cmd ++ [41] ++ tail) \/ ~ In 39 (head ++ [36; 40] ++ cmd ++ [41] ++ tail)) ->
  has_dollar_paren (head ++ trim (oracle_out W cmd) ++ tail) = false ->
  dollar_loop (S (S f)) W (head ++ [36; 40] ++ cmd ++ [41] ++ tail) []
  = Ok (Some (head ++ trim (oracle_out W cmd) ++ tail), [cmd]).

(** Non-vacuity: word_ok [] "x" [] holds and, with a runner answering "x" by "l1<nl>$1<nl><nl>",
    the token a$(x)b becomes "al1<nl>$1b" after one call. *)
Example C11_nonvacuous :
  word_ok [] [120] [] /\
  dollar_loop 2 (world_of [] [([120], Some [108; 49; 10; 36; 49; 10; 10])]) [97; 36; 40; 120; 41; 98] []
  = Ok (Some [97; 108; 49; 10; 36; 49; 98], [[120]]).
Proof. split; [exact word_ok_x | vm_compute; reflexivity]. Qed.

Print Assumptions C11_refuted.
Print Assumptions C11_refuted_whitespace.
Print Assumptions C11_splices.
Print Assumptions C11_splices_whole_word.
Print Assumptions C11_index_buffer.
Print Assumptions C11_partial.
Print Assumptions C11_unplannable.
Print Assumptions C11_terminates.
Print Assumptions C11_backquote.
Print Assumptions C11_backquote_two.
Print Assumptions C11_output_not_globbed.
Print Assumptions C11_assignment_once.
Print Assumptions C11_variant_dq.
Print Assumptions C11_two_substitutions.
