(** C19 -- arithmetic lines evaluate with standard precedence and never crash the shell.
    Statements only; proofs are in Proofs/Calc*.v. *)
From Coq Require Import ZArith String.
From Cicada Require Import Base.Chars Gen.CalcTables Model.Calc
  Proofs.CalcClassify Proofs.CalcPratt Proofs.CalcFusion Proofs.CalcInt Proofs.CalcWf
  Proofs.CalcPrint Proofs.CalcLine Proofs.CalcFuel Proofs.CalcText.
From Cicada Require Base.Peg Gen.CalcGrammar Model.CalcPeg Proofs.CalcPegSim.
From Cicada Require Import Model.CalcFloat Proofs.CalcFloatProofs.
Local Open Scope string_scope.

(** The source sites the hand-written matchers / tokenizer / table were written
    against, as the translator found them in the current tree. *)
Theorem gen_is_expected :
  re1_src = "[0-9]+" /\
  re2_src = "\+|\-|\*|/|\^" /\
  re3_src = "^[ 0-9\.\(\)\+\-\*/\^]+[\.0-9 \)]$" /\
  is_arith_shape = "if !re_contains(line, R) { return false; } if !re_contains(line, R) { return false; } re_contains(line, R)" /\
  pratt_ops = [[("add", true); ("subtract", true)]; [("multiply", true); ("divide", true)]; [("power", false)]] /\
  grammar_src = "num = @{ int ~ (""."" ~ ASCII_DIGIT*)? ~ (^""e"" ~ int)? } int = { (""+"" | ""-"")? ~ ASCII_DIGIT+ } operation = _{ add | subtract | multiply | divide | power } add = { ""+"" } subtract = { ""-"" } multiply = { ""*"" } divide = { ""/"" } power = { ""^"" } expr = { term ~ (operation ~ term)* } term = _{ num | ""("" ~ expr ~ "")"" } calculation = _{ SOI ~ expr ~ EOI } WHITESPACE = _{ "" "" | ""\t"" }".
Proof. repeat split; reflexivity. Qed.
Local Close Scope string_scope.
Local Open Scope Z_scope.

(** The binding powers pest computes from the chain (PREC_STEP = 10, first level 20). *)
Theorem table_expected :
  List.map prec_of [Add; Sub; Mul; Div; Pow] = [20; 20; 30; 30; 40]%N /\
  List.map is_left [Add; Sub; Mul; Div; Pow] = [true; true; true; true; false].
Proof. split; reflexivity. Qed.

(** (3) Classification: a line is arithmetic iff it consists of blanks, digits, dots,
    parentheses and the five operators only, has a digit, has an operator, and ends
    in a dot, a digit, a blank or a closing parenthesis. *)
Theorem C19_classify : forall l : str,
  is_arithmetic l = true <->
  (Forall (fun c => in_set_a c = true) l /\ Exists (fun c => is_digit c = true) l /\
   Exists (fun c => is_op_char c = true) l /\ exists c, last_opt l = Some c /\ in_set_b c = true).
Proof. exact is_arithmetic_iff. Qed.

Theorem C19_classify_bool : forall l : str, is_arithmetic l = arith_desc l.
Proof. exact is_arithmetic_desc. Qed.

(** (1) Precedence and associativity, for every expression tree, any leaf type,
    with arbitrary redundant parentheses: the Pratt parser of pest with cicada's
    table gives the tree back from its rendering; [render] parenthesises exactly
    where the standard reading requires (power tightest and right-associative,
    then times and divide, then plus and minus, left-associative). *)
Theorem C19_pratt_std : forall (L : Type) (q : ptree L) (fuel : nat),
  (2 * tot (render q) + 1 <= fuel)%nat -> pratt_tree fuel (render q) = Ok (strip q).
Proof. exact @pratt_tree_render. Qed.

(** the same for any table with positive binding powers: parentheses where the
    binding powers require them *)
Theorem C19_pratt : forall (L : Type) (prec : op -> N) (left : op -> bool),
  (forall o, (0 < prec o)%N) ->
  forall (q : ptree L) (fuel : nat),
  (2 * tot (flat prec left q) + 1 <= fuel)%nat ->
  pratt prec left (fun l => Ok (Leaf l)) (fun a o b => Ok (Node o a b)) fuel (flat prec left q) = Ok (strip q).
Proof. exact pratt_roundtrip. Qed.

(** (2) Integer mode. [wrapping_pow] (square and multiply with wrapping_mul, u64
    exponent) is the exact power wrapped to i64, for every exponent below 2^64. *)
Theorem C19_pow : forall base exp : Z,
  0 <= exp < 2 ^ 64 -> wrapping_pow base exp = Ok (wrap64 (base ^ exp)).
Proof. exact wrapping_pow_ok. Qed.

(** Evaluating inside the parser is folding the tree (post-order, leftmost diagnostic wins) ... *)
Theorem C19_eval_is_fold : forall (fuel : nat) (ps : list (pair str)) (t : tree str),
  pratt_tree fuel ps = Ok t -> eval_int fuel ps = eval_tree t.
Proof.
  exact (fun fuel ps t H => pratt_fold str ires prec_of is_left int_prim int_infix fuel ps t H).
Qed.

(** ... and the result is the reference value of the tree, for every tree: wrap-around
    + - *, division truncating toward zero, exact powers wrapped; a diagnostic for an
    out-of-range literal or a negative exponent. The same in both build profiles: the
    model has no overflow-check parameter any more. *)
Theorem C19_int : forall (fuel : nat) (ps : list (pair str)) (t : tree str),
  pratt_tree fuel ps = Ok t -> eval_int fuel ps = Ok (ref_eval t).
Proof. exact eval_int_ref. Qed.

(** (4) Crash freedom, full: on every line the model of run_calculator reaches no panic
    site (the structural panics of the Pratt parser, unreachable!()) and exhausts no
    fuel once the PEG model has accepted the line. The machine stack is not modelled. *)
Definition C19_nocrash_full : Prop :=
  forall line : str,
    match run_calculator line with
    | RInt r => exists v, r = Ok v
    | RFloat r => exists t, r = Ok t
    | RSyntax => True
    | RFuel => parse_calc line = PFuel
    end.

Theorem C19_nocrash : C19_nocrash_full.
Proof.
  intros line. destruct (run_calculator_cases line) as [E|[[E F]|[[t E]|[t E]]]]; rewrite E; eauto.
Qed.

(** the integer result of a line is the reference value of the line's tree *)
Theorem C19_line : forall (line : str) (r : res ires),
  run_calculator line = RInt r -> exists t, line_tree line = Some t /\ r = Ok (ref_eval t).
Proof. exact run_calculator_int. Qed.

(** (5) From text to tree. For every expression tree (arbitrary redundant parentheses)
    whose leaves are literals the num rule reads back whole, and every blank string sp
    (blanks and tabs, possibly empty) used at every token boundary, inside parentheses
    and around the line: the PEG model parses the text to the pair list of the standard
    rendering, the Pratt parser turns that into the tree, integer mode evaluates to the
    reference value of the tree. Integer literals (optional sign, digits) are such leaves. *)
Theorem C19_string_tree : forall (sp : str) (q : ptree str),
  forallb is_blankc sp = true -> leaves_ok q -> line_tree (render_str sp q) = Some (strip q).
Proof. exact line_tree_render. Qed.

Theorem C19_string_int : forall (sp : str) (q : ptree str),
  forallb is_blankc sp = true -> leaves_ok q -> has_dot (render_str sp q) = false ->
  run_calculator (render_str sp q) = RInt (Ok (ref_eval (strip q))).
Proof. exact run_calculator_render. Qed.

Theorem C19_string_float : forall (sp : str) (q : ptree str),
  forallb is_blankc sp = true -> leaves_ok q -> has_dot (render_str sp q) = true ->
  run_calculator (render_str sp q) = RFloat (Ok (strip q)).
Proof. exact run_calculator_render_float. Qed.

Theorem C19_int_literals : forall sg ds : str, int_lit sg ds -> leaf_ok (sg ++ ds).
Proof. exact int_lit_ok. Qed.

(** the PEG model inverts printing of any well-formed pair list *)
Theorem C19_parse_print : forall (sp : str) (ps : list (pair str)),
  forallb is_blankc sp = true -> wf_seq leaf_ok ps -> parse_calc (sp ++ str_seq sp ps ++ sp) = POk ps.
Proof. exact (fun sp ps H W => parse_print sp H ps W). Qed.

Check C19_classify : forall l : str,
  is_arithmetic l = true <->
  (Forall (fun c => in_set_a c = true) l /\ Exists (fun c => is_digit c = true) l /\
   Exists (fun c => is_op_char c = true) l /\ exists c, last_opt l = Some c /\ in_set_b c = true).
Check C19_pratt_std : forall (L : Type) (q : ptree L) (fuel : nat),
  (2 * tot (render q) + 1 <= fuel)%nat -> pratt_tree fuel (render q) = Ok (strip q).
Check C19_int : forall (fuel : nat) (ps : list (pair str)) (t : tree str),
  pratt_tree fuel ps = Ok t -> eval_int fuel ps = Ok (ref_eval t).
Check C19_nocrash : C19_nocrash_full.
Check C19_string_int : forall (sp : str) (q : ptree str),
  forallb is_blankc sp = true -> leaves_ok q -> has_dot (render_str sp q) = false ->
  run_calculator (render_str sp q) = RInt (Ok (ref_eval (strip q))).

(** (6) Round 9. The parse fuel suffices on EVERY input: [p_expr] (the PEG model of
    expr = term, then operation-term pairs repeated) never answers out-of-fuel when given fuel of at least
    2 * length + 3; hence [parse_calc], whose fuel is 4 * length + 8, never does, and
    [run_calculator] never returns RFuel. Any two fuels above the bound give the same result. *)
Theorem C19_fuel_suffices : forall (s : str) (fuel : nat),
  (2 * length s + 3 <= fuel)%nat -> p_expr fuel s <> PFuel.
Proof. exact p_expr_fuel_suffices. Qed.

Theorem C19_fuel_irrelevant : forall (s : str) (f1 f2 : nat),
  (2 * length s + 3 <= f1)%nat -> (2 * length s + 3 <= f2)%nat -> p_expr f1 s = p_expr f2 s.
Proof. exact p_expr_any_fuel. Qed.

Theorem C19_parse_calc_nofuel : forall line : str, parse_calc line <> PFuel.
Proof. exact parse_calc_nofuel. Qed.

(** crash freedom without the fuel proviso of C19_nocrash_full *)
Definition C19_nocrash_total_stmt : Prop :=
  forall line : str,
    match run_calculator line with
    | RInt r => exists v, r = Ok v
    | RFloat r => exists t, r = Ok t
    | RSyntax => True
    | RFuel => False
    end.
Theorem C19_nocrash_total : C19_nocrash_total_stmt.
Proof.
  intros line. pose proof (C19_nocrash line) as H. pose proof (run_calculator_nofuel line) as N.
  destruct (run_calculator line); try exact H. apply N. reflexivity.
Qed.

(** (7) Round 9. Text to tree, unbounded, for canonical renderings of trees of NUMBERS.
    [text sp t]: leaves printed in decimal ([dec], no sign, no leading zeros), operators
    + - * / ^, parentheses exactly where the standard reading requires them (none redundant),
    the blank string sp (any blanks / tabs, e.g. empty or one blank) at every token boundary,
    inside parentheses and around the line. The PEG model accepts the whole text and the Pratt
    climber returns exactly the tree (leaves = the decimal strings); the decimal strings are
    read back by parse::<i64> as the numbers. *)
Theorem C19_render_parse : forall (sp : str) (t : tree N),
  forallb is_blankc sp = true ->
  exists ps, parse_calc (text sp t) = POk ps /\ pratt_tree (2 * tot ps + 1) ps = Ok (dtree t).
Proof. exact render_parse. Qed.

(** the same with the parse fuel explicit: any fuel of at least 2 * (length of the text) + 3 *)
Theorem C19_render_parse_fuel : forall (sp : str) (t : tree N) (fuel : nat),
  forallb is_blankc sp = true -> (2 * length (text sp t) + 3 <= fuel)%nat ->
  exists ps rest, p_expr fuel (skip_ws (text sp t)) = POk (ps, rest) /\ skip_ws rest = [] /\
                  pratt_tree (2 * tot ps + 1) ps = Ok (dtree t).
Proof. exact render_parse_fuel. Qed.

Theorem C19_render_line : forall (sp : str) (t : tree N),
  forallb is_blankc sp = true -> line_tree (text sp t) = Some (dtree t).
Proof. exact line_tree_text. Qed.

(** ... and integer mode evaluates that text to the reference value of the tree (the text has no dot) *)
Theorem C19_render_value : forall (sp : str) (t : tree N),
  forallb is_blankc sp = true -> run_calculator (text sp t) = RInt (Ok (ref_eval (dtree t))).
Proof. exact run_calculator_text. Qed.

Theorem C19_dec_literal : forall n : N,
  dec n <> [] /\ forallb is_digit (dec n) = true /\ digits_val 0 (dec n) = Some (Z.of_N n) /\
  (Z.of_N n <= i64_max -> parse_i64 (dec n) = Some (Z.of_N n)).
Proof.
  intros n. split; [apply dec_nonempty|]. split; [apply dec_digits|]. split; [apply dec_val|apply parse_i64_dec].
Qed.

Check C19_fuel_suffices : forall (s : str) (fuel : nat),
  (2 * length s + 3 <= fuel)%nat -> p_expr fuel s <> PFuel.
Check C19_parse_calc_nofuel : forall line : str, parse_calc line <> PFuel.
Check C19_nocrash_total : C19_nocrash_total_stmt.
Check C19_render_parse : forall (sp : str) (t : tree N),
  forallb is_blankc sp = true ->
  exists ps, parse_calc (text sp t) = POk ps /\ pratt_tree (2 * tot ps + 1) ps = Ok (dtree t).
Check C19_render_parse_fuel : forall (sp : str) (t : tree N) (fuel : nat),
  forallb is_blankc sp = true -> (2 * length (text sp t) + 3 <= fuel)%nat ->
  exists ps rest, p_expr fuel (skip_ws (text sp t)) = POk (ps, rest) /\ skip_ws rest = [] /\
                  pratt_tree (2 * tot ps + 1) ps = Ok (dtree t).

(** Non-vacuity: mixed precedence, right-associative power, nested parentheses, a multi-digit
    literal and 0; the text with no blanks and with single blanks; what the model does on it. *)
Definition ex_n : tree N :=
  Node Sub (Leaf 1%N)
    (Node Mul (Node Sub (Leaf 20%N) (Node Pow (Node Add (Leaf 3%N) (Leaf 0%N)) (Leaf 2%N)))
              (Node Pow (Leaf 4%N) (Node Pow (Node Pow (Leaf 5%N) (Leaf 6%N)) (Leaf 7%N)))).
Example C19_nonvacuous_render_parse :
  text [] ex_n = s2l "1-(20-(3+0)^2)*4^(5^6)^7" /\
  text [32%N] ex_n = s2l " 1 - ( 20 - ( 3 + 0 ) ^ 2 ) * 4 ^ ( 5 ^ 6 ) ^ 7 " /\
  line_tree (text [32%N] ex_n) = Some (dtree ex_n) /\
  line_tree (s2l "1-(20-(3+0)^2)*4^(5^6)^7") = Some (dtree ex_n) /\
  dec 9223372036854775807 = s2l "9223372036854775807" /\ dec 0 = s2l "0" /\
  run_calculator (text [32%N] (Node Sub (Leaf 1%N) (Node Mul (Node Sub (Leaf 20%N)
     (Node Pow (Node Add (Leaf 3%N) (Leaf 0%N)) (Leaf 2%N))) (Node Pow (Leaf 2%N) (Node Pow (Leaf 3%N) (Leaf 2%N))))))
    = RInt (Ok (IVal (-5631))).
Proof. vm_compute. repeat split. Qed.

(** the bound is not idle: the same texts run out of fuel with less, and parse with exactly 2n+3 *)
Example C19_nonvacuous_fuel :
  p_expr 8 (s2l "((((1))))") = PFuel /\
  p_expr (2 * 9 + 3) (s2l "((((1))))") = POk ([PExpr [PExpr [PExpr [PExpr [PNum (s2l "1")]]]]], []) /\
  p_expr 5 (s2l "1+2+3+4+5+6") = PFuel /\
  (exists ps, p_expr (2 * 11 + 3) (s2l "1+2+3+4+5+6") = POk (ps, [])) /\
  p_expr (2 * 6 + 3) (s2l "((((((") = PFail /\
  parse_calc (s2l "1^(2^(3^(4^(5^(6^(7^(8^(9)))))))) x") = PFail.
Proof. vm_compute. repeat split. eexists. reflexivity. Qed.

(** (8) Round 9b. The hand-written PEG model IS the generated grammar: the generic pest
    interpreter (Base/Peg.v [ev]) run on Gen/CalcGrammar.v (generated from
    src/calculator/grammar.pest on every run) and converted to pair lists ([peg_pairs], fuel
    64 + 24 * length) gives, on EVERY line (any characters), exactly what [parse_calc] gives:
    the same pair list, or failure. An edit of the grammar changes [k_grammar] and breaks the
    unfolding lemmas of Proofs/CalcPegSim.v. *)
Theorem C19_peg_is_hand_parser : forall line : str,
  CalcPeg.peg_pairs line = CalcPegSim.of_hand (parse_calc line).
Proof. exact CalcPegSim.peg_is_hand. Qed.

(** the generic interpreter never runs out of fuel on the calculator grammar above 8 * length + 50 *)
Theorem C19_peg_fuel_suffices : forall (line : str) (f : nat),
  (8 * length line + 50 <= f)%nat ->
  Peg.ev CalcGrammar.k_grammar f (Peg.PRef 11) Peg.AtNon 0 line <> Peg.PFuel.
Proof. exact CalcPegSim.peg_is_hand_fuel. Qed.

Theorem C19_peg_nofuel : forall line : str, CalcPeg.peg_pairs line <> CalcPeg.GFuel.
Proof. exact CalcPegSim.peg_nofuel. Qed.

(** the string -> tree theorem through the generated grammar *)
Theorem C19_peg_render_parse : forall (sp : str) (t : tree N),
  forallb is_blankc sp = true ->
  exists ps, CalcPeg.peg_pairs (text sp t) = CalcPeg.GOk ps /\ pratt_tree (2 * tot ps + 1) ps = Ok (dtree t).
Proof.
  intros sp t Hsp. destruct (C19_render_parse sp t Hsp) as (ps & Hp & Ht).
  exists ps. split; [|exact Ht]. rewrite C19_peg_is_hand_parser, Hp. reflexivity.
Qed.

Check C19_peg_is_hand_parser : forall line : str,
  CalcPeg.peg_pairs line = CalcPegSim.of_hand (parse_calc line).
Check C19_peg_render_parse : forall (sp : str) (t : tree N),
  forallb is_blankc sp = true ->
  exists ps, CalcPeg.peg_pairs (text sp t) = CalcPeg.GOk ps /\ pratt_tree (2 * tot ps + 1) ps = Ok (dtree t).

Example C19_nonvacuous_peg :
  CalcPeg.peg_pairs (s2l " 1 - ( 20 - ( 3 + 0 ) ^ 2 ) * 4 ^ ( 5 ^ 6 ) ^ 7 ") = CalcPegSim.of_hand (parse_calc (text [32%N] ex_n)) /\
  (exists ps, parse_calc (text [32%N] ex_n) = POk ps) /\
  CalcPeg.peg_pairs (s2l "1 +") = CalcPeg.GFail /\
  CalcPegSim.of_hand (POk [PNum (s2l "1")]) = CalcPeg.GOk [PNum (s2l "1")].
Proof. vm_compute. repeat split. eexists. reflexivity. Qed.

(** (9) Round 9b. Float mode. For ANY f64 oracle [ops] (add, sub, mul, div, powf, literal
    parse; a record of functions, nothing assumed about them): when the model of
    run_calculator is in float mode with Pratt tree t, the float evaluator of
    calculator::eval_float (closures evaluated inside the Pratt parser, [run_calculator_f])
    returns exactly the post-order fold of the oracle over t. So the precedence /
    associativity / text theorems about t carry over to float mode. *)
Theorem C19_float_structure : forall (F : Type) (ops : fops F) (line : str) (t : tree str),
  run_calculator line = RFloat (Ok t) ->
  run_calculator_f ops line = FFloat (Ok (fold_float ops t)).
Proof. exact float_structure. Qed.

Theorem C19_float_structure_all : forall (F : Type) (ops : fops F) (line : str),
  match run_calculator line with
  | RSyntax => run_calculator_f ops line = FSyntax
  | RFuel => run_calculator_f ops line = FFuel
  | RInt r => run_calculator_f ops line = FInt r
  | RFloat r => exists t, r = Ok t /\ run_calculator_f ops line = FFloat (Ok (fold_float ops t))
  end.
Proof. exact float_structure_all. Qed.

(** every num token of the grammar has the syntax str::parse::<f64> accepts (the unwrap cannot fail) *)
Theorem C19_float_literals : forall s t r, p_num s = Some (t, r) -> f64_syntax t = true.
Proof. exact num_f64_syntax. Qed.

(** Regression examples: the inputs of the four classes repaired by c1ba25a. *)
Definition w_lit := s2l "99999999999999999999 + 1".
Definition w_pow := s2l "2 ^ 64".
Definition w_neg := s2l "2 ^ -1".
Definition w_trunc := s2l "2 ^ 4294967296".
Example C19_regression :
  try_run_calculator w_lit = Some (RInt (Ok (IDiag DRange))) /\
  try_run_calculator w_pow = Some (RInt (Ok (IVal 0))) /\
  try_run_calculator w_neg = Some (RInt (Ok (IDiag DNegExp))) /\
  try_run_calculator w_trunc = Some (RInt (Ok (IVal 0))) /\
  try_run_calculator (s2l "3 ^ 40") = Some (RInt (Ok (IVal (-6289078614652622815)))) /\
  try_run_calculator (s2l "(5/0) ^ 2") = Some (RInt (Ok (IVal 1))).
Proof. vm_compute. repeat split. Qed.

Theorem C19_trunc_reference : wrap64 (2 ^ 4294967296) = 0.
Proof. exact trunc_witness. Qed.

(** Non-vacuity. *)
Example C19_nonvacuous_classify :
  is_arithmetic (s2l "(1 + 2) * 3") = true /\ is_arithmetic (s2l "ls -l") = false /\
  is_arithmetic (s2l "1 +") = false /\ is_arithmetic (s2l "1.5+2 ") = true.
Proof. vm_compute. repeat split. Qed.

Definition ex_q : ptree nat :=
  QNode Sub (QPar (QLeaf 1%nat))
    (QNode Mul (QNode Sub (QLeaf 2%nat) (QLeaf 3%nat))
               (QNode Pow (QLeaf 4%nat) (QNode Pow (QNode Pow (QLeaf 5%nat) (QLeaf 6%nat)) (QLeaf 7%nat)))).
Example C19_nonvacuous_pratt :
  render ex_q =
    [PExpr [PNum 1%nat]; POp Sub; PExpr [PNum 2%nat; POp Sub; PNum 3%nat]; POp Mul; PNum 4%nat; POp Pow;
     PExpr [PNum 5%nat; POp Pow; PNum 6%nat]; POp Pow; PNum 7%nat] /\
  pratt_tree (2 * tot (render ex_q) + 1) (render ex_q) = Ok (strip ex_q).
Proof. vm_compute. split; reflexivity. Qed.

Example C19_nonvacuous_int :
  run_calculator (s2l " 1 - (2 - 3)*4 ^ 2^3 / -7") = RInt (Ok (IVal (-9361))) /\
  run_calculator (s2l "9223372036854775807 + 1") = RInt (Ok (IVal (-9223372036854775808))) /\
  run_calculator (s2l "-9223372036854775808 / -1") = RInt (Ok (IVal (-9223372036854775808))) /\
  run_calculator (s2l "-7 / 2") = RInt (Ok (IVal (-3))) /\
  run_calculator (s2l "5 / 0") = RInt (Ok (IVal 9223372036854775807)) /\
  run_calculator (s2l "3 ^ 39") = RInt (Ok (IVal 4052555153018976267)) /\
  run_calculator (s2l "1 +") = RSyntax.
Proof. vm_compute. repeat split. Qed.

(** the tree (1) - (2 - -3) * 4 ^ (5 ^ 6) ^ 7 with sp = one blank: its text, and the hypotheses of C19_string_* *)
Definition ex_s : ptree str :=
  QNode Sub (QPar (QLeaf (s2l "1")))
    (QNode Mul (QNode Sub (QLeaf (s2l "2")) (QLeaf (s2l "-3")))
               (QNode Pow (QLeaf (s2l "4")) (QNode Pow (QNode Pow (QLeaf (s2l "5")) (QLeaf (s2l "6"))) (QLeaf (s2l "+7"))))).
Example C19_nonvacuous_string :
  render_str [32%N] ex_s = s2l " ( 1 ) - ( 2 - -3 ) * 4 ^ ( 5 ^ 6 ) ^ +7 " /\
  render_str [] ex_s = s2l "(1)-(2--3)*4^(5^6)^+7" /\
  forallb is_blankc [32%N] = true /\ has_dot (render_str [32%N] ex_s) = false /\ leaves_ok ex_s.
Proof.
  split; [vm_compute; reflexivity|]. split; [vm_compute; reflexivity|].
  split; [reflexivity|]. split; [vm_compute; reflexivity|].
  cbv -[leaf_ok].
  repeat split;
    first [ solve [apply (int_lit_ok [] _); split; [auto|split; [discriminate|reflexivity]]]
          | solve [apply (int_lit_ok [45%N] _); split; [auto|split; [discriminate|reflexivity]]]
          | solve [apply (int_lit_ok [43%N] _); split; [auto|split; [discriminate|reflexivity]]] ].
Qed.

Print Assumptions gen_is_expected.
Print Assumptions C19_classify.
Print Assumptions C19_pratt_std.
Print Assumptions C19_pratt.
Print Assumptions C19_pow.
Print Assumptions C19_int.
Print Assumptions C19_eval_is_fold.
Print Assumptions C19_nocrash.
(** Round 9: the three matchers of the model's [is_arithmetic] ARE the three regexes of tools::is_arithmetic, composed
    as the source composes them: each equals, on every text, the search of the AST regenerated from tools.rs on every
    run (Gen/ToolsRegexes.v via drive/regexsites.py) -- a changed literal breaks these proofs (before, the literals
    were pinned as text only). *)
From Cicada Require Import Base.Regex Gen.ToolsRegexes Proofs.ArithRegexProofs.
Theorem C19_is_arithmetic_is_source_regex : forall l : str,
  is_arithmetic l =
  if negb (rx_search rx_arith_digit l) then false
  else if negb (rx_search rx_arith_op l) then false
  else rx_search rx_arith_shape l.
Proof. exact is_arithmetic_is_source_regex. Qed.
Theorem C19_arith_matchers_are_source_regexes : forall l : str,
  re1_search l = rx_search rx_arith_digit l /\ re2_search l = rx_search rx_arith_op l /\
  re3_match l = rx_search rx_arith_shape l.
Proof. intros l. repeat split; [apply re1_is_source_regex | apply re2_is_source_regex | apply re3_is_source_regex]. Qed.
Check C19_is_arithmetic_is_source_regex : forall l : str,
  is_arithmetic l =
  if negb (rx_search rx_arith_digit l) then false
  else if negb (rx_search rx_arith_op l) then false
  else rx_search rx_arith_shape l.
Check C19_arith_matchers_are_source_regexes : forall l : str,
  re1_search l = rx_search rx_arith_digit l /\ re2_search l = rx_search rx_arith_op l /\
  re3_match l = rx_search rx_arith_shape l.
Example C19_source_regex_nonvacuous :
  rx_search rx_arith_shape (s2l "(1 + 2) * 3") = true /\ rx_search rx_arith_shape (s2l "1 +") = false /\
  rx_search rx_arith_op (s2l "a^b") = true /\ rx_search rx_arith_digit (s2l "ab") = false.
Proof. vm_compute. repeat split. Qed.

Print Assumptions C19_line.
Print Assumptions C19_string_tree.
Print Assumptions C19_string_int.
Print Assumptions C19_string_float.
Print Assumptions C19_int_literals.
Print Assumptions C19_parse_print.
Print Assumptions C19_fuel_suffices.
Print Assumptions C19_fuel_irrelevant.
Print Assumptions C19_parse_calc_nofuel.
Print Assumptions C19_nocrash_total.
Print Assumptions C19_render_parse.
Print Assumptions C19_render_parse_fuel.
Print Assumptions C19_render_line.
Print Assumptions C19_dec_literal.
Print Assumptions C19_render_value.
Print Assumptions C19_is_arithmetic_is_source_regex.
Print Assumptions C19_arith_matchers_are_source_regexes.
Print Assumptions C19_peg_is_hand_parser.
Print Assumptions C19_peg_fuel_suffices.
Print Assumptions C19_peg_nofuel.
Print Assumptions C19_peg_render_parse.
Print Assumptions C19_float_structure.
Print Assumptions C19_float_structure_all.
Print Assumptions C19_float_literals.

(** ---- Round 9 (pegfuel): the generic termination theorem of Proofs/PegFuel.v on the regenerated
    calculator grammar: the static well-formedness check holds (computed on every run), hence no rule,
    from any position under any atomicity, runs out of fuel above the generic linear bound
    peg_bound k_grammar n = g_A * n + g_K * g_W + g_W. (Numerically weaker than C19_peg_fuel_suffices,
    which is specific to rule 11 from position 0; generic in the grammar.) *)
From Cicada Require Proofs.PegFuel Proofs.PegFuelCalc.
Theorem C19_grammar_wf : PegFuel.wf_grammar CalcGrammar.k_grammar = true.
Proof. exact PegFuelCalc.k_grammar_wf. Qed.
Check C19_grammar_wf : PegFuel.wf_grammar CalcGrammar.k_grammar = true.
Theorem C19_peg_fuel_adequate : forall start a pos (s : str) (fuel : nat),
  (PegFuel.peg_bound CalcGrammar.k_grammar (List.length s) <= fuel)%nat ->
  Peg.ev CalcGrammar.k_grammar fuel (Peg.PRef start) a pos s <> Peg.PFuel.
Proof. exact PegFuelCalc.k_peg_fuel_adequate. Qed.
Check C19_peg_fuel_adequate : forall start a pos (s : str) (fuel : nat),
  (PegFuel.peg_bound CalcGrammar.k_grammar (List.length s) <= fuel)%nat ->
  Peg.ev CalcGrammar.k_grammar fuel (Peg.PRef start) a pos s <> Peg.PFuel.
Print Assumptions C19_grammar_wf.
Print Assumptions C19_peg_fuel_adequate.
